"""C12 — layout of the SSI Hankel/Toeplitz matrix (ssi.build_hank)."""
import itertools

import numpy as np

from common import R, Rmat, fl, flmat, max_rel_err


LEAN_MODULES = ["PyomaVerif.Props.C12", "PyomaVerif.Props.C12Dat", "PyomaVerif.Props.C12Build", "PyomaVerif.Props.WiringRun", "PyomaVerif.Props.WiringStore", "PyomaVerif.Props.WiringClass", "PyomaVerif.Props.WiringCalls"]
THEOREMS = [
    # call-site wiring of the class layer, regenerated from /repo on every run (translate_wiring.py)
    "PV.WiringRun.C12_run_build_hank",
    "PV.WiringStore.C12_run_result_store",
    "PV.WiringClass.C12_run_inherited",
    "PV.WiringCalls.C12_ssidat_run_calls",
    "PV.C12.C12_shape_mm",
    "PV.C12.C12_shape_R",
    "PV.C12.C12_shape_dat",
    "PV.C12.C12_mm_entry",
    "PV.C12.C12_mm_lag",
    "PV.C12.C12_R_entry",
    "PV.C12.C12_mm_add_left",
    "PV.C12.C12_mm_add_right",
    "PV.C12.C12_mm_smul",
    "PV.C12.C12_R_add_left",
    "PV.C12.C12_R_add_right",
    "PV.C12.C12_R_smul",
    "PV.C12.C12_dat_gram",
    "PV.C12.C12_dat_model",
    "PV.C12.hankDatOfR_entry",
    "PV.C12.hankYs_rows",
    # data-driven clause over the model functions (hankYs / hankYp / hankYf / hankDat) for a recorded QR factor of any
    # height: layout for every record length, Gram identity (generalised inverse, full-rank past data), short records,
    # and the kernel-checked instance showing the full-rank hypothesis cannot be dropped
    "PV.C12.C12_shape_dat_rec",
    "PV.C12.C12_shape_dat_numpy",
    "PV.C12.hankDat_eq_hankDatOfR",
    "PV.C12.C12_dat_gram_span_model",
    "PV.C12.C12_dat_gram_model",
    "PV.C12.C12_dat_gram_short",
    "PV.C12.C12_dat_rank_needed",
    "PV.C12.exA_qr",
    "PV.C12.exB_qr",
    # build_hank as ONE model function (Model/BuildHank.buildHank: N as a Python int, dispatch on the method string, the
    # weights 1/N and 1/(Ndat-k) computed IN the model, every exception): op build_hank, streams build_hank[dispatch|short|whole]
    "PV.C12.C12_dispatch_attrUnc",
    "PV.C12.C12_dispatch_attrMethod",
    "PV.C12.C12_dispatch",
    "PV.C12.buildHank_err_cases",
    "PV.C12.C17_unc_only_cov_mm",
    "PV.C12.C12_R_zeroDiv_iff",
    "PV.C12.C12_R_entry_N",
    "PV.C12.hankStacks_long",
    "PV.C12.C12_mm_entry_N",
    "PV.C12.C12_mm_returns",
    "PV.C12.C12_short_zeroDiv",
    "PV.C12.C17_build_factor",
]
RULE = (
    "correspondence: random (channels 1..5, reference subset, br 1..5, length <= 60) records with float or small-integer "
    "samples sent to the Lean model as exact rationals, compared with ssi.build_hank at 1e-12 (cov_mm, cov_R) / Gram "
    "identity at 1e-9 (dat); oracle: unit-impulse pairs (lag/weight/sign structure), bilinearity, independent numpy "
    "construction. distinct = distinct (method, l, r, br, Ndat) shapes. build_hank[dat-recorded]: np.linalg.qr wrapped, its "
    "argument compared EXACTLY with the model's stacked matrix hankYs (times the float 1/N**0.5), its recorded output R "
    "handed to the model's hankDat and compared EXACTLY (shape and entries) with the returned matrix, for every record "
    "length (fewer samples than past rows, between past and all rows, more), duplicated / constant reference channels. "
    "build_hank[dispatch|short|whole]: the WHOLE function against the model function buildHank (driver scalars a+b*sqrt(N), so "
    "1/N**0.5 sits inside each stacked factor as in the code): method strings valid and malformed x calc_unc in {False, True, 1}; "
    "every record length 0..2br+3 (N negative: complex zeros / ValueError / UFuncTypeError; N = 0: ZeroDivisionError; N = 1, 2); "
    "random records with nb = 0, 1, 2.., > N: same exception CLASS (the two AttributeErrors told apart), same matrix at 1e-12, same "
    "real/complex dtype class, same second component (None / no finite entry / T at 1e-11), same np.linalg.qr argument (8 ulp)"
)
EXTRA_TRUSTED = [
    "np.linalg.qr contract (orthonormal Q, triangular R) for the 'dat' method = PV.C12.QrRec; on every recorded output the "
    "harness checks the part that can be seen without Q: shape min(N-1, (r+l)(br+1)) x (r+l)(br+1), zeros below the "
    "diagonal, R^T R = Ys Ys^T (ctx.contract qr_r); float N**0.5"
]
ASSUMPTIONS = ["numpy slicing/vstack/dot semantics are mirrored by Mat.colSlice/vstackN/mulT (validated by the correspondence)"]


def _bh():
    from pyoma2.functions import ssi

    return ssi.build_hank


def gen_case(ctx, maxl=5, maxp=5, maxN=60):
    rng = ctx.rng
    l = rng.randint(1, maxl)
    r = rng.randint(1, l)
    ref = sorted(rng.sample(range(l), r))
    if rng.random() < 0.3:
        rng.shuffle(ref)
    p = rng.randint(1, maxp)
    Ndat = rng.randint(2 * p + 4, max(2 * p + 5, maxN))
    g = ctx.nprng()
    if rng.random() < 0.4:
        Y = g.integers(-4, 5, size=(l, Ndat)).astype(float)
    else:
        Y = g.standard_normal((l, Ndat))
    # the map is bilinear: records of very small or very large amplitude are part of the domain
    Y = Y * rng.choice([1.0, 1.0, 1.0, 1e-6, 1e6])
    Yref = Y[ref, :]
    if rng.random() < 0.2:  # reference data independent of Y (bilinear map, not quadratic form)
        Yref = g.standard_normal((r, Ndat)) * rng.choice([1.0, 1e-6, 1e3])
    elif rng.random() < 0.2:
        # raw ADC counts stored in a narrow integer type (16-bit, or 24-bit in int32): products of two samples do
        # not fit the record's own type
        # (signed, or unsigned as a converter delivers them: unsigned sums wrap silently too)
        dt, top = rng.choice([(np.int16, 30000), (np.int32, 8_000_000), (np.int64, 8_000_000),
                              (np.uint8, 255), (np.uint16, 65535), (np.uint32, 8_000_000)])
        lo = 0 if np.dtype(dt).kind == "u" else -top
        Y = g.integers(lo, top + 1, size=(l, Ndat)).astype(dt)
        Yref = Y[ref, :]
        ctx.count(f"record_dtype_{np.dtype(dt).name}")
    return Y, Yref, p, ref


# --- default values as regenerated obligations (Generated/Defaults.lean <- harness/translate_defaults.py; stream defaults[...])
import defaults_stream  # noqa: E402
from common import all_pre_build as pre_build  # noqa: E402,F401,F811  (runs EVERY translate_*.py)
LEAN_MODULES += ["PyomaVerif.Props.WiringDefaultsC12"]
THEOREMS += ["PV.WiringDefaults.C12_runparams_defaults"]


def correspondence(ctx):
    defaults_stream.correspondence(ctx, props=('C12',))
    bh = _bh()
    n = ctx.n(40, 1200)
    for k in range(n):
        Y, Yref, p, ref = gen_case(ctx)
        l, Nd = Y.shape
        r = Yref.shape[0]
        inp = {"Y": Rmat(Y.astype(float)), "Yref": Rmat(Yref.astype(float)), "p": p}
        for method, op in (("cov_mm", "hank_mm"), ("cov_R", "hank_R")):
            H, _ = bh(Y, Yref, p, method)
            M = flmat(ctx.model(op, **inp))
            err = max_rel_err(H, M)
            ctx.corr(
                f"build_hank[{method}]", err <= 1e-12, inp | {"method": method}, M, H.tolist(), (method, l, r, p, Nd)
            )
            ctx.count(f"corr_{method}")
        # data-driven: Gram identity through the model's exact Gram matrix of the stacked data (C12_dat_gram_model: any
        # record with at least as many columns as past rows; shorter ones: _corr_dat_recorded)
        if Nd - 2 * p - 2 >= r * (p + 1):
            H, _ = bh(Y, Yref, p, "dat")
            G = np.array(flmat(ctx.model("hank_ys_gram", **inp)))
            a = r * (p + 1)
            PP, FP = G[:a, :a], G[a:, :a]
            if Nd - 2 * p - 2 < (r + l) * (p + 1) + 1:
                ctx.count("corr_dat_fewer_columns_than_rows")
            if np.linalg.cond(PP) < 1e6:
                proj = FP @ np.linalg.solve(PP, FP.T)
                ok = H.shape == ((p + 1) * l, (p + 1) * r) and max_rel_err(H @ H.T, proj) <= 1e-8
                ctx.corr("build_hank[dat]", ok, inp | {"method": "dat"}, proj.tolist(), (H @ H.T).tolist(), ("dat", l, r, p, Nd))
                ctx.count("corr_dat")
            else:
                ctx.skipped += 1
        if k == 0:
            ctx.sample({"l": l, "r": r, "ref": ref, "p": p, "Ndat": Nd, "Y_row0_head": Y[0, :5].tolist()})
    _corr_dat_recorded(ctx, bh)
    corr_build_hank(ctx, bh)


# ----------------------------------------------------------------------------- build_hank as ONE function (Model/BuildHank)
_FLAGS = {"off": False, "on": True, "truthy": 1}
_BAD_METHODS = ["cov", "COV_MM", "cov_mm ", "", "YfYp", "cov_r", "data", "cov_R,dat"]


def _exc_kind(e):
    """class of a raised exception as the model names it (exact type, the two AttributeErrors told apart by their text)"""
    if type(e) is AttributeError:
        m = str(e)
        if m.startswith("Uncertainty calculations are only available"):
            return "AttributeError:unc"
        if "is not a valid argument" in m:
            return "AttributeError:method"
        return "AttributeError:?"
    if type(e) is ZeroDivisionError:
        return "ZeroDivisionError"
    if type(e) is ValueError:
        return "ValueError"
    if isinstance(e, TypeError) and type(e).__name__ == "UFuncTypeError":
        return "TypeError"
    return type(e).__name__


def _qs(m, N):
    """matrix of a + b*sqrt(N) (driver scalars QS N) as a float / complex array"""
    import cmath

    a = np.array(flmat(m["a"]), dtype=float).reshape(m["r"], m["c"])
    b = np.array(flmat(m["b"]), dtype=float).reshape(m["r"], m["c"])
    if N >= 0:
        return a + b * float(N) ** 0.5
    return a + b * cmath.sqrt(N)


def _close(A, B, tol):
    A, B = np.asarray(A), np.asarray(B)
    if A.shape != B.shape:
        return False
    if A.size == 0:
        return True
    return bool(max_rel_err(A, B) <= tol) or (not np.any(A) and not np.any(B))


def build_hank_case(ctx, bh, fn, Y, Yref, p, method, flag, nb, key):
    """one comparison of the WHOLE function: real build_hank (np.linalg.qr wrapped) against the model function buildHank:
    same exception class, or same Hankel matrix (shape, dtype class real/complex, entries), same second component (None /
    no finite entry / the factor T), and for the data-driven method the same matrix handed to np.linalg.qr."""
    import warnings

    real_qr = np.linalg.qr
    rec = []

    def spy(x, *args, **kw):
        out = real_qr(x, *args, **kw)
        rec.append((np.array(x), out))
        return out

    np.linalg.qr = spy
    try:
        with warnings.catch_warnings():
            warnings.simplefilter("ignore")
            try:
                H, T = bh(Y, Yref, p, method, _FLAGS[flag], nb)
                impl = {"status": "ok"}
            except Exception as e:  # noqa: BLE001
                impl = {"status": "error", "exc": _exc_kind(e)}
    finally:
        np.linalg.qr = real_qr
    inp = {"Y": Rmat(np.asarray(Y, float)), "Yref": Rmat(np.asarray(Yref, float)), "p": p, "method": method, "calc_unc": flag, "nb": nb,
           "R": Rmat(np.real(rec[0][1])) if len(rec) == 1 else None, "Rc": int(rec[0][1].shape[1]) if len(rec) == 1 else None}
    m = ctx.model("build_hank", **inp)
    if impl["status"] == "error" or m["status"] == "error":
        ok = impl == {k: m.get(k) for k in impl}
        ctx.corr(fn, ok, inp, m, impl, key)
        ctx.count(f"bh_{fn}_{impl.get('exc', 'ok')}")
        return
    N = m["N"]
    Hm = _qs(m["hank"], N)
    ok = N == Y.shape[1] - 2 * p - 1 and bool(np.iscomplexobj(H)) == m["cplx"] and _close(H, Hm, 1e-12)
    if isinstance(m["T"], str):
        impl_T = "none" if T is None else ("nonfinite" if not np.isfinite(T).any() else "finite")
        ok = ok and impl_T == m["T"]
    else:
        ok = ok and T is not None and bool(np.isfinite(T).all()) and _close(T, _qs(m["T"], N) / np.sqrt(nb * (nb - 1)), 1e-11)
        impl_T = "factor"
    if method == "dat":
        # the argument of np.linalg.qr (Ys.T): one call, same matrix (the model carries 1/N**0.5 = sqrt(N)/N exactly)
        ok = ok and len(rec) == 1 and m["qrarg"] is not None and _close(rec[0][0], _qs(m["qrarg"], N), 1e-15 * 8)
    else:
        ok = ok and len(rec) == 0
    ctx.corr(fn, bool(ok), inp, {"hank": np.asarray(Hm).tolist() if not m["cplx"] else str(Hm.shape), "T": m["T"] if isinstance(m["T"], str) else "factor"},
             {"hank": H.tolist() if not np.iscomplexobj(H) else str(H.shape), "T": impl_T}, key)
    ctx.count(f"bh_{fn}_ok_T_{impl_T}" + ("_complex" if m["cplx"] else ""))


def corr_build_hank(ctx, bh, n_dispatch=None, n_short=None, n_whole=None):
    """build_hank[dispatch]: every method string (the three valid ones and malformed ones) x calc_unc in {False, True, 1};
    build_hank[short]: every record length 0 .. 2br+3 (N = Ndat-2br-1 negative, zero, one, two) x method x calc_unc;
    build_hank[whole]: random records, all three methods, calc_unc with nb = 0, 1, 2.. (also nb > N)."""
    rng = ctx.rng

    def data(l, r, Nd):
        g = ctx.nprng()
        if rng.random() < 0.5:
            Y = g.integers(-6, 7, size=(l, Nd)).astype(float)
        else:
            Y = g.standard_normal((l, Nd))
        ref = rng.sample(range(l), r)
        return Y, (Y[ref, :] if rng.random() < 0.8 else g.standard_normal((r, Nd)))

    methods = ["cov_mm", "cov_R", "dat"]
    for k in range(ctx.n(24, 300) if n_dispatch is None else n_dispatch):
        l = rng.randint(1, 3)
        r = rng.randint(1, l)
        p = rng.randint(1, 3)
        Nd = rng.randint(2 * p + 3, 2 * p + 14)
        Y, Yref = data(l, r, Nd)
        method = (methods + [rng.choice(_BAD_METHODS)])[k % 4]
        flag = ["off", "on", "truthy"][(k // 4) % 3]
        build_hank_case(ctx, bh, "build_hank[dispatch]", Y, Yref, p, method, flag, rng.choice([2, 3, 100]), (method in methods and method, flag))
    for k in range(ctx.n(48, 600) if n_short is None else n_short):
        l = rng.randint(1, 3)
        r = rng.randint(1, l)
        p = rng.randint(1, 4)
        Nd = (k // 3) % (2 * p + 4)
        Y, Yref = data(l, r, Nd)
        method = methods[k % 3]
        flag = "on" if (method == "cov_mm" and rng.random() < 0.4) else "off"
        build_hank_case(ctx, bh, "build_hank[short]", Y, Yref, p, method, flag, rng.choice([0, 1, 2, 3]), (method, flag, p, Nd))
    for k in range(ctx.n(24, 400) if n_whole is None else n_whole):
        l = rng.randint(1, 4)
        r = rng.randint(1, l)
        p = rng.randint(1, 4)
        Nd = rng.randint(2 * p + 2, 2 * p + 40)
        method = methods[k % 3]
        flag = "on" if method == "cov_mm" and k % 2 == 0 else ("truthy" if method == "cov_mm" and k % 12 == 3 else "off")
        nb = rng.choice([0, 1, 2, 2, 3, 3, 4, 5, 7, 100])
        if flag == "on" and rng.random() < 0.7:  # mostly records with at least one sample per block: the factor itself
            nb = rng.randint(2, 6)
            Nd = 2 * p + 1 + nb * rng.randint(1, 6) + rng.randint(0, nb - 1)
        Y, Yref = data(l, r, Nd)
        build_hank_case(ctx, bh, "build_hank[whole]", Y, Yref, p, method, flag, nb, (method, flag, l, r, p, Nd, nb if flag == "on" else None))


def _corr_dat_recorded(ctx, bh):
    """data-driven method with np.linalg.qr wrapped: (i) the matrix handed to it is the transpose of the model's stacked
    matrix hankYs, (ii) the returned matrix is the model's hankDat of the RECORDED factor (shape and entries, exactly:
    the sign convention of the factor is whatever was recorded), (iii) the recorded factor satisfies the visible part of
    the contract QrRec, (iv) for records with no more columns than past rows the Gram matrix is that of the future
    outputs (C12_dat_gram_short).  Every regime of the record length n = N-1 against a = r(br+1), a+b = (r+l)(br+1)."""
    rng = ctx.rng
    real_qr = np.linalg.qr
    for k in range(ctx.n(40, 600)):
        g = ctx.nprng()
        l = rng.randint(1, 4)
        p = rng.randint(1, 4)
        kind = rng.choice(["subset", "subset", "independent", "duplicate", "constant"])
        r = rng.randint(1, l)
        a, b = r * (p + 1), l * (p + 1)
        regime = ["short", "n=a", "between", "n=a+b", "long"][k % 5]
        n = {
            "short": rng.randint(1, max(1, a - 1)),
            "n=a": a,
            "between": rng.randint(a + 1, a + b - 1),
            "n=a+b": a + b,
            "long": a + b + rng.randint(1, 12),
        }[regime]
        Nd = n + 2 * p + 2
        if rng.random() < 0.3:
            Y = g.integers(-9, 10, size=(l, Nd)).astype(rng.choice([float, np.int32, np.int64]))
        else:
            Y = g.standard_normal((l, Nd)) * rng.choice([1.0, 1.0, 1e-6, 1e6])
        ref = rng.sample(range(l), r)
        Yref = Y[ref, :]
        if kind == "independent":
            Yref = g.standard_normal((r, Nd)) * rng.choice([1.0, 1e-3, 1e3])
        elif kind == "duplicate" and r >= 2:  # rank-deficient past data: a reference channel listed twice
            ref[1] = ref[0]
            Yref = Y[ref, :]
        elif kind == "constant":  # ... or a reference channel that does not move
            Yref = np.array(Yref, dtype=float)
            Yref[0, :] = rng.choice([1.0, 0.0, -2.5])
        rec = []

        def spy(x, *args, **kw):
            out = real_qr(x, *args, **kw)
            rec.append((np.array(x), args, dict(kw), out))
            return out

        np.linalg.qr = spy
        try:
            H, _ = bh(Y, Yref, p, "dat")
        finally:
            np.linalg.qr = real_qr
        key = (regime, l, r, p, n)
        base = {"Y": Rmat(np.asarray(Y, float)), "Yref": Rmat(np.asarray(Yref, float)), "p": p}
        one_call = len(rec) == 1 and rec[0][1] == () and rec[0][2] == {"mode": "r"} and isinstance(rec[0][3], np.ndarray)
        ctx.corr("build_hank[dat-recorded]:qr-call", one_call, base, "one call np.linalg.qr(Ys.T, mode='r')",
                 [(list(x.shape), list(map(str, ar)), kw) for (x, ar, kw, _) in rec], key)
        if not one_call:
            continue
        X, _, _, Rf = rec[0]
        # (i) argument = transpose of the model's stacked matrix, scaled by the same float factor
        N = Nd - 2 * p - 1
        ys = ctx.model("hank_ys", **base)
        Ysm = (1 / N**0.5) * np.array(flmat(ys["m"]), dtype=float).reshape(ys["r"], ys["c"])
        ctx.corr("build_hank[dat-recorded]:Ys", (ys["r"], ys["c"]) == (a + b, n) and X.shape == (n, a + b) and np.array_equal(X.T, Ysm),
                 base, Ysm.tolist(), X.T.tolist(), key)
        # (iii) visible part of the contract of the recorded factor
        kk = min(n, a + b)
        shape_ok = Rf.shape == (kk, a + b)
        ctx.corr("build_hank[dat-recorded]:R-shape", shape_ok, base, [kk, a + b], list(Rf.shape), key)
        if not shape_ok:
            continue
        G = X.T @ X
        gs = max(float(np.abs(np.diag(G)).max()), 1e-300)
        dn = np.sqrt(np.maximum(np.diag(G), 0.0))
        dn = np.where(dn > 0, dn, 1.0)
        # column-wise backward stability of Householder QR: residual of R^T R - Ys Ys^T relative to the two row norms
        ctx.contract("qr_r", max(float((np.abs(Rf.T @ Rf - G) / np.outer(dn, dn)).max()), float(np.abs(np.tril(Rf, -1)).max()) / np.sqrt(gs)),
                     1e-12, "R^T R = Ys Ys^T, R upper trapezoidal")
        # (ii) returned matrix = hankDat of the recorded factor, exactly
        out = ctx.model("hank_dat_rec", R=Rmat(Rf), nref=r, p=p)
        M = np.array(flmat(out["m"]), dtype=float).reshape(out["r"], out["c"])
        ok = H.shape == (out["r"], out["c"]) == (b, min(a, n)) and np.array_equal(H, M)
        if out["of_r"] is not None:  # the fixed-width model function of the older theorems, where it applies
            M0 = np.array(flmat(out["of_r"]["m"]), dtype=float).reshape(out["of_r"]["r"], out["of_r"]["c"])
            ok = ok and M0.shape == H.shape and np.array_equal(H, M0)
            ctx.count("corr_dat_recorded_hankDatOfR")
        ok = ok and (out["of_r"] is not None) == (n >= a)
        ctx.corr("build_hank[dat-recorded]", bool(ok), base | {"R": Rmat(Rf), "nref": r}, {"shape": [out["r"], out["c"]], "m": M.tolist()},
                 {"shape": list(H.shape), "m": H.tolist()}, key)
        ctx.count(f"corr_dat_recorded_{regime}")
        ctx.count(f"corr_dat_recorded_ref_{kind}")
        # the excluded point of C12_dat_gram_model on the real code (observation, not a comparison): past data with
        # dependent rows although there are enough columns -> the Gram matrix is NOT that of the projection on the past
        # reference outputs (C12_dat_rank_needed is the exact instance); counted so that a change of behaviour shows
        if n > a and np.linalg.matrix_rank(X[:, :a]) < a:
            Yp_, Yf_ = X[:, :a].T, X[:, a:].T
            Pg = Yf_ @ np.linalg.pinv(Yp_) @ Yp_ @ Yf_.T
            gap = float(np.abs(H @ H.T - Pg).max()) / max(float(np.abs(Pg).max()), 1e-300)
            ctx.count("observed_dat_rank_deficient_past_" + ("gram_is_not_projection" if gap > 1e-6 else "gram_is_projection"))
        # (iv) short records: Gram matrix of the future outputs themselves, no rank condition
        if n <= a:
            FF = G[a:, a:]
            fs = np.sqrt(np.maximum(np.diag(FF), 0.0))
            fs = np.where(fs > 0, fs, 1.0)
            err = float((np.abs(H @ H.T - FF) / np.outer(fs, fs)).max())
            ctx.dist["margin_dat_short_gram"] = max(ctx.dist.get("margin_dat_short_gram", 0.0), err / 1e-11)
            ctx.corr("build_hank[dat-short-gram]", err <= 1e-11, base, FF.tolist(), (H @ H.T).tolist(), key)


def _indep_mm(Y, Yref, p):
    l, Nd = Y.shape
    r = Yref.shape[0]
    N = Nd - 2 * p - 1
    H = np.zeros(((p + 1) * l, (p + 1) * r))
    for i in range(p + 1):
        for j in range(p + 1):
            for a in range(l):
                for b in range(r):
                    H[i * l + a, j * r + b] = sum(Y[a, p + 2 + i + t] * Yref[b, p + 1 - j + t] for t in range(N - 1)) / N
    return H


def _indep_R(Y, Yref, p):
    l, Nd = Y.shape
    r = Yref.shape[0]
    H = np.zeros(((p + 1) * l, (p + 1) * r))
    for i in range(p + 1):
        for j in range(p + 1):
            k = p + i - j
            for a in range(l):
                for b in range(r):
                    H[i * l + a, j * r + b] = sum(Y[a, t] * Yref[b, t + k] for t in range(Nd - k)) / (Nd - k)
    return H


def _impulse_structure(ctx, bh, l, r, p, Nd, method, pairs):
    """Evaluate the bilinear map on pairs of unit impulses: the response must be supported on the
    entries (a; b) of the blocks with one single lag, with one weight per lag (uniform weights)."""
    N = Nd - 2 * p - 1
    for (a, t1, b, t2) in pairs:
        Y = np.zeros((l, Nd))
        Yr = np.zeros((r, Nd))
        Y[a, t1] = 1.0
        Yr[b, t2] = 1.0
        H, _ = bh(Y, Yr, p, method)
        ctx.oracle_cases += 1
        if H.shape != ((p + 1) * l, (p + 1) * r):
            ctx.violation("shape", f"{method}: shape {H.shape}", {"l": l, "r": r, "p": p, "Ndat": Nd})
            return
        nz = np.argwhere(np.abs(H) > 1e-14)
        vals = set()
        for (ri, ci) in nz:
            i, aa = divmod(int(ri), l)
            j, bb = divmod(int(ci), r)
            lag = (i + j + 1) if method == "cov_mm" else (p + i - j)
            want = (t1 - t2) if method == "cov_mm" else (t2 - t1)
            if aa != a or bb != b or lag != want:
                ctx.violation(
                    "impulse-lag",
                    f"{method}: impulse pair (ch {a}@{t1}, ref {b}@{t2}) contributes to block ({i},{j}) channel ({aa},{bb}); expected single lag",
                    {"l": l, "r": r, "p": p, "Ndat": Nd, "a": a, "t1": t1, "b": b, "t2": t2, "method": method},
                    observed={"block": [i, j], "chan": [aa, bb], "value": float(H[ri, ci])},
                )
                return
            vals.add(round(float(H[ri, ci]) * (N if method == "cov_mm" else (Nd - lag)), 9))
        if len(vals) > 1 or (vals and vals != {1.0}):
            ctx.violation(
                "impulse-weight",
                f"{method}: non-uniform or wrongly scaled weights {sorted(vals)}",
                {"l": l, "r": r, "p": p, "Ndat": Nd, "a": a, "t1": t1, "b": b, "t2": t2, "method": method},
            )
            return


def _large_case(ctx, bh, cs, l, ref, p, Nd, off):
    """one case of the large-size stream (regenerated from its own seed `cs` by --replay)"""
    Y = np.random.default_rng(cs).standard_normal((l, Nd)) + off
    Yref = Y[ref, :]
    r = len(ref)
    N = Nd - 2 * p - 1
    for method in ("cov_mm", "cov_R"):
        H, _ = bh(Y, Yref, p, method)
        if method == "cov_mm":
            Yf = np.vstack([Y[:, p + 2 + i : N + p + 1 + i] for i in range(p + 1)])
            Yp = np.vstack([Yref[:, p + 1 - j : N + p - j] for j in range(p + 1)])
            E = Yf @ Yp.T / N
        else:
            Rk = [Y[:, : Nd - q] @ Yref[:, q:].T / (Nd - q) for q in range(2 * p + 1)]
            E = np.block([[Rk[p + i - j] for j in range(p + 1)] for i in range(p + 1)])
        ctx.oracle_cases += 1
        ctx.count("oracle_large_sizes")
        ctx.nontrivial.add(("oracle-large", method, l, r, p, Nd))
        err = max_rel_err(H, E) if H.shape == E.shape else float("inf")
        key = f"margin_large_{method}"
        ctx.dist[key] = max(ctx.dist.get(key, 0.0), float(err) / 1e-9 if err == err else float("inf"))
        if err > 1e-9:
            ctx.violation(
                f"entry-{method}",
                f"{method}: matrix differs from the definition (rel err {err:.2e}) at br={p}, {l} channels, references {ref}, {Nd} samples",
                {"large_case": {"cs": cs, "l": l, "ref": ref, "p": p, "Ndat": Nd, "off": off}, "method": method},
            )


def oracle(ctx, scale):
    bh = _bh()
    rng = ctx.rng
    # (1) independent construction on random data
    for _ in range(ctx.n(25, 400) * scale):
        Y, Yref, p, ref = gen_case(ctx, maxN=50)
        l, Nd = Y.shape
        r = Yref.shape[0]
        for method, ind in (("cov_mm", _indep_mm), ("cov_R", _indep_R)):
            H, _ = bh(Y, Yref, p, method)
            E = ind(Y.astype(float), Yref.astype(float), p)
            ctx.oracle_cases += 1
            ctx.nontrivial.add(("oracle", method, l, r, p, Nd))
            if H.shape != E.shape or max_rel_err(H, E) > 1e-10:
                ctx.violation(
                    f"entry-{method}",
                    f"{method}: matrix differs from the definition (rel err {max_rel_err(H, E):.2e})",
                    {"Y": Y.tolist(), "Yref": Yref.tolist(), "p": p, "method": method, "dtype": str(Y.dtype)},
                )
        # bilinearity
        Y, Yref = Y.astype(float), Yref.astype(float)
        g = ctx.nprng()
        Y2 = g.standard_normal(Y.shape)
        Yr2 = g.standard_normal(Yref.shape)
        al, be = g.standard_normal(2)
        for method in ("cov_mm", "cov_R"):
            f = lambda A, B: bh(A, B, p, method)[0]  # noqa: E731
            lhs = f(Y + al * Y2, Yref + be * Yr2)
            rhs = f(Y, Yref) + al * f(Y2, Yref) + be * f(Y, Yr2) + al * be * f(Y2, Yr2)
            ctx.oracle_cases += 1
            if max_rel_err(lhs, rhs) > 1e-10:
                ctx.violation(f"bilinear-{method}", f"{method}: not bilinear", {"Y": Y.tolist(), "Yref": Yref.tolist(), "p": p})
        # projection identity for the data-driven method
        N = Nd - 2 * p - 1
        if N - 1 >= (r + l) * (p + 1) + 1:
            H, _ = bh(Y, Yref, p, "dat")
            Yf = np.vstack([Y[:, p + 2 + i : N + p + 1 + i] for i in range(p + 1)]) / np.sqrt(N)
            Yp = np.vstack([Yref[:, p + 1 - j : N + p - j] for j in range(p + 1)]) / np.sqrt(N)
            PP = Yp @ Yp.T
            if np.linalg.cond(PP) < 1e6:
                proj = Yf @ Yp.T @ np.linalg.solve(PP, Yp @ Yf.T)
                ctx.oracle_cases += 1
                if H.shape != ((p + 1) * l, (p + 1) * r) or max_rel_err(H @ H.T, proj) > 1e-8:
                    ctx.violation("dat-gram", "dat: Gram matrix is not that of the projection of future onto past reference outputs",
                                  {"Y": Y.tolist(), "Yref": Yref.tolist(), "p": p})
            else:
                ctx.skipped += 1
    # (1a) sizes as met in practice (the small cases above stop at br = 5 and 60 samples): many block rows, records of
    # some hundreds to some ten thousands of samples with lengths of every parity/factorisation - an implementation may
    # take another route above some size (an FFT for many lags, blocked products for long records); the matrix is defined
    # for every size, so the independent construction is vectorised here (one product per lag / per block pair)
    for k in range(ctx.n(30, 300) * scale):
        cs = rng.getrandbits(32)
        l = rng.randint(1, 4)
        r = rng.randint(1, l)
        ref = rng.sample(range(l), r)
        p = rng.choice([6, 8, 9, 12, 16, 20, 24, 31]) if k % 2 == 0 else rng.randint(6, 32)
        if k % 10 == 9:
            Nd = rng.choice([4096, 8191, 10007, 16385, 30000, 32768 + 2 * p])
        else:
            Nd = rng.randint(4 * p + 8, 4 * p + 400)
        off = rng.choice([0.0, 0.0, 3.0])
        _large_case(ctx, bh, cs, l, ref, p, Nd, off)
    # (1c) data-driven method on records with fewer samples than stacked past rows (N-1 < (br+1)*r, still inside "every
    # record length up to 40" for br = 5 and 4 references): the layout clause asks for (br+1) block columns of the references
    for _ in range(ctx.n(6, 40) * scale):
        l = rng.randint(1, 4)
        r = rng.randint(1, l)
        pp = rng.randint(1, 5)
        a = (pp + 1) * r
        if a < 3:
            continue
        nm1 = rng.randint(2, a - 1)  # N - 1
        Nd = nm1 + 1 + 2 * pp + 1
        g = ctx.nprng()
        Y = g.standard_normal((l, Nd))
        ref = sorted(rng.sample(range(l), r))
        try:
            H, _ = bh(Y, Y[ref, :], pp, "dat")
        except Exception as e:  # noqa: BLE001
            ctx.violation("dat-short-record-raises", f"dat: {type(e).__name__} on a record of {Nd} samples (l={l}, r={r}, br={pp})", {"l": l, "ref": ref, "p": pp, "Ndat": Nd})
            continue
        ctx.oracle_cases += 1
        ctx.count("oracle_dat_short_record")
        if H.shape != ((pp + 1) * l, a):
            ctx.violation("dat-short-record-layout", f"dat: matrix of shape {H.shape} instead of {((pp + 1) * l, a)} for a record of {Nd} samples (l={l}, r={r}, br={pp}: "
                          f"{nm1} averaged samples < {a} stacked past rows)", {"l": l, "ref": ref, "p": pp, "Ndat": Nd}, observed=list(H.shape), expected=[(pp + 1) * l, a])
    # (1b) through the classes: the Hankel matrix stored by SSIcov/SSIdat for a reference list in ANY order has one
    # block column per listed reference, in the listed order
    from pyoma2.algorithms import SSIcov, SSIdat
    from pyoma2.setup import SingleSetup

    for _ in range(ctx.n(6, 60) * scale):
        g = ctx.nprng()
        l = rng.randint(2, 5)
        r = rng.randint(1, l)
        ref = rng.sample(range(l), r)
        p = rng.randint(1, 4)
        Nd = rng.randint(60, 160)
        Y = g.standard_normal((Nd, l))
        method = rng.choice(["cov_mm", "cov_R", "dat"])
        cls = SSIdat if method == "dat" else SSIcov
        noref = rng.random() < 0.25
        if noref:
            ref = list(range(l))
            r = l
        kw = dict(name="a", br=p, ordmax=min(2, (p + 1) * r, p * l))
        if not noref:
            kw["ref_ind"] = list(ref)
        if method != "dat":
            kw["method"] = method
        ss = SingleSetup(Y.copy(), fs=10.0)
        alg = cls(**kw)
        ss.add_algorithms(alg)
        try:
            ss.run_by_name("a")
        except (np.linalg.LinAlgError, ValueError, IndexError):
            ctx.skipped += 1
            continue
        if rng.random() < 0.4:
            # the same algorithm object re-used on a second setup with another channel count: what it builds must
            # follow the data bound now and its own parameters, nothing carried over from the first run
            l2 = rng.choice([c for c in range(max(max(ref) + 1, 2), 7) if c != l] or [l])
            Y = g.standard_normal((Nd, l2))
            l = l2
            if noref:  # "all channels" of the data bound NOW
                ref, r = list(range(l2)), l2
            ss = SingleSetup(Y.copy(), fs=10.0)
            ss.add_algorithms(alg)
            try:
                ss.run_by_name("a")
            except (np.linalg.LinAlgError, ValueError, IndexError):
                ctx.skipped += 1
                continue
            ctx.count("class_object_reused")
        elif not noref and l >= 2 and rng.random() < 0.6:
            # the same algorithm object run again on the SAME setup after its run parameters were replaced through the public
            # set_run_params (how a user explores reference choices): another reference list of the same length, sometimes
            # another block-row count - the stored matrix must be the one of the parameters in force now
            from pyoma2.algorithms.data.run_params import SSIRunParams
            ref2 = rng.sample(range(l), r)
            if ref2 == list(ref):
                ref2 = list(reversed(ref2)) if r > 1 else [(ref2[0] + 1) % l]
            p2 = p if rng.random() < 0.7 else max(1, p - 1)
            kw2 = dict(br=p2, ordmax=min(2, (p2 + 1) * r, p2 * l), ref_ind=list(ref2))
            if method != "dat":
                kw2["method"] = method
            try:
                alg.set_run_params(SSIRunParams(**kw2))
                ss.run_by_name("a")
            except (np.linalg.LinAlgError, ValueError, IndexError):
                ctx.skipped += 1
                continue
            ref, p = list(ref2), p2
            ctx.count("class_rerun_new_params")
        H = alg.result.H
        ctx.oracle_cases += 1
        ctx.nontrivial.add(("class", method, l, tuple(ref), p))
        inp = {"Y": Y.T.tolist(), "Yref": Y.T[ref, :].tolist(), "p": p, "method": method, "ref_ind": ref, "through": cls.__name__}
        if method in ("cov_mm", "cov_R"):
            E = (_indep_mm if method == "cov_mm" else _indep_R)(Y.T, Y.T[ref, :], p)
            if H.shape != E.shape or max_rel_err(H, E) > 1e-10:
                ctx.violation(f"class-entry-{method}", f"{cls.__name__}(ref_ind={ref}): stored Hankel matrix differs from the definition with the references in the listed order", inp)
        else:
            N = Nd - 2 * p - 1
            if N - 1 >= (r + l) * (p + 1) + 1:
                Yf = np.vstack([Y.T[:, p + 2 + i : N + p + 1 + i] for i in range(p + 1)]) / np.sqrt(N)
                Yp = np.vstack([Y.T[ref, :][:, p + 1 - j : N + p - j] for j in range(p + 1)]) / np.sqrt(N)
                # the Gram matrix cannot see the ORDER of the references (same subspace), so the stored matrix is also
                # compared with the function applied to the references in the listed order
                PP = Yp @ Yp.T
                if np.linalg.cond(PP) < 1e6:
                    want = Yf @ Yp.T
                    Hfun, _ = bh(Y.T, Y.T[ref, :], p, "dat")
                    gram_ok = max_rel_err(H @ H.T, want @ np.linalg.solve(PP, want.T)) <= 1e-8
                    if H.shape != ((p + 1) * l, (p + 1) * r) or not gram_ok or max_rel_err(H, Hfun) > 1e-10:
                        ctx.violation("class-dat-gram", f"{cls.__name__}(ref_ind={ref}): stored data-driven matrix is not the projection onto the LISTED past reference outputs", inp)
    # (2) unit-impulse basis
    if ctx.thorough:
        shapes = [(l, r, p, Nd) for l in (1, 2, 3) for r in range(1, l + 1) for p in (1, 2, 3) for Nd in (2 * p + 5, 2 * p + 9)]
    else:
        shapes = [(rng.randint(1, 4), 1, rng.randint(1, 5), 0) for _ in range(3)]
        shapes = [(l, rng.randint(1, l), p, rng.randint(2 * p + 4, 2 * p + 12)) for (l, _, p, _) in shapes]
    for (l, r, p, Nd) in shapes:
        allpairs = list(itertools.product(range(l), range(Nd), range(r), range(Nd)))
        if not ctx.thorough and len(allpairs) > 400:
            allpairs = rng.sample(allpairs, 400)
        for method in ("cov_mm", "cov_R"):
            _impulse_structure(ctx, bh, l, r, p, Nd, method, allpairs)
        ctx.count("impulse_shapes")


def replay(rec):
    bh = _bh()
    v = rec["violation"]
    inp = v["input"]
    print("replaying", v["sig"], "-", v["what"])
    if "large_case" in inp:
        class C0:
            oracle_cases = 0
            dist = {}
            nontrivial = set()

            def count(self, *a):
                pass

            def violation(self, *a, **k):
                print("VIOLATION reproduced:", a[1])

        c = inp["large_case"]
        _large_case(C0(), bh, c["cs"], c["l"], c["ref"], c["p"], c["Ndat"], c["off"])
        return 0
    if "Y" in inp:
        dt = np.dtype(inp.get("dtype", "float64"))
        Y = np.array(inp["Y"], float)
        Yr = np.array(inp["Yref"], float)
        p = inp["p"]
        for method, ind in (("cov_mm", _indep_mm), ("cov_R", _indep_R)):
            H, _ = bh(Y.astype(dt), Yr.astype(dt), p, method)
            print(method, f"(record dtype {dt}) rel err vs definition:", max_rel_err(H, ind(Y, Yr, p)))
    else:
        class C:  # minimal ctx
            oracle_cases = 0
            vs = []

            def violation(self, *a, **k):
                self.vs.append(a)
                print("VIOLATION reproduced:", a[1])

        _impulse_structure(C(), bh, inp["l"], inp["r"], inp["p"], inp["Ndat"], inp["method"], [(inp["a"], inp["t1"], inp["b"], inp["t2"])])
    return 0
