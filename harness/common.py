"""Shared machinery of the pyOMA2 checks: PRNG, exact-rational codec, Lean driver pipe,
Lean build + axiom audit, verdict and evidence writing.  Run with /venv/bin/python."""
import fcntl
import json
import math
import os
import random
import re
import subprocess
import sys
import time
import traceback
from fractions import Fraction

VERIF = os.path.dirname(os.path.dirname(os.path.abspath(__file__)))
LEAN = os.path.join(VERIF, "lean")
DRIVER = os.path.join(LEAN, ".lake", "build", "bin", "driver")
REPO = os.environ.get("PYOMA2_REPO", "/repo")
ALLOWED_AXIOMS = {"propext", "Classical.choice", "Quot.sound"}
FORBIDDEN = re.compile(
    r"sorry|admit|^\s*axiom |native_decide|bv_decide|implemented_by|unsafe |maxHeartbeats 0", re.M
)
TRUSTED_BASE = [
    "Lean 4.33 kernel; axioms limited to propext, Classical.choice, Quot.sound (audited by #print axioms on every run; no native_decide, no bv_decide, no own axioms)",
    "Mathlib definitions mentioned by the statements (Finset.sum, Matrix, Complex, Real)",
    "the statements in lean/PyomaVerif/Props being the right reading of the property",
    "the correspondence harness (input generation, exact-rational codec, comparison) tying the hand-written model to /repo on every run",
]


# ----------------------------------------------------------------------------- repo import
def import_repo():
    """Make sure `pyoma2` is imported from /repo's current working tree."""
    src = os.path.join(REPO, "src")
    if src not in sys.path:
        sys.path.insert(0, src)
    os.environ.setdefault("MPLBACKEND", "Agg")
    os.environ["TQDM_DISABLE"] = "1"
    import logging

    logging.disable(logging.CRITICAL)
    import warnings

    warnings.filterwarnings("ignore")
    import pyoma2  # noqa

    assert os.path.realpath(pyoma2.__file__).startswith(os.path.realpath(src)), pyoma2.__file__


# ----------------------------------------------------------------------------- codec
def R(x):
    """exact rational string of a float / int / Fraction"""
    if isinstance(x, bool):
        raise TypeError("bool")
    if isinstance(x, int):
        return str(x)
    if isinstance(x, Fraction):
        return str(x.numerator) if x.denominator == 1 else f"{x.numerator}/{x.denominator}"
    x = float(x)
    if math.isnan(x) or math.isinf(x):
        raise ValueError("non-finite")
    n, d = x.as_integer_ratio()
    return str(n) if d == 1 else f"{n}/{d}"


def Ro(x):
    """optional rational: NaN -> None"""
    x = float(x)
    return None if math.isnan(x) else R(x)


def Rmat(a):
    return [[R(v) for v in row] for row in a]


def Rvec(a):
    return [R(v) for v in a]


def Cx(z):
    z = complex(z)
    return [R(z.real), R(z.imag)]


def Cxo(z):
    z = complex(z)
    if math.isnan(z.real) or math.isnan(z.imag):
        return None
    return [R(z.real), R(z.imag)]


def Cmat(a):
    return [[Cx(v) for v in row] for row in a]


def Cvec(a):
    return [Cx(v) for v in a]


def frac(s):
    if s is None:
        return None
    if isinstance(s, int):
        return Fraction(s)
    return Fraction(s)


def fl(s):
    """model rational string -> nearest double (None -> nan)"""
    if s is None:
        return float("nan")
    f = Fraction(s)
    try:
        return f.numerator / f.denominator
    except OverflowError:
        return float(f)


def flmat(m):
    return [[fl(v) for v in row] for row in m]


def cfl(p):
    if p is None:
        return complex("nan")
    return complex(fl(p[0]), fl(p[1]))


def relclose(a, b, rtol=1e-12, atol=0.0):
    a = float(a)
    b = float(b)
    if math.isnan(a) or math.isnan(b):
        return math.isnan(a) and math.isnan(b)
    return abs(a - b) <= atol + rtol * max(abs(a), abs(b))


def max_rel_err(A, B):
    """max |A-B| / max(|B|) over two equally shaped nested lists / arrays"""
    import numpy as np

    A = np.asarray(A, dtype=complex)
    B = np.asarray(B, dtype=complex)
    if A.shape != B.shape:
        return float("inf")
    if A.size == 0:
        return 0.0
    na, nb = np.isnan(A), np.isnan(B)
    if (na != nb).any():
        return float("inf")
    A = np.where(na, 0, A)
    B = np.where(nb, 0, B)
    sc = max(np.abs(B).max(), np.abs(A).max(), 1e-300)
    return float(np.abs(A - B).max() / sc)


# ----------------------------------------------------------------------------- driver
def relayout(ctx, a, prob=0.35, kinds=("fortran", "strided")):
    """the same values in another legal memory layout (the properties speak about values, not about how the caller's
    array is stored): Fortran order, a non-contiguous view of a larger array, or a read-only array; with probability
    1-prob the array itself.  Returns (array, tag)."""
    import numpy as np

    if not isinstance(a, np.ndarray) or a.ndim < 2 or a.size == 0 or ctx.rng.random() >= prob:
        return a, "as-is"
    kind = ctx.rng.choice(list(kinds))  # "readonly" only where the check already demands that the input is left untouched
    if kind == "fortran":
        out = np.asfortranarray(a)
    elif kind == "strided":
        big = np.empty(tuple(2 * n for n in a.shape), dtype=a.dtype)
        big[...] = np.nan if a.dtype.kind in "fc" else 0
        sl = tuple(slice(0, 2 * n, 2) for n in a.shape)
        big[sl] = a
        out = big[sl]
    else:
        out = np.array(a, copy=True)
        out.setflags(write=False)
    ctx.count(f"layout_{kind}")
    return out, kind


class ModelError(Exception):
    pass


class Driver:
    def __init__(self):
        if not os.path.exists(DRIVER):
            raise InfraError(f"driver not built: {DRIVER}")
        self.p = subprocess.Popen(
            [DRIVER], stdin=subprocess.PIPE, stdout=subprocess.PIPE, stderr=subprocess.DEVNULL, text=True, bufsize=1
        )
        self.calls = 0

    def call(self, op, **kw):
        kw["op"] = op
        self.p.stdin.write(json.dumps(kw, separators=(",", ":")) + "\n")
        self.p.stdin.flush()
        line = self.p.stdout.readline()
        if not line:
            raise InfraError(f"driver died on op {op}")
        self.calls += 1
        out = json.loads(line)
        if "error" in out:
            raise ModelError(out["error"])
        return out["ok"]

    def close(self):
        try:
            self.p.stdin.close()
            self.p.wait(timeout=5)
        except Exception:
            self.p.kill()


class InfraError(Exception):
    pass


# ----------------------------------------------------------------------------- Lean build / audit
def _lock():
    f = open(os.path.join(LEAN, ".build.lock"), "w")
    fcntl.flock(f, fcntl.LOCK_EX)
    return f


def lean_build(targets, timeout=3000):
    """lake build of the given targets; returns (ok, log)"""
    lk = _lock()
    try:
        t0 = time.time()
        pr = subprocess.run(
            ["lake", "build"] + list(targets), cwd=LEAN, capture_output=True, text=True, timeout=timeout
        )
        return pr.returncode == 0, (pr.stdout + pr.stderr)[-6000:], time.time() - t0
    finally:
        lk.close()


def lean_audit(prop, modules, theorems, timeout=900):
    """#print axioms for every property theorem; returns (dict name -> axioms|None, log)"""
    os.makedirs(os.path.join(LEAN, ".lake", "audit"), exist_ok=True)
    path = os.path.join(LEAN, ".lake", "audit", f"Audit_{prop}_{os.getpid()}.lean")
    with open(path, "w") as f:
        for m in modules:
            f.write(f"import {m}\n")
        for t in theorems:
            f.write(f"#print axioms {t}\n")
    try:
        pr = subprocess.run(
            ["lake", "env", "lean", path], cwd=LEAN, capture_output=True, text=True, timeout=timeout
        )
    finally:
        try:
            os.remove(path)
        except OSError:
            pass
    out = pr.stdout + pr.stderr
    res = {t: None for t in theorems}
    # "'name' depends on axioms: [a, b]" or "'name' does not depend on any axioms"
    for m in re.finditer(r"'([^']+)' depends on axioms: \[([^\]]*)\]", out, re.S):
        res[m.group(1)] = [a.strip() for a in m.group(2).replace("\n", " ").split(",") if a.strip()]
    for m in re.finditer(r"'([^']+)' does not depend on any axioms", out):
        res[m.group(1)] = []
    return res, out[-3000:]


def strip_comments(src):
    # remove nested /- -/ block comments and -- line comments
    out = []
    i = 0
    depth = 0
    n = len(src)
    while i < n:
        if src.startswith("/-", i):
            depth += 1
            i += 2
        elif depth and src.startswith("-/", i):
            depth -= 1
            i += 2
        elif depth:
            if src[i] == "\n":
                out.append("\n")
            i += 1
        elif src.startswith("--", i):
            while i < n and src[i] != "\n":
                i += 1
        else:
            out.append(src[i])
            i += 1
    return "".join(out)


def source_scan():
    """forbidden tokens in any Lean source of the library (comments discarded)"""
    hits = []
    for root, _, files in os.walk(os.path.join(LEAN, "PyomaVerif")):
        for fn in files:
            if fn.endswith(".lean"):
                p = os.path.join(root, fn)
                code = strip_comments(open(p).read())
                for m in FORBIDDEN.finditer(code):
                    hits.append(f"{os.path.relpath(p, LEAN)}: {m.group(0).strip()}")
    return hits


# ----------------------------------------------------------------------------- context
class Ctx:
    def __init__(self, prop, tier, seed):
        self.prop = prop
        self.tier = tier
        self.seed = seed
        self.rng = random.Random(seed * 1000003 + sum(ord(c) for c in prop))
        self.t0 = time.time()
        self.driver = None
        self.corr_cases = 0
        self.corr_by_fn = {}
        self.disagreements = []  # dicts: fn, input, model, impl
        self.oracle_cases = 0
        self.skipped = 0
        self.violations = []  # dicts: sig, what, input, observed, expected
        self.dist = {}  # distribution counters
        self.samples = []
        self.nontrivial = set()
        self.notes = []
        self.harness_broken = []

    @property
    def thorough(self):
        return self.tier == "thorough"

    def n(self, quick, thorough):
        return thorough if self.thorough else quick

    def nprng(self):
        import numpy as np

        return np.random.default_rng(self.rng.getrandbits(63))

    def count(self, key, k=1):
        self.dist[key] = self.dist.get(key, 0) + k

    def model(self, op, **kw):
        if self.driver is None:
            self.driver = Driver()
        return self.driver.call(op, **kw)

    def corr(self, fn, ok, inp=None, model=None, impl=None, nontrivial_key=None):
        """record one correspondence comparison"""
        self.corr_cases += 1
        self.corr_by_fn[fn] = self.corr_by_fn.get(fn, 0) + 1
        if nontrivial_key is not None:
            self.nontrivial.add((fn, nontrivial_key))
        if not ok:
            if len(self.disagreements) < 20:
                self.disagreements.append({"fn": fn, "input": inp, "model": model, "impl": impl})
            else:
                self.count("disagreements_beyond_20")
        return ok

    def contract(self, name, residual, tol, what=None):
        """the theorems quantify over every output of LAPACK/FFT that satisfies a stated contract (exact factorisation,
        orthonormal columns, ...): record that the output actually recorded in this run satisfies it to rounding.
        A recorded output that does not is reported like a correspondence that no longer checks."""
        self.count(f"contract_{name}_checked")
        r = float(residual)
        self.dist[f"margin_contract_{name}"] = max(self.dist.get(f"margin_contract_{name}", 0.0), r if r == r else float("inf"))
        ok = r <= tol
        if not ok:
            self.corr(f"recorded-factor contract[{name}]", False, {"what": what, "residual": r, "tolerance": tol}, None, None)
        return ok

    def sample(self, s):
        if len(self.samples) < 6:
            self.samples.append(s)

    def violation(self, sig, what, inp, observed=None, expected=None):
        self.violations.append(
            {"sig": sig, "what": what, "input": inp, "observed": observed, "expected": expected}
        )


def jsonable(x):
    import numpy as np

    if isinstance(x, dict):
        return {str(k): jsonable(v) for k, v in x.items()}
    if isinstance(x, (list, tuple, set)):
        return [jsonable(v) for v in x]
    if isinstance(x, np.ndarray):
        return jsonable(x.tolist())
    if isinstance(x, (np.integer,)):
        return int(x)
    if isinstance(x, (np.floating,)):
        return jsonable(float(x))
    if isinstance(x, (np.complexfloating, complex)):
        return {"re": jsonable(float(x.real)), "im": jsonable(float(x.imag))}
    if isinstance(x, float):
        if math.isnan(x):
            return "nan"
        if math.isinf(x):
            return "inf" if x > 0 else "-inf"
        return x
    if isinstance(x, Fraction):
        return str(x)
    if isinstance(x, (str, int, bool)) or x is None:
        return x
    return repr(x)


def load_known():
    p = os.path.join(VERIF, "known_findings.json")
    if not os.path.exists(p):
        return []
    return json.load(open(p)).get("findings", [])


def hc_pre_build(ctx):
    """regenerate lean/PyomaVerif/Generated/HcProgs.lean (hard-criteria statements of the run() bodies) from the tested tree"""
    import translate_hc

    ok, msg, summary = translate_hc.write(REPO, LEAN)
    ctx.notes.append(f"hc translator: {msg}")
    return ok, msg


def wiring_pre_build(ctx):
    """regenerate lean/PyomaVerif/Generated/Wiring.lean (call-site wiring of the algorithm classes) from the tested tree"""
    import translate_wiring

    ok, msg, summary = translate_wiring.write(REPO, LEAN)
    ctx.notes.append(f"wiring translator: {msg} {summary}")
    return ok, msg


_GENERATED_BY = {"HcProgs": "translate_hc", "Wiring": "translate_wiring", "Defaults": "translate_defaults", "Setup": "translate_setup",
                 "FnCalls": "translate_fncalls", "Dialog": "translate_dialog", "GeoWiring": "translate_geo"}


def needed_translators(lean_modules):
    """the translators whose generated table the given Lean modules import, directly or through other modules of the library
    (text-level walk of the `import PyomaVerif.…` lines); a generated file nobody maps to a translator counts as 'all'"""
    seen, todo, need = set(), list(lean_modules), set()
    while todo:
        m = todo.pop()
        if m in seen or not m.startswith("PyomaVerif."):
            continue
        seen.add(m)
        if m.startswith("PyomaVerif.Generated."):
            g = m.split(".")[-1]
            if g not in _GENERATED_BY:
                return None
            need.add(_GENERATED_BY[g])
            continue
        path = os.path.join(LEAN, *m.split(".")) + ".lean"
        try:
            for line in open(path):
                if line.startswith("import "):
                    todo.append(line.split()[1])
                elif line.strip() and not line.startswith(("/-", "--", " ", "*")) and not line.startswith("import"):
                    break
        except OSError:
            return None
    return need


def all_pre_build(ctx):
    """regenerate EVERY generated Lean file (all translate_*.py of the harness) from the tested tree.  A translator that fails
    closed breaks the checks whose Lean modules import its table (found from the import graph of the check's LEAN_MODULES) —
    not the others: their obligations do not read that table."""
    import translate_all

    ok, msg, summary = translate_all.write_all(REPO, LEAN)
    ctx.notes.append(f"translators: {msg}")
    if not ok:
        need = needed_translators(getattr(ctx, "lean_modules", []) or [])
        failed = [part.split(":")[0].strip() for part in msg.split(";") if "failed closed" in part or "fail" in part.lower() and ": ok" not in part]
        if need is not None and failed and not (set(failed) & need):
            ctx.notes.append(f"translators that failed closed ({failed}) feed no module of this check (needs {sorted(need)})")
            return True, msg
    return ok, msg


# ----------------------------------------------------------------------------- runner
def run_check(prop, mod, argv):
    """Generic check runner.  `mod` provides:
    THEOREMS (list of fully qualified names), LEAN_MODULES (list), optionally
    pre_build(ctx) (e.g. the translator), correspondence(ctx), oracle(ctx, scale),
    replay(record), EXTRA_TRUSTED (list), RULE (str)."""
    import argparse

    ap = argparse.ArgumentParser()
    ap.add_argument("--tier", default=os.environ.get("VERIF_TIER", "quick"))
    ap.add_argument("--replay", default=None)
    a = ap.parse_args(argv)
    tier = "thorough" if a.tier == "thorough" else "quick"
    seed = int(os.environ.get("VERIF_SEED", "0") or 0)
    import_repo()
    if a.replay:
        rec = json.load(open(a.replay))
        if rec.get("kind") == "no-failing-input-found":
            print(f"replay of {prop}: no failing input was found; what no longer checks:")
            for b in rec.get("no_longer_checks", []):
                print("  -", b.get("kind"), b.get("fn", b.get("theorem", b.get("modules", ""))))
                if b.get("detail"):
                    print("      " + str(b["detail"])[-800:].replace("\n", "\n      "))
            print("re-run: VERIF_SEED=%s ./check %s --tier %s" % (rec.get("seed"), prop, rec.get("tier")))
            return 0
        v = rec.get("violation", {})
        if str(v.get("sig", "")).startswith("unexpected-exception"):
            print("replay of", prop, ":", v.get("what"))
            print((v.get("input") or {}).get("traceback", ""))
            print("re-run: VERIF_SEED=%s ./check %s --tier %s" % (rec.get("seed"), prop, rec.get("tier")))
            return 0
        try:
            return mod.replay(rec)
        except Exception as e:  # noqa: BLE001
            print(f"replay helper of {prop} could not re-execute this record ({type(e).__name__}: {e}); the record:")
            print(json.dumps(rec.get("violation"), indent=1)[:4000])
            print("re-run: VERIF_SEED=%s ./check %s --tier %s" % (rec.get("seed"), prop, rec.get("tier")))
            return 0
    ctx = Ctx(prop, tier, seed)
    try:
        return _run(ctx, mod)
    except InfraError as e:
        print(f"INFRA-ERROR property={prop}: {e}")
        return 2
    except subprocess.TimeoutExpired as e:
        print(f"INFRA-ERROR property={prop}: timeout {e}")
        return 2
    finally:
        if ctx.driver:
            ctx.driver.close()


def _guarded(ctx, phase, fn, *args):
    """An exception escaping from the library under test while the harness drives it inside the property's domain is a
    failure of the property (reported with the traceback as replay); an exception raised by harness code is an
    infrastructure error."""
    try:
        return fn(*args)
    except (ModelError, InfraError, subprocess.TimeoutExpired, KeyboardInterrupt):
        raise
    except Exception as e:  # noqa: BLE001
        tb = traceback.extract_tb(e.__traceback__)
        src = os.path.realpath(os.path.join(REPO, "src"))
        last = tb[-1]
        in_repo = any(os.path.realpath(f.filename).startswith(src) for f in tb)
        text = "".join(traceback.format_exception(type(e), e, e.__traceback__))[-3000:]
        if in_repo:
            where = next((f for f in reversed(tb) if os.path.realpath(f.filename).startswith(src)), last)
            ctx.violation(
                f"unexpected-exception:{type(e).__name__}:{os.path.basename(where.filename)}:{where.name}",
                f"{phase}: the library raised {type(e).__name__}: {str(e)[:160]} in {os.path.basename(where.filename)}:{where.name} on an input of the property's domain",
                {"traceback": text, "phase": phase},
            )
            return None
        # the harness itself tripped (typically over an output of unexpected shape/type from the library): the
        # correspondence no longer checks; it is not a verdict by itself (the oracle is re-run with a larger budget)
        ctx.harness_broken.append({"kind": "harness-exception", "fn": phase, "detail": text})
        return None


def _run(ctx, mod):
    prop = ctx.prop
    broken = []  # obligations / correspondences that no longer check
    # 1. regenerate + build + audit
    gen_log = None
    if hasattr(mod, "pre_build"):
        ctx.lean_modules = list(getattr(mod, "LEAN_MODULES", []))
        gen_ok, gen_log = mod.pre_build(ctx)
        if not gen_ok:
            broken.append({"kind": "translator", "detail": gen_log})
    ok, log, bt = lean_build(["driver"])
    if not ok:
        raise InfraError("driver build failed:\n" + log)
    modules = list(mod.LEAN_MODULES)
    ok, log, bt2 = lean_build(modules)
    theorems = list(mod.THEOREMS)
    discharged = 0
    axioms = {}
    if not ok:
        broken.append({"kind": "lean-build", "modules": modules, "detail": log[-2500:]})
    else:
        axioms, alog = lean_audit(prop, modules, theorems)
        for t in theorems:
            ax = axioms.get(t)
            if ax is None:
                broken.append({"kind": "theorem-missing", "theorem": t, "detail": alog[-1500:]})
            elif not set(ax) <= ALLOWED_AXIOMS:
                broken.append({"kind": "axioms", "theorem": t, "axioms": ax})
            else:
                discharged += 1
    hits = source_scan()
    if hits:
        broken.append({"kind": "forbidden-token", "detail": hits})
        discharged = 0
    if ctx.thorough and ok and not os.environ.get("VERIF_SKIP_LEANCHECKER"):
        lk = _lock()
        try:
            pr = subprocess.run(
                ["lake", "env", "leanchecker"] + modules, cwd=LEAN, capture_output=True, text=True, timeout=3000
            )
        finally:
            lk.close()
        ctx.notes.append(f"leanchecker exit {pr.returncode}")
        if pr.returncode != 0:
            broken.append({"kind": "leanchecker", "detail": (pr.stdout + pr.stderr)[-1500:]})
    # 2. correspondence
    try:
        _guarded(ctx, "correspondence", mod.correspondence, ctx)
    except ModelError as e:
        broken.append({"kind": "model-error", "detail": str(e)})
    for d in ctx.disagreements:
        broken.append({"kind": "correspondence", **d})
    # 3. oracle on the real code
    _guarded(ctx, "oracle", mod.oracle, ctx, 1)
    broken.extend(ctx.harness_broken)
    if broken and not ctx.violations:
        ctx.notes.append("proof/correspondence broken: oracle re-run with 4x budget")
        ctx.rng = random.Random(ctx.seed * 7919 + 17)
        _guarded(ctx, "oracle", mod.oracle, ctx, 4)
    # 4. verdict
    known = [k for k in load_known() if k.get("property") == prop and k.get("status", "open") == "open"]
    known_sigs = {k["sig"]: k for k in known}
    new = []
    seen_known = {}
    for v in ctx.violations:
        if v["sig"] in known_sigs:
            seen_known.setdefault(v["sig"], v)
        else:
            new.append(v)
    rc = 0
    for sig, v in seen_known.items():
        print(f"KNOWN-FINDING: property={prop} {known_sigs[sig].get('what', sig)}")
    os.makedirs(os.path.join(VERIF, "replays"), exist_ok=True)
    if new:
        rp = os.path.join("replays", f"{prop}-{ctx.seed}.json")
        rec = {
            "property": prop,
            "kind": "failing-input",
            "seed": ctx.seed,
            "tier": ctx.tier,
            "violation": jsonable(new[0]),
            "other_violations": jsonable([{"sig": v["sig"], "what": v["what"]} for v in new[1:10]]),
            "broken": jsonable(broken[:5]),
            "replay_cmd": f"./check {prop} --replay {rp}",
        }
        json.dump(rec, open(os.path.join(VERIF, rp), "w"), indent=1)
        print(f"VIOLATION property={prop} replay={rp}")
        print(f"  {new[0]['sig']}: {new[0]['what']}")
        rc = 1
    elif broken:
        rp = os.path.join("replays", f"{prop}-{ctx.seed}-unproved.json")
        rec = {
            "property": prop,
            "kind": "no-failing-input-found",
            "seed": ctx.seed,
            "tier": ctx.tier,
            "no_longer_checks": jsonable(broken[:10]),
            "oracle_cases": ctx.oracle_cases,
        }
        json.dump(rec, open(os.path.join(VERIF, rp), "w"), indent=1)
        print(f"VIOLATION property={prop} replay={rp} no-failing-input-found")
        for b in broken[:3]:
            print("  no longer checks:", b.get("kind"), b.get("fn", b.get("theorem", "")))
        rc = 1
    # 5. evidence
    wall = time.time() - ctx.t0
    ev = {
        "property_id": prop,
        "tier": ctx.tier,
        "seed": ctx.seed,
        "level": "proof",
        "coverage": {
            "obligations": len(theorems),
            "discharged": discharged,
            "checker_cmd": "cd lean && lake build " + " ".join(modules) + "  # then `#print axioms` of every listed theorem via `lake env lean`"
            + ("; lake env leanchecker " + " ".join(modules) if ctx.thorough else ""),
            "trusted_base": TRUSTED_BASE + list(getattr(mod, "EXTRA_TRUSTED", [])),
            "theorems": {t: axioms.get(t) for t in theorems},
            "correspondence_cases": ctx.corr_cases,
            "correspondence_by_function": ctx.corr_by_fn,
            "disagreements": len(ctx.disagreements),
            "oracle_cases": ctx.oracle_cases,
            "skipped_by_guard": ctx.skipped,
            "evaluations": ctx.corr_cases + ctx.oracle_cases,
            "distinct_nontrivial": len(ctx.nontrivial),
            "rule": getattr(mod, "RULE", ""),
            "input_distribution": ctx.dist,
            "samples": jsonable(ctx.samples) or ["(none)"],
            "known_findings_seen": sorted(seen_known),
            "broken": jsonable(broken[:5]),
            "notes": ctx.notes,
            "build_seconds": round(bt + bt2, 2),
        },
        "assumptions": list(getattr(mod, "ASSUMPTIONS", [])),
        "wall_s": round(wall, 2),
        "violations": len(new) + (1 if (broken and not new) else 0),
    }
    # evidence of runs against a scratch tree (seeded-change evaluation) must not overwrite the evidence for /repo
    evdir = os.environ.get("VERIF_EVIDENCE_DIR") or (os.path.join(VERIF, "evidence") if os.path.realpath(REPO) == "/repo" else "/tmp/verif_evidence_scratch")
    os.makedirs(evdir, exist_ok=True)
    json.dump(ev, open(os.path.join(evdir, f"{prop}.json"), "w"), indent=1)
    print(
        f"{prop} {ctx.tier} seed={ctx.seed}: theorems {discharged}/{len(theorems)}, correspondence {ctx.corr_cases} cases "
        f"({len(ctx.disagreements)} disagreements), oracle {ctx.oracle_cases} cases ({len(ctx.violations)} violations, "
        f"{len(seen_known)} known), {wall:.1f}s -> exit {rc}"
    )
    return rc
