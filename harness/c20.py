"""C20 — diagrams show exactly the identified poles at their frequency, order and damping
(plot.stab_plot / cluster_plot / CMIF_plot and the classes' plot_stab / plot_cluster / plot_CMIF)."""
import math

import numpy as np

from common import R, Ro, fl


LEAN_MODULES = ["PyomaVerif.Props.C20", "PyomaVerif.Props.C20Extract", "PyomaVerif.Mutants.C20", "PyomaVerif.Props.WiringPlot", "PyomaVerif.Props.WiringClass", "PyomaVerif.Props.C20Stored", "PyomaVerif.Props.C20Facts"]
THEOREMS = [
    # depth round 2 (g19): limits, marker classes for Lab in {0,1}, decibel transform (Props/C20Facts.lean)
    "PV.C20.C20_limits_x",
    "PV.C20.C20_stab_ylim",
    "PV.C20.stab_markers_inside_ylim",
    "PV.C20.C20_stab_classes_01",
    "PV.C20.C20_cluster_classes_01",
    "PV.C20.C20_stab_other_shown",
    "PV.C20.C20_labels_scApply_01",
    "PV.C20.C20_cmif_db",
    "PV.C20.C20_cmif_db_real",
    "PV.C20.M_xlim_zeroLo_fails",
    # class-layer wiring, regenerated from /repo on every run (translate_wiring.py)
    "PV.WiringPlot.C20_plot_stab_wiring",
    "PV.WiringPlot.C20_plot_cluster_wiring",
    "PV.WiringPlot.C20_plot_cmif_wiring",
    "PV.WiringPlot.C20_plot_stores_nothing",
    "PV.WiringClass.C20_plot_inherited",
    "PV.C20.flattenF_index",
    "PV.C20.flattenF_length",
    "PV.C20.C20_stab_raw",
    "PV.C20.C20_stab_label",
    "PV.C20.C20_stab",
    "PV.C20.C20_stab_bars_hidden",
    "PV.C20.C20_stab_bars_shown",
    "PV.C20.C20_stab_bars_none",
    "PV.C20.C20_stab_count",
    # ordinate = order accepted by extraction, over C11's models ssiMpe / plscfMpe (Props/C20Extract.lean)
    "PV.C20.marker_cell",
    "PV.C20.cell_marker",
    "PV.C20.C20_stab_order_mpe_step",
    "PV.C20.C20_stab_order_mpe_partial",
    "PV.C20.C20_stab_stable_order_mpe",
    "PV.C20.C20_stab_order_step_counterexample",
    "PV.C20.C20_cluster_label",
    "PV.C20.C20_cluster",
    "PV.C20.C20_cluster_same_poles",
    # hpat discharged for the tables a run stores (ssiPoles writes Fn and Xi together; one Kept predicate blanks both)
    "PV.Poles.ssiPoles_same_pattern",
    "PV.C20Stored.stored_same_pattern",
    "PV.C20Stored.C20_cluster_same_poles_stored",
    "PV.C20.C20_cmif_request",
    "PV.C20.C20_cmif",
    "PV.C20.C20_cmif_full_rejected",
    "PV.C20.Mutants.M1_fails",
    "PV.C20.Mutants.M2_fails",
    "PV.C20.Mutants.M3_fails",
    "PV.C20.Mutants.M4_fails",
    "PV.C20.Mutants.M5_fails",
    "PV.C20.Mutants.M6_fails",
    "PV.C20.Mutants.M6_repaired",
    "PV.C20.Mutants.M7_fails",
    "PV.C20.Mutants.M8_fails",
]
RULE = (
    "correspondence: random pole/label/covariance tables (1..60 orders, quick <= 20; SSI-triangular, pLSCF-rectangular and "
    "free NaN patterns; frequencies in any unit 1e-8..1e8; error-bar widths a relative 1e-6 beside the 0.5 limit; labels 0/1 plus a "
    "stream with other integers; step 1..3; hide_poles on/off; frequency limits; ordmin >= 0; own figure or an axes handed in "
    "(current / left panel / older figure / figure not managed by pyplot); singular values over 0..320 dB of dynamic range "
    "with exact zeros and any amplitude unit) drawn by the real stab_plot / cluster_plot / CMIF_plot and by plot_stab / plot_cluster / plot_CMIF of all "
    "SSI, pLSCF and FDD classes (results injected, plus real runs on simulated records) on Agg axes; Line2D / PathCollection "
    "/ error-bar cap data read back, NaN-filtered and compared as multisets with the Lean model's lists: markers exactly "
    "(copied floats), error-bar ends and dB curves at 1e-12/1e-11 (one float product / division / log10); for sampled stable "
    "markers (x, y) of the model the real SSI_mpe / pLSCF_mpe([x], order = y // step) against C11's models ssiMpe / plscfMpe "
    "(all outputs), the functions the order theorems are stated about; depth round 2: streams [limits] (get_xlim/get_ylim/"
    "autoscale flags of stab, cluster and CMIF axes vs op plot_limits), [classes Lab in 01], [dB] (Line2D ordinates vs op cmif_db, "
    "the model's 10*log10 over IEEE doubles). oracle: from the "
    "statement, expected markers by a cell loop, order checked by calling the real SSI_mpe / pLSCF_mpe / class mpe with the "
    "marker's ordinate; monitors: nothing drawn on any other axes, returned axes are the ones handed in, caller arrays "
    "unmodified, every object plotted twice and older objects again after newer ones. distinct = distinct (function, rows, cols, step, hide, cov, limits) configurations"
)
EXTRA_TRUSTED = [
    "matplotlib keeps the arrays handed to Axes.plot / scatter / errorbar in the artists it returns (Line2D.get_xdata, "
    "PathCollection.get_offsets, error-bar cap lines) and draws them; numpy log10",
]
ASSUMPTIONS = [
    "np.where / ndarray.flatten(order='F') / zip-by-position of Axes.plot are mirrored by whereEq / flattenF / List.zip "
    "(validated by the correspondence)",
    "Lab, Fn, Xi, Fn_cov have one common shape (numpy would raise otherwise)",
]

TOL_BAR = 1e-12
TOL_DB = 1e-11


# ----------------------------------------------------------------------------- real code access
def _plot():
    from pyoma2.functions import plot

    return plot


def _plt():
    import matplotlib.pyplot as plt

    return plt


def _classes():
    from pyoma2.algorithms import fdd as A_fdd
    from pyoma2.algorithms import plscf as A_pl
    from pyoma2.algorithms import ssi as A_ssi

    return (
        [A_ssi.SSIdat, A_ssi.SSIcov, A_ssi.SSIdat_MS, A_ssi.SSIcov_MS],
        [A_pl.pLSCF, A_pl.pLSCF_MS],
        [A_fdd.FDD, A_fdd.EFDD, A_fdd.FSDD, A_fdd.FDD_MS, A_fdd.EFDD_MS],
    )


# ----------------------------------------------------------------------------- reading artists back
def _finite(*v):
    return all(isinstance(a, (int, float, np.floating, np.integer)) and math.isfinite(float(a)) for a in v)


def read_axes(ax):
    """-> dict(lines=[[(x,y)..]..] marker lines in draw order (all points, NaN kept),
    scatters=[[(x,y)..]..], bars=[[(left,right,y)..]..] one list per errorbar call)"""
    from matplotlib.collections import PathCollection
    from matplotlib.container import ErrorbarContainer

    caps = set()
    bars = []
    for c in ax.containers:
        if isinstance(c, ErrorbarContainer):
            _, caplines, _ = c.lines
            for l in caplines:
                caps.add(id(l))
            if len(caplines) == 2:
                lo, hi = caplines
                xl = np.asarray(lo.get_xdata(orig=True), float)
                xr = np.asarray(hi.get_xdata(orig=True), float)
                yy = np.asarray(lo.get_ydata(orig=True), float)
                bars.append(list(zip(xl.tolist(), xr.tolist(), yy.tolist())))
            else:
                bars.append(None)
    lines = []
    for l in ax.lines:
        if id(l) in caps:
            continue
        x = np.asarray(l.get_xdata(orig=True), float)
        y = np.asarray(l.get_ydata(orig=True), float)
        lines.append(list(zip(x.tolist(), y.tolist())))
    scatters = []
    for c in ax.collections:
        if isinstance(c, PathCollection):
            off = np.ma.filled(np.ma.asarray(c.get_offsets(), dtype=float), np.nan)
            scatters.append([(float(a), float(b)) for a, b in off])
    return {"lines": lines, "scatters": scatters, "bars": bars}


def drawn(points):
    """multiset (sorted list) of the points matplotlib can draw: all coordinates finite"""
    return sorted(tuple(float(a) for a in p) for p in points if _finite(*p))


# ----------------------------------------------------------------------------- model side
def tab(a):
    return [[Ro(v) for v in row] for row in np.asarray(a, float)]


def itab(a):
    return [[int(v) for v in row] for row in np.asarray(a)]


def model_stab(ctx, Fn, Lab, step, hide, cov):
    out = ctx.model("stab_markers", Fn=tab(Fn), Lab=itab(Lab), step=int(step), hide=bool(hide), cov=None if cov is None else tab(cov))
    st = [(fl(x), float(y)) for x, y in out["stable"]]
    un = None if out["unstable"] is None else [(fl(x), float(y)) for x, y in out["unstable"]]
    bars = []
    for b in out["bars"]:
        lst = []
        for x, y, e in b:
            if x is None or e is None:
                continue
            xf, ef = fl(x), fl(e)
            lst.append((xf - ef, xf + ef, float(y)))
        bars.append(sorted(lst))
    return st, un, bars


def model_cluster(ctx, Fn, Xi, Lab, hide):
    out = ctx.model("cluster_markers", Fn=tab(Fn), Xi=tab(Xi), Lab=itab(Lab), hide=bool(hide))
    st = [(fl(x), fl(y)) for x, y in out["stable"]]
    un = None if out["unstable"] is None else [(fl(x), fl(y)) for x, y in out["unstable"]]
    return st, un


def bars_close(a, b):
    if len(a) != len(b):
        return False
    for p, q in zip(a, b):
        if p[2] != q[2]:
            return False
        sc = max(1.0, abs(p[0]), abs(p[1]))
        if abs(p[0] - q[0]) > TOL_BAR * sc or abs(p[1] - q[1]) > TOL_BAR * sc:
            return False
    return True


def cmp_stab(read, st, un, bars):
    """compare artists read back with the model's lists; returns (ok, why)"""
    if len(read["lines"]) != 1:
        return False, f"{len(read['lines'])} marker lines"
    if drawn(read["lines"][0]) != drawn(st):
        return False, "stable markers differ"
    if len(read["lines"][0]) != len(st):
        return False, "stable vector length differs"
    if un is None:
        if read["scatters"]:
            return False, "scatter present though unstable poles hidden"
    else:
        if len(read["scatters"]) != 1:
            return False, f"{len(read['scatters'])} scatters"
        if drawn(read["scatters"][0]) != drawn(un):
            return False, "unstable markers differ"
    if len(read["bars"]) != len(bars):
        return False, f"{len(read['bars'])} errorbar calls, model {len(bars)}"
    for rb, mb in zip(read["bars"], bars):
        if rb is None:
            return False, "errorbar without two cap lines"
        if not bars_close(drawn(rb), mb):
            return False, "error bars differ"
    return True, ""


def cmp_cluster(read, st, un):
    if len(read["lines"]) != 1:
        return False, f"{len(read['lines'])} marker lines"
    if drawn(read["lines"][0]) != drawn(st):
        return False, "stable markers differ"
    if un is None:
        if read["scatters"]:
            return False, "scatter present though unstable poles hidden"
    else:
        if len(read["scatters"]) != 1 or drawn(read["scatters"][0]) != drawn(un):
            return False, "unstable markers differ"
    return True, ""


# ----------------------------------------------------------------------------- generators
def gen_tables(ctx, maxord=None, labels="01"):
    """a pole table set: Fn, Xi (shared NaN pattern unless stated), Lab, cov (or None), Phi"""
    rng = ctx.rng
    g = ctx.nprng()
    if maxord is None:
        maxord = ctx.n(20, 60)
    kind = rng.choice(["ssi", "plscf", "free", "free"])
    ordmax = rng.randint(1, maxord)
    if kind == "ssi":  # (ordmax, ordmax+1), column c holds <= c poles
        Rr, Cc = ordmax, ordmax + 1
        mask = np.array([[r < c for c in range(Cc)] for r in range(Rr)])
    elif kind == "plscf":  # rows = poles of the highest order, every column partly filled
        nch = rng.randint(1, 3)
        Rr, Cc = (ordmax + 1) * nch, ordmax
        mask = np.array([[r < (c + 2) * nch for c in range(Cc)] for r in range(Rr)])
    else:
        Rr, Cc = rng.randint(1, min(maxord, 25)), rng.randint(1, maxord + 1)
        mask = np.ones((Rr, Cc), bool)
    keep = g.random((Rr, Cc)) < rng.choice([0.15, 0.5, 0.9, 1.0])
    mask = mask & keep
    if rng.random() < 0.15:  # a few repeated frequencies: multiplicities must be kept
        base = np.round(g.uniform(0.5, 40.0, (Rr, Cc)), 1)
    else:
        base = g.uniform(0.5, 40.0, (Rr, Cc))
    if rng.random() < 0.1:
        base[g.random((Rr, Cc)) < 0.1] *= -1.0  # negative "frequencies" are still finite numbers
    if rng.random() < 0.25:  # the diagrams copy values: any unit of frequency (1e-8 .. 1e8)
        base = base * 10.0 ** rng.choice([-8, -5, -3, 3, 5, 8])
    Fn = np.where(mask, base, np.nan)
    Xi = np.where(mask, g.uniform(0.001, 0.09, (Rr, Cc)), np.nan)
    if labels == "01":
        Lab = (g.random((Rr, Cc)) < rng.choice([0.2, 0.5, 0.8])).astype(int)
        if rng.random() < 0.7:
            Lab = np.where(mask, Lab, 0)  # SC_apply leaves rejected poles at 0
    else:
        Lab = g.integers(-1, 8, (Rr, Cc))
    cov = None
    if rng.random() < 0.55:
        # |cov*Fn| on both sides of 0.5, away from the threshold
        e = np.where(g.random((Rr, Cc)) < 0.7, g.uniform(0.0, 0.45, (Rr, Cc)), g.uniform(0.55, 3.0, (Rr, Cc)))
        # widths a relative 1e-6 beside the 0.5 limit, on either side (rounding is 1e-16: no tie)
        near = g.random((Rr, Cc)) < 0.1
        e = np.where(near, 0.5 * (1.0 + 1e-6 * np.where(g.random((Rr, Cc)) < 0.5, 1.0, -1.0)), e)
        cov = e / np.abs(np.where(mask, base, 1.0))
        cov = np.where(g.random((Rr, Cc)) < 0.85, cov, np.nan)  # HC_cov leaves NaN above the limit
        if rng.random() < 0.7:
            cov = np.where(mask, cov, np.nan)
        prod = np.abs(cov * Fn)
        cov = np.where(np.abs(prod - 0.5) < 1e-9, np.nan, cov)
    nch = rng.randint(1, 3)
    Phi = (g.standard_normal((Rr, Cc, nch)) + 1j * g.standard_normal((Rr, Cc, nch)))
    Phi = np.where(mask[:, :, None], Phi, np.nan)
    return {"kind": kind, "Fn": Fn, "Xi": Xi, "Lab": Lab, "cov": cov, "Phi": Phi, "ordmax": ordmax}


def gen_limits(ctx):
    r = ctx.rng.random()
    if r < 0.4:
        return None
    a = ctx.rng.uniform(0.0, 20.0)
    return (a, a + ctx.rng.uniform(0.1, 30.0))


def gen_S(ctx):
    g = ctx.nprng()
    n = ctx.rng.randint(1, 6)
    nf = ctx.rng.randint(1, ctx.n(80, 400))
    S = g.uniform(-1.0, 1.0, (n, n, nf))  # off-diagonal garbage: only the diagonal may be used
    for k in range(n):
        S[k, k, :] = g.uniform(0.05, 10.0, nf) / (k + 1)
    if ctx.rng.random() < 0.3 and nf > 2:  # repeated maximum: first index rule
        j = ctx.rng.randrange(nf)
        S[0, 0, j] = S[0, 0, :].max()
    if ctx.rng.random() < 0.3 and n > 1:  # a lower singular value exceeding the first one's maximum somewhere
        S[1, 1, ctx.rng.randrange(nf)] = S[0, 0, :].max() * 1.5
    r = ctx.rng.random()
    if r < 0.5:
        # the level is relative: any amplitude unit, and any dynamic range (rank-deficient spectral matrices
        # and noise-free records give singular values 150-320 dB below the largest one; empty lines give 0)
        for k in range(n):
            S[k, k, :] *= 10.0 ** (-ctx.rng.uniform(0.0, 7.0) * k)
            hit = g.random(nf) < 0.15
            S[k, k, :] = np.where(hit, S[k, k, :] * 10.0 ** g.uniform(-16.0, -9.0, nf), S[k, k, :])
        if ctx.rng.random() < 0.4:
            k = ctx.rng.randrange(n)
            j = ctx.rng.randrange(nf)
            if not (k == 0 and S[0, 0, j] == S[0, 0, :].max()):
                S[k, k, j] = 0.0
        S *= 10.0 ** ctx.rng.choice([-8, -4, 0, 4, 8])
    freq = np.linspace(0.0, ctx.rng.uniform(1.0, 50.0), nf)
    return S, freq


def simulate(ctx, N=900, nch=3, fs=20.0):
    """response of a few lightly damped modes to white noise (for the real runs)"""
    from scipy.signal import lfilter

    g = ctx.nprng()
    nm = ctx.rng.randint(2, 3)
    fr = sorted(ctx.rng.uniform(1.0, 8.0) for _ in range(nm))
    Y = np.zeros((N, nch))
    for f in fr:
        xi = ctx.rng.uniform(0.005, 0.03)
        w = 2 * np.pi * f
        lam = np.exp((-xi * w + 1j * w * np.sqrt(1 - xi**2)) / fs)
        a = [1.0, -2 * lam.real, abs(lam) ** 2]
        q = lfilter([1.0], a, g.standard_normal(N))
        Y += np.outer(q / q.std(), g.standard_normal(nch))
    Y += 0.02 * g.standard_normal((N, nch))
    return Y, fs


# ----------------------------------------------------------------------------- correspondence
def _mk_ssi(cls, T, step=1, with_cov=True, ordmin=0):
    from pyoma2.algorithms.data.result import SSIResult

    a = cls(name="c20", br=5, ordmax=max(1, T["Fn"].shape[1] - 1), ordmin=ordmin, step=step)
    cov = T["cov"] if with_cov else None
    a.result = SSIResult(
        Fn_poles=T["Fn"], Xi_poles=T["Xi"], Phi_poles=T["Phi"], Lab=T["Lab"], Fn_poles_cov=cov,
        Xi_poles_cov=cov, Phi_poles_cov=None if cov is None else np.abs(T["Phi"]),
    )
    return a


def _mk_plscf(cls, T, ordmin=0):
    from pyoma2.algorithms.data.result import pLSCFResult

    a = cls(name="c20", ordmax=max(1, T["Fn"].shape[1]), ordmin=ordmin)
    a.result = pLSCFResult(Fn_poles=T["Fn"], Xi_poles=T["Xi"], Phi_poles=T["Phi"], Lab=T["Lab"])
    return a


def _mk_fdd(cls, S, freq):
    a = cls(name="c20", nxseg=64)
    a.result = a.ResultCls(freq=freq, S_val=S)
    return a


AXMODES = ["current", "left", "other_fig", "unmanaged"]


def _make_axes(mode):
    """an axes for the callee to draw on (documented fig=/ax= parameters):
    current   — pyplot's current axes;
    left      — left panel of a two-panel figure (pyplot's current axes is the right panel);
    other_fig — an axes of an earlier figure, another figure having been created since;
    unmanaged — an axes of a matplotlib Figure that pyplot does not manage (as the pole picker uses)"""
    plt = _plt()
    if mode == "current":
        fig, ax = plt.subplots()
    elif mode == "left":
        fig, (ax, _) = plt.subplots(1, 2)
    elif mode == "other_fig":
        fig, ax = plt.subplots()
        plt.subplots()
    else:
        from matplotlib.backends.backend_agg import FigureCanvasAgg
        from matplotlib.figure import Figure

        fig = Figure()
        FigureCanvasAgg(fig)
        ax = fig.add_subplot(111)
    return fig, ax


def _all_axes(extra_figs):
    from matplotlib._pylab_helpers import Gcf

    figs = [m.canvas.figure for m in Gcf.get_all_fig_managers()] + [f for f in extra_figs if f is not None]
    seen, out = set(), []
    for f in figs:
        for x in f.axes:
            if id(x) not in seen:
                seen.add(id(x))
                out.append(x)
    return out


def _call(fn, *a, axmode=None, fresh=True, leave_open=False, **k):
    """run a plotting call; -> (axes-read | None, exception | None); figures are closed.
    With `axmode` the callee is handed fig=/ax=; the read then also tells whether the returned
    figure/axes are the ones handed in, and how many data artists were left on ANY other axes."""
    plt = _plt()
    if fresh:  # otherwise the charts of the previous call are still on screen, as in an interactive session
        plt.close("all")
    fig0 = ax0 = None
    if axmode is not None:
        fig0, ax0 = _make_axes(axmode)
        k = dict(k, fig=fig0, ax=ax0)
    nart = lambda x: len(x.lines) + len(x.collections) + len(x.containers)  # noqa: E731
    before = {id(x): nart(x) for x in _all_axes([fig0])}  # charts still open from earlier calls: their artists are theirs
    try:
        fig, ax = fn(*a, **k)
    except Exception as e:  # noqa: BLE001
        plt.close("all")
        return None, e
    try:
        rd = read_axes(ax)
        rd["xlim"] = tuple(ax.get_xlim())
        rd["ylim"] = tuple(ax.get_ylim())  # depth round 2 (g19): limits as model facts
        rd["autox"] = bool(ax.get_autoscalex_on())
        rd["autoy"] = bool(ax.get_autoscaley_on())
        rd["same_axes"] = ax0 is None or (ax is ax0 and fig is fig0)
        rd["foreign"] = sum(nart(x) - before.get(id(x), 0) for x in _all_axes([fig0, getattr(ax, "figure", None)]) if x is not ax)
        # a chart drawn on axes that already carried an earlier chart is not a chart of its own
        rd["reused_axes"] = before.get(id(ax), 0) > 0 and ax is not ax0
    finally:
        if not leave_open:
            plt.close("all")
    return rd, None


def _snap(*arrs):
    return [None if a is None else np.array(a, copy=True) for a in arrs]


def _unchanged(snap, *arrs):
    for b, a in zip(snap, arrs):
        if b is None:
            if a is not None:
                return False
            continue
        a = np.asarray(a)
        if a.shape != b.shape or a.dtype != b.dtype:
            return False
        if a.dtype.kind in "fc":
            if not np.array_equal(a, b, equal_nan=True):
                return False
        elif not np.array_equal(a, b):
            return False
    return True


def _inp(T, **kw):
    d = {"Fn": T["Fn"], "Lab": T["Lab"]}
    d.update(kw)
    return d


def corr_limits(ctx, fname, kind, rd, lim, hide=False, ords=None):
    """depth round 2 (g19): the limits the function sets on its axes against the model fact (op plot_limits:
    stabLimits / clusterLimits / cmifLimits): x-limits = the user's pair, BOTH ends, autoscale left on without freqlim;
    y-limits = [ordmin, ordmax + 1] only for the stabilisation chart with the unstable poles shown"""
    ordmin, ordmax = ords if ords is not None else (0, 0)
    m = ctx.model("plot_limits", fn=kind, freqlim=None if lim is None else [R(lim[0]), R(lim[1])], hide=bool(hide),
                  ordmin=int(ordmin), ordmax=int(ordmax))
    if m["xlim"] is None:
        ok, why = rd["autox"], "x autoscale switched off without freqlim"
    else:
        ok, why = (not rd["autox"]) and rd["xlim"] == (fl(m["xlim"][0]), fl(m["xlim"][1])), "xlim"
    if ok and (ords is not None or kind != "stab"):
        if m["ylim"] is None:
            ok, why = rd["autoy"], "y-limits set although the model sets none"
        else:
            ok, why = (not rd["autoy"]) and rd["ylim"] == (float(m["ylim"][0]), float(m["ylim"][1])), "ylim"
    ctx.corr(f"{fname}[limits]", ok, {"freqlim": lim, "hide": hide, "ords": ords}, m, {k: rd[k] for k in ("xlim", "ylim", "autox", "autoy")},
             (kind, lim is not None, hide, ords is not None))
    ctx.count(f"limits_{kind}_{'set' if lim is not None else 'none'}")


def corr_classes01(ctx, fname, rd, T, hide, both=False):
    """depth round 2 (g19): Lab in {0, 1} (C20_stab_other_shown / C20_cluster_classes_01): with the unstable poles shown every
    retained pole has exactly one marker, stable or unstable; `both`: cluster (Fn and Xi finite)"""
    Lab = np.asarray(T["Lab"])
    if hide or not np.all((Lab == 0) | (Lab == 1)) or len(rd["lines"]) != 1 or len(rd["scatters"]) != 1:
        return
    kept = np.isfinite(T["Fn"]) & (np.isfinite(T["Xi"]) if both else True)
    pts = drawn(rd["lines"][0]) + drawn(rd["scatters"][0])
    ok = len(pts) == int(kept.sum()) and len(drawn(rd["lines"][0])) == int((kept & (Lab == 1)).sum())
    ctx.corr(f"{fname}[classes Lab in 01]", ok, _inp(T, hide=hide), int(kept.sum()), len(pts), (T["Fn"].shape, both))
    ctx.count("classes01_cases")


def corr_stab_case(ctx, fname, call, T, step, hide, cov, lim, ords=None):
    rd, exc = call()
    st, un, bars = model_stab(ctx, T["Fn"], T["Lab"], step, hide, cov)
    key = (T["Fn"].shape, step, hide, cov is not None, lim is not None)
    if exc is not None:
        ctx.corr(fname, False, _inp(T, step=step, hide=hide, cov=cov, freqlim=lim), "markers", repr(exc), key)
        return
    ok, why = cmp_stab(rd, st, un, bars)
    if ok and (rd["foreign"] or not rd["same_axes"]):
        ok, why = False, "artists on another axes"
    if ok and lim is not None:
        ok = rd["xlim"] == (lim[0], lim[1])
        why = "xlim"
    ctx.corr(fname, ok, _inp(T, step=step, hide=hide, cov=cov, freqlim=lim), why, why, key)
    corr_limits(ctx, fname, "stab", rd, lim, hide, ords)
    corr_classes01(ctx, fname, rd, T, hide)
    return st


def corr_mpe_at_markers(ctx, T, step, st, budget=2):
    """extraction side of 'ordinate = order accepted by extraction': for some stable markers (x, y) of the model,
    the real SSI_mpe / pLSCF_mpe([x], Fn, Xi, Phi, order = y // step) against C11's models ssiMpe / plscfMpe (ops
    ssi_mpe / plscf_mpe) - the functions C20_stab_order_mpe_step / _partial are stated about; all outputs."""
    from c11 import call_plscf, call_ssi, model_inp, same_out

    pts = [(x, y) for (x, y) in (st or []) if not math.isnan(x)]
    if not pts or "Phi" not in T or T["Fn"].size > 600:
        return
    ctx.rng.shuffle(pts)
    g = ctx.nprng()
    shp = T["Fn"].shape
    for (x, y) in pts[:budget]:
        cov = None
        if ctx.rng.random() < 0.5:
            cov = {"fn": np.where(np.isnan(T["Fn"]), np.nan, g.integers(1, 99, shp) / 8192),
                   "xi": np.where(np.isnan(T["Fn"]), np.nan, g.integers(1, 99, shp) / 8192),
                   "phi": np.where(np.isnan(T["Phi"].real), np.nan, g.integers(1, 99, T["Phi"].shape) / 8192)}
        case = {"freq": [float(x)], "Fn": T["Fn"], "Xi": T["Xi"], "Phi": T["Phi"], "Lab": None, "order": int(y) // int(step),
                "rtol": ctx.rng.choice([1e-2, 1e-3, 1e-12, 0.0]), "deltaf": 0.05, "cov": cov, "kind": "int"}
        for which, call, op in (("ssi", call_ssi, "ssi_mpe"), ("plscf", call_plscf, "plscf_mpe")):
            impl = call(case)
            inp = model_inp(case, which)
            model = ctx.model(op, **inp)
            ok = same_out(model, impl) and "exc" not in impl
            ctx.corr(f"mpe_at_marker[{'SSI_mpe' if which == 'ssi' else 'pLSCF_mpe'}]", ok, inp if not ok else None, model, impl,
                     (shp, step, cov is not None))
        ctx.count("mpe_at_marker")


def corr_cluster_case(ctx, fname, call, T, hide, lim):
    rd, exc = call()
    st, un = model_cluster(ctx, T["Fn"], T["Xi"], T["Lab"], hide)
    key = (T["Fn"].shape, hide, lim is not None)
    if exc is not None:
        ctx.corr(fname, False, _inp(T, Xi=T["Xi"], hide=hide, freqlim=lim), "markers", repr(exc), key)
        return
    ok, why = cmp_cluster(rd, st, un)
    ctx.corr(fname, ok, _inp(T, Xi=T["Xi"], hide=hide, freqlim=lim), why, why, key)
    corr_limits(ctx, fname, "cluster", rd, lim)
    corr_classes01(ctx, fname, rd, T, hide, both=True)


def corr_cmif_case(ctx, fname, call, S, freq, nSv, lim):
    n, nf = S.shape[1], S.shape[2]
    diag = [[R(S[k, k, f]) for f in range(nf)] for k in range(S.shape[0])]
    out = ctx.model("cmif_curves", S=diag, n=n, nf=nf, nSv=None if nSv == "all" else int(nSv))
    rd, exc = call()
    key = (n, nf > 1, nSv if nSv == "all" else int(np.sign(int(nSv) - n)), lim is not None)
    inp = {"S_val": S, "freq": freq, "nSv": nSv, "freqlim": lim}
    if "raise" in out:
        ctx.corr(fname, isinstance(exc, ValueError), inp, out, repr(exc), key)
        ctx.count("cmif_rejected")
        return
    if exc is not None:
        ctx.corr(fname, False, inp, "curves", repr(exc), key)
        return
    curves = out["curves"]
    ok = len(rd["lines"]) == len(curves) and not rd["scatters"] and not rd["foreign"] and rd["same_axes"]
    why = "number of curves / axes"
    if ok:
        for ln, cv in zip(rd["lines"], curves):
            x = np.array([p[0] for p in ln])
            y = np.array([p[1] for p in ln])
            want = 10 * np.log10(np.array([fl(v) for v in cv]))
            if len(x) != nf or not np.array_equal(x, freq) or not np.allclose(y, want, rtol=TOL_DB, atol=TOL_DB):
                ok = False
                why = "curve data"
                break
    ctx.corr(fname, ok, inp, why, why, key)
    ctx.count("cmif_accepted")
    # depth round 2 (g19): the decibel ordinates as a MODEL fact (op cmif_db: cmifCurvesDb 10 log10Float, IEEE doubles
    # as bit patterns; an exact zero of a singular value is -inf dB) and the x-limits
    import struct

    mdb = ctx.model("cmif_db", S=diag, n=n, nf=nf, nSv=None if nSv == "all" else int(nSv))
    okdb = "curves" in mdb and len(mdb["curves"]) == len(rd["lines"])
    if okdb:
        for ln, cv in zip(rd["lines"], mdb["curves"]):
            y = np.array([p[1] for p in ln])
            want = np.array([struct.unpack("<d", struct.pack("<Q", int(b)))[0] for b in cv])
            fin = np.isfinite(want)
            if len(y) != len(want) or not np.array_equal(np.isneginf(y), np.isneginf(want)) or np.any(np.isnan(want) != np.isnan(y)) \
                    or not np.allclose(y[fin], want[fin], rtol=TOL_DB, atol=TOL_DB):
                okdb = False
                break
    ctx.corr(f"{fname}[dB]", okdb, inp, "model dB curves", "Line2D ydata", key)
    corr_limits(ctx, fname, "cmif", rd, lim)


# --- default values as regenerated obligations (Generated/Defaults.lean <- harness/translate_defaults.py; stream defaults[...])
import defaults_stream  # noqa: E402
from common import all_pre_build as pre_build  # noqa: E402,F401,F811  (runs EVERY translate_*.py)
LEAN_MODULES += ["PyomaVerif.Props.WiringDefaultsC20", "PyomaVerif.Props.WiringDefaultsLab"]
THEOREMS += ["PV.WiringDefaults.C20_plot_defaults", "PV.WiringDefaults.C11_label_literals"]


def correspondence(ctx):
    defaults_stream.correspondence(ctx, props=('C20',))
    plot = _plot()
    plt = _plt()
    ssi_cls, pl_cls, fdd_cls = _classes()
    rng = ctx.rng
    # ---- functions
    for k in range(ctx.n(36, 700)):
        T = gen_tables(ctx, labels="01" if rng.random() < 0.85 else "any")
        step = rng.choice([1, 1, 2, 3])
        hide = rng.random() < 0.5
        lim = gen_limits(ctx)
        cov = T["cov"]
        axmode = rng.choice([None, None] + AXMODES)
        ordmax = T["Fn"].shape[1] * step
        ordmin = rng.choice([0, 0, rng.randint(0, ordmax)])  # only the y-limits may depend on it
        st = corr_stab_case(
            ctx, "stab_plot",
            lambda: _call(plot.stab_plot, T["Fn"], T["Lab"], step, ordmax, ordmin=ordmin, freqlim=lim, hide_poles=hide, Fn_cov=cov, axmode=axmode),
            T, step, hide, cov, lim, ords=(ordmin, ordmax),
        )
        corr_mpe_at_markers(ctx, T, step, st)
        ctx.count(f"ax_{axmode}")
        ctx.count(f"tables_{T['kind']}")
        ctx.count("hide" if hide else "show")
        ctx.count("cov" if cov is not None else "nocov")
        ctx.count(f"step{step}")
        if k % 2 == 0:
            Tc = dict(T)
            if rng.random() < 0.3:  # damping table with its own NaN pattern (model mirrors it as coded)
                Tc["Xi"] = np.where(ctx.nprng().random(T["Xi"].shape) < 0.8, T["Xi"], np.nan)
            corr_cluster_case(
                ctx, "cluster_plot",
                lambda Tc=Tc: _call(plot.cluster_plot, Tc["Fn"], Tc["Xi"], Tc["Lab"], ordmin, lim, hide), Tc, hide, lim,
            )
        if k == 0:
            ctx.sample({"Fn_shape": list(T["Fn"].shape), "kind": T["kind"], "step": step, "hide": hide, "cov": cov is not None,
                        "n_finite": int(np.isfinite(T["Fn"]).sum()), "n_stable": int(((T["Lab"] == 1) & np.isfinite(T["Fn"])).sum())})
    for k in range(ctx.n(14, 300)):
        S, freq = gen_S(ctx)
        n = S.shape[1]
        nSv = rng.choice(["all", "all", n - 1, n, n + 1, 0, 1, rng.randint(-2, n + 2)])
        lim = gen_limits(ctx)
        axmode = rng.choice([None, None] + AXMODES)
        corr_cmif_case(ctx, "CMIF_plot", lambda: _call(plot.CMIF_plot, S, freq, freqlim=lim, nSv=nSv, axmode=axmode), S, freq, nSv, lim)
    # ---- classes, injected results
    for k in range(ctx.n(10, 200)):
        T = gen_tables(ctx)
        hide = rng.random() < 0.5
        lim = gen_limits(ctx)
        cls = rng.choice(ssi_cls)
        ordmin = rng.choice([0, rng.randint(0, max(0, T["Fn"].shape[1] - 1))])
        a = _mk_ssi(cls, T, step=1, with_cov=True, ordmin=ordmin)
        corr_stab_case(ctx, f"{cls.__name__}.plot_stab", lambda: _call(a.plot_stab, freqlim=lim, hide_poles=hide), T, 1, hide, T["cov"], lim,
                       ords=(a.run_params.ordmin, a.run_params.ordmax))
        corr_cluster_case(ctx, f"{cls.__name__}.plot_cluster", lambda: _call(a.plot_cluster, freqlim=lim, hide_poles=hide), T, hide, lim)
        cls = rng.choice(pl_cls)
        b = _mk_plscf(cls, T, ordmin=ordmin)
        corr_stab_case(ctx, f"{cls.__name__}.plot_stab", lambda: _call(b.plot_stab, freqlim=lim, hide_poles=hide), T, 1, hide, None, lim,
                       ords=(b.run_params.ordmin, b.run_params.ordmax))
        corr_cluster_case(ctx, f"{cls.__name__}.plot_cluster", lambda: _call(b.plot_cluster, freqlim=lim, hide_poles=hide), T, hide, lim)
        S, freq = gen_S(ctx)
        cls = rng.choice(fdd_cls)
        c = _mk_fdd(cls, S, freq)
        nSv = rng.choice(["all", S.shape[1] - 1, S.shape[1], 1])
        corr_cmif_case(ctx, f"{cls.__name__}.plot_CMIF", lambda: _call(c.plot_CMIF, freqlim=lim, nSv=nSv), S, freq, nSv, lim)
    # ---- classes, real runs
    for k in range(ctx.n(2, 12)):
        for a, kind in real_runs(ctx):
            hide = rng.random() < 0.5
            lim = gen_limits(ctx)
            res = a.result
            if kind == "fdd":
                nSv = rng.choice(["all", 1, res.S_val.shape[1] - 1])
                corr_cmif_case(ctx, f"{type(a).__name__}.plot_CMIF[run]", lambda: _call(a.plot_CMIF, freqlim=lim, nSv=nSv), res.S_val, res.freq, nSv, lim)
                continue
            T = {"Fn": res.Fn_poles, "Xi": res.Xi_poles, "Lab": res.Lab}
            cov = getattr(res, "Fn_poles_cov", None)
            if cov is not None and np.any(np.abs(np.abs(cov * res.Fn_poles) - 0.5) < 1e-9):
                ctx.skipped += 1
                continue
            corr_stab_case(ctx, f"{type(a).__name__}.plot_stab[run]", lambda: _call(a.plot_stab, freqlim=lim, hide_poles=hide), T, 1, hide, cov, lim)
            corr_cluster_case(ctx, f"{type(a).__name__}.plot_cluster[run]", lambda: _call(a.plot_cluster, freqlim=lim, hide_poles=hide), T, hide, lim)
            ctx.count(f"run_{kind}_finite_poles", int(np.isfinite(res.Fn_poles).sum()))
            ctx.count(f"run_{kind}_stable_poles", int(((res.Lab == 1) & np.isfinite(res.Fn_poles)).sum()))


def real_runs(ctx):
    """one identified result per algorithm family on a simulated record"""
    from pyoma2.algorithms import fdd as A_fdd
    from pyoma2.algorithms import plscf as A_pl
    from pyoma2.algorithms import ssi as A_ssi

    Y, fs = simulate(ctx)
    out = []
    hc = dict(conj=True, xi_max=0.2, mpc_lim=0.3, mpd_lim=0.8, cov_max=10.0)
    sc = dict(err_fn=0.02, err_xi=0.2, err_phi=0.1)
    cls = ctx.rng.choice([A_ssi.SSIcov, A_ssi.SSIcov, A_ssi.SSIdat])
    unc = cls is A_ssi.SSIcov and ctx.rng.random() < 0.6  # uncertainty exists for cov_mm only
    om = ctx.rng.randint(8, 14)
    a = cls(name="run", br=8, ordmax=om, ordmin=ctx.rng.choice([0, ctx.rng.randint(1, om // 2)]), calc_unc=unc, nb=12, hc=hc, sc=sc)
    a._set_data(data=Y, fs=fs)
    a.result = a.run()
    out.append((a, "ssi_unc" if unc else "ssi"))
    b = A_pl.pLSCF(name="run", ordmax=ctx.rng.randint(5, 10), ordmin=ctx.rng.choice([0, 2]), nxseg=128, hc=dict(conj=True, xi_max=0.2, mpc_lim=0.3, mpd_lim=0.8), sc=sc)
    b._set_data(data=Y, fs=fs)
    b.result = b.run()
    out.append((b, "plscf"))
    # nxseg=512 on 900 samples: two averaged segments for three channels -> a numerically singular spectral matrix
    c = A_fdd.FDD(name="run", nxseg=ctx.rng.choice([128, 512]))
    c._set_data(data=Y, fs=fs)
    c.result = c.run()
    out.append((c, "fdd"))
    return out


# ----------------------------------------------------------------------------- oracle (from the statement)
def expected_markers(Fn, Other, Lab, label, yfun):
    """cell loop: one (Fn[r,c], y) per cell with that label and a frequency that is a number
    (and, for the cluster diagram, a damping that is a number)"""
    out = []
    Rr, Cc = Fn.shape
    for c in range(Cc):
        for r in range(Rr):
            if Lab[r, c] == label and not math.isnan(Fn[r, c]):
                y = yfun(r, c)
                if Other is not None and math.isnan(y):
                    continue
                out.append((float(Fn[r, c]), float(y)))
    return sorted(out)


class _Once:
    """at most a few records per sig (keeps replays small)"""

    def __init__(self, ctx):
        self.ctx = ctx
        self.seen = {}

    def __call__(self, sig, what, inp, observed=None, expected=None):
        self.seen[sig] = self.seen.get(sig, 0) + 1
        if self.seen[sig] <= 2:
            self.ctx.violation(sig, what, inp, observed, expected)


def _tinp(T, **kw):
    d = {"Fn": T["Fn"].tolist(), "Lab": np.asarray(T["Lab"]).tolist()}
    for k, v in kw.items():
        d[k] = v.tolist() if isinstance(v, np.ndarray) else v
    return d


def check_order_by_mpe(mpe_fn, markers, budget, rng):
    """for some drawn markers (x, y): extraction with order = y must return exactly the pole x.
    -> None or (marker, what-came-back)"""
    pts = [m for m in markers]
    rng.shuffle(pts)
    for (x, y) in pts[:budget]:
        if y != int(y):
            return (x, y), "non-integer ordinate"
        try:
            got = mpe_fn(float(x), int(y))
        except Exception as e:  # noqa: BLE001
            return (x, y), f"{type(e).__name__}: {e}"
        got = np.atleast_1d(np.asarray(got, float))
        if got.shape != (1,) or got[0] != x:
            return (x, y), got.tolist()
    return None


def oracle_stab(ctx, V, where, call, T, step, hide, mpe_fn, cov, prefix="", extra=None):
    """`call()` draws; expectations come from the tables alone"""
    snap = _snap(T["Fn"], T["Lab"], cov)
    rd, exc = call()
    ctx.oracle_cases += 1
    inp = _tinp(T, step=step, hide_poles=hide, Fn_cov=cov, where=where)
    inp.update(extra or {})
    if exc is not None:
        V(f"{prefix}stab-raises-{type(exc).__name__}", f"{where}: {type(exc).__name__}: {exc}", inp)
        return
    if not _unchanged(snap, T["Fn"], T["Lab"], cov):
        V(f"{prefix}stab-input-modified", f"{where}: the caller's pole / label / covariance table was modified", inp)
        return
    if not rd["same_axes"]:
        V(f"{prefix}stab-returns-other-axes", f"{where}: the chart is not on the axes handed in", inp)
        return
    if rd["foreign"]:
        V(f"{prefix}stab-foreign-axes", f"{where}: {rd['foreign']} data artists drawn on axes other than the diagram's", inp)
        return
    if rd.get("reused_axes"):
        V(f"{prefix}stab-drawn-over-earlier-chart", f"{where}: the diagram was drawn on axes that still carried an earlier chart (markers of both are displayed)", inp)
        return
    Fn, Lab = T["Fn"], T["Lab"]
    # the ordinate must be the order value the extraction accepts for the pole = its column index
    exp_s = expected_markers(Fn, None, Lab, 1, lambda r, c: c)
    exp_u = expected_markers(Fn, None, Lab, 0, lambda r, c: c)
    got_s = drawn(rd["lines"][0]) if len(rd["lines"]) == 1 else None
    if got_s is None:
        V(f"{prefix}stab-artists", f"{where}: {len(rd['lines'])} marker lines", inp)
        return
    if hide:
        if rd["scatters"] and any(drawn(s) for s in rd["scatters"]):
            V(f"{prefix}stab-hidden-shown", f"{where}: unstable poles drawn although hidden", inp)
            return
        series = [("stable", got_s, exp_s)]
    else:
        got_u = drawn(rd["scatters"][0]) if len(rd["scatters"]) == 1 else None
        if got_u is None:
            V(f"{prefix}stab-artists", f"{where}: {len(rd['scatters'])} scatters with unstable poles shown", inp)
            return
        series = [("stable", got_s, exp_s), ("unstable", got_u, exp_u)]
    for (nm, got, exp) in series:
        if got == exp:
            continue
        if sorted(p[0] for p in got) != sorted(p[0] for p in exp):
            V(f"{prefix}stab-{nm}-set", f"{where}: {nm} markers are not the poles with that label", inp, got[:8], exp[:8])
        elif step != 1 and got == sorted((x, y * step) for x, y in exp):
            bad = check_order_by_mpe(mpe_fn, got, 3, ctx.rng)
            V(f"{prefix}stab-order-step", f"{where}: with step={step} the pole of column c is drawn at c*step, "
              f"but extraction takes the column index as order (marker {bad[0] if bad else None} -> {bad[1] if bad else None})",
              inp, observed=got[:6], expected=exp[:6])
        else:
            V(f"{prefix}stab-{nm}-order", f"{where}: {nm} markers at wrong orders", inp, got[:8], exp[:8])
        return
    # order accepted by extraction, through the real extraction function
    bad = check_order_by_mpe(mpe_fn, got_s + ([] if hide else exp_u), 4, ctx.rng)
    if bad is not None:
        V(f"{prefix}stab-order-mpe", f"{where}: extraction with the marker's order does not return the pole: {bad}", inp)
        return
    # error bars sit on drawn markers of the chart; each is as wide as its own pole's covariance cell says
    if cov is not None:
        allm = got_s + ([] if hide else exp_u)
        ys = {}
        for x, y in allm:
            ys.setdefault(y, []).append(x)
        cell = {}
        Rr, Cc = Fn.shape
        for c in range(Cc):
            for r in range(Rr):
                if not math.isnan(Fn[r, c]) and (Lab[r, c] == 1 or (not hide and Lab[r, c] == 0)):
                    cell.setdefault((float(Fn[r, c]), float(c * step)), []).append((r, c))
        nbars = 0
        for b in rd["bars"]:
            for (l, r, y) in drawn(b or []):
                nbars += 1
                cx = 0.5 * (l + r)
                xs = ys.get(y, [])
                if not xs or min(abs(cx - x) for x in xs) > 1e-9 * max(1.0, abs(cx)):
                    V(f"{prefix}stab-errorbar-off-marker", f"{where}: an error bar centred at ({cx}, {y}) has no marker", inp)
                    return
                x0 = min(xs, key=lambda x: abs(cx - x))
                cells = cell.get((x0, y), [])
                if len(cells) == 1 and sum(1 for x in xs if abs(x - x0) <= 1e-6) == 1:
                    rr, cc = cells[0]
                    want = min(abs(cov[rr, cc] * Fn[rr, cc]), 0.5)
                    if not abs(0.5 * (r - l) - want) <= 1e-9 * max(1.0, abs(cx)):
                        V(f"{prefix}stab-errorbar-width", f"{where}: the error bar of pole ({rr},{cc}) has half-width {0.5 * (r - l)}, "
                          f"its covariance cell gives {want}", inp)
                        return
        nexp = sum(1 for v in cell.values() for (rr, cc) in v if not math.isnan(cov[rr, cc]))
        if nbars != nexp:
            V(f"{prefix}stab-errorbar-count", f"{where}: {nbars} error bars for {nexp} drawn poles with a covariance", inp)
            return
    else:
        if rd["bars"]:
            V(f"{prefix}stab-errorbar-without-cov", f"{where}: error bars without covariances", inp)


def oracle_cluster(ctx, V, where, call, T, hide, prefix="", extra=None):
    snap = _snap(T["Fn"], T["Xi"], T["Lab"])
    rd, exc = call()
    ctx.oracle_cases += 1
    inp = _tinp(T, Xi=T["Xi"], hide_poles=hide, where=where)
    inp.update(extra or {})
    if exc is not None:
        V(f"{prefix}cluster-raises-{type(exc).__name__}", f"{where}: {type(exc).__name__}: {exc}", inp)
        return
    if not _unchanged(snap, T["Fn"], T["Xi"], T["Lab"]):
        V(f"{prefix}cluster-input-modified", f"{where}: the caller's tables were modified", inp)
        return
    if rd["foreign"]:
        V(f"{prefix}cluster-foreign-axes", f"{where}: {rd['foreign']} data artists drawn on axes other than the diagram's", inp)
        return
    Fn, Xi, Lab = T["Fn"], T["Xi"], T["Lab"]
    exp_s = expected_markers(Fn, Xi, Lab, 1, lambda r, c: Xi[r, c])
    exp_u = expected_markers(Fn, Xi, Lab, 0, lambda r, c: Xi[r, c])
    got_s = drawn(rd["lines"][0]) if len(rd["lines"]) == 1 else None
    if got_s != exp_s:
        V(f"{prefix}cluster-stable-set", f"{where}: stable markers are not (frequency, damping) of the stable poles", inp,
          None if got_s is None else got_s[:8], exp_s[:8])
        return
    if hide:
        if rd["scatters"] and any(drawn(s) for s in rd["scatters"]):
            V(f"{prefix}cluster-hidden-shown", f"{where}: unstable poles drawn although hidden", inp)
    else:
        got_u = drawn(rd["scatters"][0]) if len(rd["scatters"]) == 1 else None
        if got_u != exp_u:
            V(f"{prefix}cluster-unstable-set", f"{where}: unstable markers are not the retained poles labelled 0", inp,
              None if got_u is None else got_u[:8], exp_u[:8])


def _np_int(ctx, nreq, prob=0.4):
    """an integer count often arrives as a NumPy integer (np.arange, array shapes, argmax...)"""
    if not isinstance(nreq, str) and ctx.rng.random() < prob:
        ctx.count("cmif_nSv_numpy_integer")
        return ctx.rng.choice([np.int64, np.int32, np.intp])(nreq)
    return nreq


def oracle_cmif(ctx, V, where, call, S, freq, nreq, prefix="", extra=None):
    snap = _snap(S, freq)
    rd, exc = call()
    ctx.oracle_cases += 1
    inp = {"S_val": S.tolist(), "freq": freq.tolist(), "nSv": nreq if isinstance(nreq, str) else int(nreq), "nSv_type": type(nreq).__name__, "where": where}
    inp.update(extra or {})
    n = S.shape[1]
    k_req = n if nreq == "all" else int(nreq)
    if exc is not None:
        V(f"{prefix}cmif-raises-{type(exc).__name__}", f"{where}: admissible nSv={nreq!r} raised {type(exc).__name__}: {exc}", inp)
        return
    if not _unchanged(snap, S, freq):
        V(f"{prefix}cmif-input-modified", f"{where}: the caller's singular-value array / frequency grid was modified", inp)
        return
    if not rd["same_axes"]:
        V(f"{prefix}cmif-returns-other-axes", f"{where}: the plot is not on the axes handed in", inp)
        return
    if rd["foreign"]:
        V(f"{prefix}cmif-foreign-axes", f"{where}: {rd['foreign']} data artists drawn on axes other than the plot's", inp)
        return
    if len(rd["lines"]) != k_req:
        V(f"{prefix}cmif-count", f"{where}: {len(rd['lines'])} curves for nSv={nreq!r}", inp)
        return
    top = max(S[0, 0, f] for f in range(S.shape[2]))

    def db(v):  # decibel level of v relative to top; an empty line (0) is -inf dB
        q = v / top
        return 10 * math.log10(q) if q > 0 else (-math.inf if q == 0 else math.nan)

    for k, ln in enumerate(rd["lines"]):
        x = [p[0] for p in ln]
        y = [p[1] for p in ln]
        if x != freq.tolist():
            V(f"{prefix}cmif-grid", f"{where}: curve {k} is not over the whole frequency grid", inp)
            return
        want = [db(S[k, k, f]) for f in range(S.shape[2])]
        for f, (a, b) in enumerate(zip(y, want)):
            if math.isnan(b):
                continue
            if (math.isinf(b) or math.isinf(a)) and a != b or (not math.isinf(b) and not abs(a - b) <= 1e-9):
                V(f"{prefix}cmif-level", f"{where}: curve {k} is not the dB level relative to the first singular value's maximum "
                  f"(grid point {f}: drawn {a} dB, level {b} dB)", inp)
                return


def _ssi_mpe_fn(T):
    from pyoma2.functions import ssi

    def f(x, order):
        return ssi.SSI_mpe([x], T["Fn"], T["Xi"], T["Phi"], order, Lab=T["Lab"], rtol=1e-12)[0]

    return f


def _plscf_mpe_fn(T):
    from pyoma2.functions import plscf

    def f(x, order):
        return plscf.pLSCF_mpe([x], T["Fn"], T["Xi"], T["Phi"], order, Lab=T["Lab"], rtol=1e-12)[0]

    return f


def _cls_mpe_fn(a):
    def f(x, order):
        a.mpe(sel_freq=[x], order=order, rtol=1e-12)
        return a.result.Fn

    return f


def oracle(ctx, scale):
    plot = _plot()
    rng = ctx.rng
    V = _Once(ctx)
    ssi_cls, pl_cls, fdd_cls = _classes()
    # (1) functions — on their own figure or on an axes handed in (any of the ways a caller may hold one)
    for k in range(ctx.n(30, 600) * scale):
        T = gen_tables(ctx)
        if rng.random() < 0.4:
            # the tables' values are what is displayed, however each of them is stored (independently of the others)
            from common import relayout

            T = {kk: (relayout(ctx, v, 0.6, ("fortran", "strided", "readonly"))[0] if isinstance(v, np.ndarray) else v) for kk, v in T.items()}
        hide = rng.random() < 0.5
        lim = gen_limits(ctx)
        step = rng.choice([1, 1, 1, 2, 3])
        cov = T["cov"]
        ordmax = T["Fn"].shape[1] * step
        ordmin = rng.choice([0, rng.randint(0, ordmax)])
        axmode = rng.choice([None] + AXMODES)
        mpe_fn = _ssi_mpe_fn(T) if rng.random() < 0.5 else _plscf_mpe_fn(T)
        oracle_stab(
            ctx, V, "plot.stab_plot",
            lambda: _call(plot.stab_plot, T["Fn"], T["Lab"], step, ordmax, ordmin=ordmin, freqlim=lim, hide_poles=hide, Fn_cov=cov, axmode=axmode),
            T, step, hide, mpe_fn, cov, extra={"axmode": axmode, "ordmin": ordmin},
        )
        ctx.nontrivial.add(("oracle-stab", T["Fn"].shape, step, hide, cov is not None, lim is not None, axmode, ordmin > 0))
        oracle_cluster(ctx, V, "plot.cluster_plot", lambda: _call(plot.cluster_plot, T["Fn"], T["Xi"], T["Lab"], ordmin, lim, hide), T, hide,
                       extra={"ordmin": ordmin})
    for k in range(ctx.n(14, 250) * scale):
        S, freq = gen_S(ctx)
        n = S.shape[1]
        # admissible as documented: "all", or an integer number of curves below the number of singular values
        nreq = _np_int(ctx, rng.choice(["all", "all"] + list(range(0, n))))
        lim = gen_limits(ctx)
        axmode = rng.choice([None] + AXMODES)
        oracle_cmif(ctx, V, "plot.CMIF_plot", lambda: _call(plot.CMIF_plot, S, freq, freqlim=lim, nSv=nreq, axmode=axmode), S, freq, nreq,
                    extra={"axmode": axmode})
        ctx.nontrivial.add(("oracle-cmif", n, nreq, lim is not None, axmode))
    # (2) classes, non-default run parameters (the SSI classes cannot run with step != 1, pLSCF has none: step = 1);
    #     every object is used twice, and the previous iteration's objects once more after the new ones exist
    prev = None
    for k in range(ctx.n(8, 150) * scale):
        T = gen_tables(ctx)
        hide = rng.random() < 0.5
        lim = gen_limits(ctx)
        ncol = T["Fn"].shape[1]
        ordmin = rng.choice([0, rng.randint(1, max(1, ncol - 1))])
        cls = rng.choice(ssi_cls)
        a = _mk_ssi(cls, T, 1, with_cov=True, ordmin=ordmin)
        nm = cls.__name__
        ex = {"ordmin": ordmin}
        oracle_stab(ctx, V, f"{nm}.plot_stab", lambda: _call(a.plot_stab, freqlim=lim, hide_poles=hide, leave_open=True), T, 1, hide, _cls_mpe_fn(a), T["cov"], prefix="ssi-", extra=ex)
        oracle_cluster(ctx, V, f"{nm}.plot_cluster", lambda: _call(a.plot_cluster, freqlim=lim, hide_poles=hide, fresh=False, leave_open=True), T, hide, prefix="ssi-", extra=ex)
        # the same object's chart again while the first ones are still open (other option): a chart of its own
        oracle_stab(ctx, V, f"{nm}.plot_stab", lambda: _call(a.plot_stab, freqlim=lim, hide_poles=not hide, fresh=False), T, 1, not hide, _cls_mpe_fn(a), T["cov"], prefix="ssi-open-", extra=ex)
        cls = rng.choice(pl_cls)
        b = _mk_plscf(cls, T, ordmin=ordmin)
        nmb = cls.__name__
        oracle_stab(ctx, V, f"{nmb}.plot_stab", lambda: _call(b.plot_stab, freqlim=lim, hide_poles=hide), T, 1, hide, _cls_mpe_fn(b), None, prefix="plscf-", extra=ex)
        oracle_cluster(ctx, V, f"{nmb}.plot_cluster", lambda: _call(b.plot_cluster, freqlim=lim, hide_poles=hide), T, hide, prefix="plscf-", extra=ex)
        # second use of the same object (after extraction calls), other option
        oracle_stab(ctx, V, f"{nm}.plot_stab", lambda: _call(a.plot_stab, hide_poles=not hide), T, 1, not hide, _cls_mpe_fn(a), T["cov"], prefix="ssi-reuse-", extra=ex)
        S, freq = gen_S(ctx)
        cls = rng.choice(fdd_cls)
        c = _mk_fdd(cls, S, freq)
        nreq = _np_int(ctx, rng.choice(["all"] + list(range(0, S.shape[1]))), prob=0.7)
        oracle_cmif(ctx, V, f"{cls.__name__}.plot_CMIF", lambda: _call(c.plot_CMIF, freqlim=lim, nSv=nreq), S, freq, nreq, prefix="fdd-")
        if prev is not None:
            pa, pb, pc, pT, pex, pS, pfreq = prev
            oracle_stab(ctx, V, f"{type(pb).__name__}.plot_stab", lambda: _call(pb.plot_stab, hide_poles=hide), pT, 1, hide, _cls_mpe_fn(pb), None, prefix="plscf-reuse-", extra=pex)
            oracle_cluster(ctx, V, f"{type(pa).__name__}.plot_cluster", lambda: _call(pa.plot_cluster, hide_poles=hide), pT, hide, prefix="ssi-reuse-", extra=pex)
            oracle_cmif(ctx, V, f"{type(pc).__name__}.plot_CMIF", lambda: _call(pc.plot_CMIF, nSv="all"), pS, pfreq, "all", prefix="fdd-reuse-")
        prev = (a, b, c, T, ex, S, freq)
    # (3) real runs (non-default ordmin; short records give numerically singular spectral matrices)
    for k in range(ctx.n(1, 8) * scale):
        for a, kind in real_runs(ctx):
            hide = rng.random() < 0.5
            res = a.result
            nm = type(a).__name__
            if kind == "fdd":
                nreq = rng.choice(["all", "all", 1])
                oracle_cmif(ctx, V, f"{nm}.plot_CMIF[run]", lambda: _call(a.plot_CMIF, nSv=nreq), res.S_val, res.freq, nreq, prefix="fdd-")
                continue
            T = {"Fn": res.Fn_poles, "Xi": res.Xi_poles, "Lab": res.Lab}
            pre = "plscf-" if kind == "plscf" else "ssi-"
            ex = {"ordmin": a.run_params.ordmin}
            oracle_stab(ctx, V, f"{nm}.plot_stab[run]", lambda: _call(a.plot_stab, hide_poles=hide), T, 1, hide, _cls_mpe_fn(a),
                        getattr(res, "Fn_poles_cov", None), prefix=pre, extra=ex)
            oracle_cluster(ctx, V, f"{nm}.plot_cluster[run]", lambda: _call(a.plot_cluster, hide_poles=hide), T, hide, prefix=pre, extra=ex)


# ----------------------------------------------------------------------------- replay
def replay(rec):
    plot = _plot()
    v = rec["violation"]
    inp = v["input"]
    print("replaying", v["sig"], "-", v["what"])

    def arr(x):
        return np.array([[np.nan if (e is None or e == "nan") else e for e in row] for row in x], float)

    class C:
        oracle_cases = 0
        nontrivial = set()
        import random as _r

        rng = _r.Random(0)

        hits = 0

        def violation(self, sig, what, *a, **k):
            C.hits += 1
            print("VIOLATION reproduced:", sig, "-", what)

    ctx = C()
    V = _Once(ctx)
    where = inp.get("where", "")
    if "S_val" in inp:
        S = np.array(inp["S_val"], float)
        freq = np.array(inp["freq"], float)
        nreq = inp["nSv"]
        if inp.get("nSv_type", "int") not in ("int", "str"):
            nreq = getattr(np, inp["nSv_type"])(nreq)
        if where.startswith("plot."):
            oracle_cmif(ctx, V, where, lambda: _call(plot.CMIF_plot, S, freq, nSv=nreq, axmode=inp.get("axmode")), S, freq, nreq)
        else:
            _, _, fdd_cls = _classes()
            cls = [c for c in fdd_cls if c.__name__ == where.split(".")[0]][0]
            a = _mk_fdd(cls, S, freq)
            oracle_cmif(ctx, V, where, lambda: _call(a.plot_CMIF, nSv=nreq), S, freq, nreq)
        return 1 if C.hits else 0
    Fn = arr(inp["Fn"])
    Lab = np.array(inp["Lab"], int)
    Xi = arr(inp["Xi"]) if "Xi" in inp else np.where(np.isnan(Fn), np.nan, 0.01)
    cov = arr(inp["Fn_cov"]) if inp.get("Fn_cov") is not None else None
    T = {"Fn": Fn, "Xi": Xi, "Lab": Lab, "cov": cov, "Phi": np.where(np.isnan(Fn)[:, :, None], np.nan, np.ones(Fn.shape + (2,), complex))}
    hide = inp.get("hide_poles", True)
    step = inp.get("step", 1)
    ssi_cls, pl_cls, _ = _classes()
    name = where.split(".")[0]
    if where.startswith("plot.stab_plot"):
        oracle_stab(ctx, V, where, lambda: _call(plot.stab_plot, Fn, Lab, step, Fn.shape[1] * step, ordmin=inp.get("ordmin", 0), hide_poles=hide,
                                                 Fn_cov=cov, axmode=inp.get("axmode")), T, step, hide, _ssi_mpe_fn(T), cov)
    elif where.startswith("plot.cluster_plot"):
        oracle_cluster(ctx, V, where, lambda: _call(plot.cluster_plot, Fn, Xi, Lab, 0, None, hide), T, hide)
    else:
        cl = [c for c in ssi_cls + pl_cls if c.__name__ == name]
        if not cl:
            print("unknown location", where)
            return 2
        om = inp.get("ordmin", 0)
        a = _mk_ssi(cl[0], T, 1, ordmin=om) if cl[0] in ssi_cls else _mk_plscf(cl[0], T, ordmin=om)
        pre = "ssi-" if cl[0] in ssi_cls else "plscf-"
        if "plot_stab" in where:
            oracle_stab(ctx, V, where, lambda: _call(a.plot_stab, hide_poles=hide), T, 1, hide, _cls_mpe_fn(a), cov if cl[0] in ssi_cls else None, prefix=pre)
        else:
            oracle_cluster(ctx, V, where, lambda: _call(a.plot_cluster, hide_poles=hide), T, hide, prefix=pre)
    return 1 if C.hits else 0
