import importlib
import os
import sys

sys.path.insert(0, os.path.dirname(os.path.abspath(__file__)))
import common  # noqa: E402


def main():
    if len(sys.argv) < 2:
        print("usage: check Cxx [--tier quick|thorough] [--replay file]")
        return 2
    prop = sys.argv[1]
    mod = importlib.import_module(prop.lower())
    return common.run_check(prop, mod, sys.argv[2:])


if __name__ == "__main__":
    sys.exit(main())
