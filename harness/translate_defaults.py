"""Python-AST -> Lean translator for the DEFAULT VALUES of the library (what a caller who leaves a parameter out gets):
 * `fields`: per `*RunParams` class of algorithms/data/run_params.py every field with its default VALUE, inherited
   fields resolved through the bases defined in that file (`dict(...)` / `{...}` defaults are flattened to one row per
   key, `hc.xi_max`, plus a row `hc` holding the key list; a field without default is `required`; `Field(x, ...)` /
   `Field(default=x, ...)` of pydantic counts as `x`); `fieldExtras`: every other member of such a class body
   (validators, methods, un-annotated assignments other than `model_config`) by name;
 * `methodParams`: per class of algorithms/{base,fdd,ssi,plscf}.py and per method DEFINED in it every parameter
   (without self) with position and default value (`required`, `*args` / `**kwargs` as `var`);
 * `funcParams`: the same for every module-level function of functions/{fdd,ssi,plscf,gen,plot}.py;
 * `labelLits`: per function of LABEL_FUNCS the constants the label table `Lab` is compared with (`test:==` ...) and
   the constants stored into it (`store`).
Values are VALUES, not spellings: `5e-2` and `0.05` are the same float (emitted as the exact rational of the shortest
decimal), `dict(a=1)` and `{"a": 1}` the same dictionary, annotations are ignored; int and float stay distinct.
Fail closed: a default outside the grammar (constant, signed numeric constant, flat dict of those) in any file read,
a RunParams base class defined elsewhere, a non-finite float, make `write` return (False, msg, {}).
Output: lean/PyomaVerif/Generated/Defaults.lean (namespace PV.Gen.Defaults).  Regenerated on every run."""
import ast
import math
import os
from fractions import Fraction

ALG_MODS = ["base", "fdd", "ssi", "plscf"]
FN_MODS = ["fdd", "ssi", "plscf", "gen", "plot"]
LABEL_FUNCS = ["ssi.SSI_mpe", "plscf.pLSCF_mpe", "gen.SC_apply", "plot.stab_plot", "plot.cluster_plot"]
CMP = {ast.Eq: "==", ast.NotEq: "!=", ast.Lt: "<", ast.LtE: "<=", ast.Gt: ">", ast.GtE: ">="}
FLIP = {"==": "==", "!=": "!=", "<": ">", "<=": ">=", ">": "<", ">=": "<="}


class Unsupported(Exception):
    pass


def val(node):
    """default expression -> value tuple: ("none",) ("bool",b) ("int",i) ("float",num,den) ("str",s)"""
    if isinstance(node, ast.Constant):
        v = node.value
        if v is None:
            return ("none",)
        if isinstance(v, bool):
            return ("bool", v)
        if isinstance(v, int):
            return ("int", v)
        if isinstance(v, float):
            if not math.isfinite(v):
                raise Unsupported(f"non-finite float default {v!r}")
            f = Fraction(repr(v))
            return ("float", f.numerator, f.denominator)
        if isinstance(v, str):
            return ("str", v)
        raise Unsupported(f"constant of type {type(v).__name__}")
    if isinstance(node, ast.UnaryOp) and isinstance(node.op, (ast.USub, ast.UAdd)):
        x = val(node.operand)
        if x[0] == "int":
            return ("int", -x[1] if isinstance(node.op, ast.USub) else x[1])
        if x[0] == "float":
            return ("float", -x[1] if isinstance(node.op, ast.USub) else x[1], x[2])
    raise Unsupported(f"default outside the grammar: {ast.unparse(node)}")


def dict_val(node):
    """`dict(k=v, ...)` or `{"k": v, ...}` with values of the grammar -> [(k, value)] or None"""
    if isinstance(node, ast.Call) and isinstance(node.func, ast.Name) and node.func.id == "dict" and not node.args \
            and all(k.arg is not None for k in node.keywords):
        return [(k.arg, val(k.value)) for k in node.keywords]
    if isinstance(node, ast.Dict) and all(isinstance(k, ast.Constant) and isinstance(k.value, str) for k in node.keys):
        return [(k.value, val(v)) for k, v in zip(node.keys, node.values)]
    return None


def field_default(node):
    """-> list of (suffix, value): [("", v)] or [("", ("keys", [...])), (".k", v), ...]"""
    if isinstance(node, ast.Call) and ((isinstance(node.func, ast.Name) and node.func.id == "Field")
                                       or (isinstance(node.func, ast.Attribute) and node.func.attr == "Field")):
        kws = {k.arg: k.value for k in node.keywords}
        if None in kws or "default_factory" in kws or len(node.args) > 1 or (node.args and "default" in kws):
            raise Unsupported(f"Field(...) form: {ast.unparse(node)}")
        if node.args:
            if isinstance(node.args[0], ast.Constant) and node.args[0].value is Ellipsis:
                return [("", ("required",))]
            return field_default(node.args[0])
        if "default" in kws:
            return field_default(kws["default"])
        return [("", ("required",))]
    d = dict_val(node)
    if d is not None:
        keys = [k for k, _ in d]
        if len(set(keys)) != len(keys):
            raise Unsupported("duplicate dictionary key")
        return [("", ("keys", keys))] + [("." + k, v) for k, v in d]
    return [("", val(node))]


def sig_rows(fn, drop_first):
    """[(param, idx, value)] of a FunctionDef (positional, keyword-only; *args/**kwargs as var)"""
    a = fn.args
    pos = a.posonlyargs + a.args
    dflt = {x.arg: d for x, d in zip(pos[len(pos) - len(a.defaults):], a.defaults)} if a.defaults else {}
    dflt.update({x.arg: d for x, d in zip(a.kwonlyargs, a.kw_defaults) if d is not None})
    names = [x.arg for x in pos]
    if drop_first and names:
        names = names[1:]
    rows = [(p, val(dflt[p]) if p in dflt else ("required",)) for p in names]
    if a.vararg:
        rows.append(("*" + a.vararg.arg, ("var",)))
    rows += [(x.arg, val(dflt[x.arg]) if x.arg in dflt else ("required",)) for x in a.kwonlyargs]
    if a.kwarg:
        rows.append(("**" + a.kwarg.arg, ("var",)))
    return [(p, i, v) for i, (p, v) in enumerate(rows)]


def run_params_tables(path):
    tree = ast.parse(open(path).read())
    own, bases, extras, order = {}, {}, [], []
    for c in tree.body:
        if not isinstance(c, ast.ClassDef):
            continue
        order.append(c.name)
        bs = []
        for b in c.bases:
            if isinstance(b, ast.Name):
                bs.append(b.id)
            elif isinstance(b, ast.Attribute):
                bs.append(b.attr)
            else:
                raise Unsupported(f"base class expression of {c.name}: {ast.unparse(b)}")
        if c.keywords or c.decorator_list:
            raise Unsupported(f"class keywords / decorators on {c.name}")
        bases[c.name] = bs
        fields = []
        for m in c.body:
            if isinstance(m, ast.Expr) and isinstance(m.value, ast.Constant):
                continue
            if isinstance(m, ast.Pass):
                continue
            if isinstance(m, ast.AnnAssign) and isinstance(m.target, ast.Name):
                if m.target.id == "model_config":
                    continue
                ann = ast.unparse(m.annotation)
                if "ClassVar" in ann:
                    extras.append((c.name, m.target.id, "classvar"))
                    continue
                fields.append((m.target.id, field_default(m.value) if m.value is not None else [("", ("required",))]))
                continue
            if isinstance(m, ast.Assign) and len(m.targets) == 1 and isinstance(m.targets[0], ast.Name) and m.targets[0].id == "model_config":
                continue
            if isinstance(m, (ast.FunctionDef, ast.AsyncFunctionDef)):
                extras.append((c.name, m.name, "def" + "".join(" @" + ast.unparse(d).split("(")[0] for d in m.decorator_list)))
                continue
            if isinstance(m, ast.Assign):
                for t in m.targets:
                    for n in ast.walk(t):
                        if isinstance(n, ast.Name):
                            extras.append((c.name, n.id, "assign"))
                continue
            raise Unsupported(f"statement in the body of {c.name}: {type(m).__name__}")
        own[c.name] = fields

    def effective(cname, seen=()):
        if cname in seen:
            raise Unsupported("cyclic bases")
        out = []
        for b in bases[cname]:
            if b in own:
                for f in effective(b, seen + (cname,)):
                    out = [g for g in out if g[0] != f[0]] + [f]
            elif b != "BaseModel":
                raise Unsupported(f"{cname} derives from {b}, not defined in run_params.py")
        for f in own[cname]:
            if any(g[0] == f[0] for g in out):  # an overriding field keeps its place in pydantic; the value is what counts
                out = [f if g[0] == f[0] else g for g in out]
            else:
                out.append(f)
        return out

    rows = []
    for c in order:
        for name, parts in effective(c):
            for suf, v in parts:
                rows.append((c, name + suf, v))
    return rows, extras


def label_rows(modname, fn):
    rows = []
    for n in ast.walk(fn):
        if isinstance(n, ast.Compare) and len(n.ops) == 1:
            l, r, op = n.left, n.comparators[0], type(n.ops[0])
            lab_l = isinstance(l, ast.Name) and l.id == "Lab"
            lab_r = isinstance(r, ast.Name) and r.id == "Lab"
            if not (lab_l or lab_r) or op in (ast.Is, ast.IsNot):
                continue
            if op not in CMP:
                raise Unsupported(f"{modname}.{fn.name}: label test {ast.unparse(n)}")
            o = CMP[op] if lab_l else FLIP[CMP[op]]
            rows.append((f"{modname}.{fn.name}", "test:" + o, val(r if lab_l else l)))
        elif isinstance(n, ast.Compare) and any(isinstance(x, ast.Name) and x.id == "Lab" for x in [n.left] + n.comparators):
            raise Unsupported(f"{modname}.{fn.name}: chained label test {ast.unparse(n)}")
        elif isinstance(n, (ast.Assign, ast.AugAssign)):
            tg = n.targets if isinstance(n, ast.Assign) else [n.target]
            for t in tg:
                if isinstance(t, ast.Subscript) and isinstance(t.value, ast.Name) and t.value.id == "Lab":
                    if isinstance(n, ast.AugAssign):
                        raise Unsupported(f"{modname}.{fn.name}: augmented store into Lab")
                    # `Lab[..] = a if test else b` stores one of the two literals (either may be stored): two rows, in the
                    # order (a, b) — the same facts as `if test: Lab[..] = a / else: Lab[..] = b`
                    vals = [n.value.body, n.value.orelse] if isinstance(n.value, ast.IfExp) else [n.value]
                    for v_ in vals:
                        rows.append((f"{modname}.{fn.name}", "store", val(v_)))
    return rows


def tables(repo):
    """-> dict(fields=[(cls, field, value)], fieldExtras=[(cls, name, kind)], methodParams=[(cls, method, param, idx, value)],
    funcParams=[(fn, param, idx, value)], labelLits=[(fn, kind, value)])"""
    src = os.path.join(repo, "src", "pyoma2")
    fields, extras = run_params_tables(os.path.join(src, "algorithms", "data", "run_params.py"))
    mrows = []
    for mod in ALG_MODS:
        tree = ast.parse(open(os.path.join(src, "algorithms", f"{mod}.py")).read())
        for c in tree.body:
            if not isinstance(c, ast.ClassDef):
                continue
            for m in c.body:
                if isinstance(m, ast.FunctionDef):
                    static = any(isinstance(d, ast.Name) and d.id == "staticmethod" for d in m.decorator_list)
                    try:
                        for p, i, v in sig_rows(m, not static):
                            mrows.append((c.name, m.name, p, i, v))
                    except Unsupported as e:
                        raise Unsupported(f"{c.name}.{m.name}: {e}")
    frows, lrows = [], []
    seen_label = set()
    for mod in FN_MODS:
        tree = ast.parse(open(os.path.join(src, "functions", f"{mod}.py")).read())
        for f in tree.body:
            if isinstance(f, ast.FunctionDef):
                try:
                    for p, i, v in sig_rows(f, False):
                        frows.append((f"{mod}.{f.name}", p, i, v))
                except Unsupported as e:
                    raise Unsupported(f"{mod}.{f.name}: {e}")
                if f"{mod}.{f.name}" in LABEL_FUNCS:
                    seen_label.add(f"{mod}.{f.name}")
                    lrows += label_rows(mod, f)
    missing = [x for x in LABEL_FUNCS if x not in seen_label]
    if missing:
        raise Unsupported(f"functions not found: {missing}")
    return {"fields": fields, "fieldExtras": extras, "methodParams": mrows, "funcParams": frows, "labelLits": lrows}


def lean_str(s):
    return '"' + s.replace("\\", "\\\\").replace('"', '\\"') + '"'


def lean_val(v):
    k = v[0]
    if k in ("none", "required", "var"):
        return "." + k
    if k == "bool":
        return f".bool {'true' if v[1] else 'false'}"
    if k == "int":
        return f".int ({v[1]})"
    if k == "float":
        return f".float ({v[1]}) {v[2]}"
    if k == "str":
        return f".str {lean_str(v[1])}"
    if k == "keys":
        return ".keys [" + ", ".join(lean_str(x) for x in v[1]) + "]"
    raise Unsupported(f"value kind {k}")


def translate(repo):
    t = tables(repo)
    out = ["import PyomaVerif.Model.DefaultsTbl",
           "/-! GENERATED by harness/translate_defaults.py from /repo/src/pyoma2 — do not edit. -/",
           "namespace PV.Gen.Defaults", "open PV.DefaultsTbl", ""]
    out.append("def fields : List FieldRow := [")
    out.append(",\n".join(f"  {{ cls := {lean_str(c)}, field := {lean_str(f)}, val := {lean_val(v)} }}" for c, f, v in t["fields"]) + "]")
    out.append("")
    out.append("def fieldExtras : List (String × String × String) := [")
    out.append(",\n".join(f"  ({lean_str(c)}, {lean_str(n)}, {lean_str(k)})" for c, n, k in t["fieldExtras"]) + "]")
    out.append("")
    out.append("def methodParams : List MethodRow := [")
    out.append(",\n".join(f"  {{ cls := {lean_str(c)}, method := {lean_str(m)}, param := {lean_str(p)}, idx := {i}, val := {lean_val(v)} }}"
                          for c, m, p, i, v in t["methodParams"]) + "]")
    out.append("")
    out.append("def funcParams : List FuncRow := [")
    out.append(",\n".join(f"  {{ fn := {lean_str(f)}, param := {lean_str(p)}, idx := {i}, val := {lean_val(v)} }}" for f, p, i, v in t["funcParams"]) + "]")
    out.append("")
    out.append("def labelLits : List LabelRow := [")
    out.append(",\n".join(f"  {{ fn := {lean_str(f)}, kind := {lean_str(k)}, val := {lean_val(v)} }}" for f, k, v in t["labelLits"]) + "]")
    out.append("")
    out.append("end PV.Gen.Defaults")
    return "\n".join(out) + "\n", {k: len(v) for k, v in t.items()}


def write(repo, lean_dir):
    path = os.path.join(lean_dir, "PyomaVerif", "Generated", "Defaults.lean")
    try:
        text, summary = translate(repo)
    except (Unsupported, SyntaxError, OSError, IndexError, KeyError, AttributeError, TypeError, ValueError) as e:
        return False, f"defaults translator failed closed: {e}", {}
    old = open(path).read() if os.path.exists(path) else None
    if old != text:
        open(path, "w").write(text)
    return True, "ok", summary


# ----------------------------------------------------------------------------- Python-side view (for the harness)
def py_val(v):
    k = v[0]
    if k == "none":
        return None
    if k in ("bool", "int", "str"):
        return v[1]
    if k == "float":
        return v[1] / v[2]
    raise KeyError(k)


def func_default(repo, fn, param):
    """the default VALUE of a parameter of a module-level function as the translator read it (KeyError if absent / required)"""
    for f, p, _i, v in tables(repo)["funcParams"]:
        if f == fn and p == param:
            return py_val(v)
    raise KeyError((fn, param))


if __name__ == "__main__":
    import sys

    here = os.path.dirname(os.path.dirname(os.path.abspath(__file__)))
    repo = os.environ.get("PYOMA2_REPO", "/repo")
    if "--write" in sys.argv:
        ok, msg, s = write(repo, os.path.join(here, "lean"))
        print(msg, s)
        sys.exit(0 if ok else 1)
    print(translate(repo)[0])
