"""Python-AST -> Lean translator for the *wiring* of the algorithm classes (glue code):
for every call of a library function (ssi.*, plscf.*, fdd.*, gen.SC_apply) inside a method of a class of
algorithms/{ssi,plscf,fdd}.py it emits which expression every PARAMETER of the callee receives (positional
arguments are resolved through the callee's signature, local names through the straight-line assignments that
precede the call, call results as `<callee>#<position>`), the names the results are unpacked into, and the
`self.result.* / self.run_params.*` stores of the method with their position relative to the call.
The same is done for the `plot_*` methods (calls of plot.stab_plot / cluster_plot / CMIF_plot ...).
Besides the call sites it emits
 * `classes`: per class of algorithms/{base,ssi,plscf,fdd}.py its base-class list, EVERY name bound in its body
   (methods, class attributes; module-level `Cls.x = ...` patches are added to the class they patch), the
   class-level `name = value` attributes and decorators / class keywords — so that "SSIcov has no run of its own
   and inherits SSIdat's" is an obligation over the source, not a comment;
 * `methods`: per run / mpe / mpe_from_plot / plot_* method the guard it starts with (`super().mpe(...)` or
   `if not self.result: raise ValueError`), the guard's position in the numbering of the sites and stores, and the
   statements in front of the guard that are more than a docstring or an alias of an argument;
 * the wiring of the picking dialog (support/sel_from_plot.py, `translate_dialog`): class-level bindings, and per method
   the assignments to attributes of self, the calls through self, the event connections (`mpl_connect` / `protocol` /
   `bind`, with the branch condition on `self.plot` they sit under and the parameters the handler receives) and a
   behavioural summary of every method (`dialogClasses`, `dassigns`, `dcalls`, `dconnects`, `dmethods`; obligations in
   Props/WiringPick.lean).
Output: lean/PyomaVerif/Generated/Wiring.lean.  Regenerated on every run."""
import ast
import copy
import os

ALG = ["ssi", "plscf", "fdd"]
LIBS = {"ssi": "ssi", "plscf": "plscf", "fdd": "fdd", "gen": "gen", "plot": "plot"}
WALKED = ("run", "mpe", "mpe_from_plot")
MAXLEN = 160


DEFAULTS = {}  # callee -> {parameter: source text of its LITERAL default}


def _sig(functions_dir):
    """callee -> list of parameter names"""
    out = {}
    for mod in ("ssi", "plscf", "fdd", "gen", "plot"):
        tree = ast.parse(open(os.path.join(functions_dir, f"{mod}.py")).read())
        for n in tree.body:
            if isinstance(n, ast.FunctionDef):
                a = n.args
                out[f"{mod}.{n.name}"] = [x.arg for x in a.posonlyargs + a.args] + [x.arg for x in a.kwonlyargs]
                pos = a.posonlyargs + a.args
                dflt = {x.arg: d for x, d in zip(pos[len(pos) - len(a.defaults):], a.defaults)} if a.defaults else {}
                dflt.update({x.arg: d for x, d in zip(a.kwonlyargs, a.kw_defaults) if d is not None})
                DEFAULTS[f"{mod}.{n.name}"] = {k: ast.unparse(v) for k, v in dflt.items() if isinstance(v, ast.Constant) or
                                               (isinstance(v, ast.UnaryOp) and isinstance(v.operand, ast.Constant))}
    return out


class Sub(ast.NodeTransformer):
    def __init__(self, env):
        self.env = env

    def visit_Name(self, node):
        if isinstance(node.ctx, ast.Load) and node.id in self.env:
            return copy.deepcopy(self.env[node.id])
        return node


CLASS_SIGS = {}  # constructor name -> parameter names (without self); filled by translate()


class KwNorm(ast.NodeTransformer):
    """calls of constructors with a known signature are written in one normal form (all keywords, signature order), so
    that positional and keyword spellings binding the same parameters read the same; a conditional EXPRESSION reads like the
    value an if/else STATEMENT leaves in a name (`if(test){a}else{b}`)"""

    def visit_IfExp(self, node):
        self.generic_visit(node)
        return ast.copy_location(ast.Name(
            id=f"if({ast.unparse(node.test)}){{{ast.unparse(node.body)}}}else{{{ast.unparse(node.orelse)}}}"[:MAXLEN], ctx=ast.Load()), node)

    def visit_Call(self, node):
        self.generic_visit(node)
        if isinstance(node.func, ast.Name) and node.func.id in CLASS_SIGS and not any(isinstance(a, ast.Starred) for a in node.args) \
                and all(k.arg is not None for k in node.keywords):
            params = CLASS_SIGS[node.func.id]
            if len(node.args) <= len(params):
                kws = {p_: a for p_, a in zip(params, node.args)}
                for k in node.keywords:
                    kws[k.arg] = k.value
                order = [p_ for p_ in params if p_ in kws] + [k for k in kws if k not in params]
                return ast.Call(func=node.func, args=[], keywords=[ast.keyword(arg=k, value=kws[k]) for k in order])
        return node


def canon(expr, env):
    e = KwNorm().visit(Sub(env).visit(copy.deepcopy(expr)))
    ast.fix_missing_locations(e)
    s = ast.unparse(e).replace("\n", " ")
    return s if len(s) <= MAXLEN else s[:MAXLEN] + "..."


def lib_call(v):
    if isinstance(v, ast.Call) and isinstance(v.func, ast.Attribute) and isinstance(v.func.value, ast.Name) and v.func.value.id in LIBS:
        return f"{v.func.value.id}.{v.func.attr}"
    return None


def simple(expr):
    """expressions that may be propagated as aliases: no calls except indexing/attribute chains"""
    return not any(isinstance(n, (ast.Call, ast.Lambda, ast.ListComp, ast.DictComp, ast.GeneratorExp)) for n in ast.walk(expr))


def guard_of(st):
    """(kind, arg) if the statement is a guard: `super().<m>(...)` -> ("super", m);
    `if <test>: raise <Exc>(...)` (one raise, no else) -> ("raise", "if <test>: raise <Exc>")"""
    if isinstance(st, ast.Expr) and isinstance(st.value, ast.Call):
        f = st.value.func
        if isinstance(f, ast.Attribute) and isinstance(f.value, ast.Call) and isinstance(f.value.func, ast.Name) \
                and f.value.func.id == "super" and not f.value.args and not f.value.keywords:
            return ("super", f.attr)
    if isinstance(st, ast.If) and not st.orelse and len(st.body) == 1 and isinstance(st.body[0], ast.Raise) and st.body[0].exc is not None:
        exc = st.body[0].exc
        name = exc.func if isinstance(exc, ast.Call) else exc
        return ("raise", f"if {ast.unparse(st.test)}: raise {ast.unparse(name)}")
    return None


def harmless_before_guard(st):
    """statements that may precede the guard without storing or reading the state: the docstring, `pass`, and a
    local alias `name = <expression without calls that does not mention self>`"""
    if isinstance(st, ast.Pass):
        return True
    if isinstance(st, ast.Expr) and isinstance(st.value, ast.Constant) and isinstance(st.value.value, str):
        return True
    if isinstance(st, ast.Assign) and all(isinstance(t, ast.Name) for t in st.targets) and simple(st.value) \
            and not any(isinstance(n, ast.Name) and n.id == "self" for n in ast.walk(st.value)):
        return True
    return False


def short(st):
    t = ast.unparse(st).replace("\n", " ; ")
    return t if len(t) <= 100 else t[:100] + "..."


class Walker:
    def __init__(self, sigs, cls, method, helpers=None):
        self.sigs, self.cls, self.method = sigs, cls, method
        self.helpers = helpers or {}  # name -> (FunctionDef, is_method): private methods of the class / module-level helpers
        self.ret = None  # value returned by the helper being inlined
        self.depth = 0
        self.sites = []
        self.counter = {}
        self.stores = []  # (target string, canonical value, position index)
        self.pos = 0
        self.guard = ("", "", 0)  # kind, argument, position
        self.pre = []  # statements in front of the guard that are not harmless

    def top(self, stmts):
        """the method body: as `body`, but the first top-level guard statement gets a position of its own"""
        env = {}
        seen = False
        front = []
        for st in stmts:
            g = guard_of(st) if not seen else None
            if g is not None:
                seen = True
                self.pos += 1
                self.guard = (g[0], g[1], self.pos)
                self.pre = [short(x) for x in front if not harmless_before_guard(x)]
                if g[0] == "super":  # the arguments of the call may still contain library calls
                    env = self.stmt(st, env)
                continue
            if not seen:
                front.append(st)
            env = self.stmt(st, env)
        return env

    def body(self, stmts, env):
        for st in stmts:
            env = self.stmt(st, env)
        return env

    def record_call(self, call, env, targets):
        callee = lib_call(call)
        k = self.counter.get(callee, 0)
        self.counter[callee] = k + 1
        params = self.sigs.get(callee)
        bind = []
        if params is None:
            bind.append(("?signature", "unknown callee"))
            params = []
        for i, a in enumerate(call.args):
            if isinstance(a, ast.Starred):
                bind.append((f"*{i}", canon(a.value, env)))
            else:
                bind.append((params[i] if i < len(params) else f"?pos{i}", canon(a, env)))
        for kw in call.keywords:
            bind.append((kw.arg if kw.arg is not None else "**", canon(kw.value, env)))
        self.pos += 1
        # parameters of the callee with a literal default that this site leaves alone or binds to exactly that literal: writing
        # a default out (or leaving it out) is the same call; the set comparisons of the obligations ignore these parameters
        dfl = DEFAULTS.get(callee, {})
        bd = dict(bind)
        dflt = [p_ for p_, d_ in dfl.items() if p_ not in bd or bd[p_] == d_]
        self.sites.append({"cls": self.cls, "method": self.method, "callee": callee, "idx": k, "bind": bind, "ret": targets, "pos": self.pos, "dflt": dflt})
        return callee, k

    def helper_of(self, call):
        """FunctionDef of a private method `self.x(...)` / module-level helper `x(...)` defined in the same module"""
        if not isinstance(call, ast.Call):
            return None
        f = call.func
        if isinstance(f, ast.Attribute) and isinstance(f.value, ast.Name) and f.value.id == "self" and ("self." + f.attr) in self.helpers:
            return self.helpers["self." + f.attr]
        if isinstance(f, ast.Name) and f.id in self.helpers:
            return self.helpers[f.id]
        return None

    def inline(self, call, env):
        """walk the helper's body in place of the call (its library calls and stores are recorded as if written here);
        returns the list of returned expressions (or None if the helper's shape is not understood)"""
        fn, is_method = self.helper_of(call)
        if self.depth >= 3 or any(isinstance(a, ast.Starred) for a in call.args) or any(k.arg is None for k in call.keywords):
            return None
        a = fn.args
        params = [x.arg for x in a.posonlyargs + a.args]
        if is_method:
            params = params[1:]
        defaults = dict(zip(params[len(params) - len(a.defaults):], a.defaults)) if a.defaults else {}
        for x, d in zip(a.kwonlyargs, a.kw_defaults):
            params.append(x.arg)
            if d is not None:
                defaults[x.arg] = d
        if len(call.args) > len(params):
            return None
        env2 = {}
        for name, arg in zip(params, call.args):
            env2[name] = Sub(env).visit(copy.deepcopy(arg))
        for kw in call.keywords:
            if kw.arg not in params:
                return None
            env2[kw.arg] = Sub(env).visit(copy.deepcopy(kw.value))
        for name in params:
            if name not in env2:
                if name not in defaults:
                    return None
                env2[name] = copy.deepcopy(defaults[name])
        saved, self.ret = self.ret, None
        self.depth += 1
        try:
            self.body(fn.body, env2)
            out = self.ret
        finally:
            self.depth -= 1
            self.ret = saved
        return out

    def stmt(self, st, env):
        env = dict(env)
        if isinstance(st, ast.AnnAssign) and st.value is not None and isinstance(st.target, ast.Name) and st.simple:
            # `x: T = e` binds exactly like `x = e`
            st = ast.copy_location(ast.Assign(targets=[st.target], value=st.value), st)
        if self.depth > 0 and isinstance(st, ast.Return) and st.value is not None and self.helper_of(st.value) is None and not (
            isinstance(st.value, ast.Call) and lib_call(st.value) is None and not simple(st.value)
        ):
            v = st.value
            if lib_call(v):
                c, k = self.record_call(v, env, ["<returned>"])
                self.ret = [ast.Name(id=f"{c}[{k}]#all", ctx=ast.Load())]
            elif isinstance(v, (ast.Tuple, ast.List)):
                self.ret = [Sub(env).visit(copy.deepcopy(e)) for e in v.elts]
            else:
                self.ret = [Sub(env).visit(copy.deepcopy(v))]
            return env
        if isinstance(st, ast.Assign) and len(st.targets) == 1 and self.helper_of(st.value) is not None:
            tgt = st.targets[0]
            n0 = len(self.sites)
            out = self.inline(st.value, env)
            if out is not None:
                # `return lib.f(...)` inside the helper: the call's results are what the caller binds (same table as `x = lib.f(...)`)
                if len(out) == 1 and self.depth == 0:
                    names = [ast.unparse(e) for e in tgt.elts] if isinstance(tgt, (ast.Tuple, ast.List)) else [ast.unparse(tgt)]
                    for site in self.sites[n0:]:
                        if site["ret"] == ["<returned>"] and ast.unparse(out[0]) == f"{site['callee']}[{site['idx']}]#all":
                            site["ret"] = names
                if isinstance(tgt, (ast.Tuple, ast.List)):
                    if len(out) == len(tgt.elts):
                        for e, v in zip(tgt.elts, out):
                            if isinstance(e, ast.Name):
                                env[e.id] = v
                        return env
                    if len(out) == 1:
                        for i, e in enumerate(tgt.elts):
                            if isinstance(e, ast.Name):
                                env[e.id] = ast.Name(id=f"{ast.unparse(out[0])}#{i}"[:MAXLEN], ctx=ast.Load())
                        return env
                elif isinstance(tgt, ast.Name):
                    env[tgt.id] = out[0] if len(out) == 1 else ast.Tuple(elts=out, ctx=ast.Load())
                    return env
                elif isinstance(tgt, ast.Attribute) and ast.unparse(tgt).startswith(("self.result.", "self.run_params.")) and len(out) == 1:
                    self.pos += 1
                    self.stores.append((ast.unparse(tgt), canon(out[0], {}), self.pos))
                    return env
            # not understood: fall through to the opaque treatment below
        if isinstance(st, ast.Expr) and self.helper_of(st.value) is not None:
            if self.inline(st.value, env) is not None or True:
                return env
        if isinstance(st, ast.Return) and st.value is not None and self.helper_of(st.value) is not None:
            out = self.inline(st.value, env)
            if self.depth > 0 and out is not None:
                self.ret = out
            return env
        if isinstance(st, ast.Assign) and len(st.targets) == 1:
            tgt, val = st.targets[0], st.value
            callee = lib_call(val)
            if callee:
                names = [ast.unparse(e) for e in tgt.elts] if isinstance(tgt, (ast.Tuple, ast.List)) else [ast.unparse(tgt)]
                c, k = self.record_call(val, env, names)
                if isinstance(tgt, (ast.Tuple, ast.List)):
                    for i, e in enumerate(tgt.elts):
                        if isinstance(e, ast.Name):
                            env[e.id] = ast.Name(id=f"{c}[{k}]#{i}", ctx=ast.Load())
                elif isinstance(tgt, ast.Name):
                    env[tgt.id] = ast.Name(id=f"{c}[{k}]#all", ctx=ast.Load())
                return env
            # stores into self.result / self.run_params
            if isinstance(tgt, ast.Attribute) and ast.unparse(tgt).startswith(("self.result.", "self.run_params.")):
                self.pos += 1
                self.stores.append((ast.unparse(tgt), canon(val, env), self.pos))
                return env
            if isinstance(tgt, ast.Name) and isinstance(val, ast.Call) and canon(val.func, {}).endswith(("Result", "ResultCls")) and val.keywords and not val.args:
                # `res = ResultCls(field=...)` ... `return res`: recorded at the return like `return ResultCls(field=...)`
                self.ctor_locals = getattr(self, "ctor_locals", {})
                self.ctor_locals[tgt.id] = ("return " + canon(val.func, {}), [(kw.arg or "**", canon(kw.value, env)) for kw in val.keywords])
                env[tgt.id] = ast.Name(id=f"<{canon(val.func, {})} object>", ctx=ast.Load())
                return env
            if isinstance(tgt, ast.Name):
                if simple(val):
                    env[tgt.id] = Sub(env).visit(copy.deepcopy(val))
                else:
                    # other calls (e.g. gen.HC_*, applymask) rebind names opaquely; nested library calls are still recorded
                    for n in ast.walk(val):
                        if lib_call(n):
                            self.record_call(n, env, [tgt.id])
                    env[tgt.id] = ast.Name(id=f"<{canon(val, env)[:60]}>", ctx=ast.Load())
                return env
            if isinstance(tgt, (ast.Tuple, ast.List)):
                for n in ast.walk(val):
                    if lib_call(n):
                        self.record_call(n, env, [ast.unparse(tgt)])
                def opaque(v):
                    # an attribute / subscript chain on top of a call reads like the same chain on a local holding the call
                    # (`a, b = f(x).result` is `t = f(x); a = t.result[0]; b = t.result[1]`)
                    if isinstance(v, ast.Attribute):
                        o = opaque(v.value)
                        return None if o is None else f"{o}.{v.attr}"
                    if isinstance(v, ast.Call):
                        return f"<{canon(v, env)[:60]}>"
                    if simple(v):
                        return canon(v, env)
                    return None

                if isinstance(val, (ast.Tuple, ast.List)) and len(val.elts) == len(tgt.elts) and all(isinstance(e, ast.Name) for e in tgt.elts):
                    # `a, b = x, y` is `a = x; b = y` with both right-hand sides read before either name is bound
                    new = {}
                    for e, v in zip(tgt.elts, val.elts):
                        new[e.id] = Sub(env).visit(copy.deepcopy(v)) if simple(v) else ast.Name(id=f"<{canon(v, env)[:60]}>", ctx=ast.Load())
                    env.update(new)
                    return env
                chain = opaque(val) if isinstance(val, (ast.Attribute, ast.Name)) else None
                for i, e in enumerate(tgt.elts):
                    if isinstance(e, ast.Name):
                        if chain is not None:
                            env[e.id] = ast.Name(id=f"{chain}[{i}]", ctx=ast.Load())
                        else:
                            env[e.id] = ast.Name(id=f"<{canon(val, env)[:50]}>#{i}", ctx=ast.Load())
                return env
            return env
        if isinstance(st, ast.If):
            e1 = self.body(st.body, env)
            e2 = self.body(st.orelse, env) if st.orelse else dict(env)
            out = dict(env)
            test = canon(st.test, env)
            for name in set(e1) | set(e2):
                a, b = e1.get(name), e2.get(name)
                sa = ast.unparse(a) if a is not None else "<unbound>"
                sb = ast.unparse(b) if b is not None else "<unbound>"
                if sa == sb:
                    out[name] = a
                else:
                    out[name] = ast.Name(id=f"if({test}){{{sa}}}else{{{sb}}}"[:MAXLEN], ctx=ast.Load())
            return out
        if isinstance(st, ast.Return) and isinstance(st.value, ast.Name) and st.value.id in getattr(self, "ctor_locals", {}) \
                and ast.unparse(env.get(st.value.id, st.value)).endswith(" object>"):
            callee, bind = self.ctor_locals[st.value.id]
            self.pos += 1
            self.sites.append({"cls": self.cls, "method": self.method, "callee": callee, "idx": 0, "bind": bind, "ret": [], "pos": self.pos})
            return env
        if isinstance(st, ast.Return) and isinstance(st.value, ast.Call) and lib_call(st.value):
            # `return lib.f(...)` is `_r = lib.f(...); return _r`: an ordinary call site
            self.record_call(st.value, env, ["<returned>"])
            return env
        if isinstance(st, ast.Return) and isinstance(st.value, ast.Call):
            self.pos += 1
            bind = [(kw.arg or "**", canon(kw.value, env)) for kw in st.value.keywords]
            self.sites.append({"cls": self.cls, "method": self.method, "callee": "return " + canon(st.value.func, {}), "idx": 0, "bind": bind, "ret": [], "pos": self.pos})
            return env
        if isinstance(st, ast.Expr):
            for n in ast.walk(st.value):
                if lib_call(n):
                    self.record_call(n, env, [])
            return env
        if isinstance(st, (ast.For, ast.While, ast.With, ast.Try)):
            # not expected in the glue methods; anything assigned inside becomes opaque
            for n in ast.walk(st):
                if isinstance(n, ast.Name) and isinstance(n.ctx, ast.Store):
                    env[n.id] = ast.Name(id=f"<loop:{n.id}>", ctx=ast.Load())
                if lib_call(n):
                    self.record_call(n, env, ["<in loop>"])
            return env
        return env


def lean_str(s):
    return '"' + s.replace("\\", "\\\\").replace('"', '\\"') + '"'


# ----------------------------------------------------------------------------- the picking dialog (support/sel_from_plot.py)
# For every class of support/sel_from_plot.py: the class-level bindings, and per method (positions count the rows of
# that method in source order): every assignment to an attribute of `self` (`dassigns`), every call through `self`
# (`dcalls`: self.root.mainloop(), self._initialize_gui(), self.root.quit() ...), every event connection
# (`dconnects`: <registry>.mpl_connect(<event>, <handler>) / .protocol / .bind) with the branch condition it sits
# under (`Cond`: tests of `self.plot` against string constants are structured, anything else is `opaque`), and a
# summary of every method (`dmethods`: parameters, body text with the parameters renamed positionally, attributes of
# self it writes, methods of self it calls) so that an obligation can name a handler by what it does.
CONNECT_ATTRS = {"mpl_connect": 1, "protocol": 0, "bind": 1, "bind_all": 1, "bind_class": 1, "mpl_disconnect": 0, "unbind": 0, "unbind_all": 0}
MUTATORS = {"append", "pop", "clear", "extend", "insert", "remove", "sort", "reverse", "update", "add", "discard", "setdefault", "popitem"}


def _is_self_attr(e):
    return isinstance(e, ast.Attribute) and isinstance(e.value, ast.Name) and e.value.id == "self"


def _cond(test, env):
    """structured form of a branch test (Lean term of type Cond)"""
    t = Sub(env).visit(copy.deepcopy(test))

    def is_plot(e):
        return _is_self_attr(e) and e.attr == "plot"

    def strs(e):
        if isinstance(e, (ast.Tuple, ast.List, ast.Set)) and all(isinstance(x, ast.Constant) and isinstance(x.value, str) for x in e.elts):
            return [x.value for x in e.elts]
        return None

    def go(e):
        if isinstance(e, ast.UnaryOp) and isinstance(e.op, ast.Not):
            return f"(.not {go(e.operand)})"
        if isinstance(e, ast.BoolOp) and len(e.values) >= 2:
            k = ".and" if isinstance(e.op, ast.And) else ".or"
            out = go(e.values[0])
            for v in e.values[1:]:
                out = f"({k} {out} {go(v)})"
            return out
        if isinstance(e, ast.Compare) and len(e.ops) == 1:
            l, op, r = e.left, e.ops[0], e.comparators[0]
            if is_plot(l) and isinstance(op, (ast.In, ast.NotIn)) and strs(r) is not None:
                c = "(.plotIn [" + ", ".join(lean_str(x) for x in strs(r)) + "])"
                return c if isinstance(op, ast.In) else f"(.not {c})"
            if isinstance(op, (ast.Eq, ast.NotEq)):
                v = None
                if is_plot(l) and isinstance(r, ast.Constant) and isinstance(r.value, str):
                    v = r.value
                elif is_plot(r) and isinstance(l, ast.Constant) and isinstance(l.value, str):
                    v = l.value
                if v is not None:
                    c = f"(.plotEq {lean_str(v)})"
                    return c if isinstance(op, ast.Eq) else f"(.not {c})"
        return f"(.opaque {lean_str(canon(e, {}))})"

    return go(t)


def _blk(stmts, env):
    """one-line text of a block: `if T: {A; B} else: {C}`; docstrings dropped"""
    out = []
    for st in stmts:
        if isinstance(st, ast.Expr) and isinstance(st.value, ast.Constant) and isinstance(st.value.value, str):
            continue
        if isinstance(st, ast.If):
            t = f"if {canon(st.test, env)}: {{{_blk(st.body, env)}}}"
            if st.orelse:
                t += f" else: {{{_blk(st.orelse, env)}}}"
            out.append(t)
        elif isinstance(st, (ast.For, ast.While, ast.With, ast.Try, ast.FunctionDef, ast.ClassDef)):
            out.append("<" + type(st).__name__ + ":" + ast.unparse(st).replace("\n", " ; ")[:80] + ">")
        else:
            x = Sub(env).visit(copy.deepcopy(st))
            ast.fix_missing_locations(x)
            out.append(ast.unparse(x).replace("\n", " "))
    return "; ".join(out)


class DialogWalker:
    def __init__(self, cls, fn, methods):
        self.cls, self.fn, self.methods = cls, fn, methods
        self.pos = 0
        self.assigns, self.calls, self.connects = [], [], []

    def row(self):
        self.pos += 1
        return self.pos

    # -- expressions: calls through self and event connections, in evaluation order of the source text
    def scan(self, expr, env, path):
        if expr is None:
            return
        for n in self._calls_in(expr):
            f = n.func
            if isinstance(f, ast.Attribute) and f.attr in CONNECT_ATTRS:
                self.connect(n, env, path)
                continue
            if isinstance(f, ast.Name) and f.id in ("setattr", "delattr") and n.args and isinstance(n.args[0], ast.Name) and n.args[0].id == "self":
                a1 = n.args[1] if len(n.args) > 1 else None
                name = a1.value if isinstance(a1, ast.Constant) and isinstance(a1.value, str) else "<setattr>"
                val = canon(n.args[2], env) if len(n.args) > 2 else "<del>"
                self.assigns.append((self.row(), list(path), "self." + name, val))
                continue
            c = canon(f, env)
            if c.startswith("self.") or c == "self":
                args = [canon(a, env) for a in n.args] + [f"{k.arg}={canon(k.value, env)}" for k in n.keywords]
                self.calls.append((self.row(), list(path), c, args))

    def _calls_in(self, expr):
        """Call nodes of the expression, outermost last (arguments are evaluated first); lambda bodies are not entered"""
        out = []

        def go(e):
            if isinstance(e, ast.Lambda):
                return
            for ch in ast.iter_child_nodes(e):
                go(ch)
            if isinstance(e, ast.Call):
                out.append(e)

        go(expr)
        return out

    def connect(self, call, env, path):
        kind = call.func.attr
        registry = canon(call.func.value, env)
        args = list(call.args) + [k.value for k in call.keywords]
        ev = args[0] if args else None
        event = ev.value if isinstance(ev, ast.Constant) and isinstance(ev.value, str) else (canon(ev, env) if ev is not None else "")
        h = args[-1] if len(args) >= 2 else None
        nargs = CONNECT_ATTRS[kind]
        handler, hbind = "", []
        if h is not None:
            hs = Sub(env).visit(copy.deepcopy(h))
            given = None
            if _is_self_attr(hs) and hs.attr in self.methods:
                handler, given = hs.attr, [ast.Name(id="<event>", ctx=ast.Load())][:nargs]
            elif isinstance(hs, ast.Lambda) and isinstance(hs.body, ast.Call) and _is_self_attr(hs.body.func) and hs.body.func.attr in self.methods \
                    and not hs.args.vararg and not hs.args.kwarg and not hs.body.keywords and not any(isinstance(a, ast.Starred) for a in hs.body.args):
                lp = [x.arg for x in hs.args.posonlyargs + hs.args.args]
                lenv = {p_: ast.Name(id="<event>" if i == 0 else f"<arg{i}>", ctx=ast.Load()) for i, p_ in enumerate(lp)}
                if len(lp) == nargs or (len(lp) > nargs and len(hs.args.defaults) >= len(lp) - nargs):
                    handler = hs.body.func.attr
                    given = [Sub(lenv).visit(copy.deepcopy(a)) for a in hs.body.args]
            if handler:
                params = self.methods[handler]
                hbind = [(params[i] if i < len(params) else f"?pos{i}", canon(a, {})) for i, a in enumerate(given)]
            else:
                hbind = [("?", canon(hs, {}))]
        self.connects.append((self.row(), list(path), kind, registry, event, handler, hbind))

    # -- statements
    def target(self, tgt, val, env, path):
        if isinstance(tgt, (ast.Tuple, ast.List)):
            for i, e in enumerate(tgt.elts):
                if isinstance(val, (ast.Tuple, ast.List)) and len(val.elts) == len(tgt.elts) and not any(isinstance(x, ast.Starred) for x in val.elts + tgt.elts):
                    self.target(e, val.elts[i], env, path)
                else:
                    self.target(e, ast.Name(id=f"({canon(val, env)})#{i}"[:MAXLEN], ctx=ast.Load()), env, path)
            return
        if isinstance(tgt, ast.Starred):
            tgt = tgt.value
        if isinstance(tgt, ast.Name):
            if simple(val):
                env[tgt.id] = Sub(env).visit(copy.deepcopy(val))
            else:
                env[tgt.id] = ast.Name(id=f"<{canon(val, env)[:80]}>", ctx=ast.Load())
            return
        t = canon(tgt, env)
        if t.startswith("self."):
            self.assigns.append((self.row(), list(path), t, canon(val, env)))

    def body(self, stmts, env, path):
        for st in stmts:
            self.stmt(st, env, path)

    def stmt(self, st, env, path):
        if isinstance(st, ast.Assign):
            self.scan(st.value, env, path)
            for tgt in st.targets:
                self.target(tgt, st.value, env, path)
        elif isinstance(st, ast.AnnAssign):
            if st.value is not None:
                self.scan(st.value, env, path)
                self.target(st.target, st.value, env, path)
        elif isinstance(st, ast.AugAssign):
            self.scan(st.value, env, path)
            t = canon(st.target, env)
            if t.startswith("self."):
                self.assigns.append((self.row(), list(path), t, f"<{type(st.op).__name__}>= {canon(st.value, env)}"))
            elif isinstance(st.target, ast.Name):
                env[st.target.id] = ast.Name(id=f"<aug:{st.target.id}>", ctx=ast.Load())
        elif isinstance(st, ast.Delete):
            for tgt in st.targets:
                t = canon(tgt, env)
                if t.startswith("self."):
                    self.assigns.append((self.row(), list(path), t, "<del>"))
        elif isinstance(st, ast.If):
            self.scan(st.test, env, path)
            c = _cond(st.test, env)
            e1, e2 = dict(env), dict(env)
            self.body(st.body, e1, path + [c])
            self.body(st.orelse, e2, path + [f"(.not {c})"])
            for name in set(e1) | set(e2):
                a, b = e1.get(name), e2.get(name)
                if a is None or b is None or ast.unparse(a) != ast.unparse(b):
                    env[name] = ast.Name(id=f"<if:{name}>", ctx=ast.Load())
                else:
                    env[name] = a
        elif isinstance(st, (ast.For, ast.AsyncFor, ast.While)):
            self.scan(st.iter if hasattr(st, "iter") else st.test, env, path)
            for n in ast.walk(st):
                if isinstance(n, ast.Name) and isinstance(n.ctx, ast.Store):
                    env[n.id] = ast.Name(id=f"<loop:{n.id}>", ctx=ast.Load())
            p2 = path + [f"(.opaque {lean_str('<' + type(st).__name__ + '>')})"]
            self.body(st.body, env, p2)
            self.body(st.orelse, env, p2)
        elif isinstance(st, (ast.With, ast.AsyncWith)):
            for it in st.items:
                self.scan(it.context_expr, env, path)
                if it.optional_vars is not None:
                    for n in ast.walk(it.optional_vars):
                        if isinstance(n, ast.Name):
                            env[n.id] = ast.Name(id=f"<with:{n.id}>", ctx=ast.Load())
            self.body(st.body, env, path)
        elif isinstance(st, ast.Try):
            p2 = path + [f"(.opaque {lean_str('<Try>')})"]
            self.body(st.body, env, p2)
            for h in st.handlers:
                self.body(h.body, env, p2)
            self.body(st.orelse, env, p2)
            self.body(st.finalbody, env, path)
        elif isinstance(st, (ast.Expr, ast.Return)):
            self.scan(st.value, env, path)
        elif isinstance(st, (ast.Raise, ast.Assert)):
            for ch in ast.iter_child_nodes(st):
                self.scan(ch, env, path)
        elif isinstance(st, (ast.FunctionDef, ast.AsyncFunctionDef, ast.ClassDef, ast.Pass, ast.Import, ast.ImportFrom, ast.Global, ast.Nonlocal, ast.Break, ast.Continue)):
            pass
        else:
            self.calls.append((self.row(), list(path), "<" + type(st).__name__ + ">", []))


def _method_summary(fn, method_names):
    a = fn.args
    params = [x.arg for x in a.posonlyargs + a.args][1:] + ([("*" + a.vararg.arg)] if a.vararg else []) + [x.arg for x in a.kwonlyargs] + ([("**" + a.kwarg.arg)] if a.kwarg else [])
    env = {p_: ast.Name(id=f"${i + 1}", ctx=ast.Load()) for i, p_ in enumerate([x.arg for x in a.posonlyargs + a.args][1:])}
    body = _blk(fn.body, env)
    if len(body) > 300:
        body = body[:300] + "..."
    writes, calls = [], []
    for n in ast.walk(fn):
        if isinstance(n, ast.Attribute) and _is_self_attr(n) and isinstance(n.ctx, (ast.Store, ast.Del)):
            writes.append(n.attr)
        if isinstance(n, (ast.Subscript, ast.Attribute)) and isinstance(n.ctx, (ast.Store, ast.Del)) and not _is_self_attr(n):
            b = n.value
            while isinstance(b, (ast.Subscript, ast.Attribute)) and not _is_self_attr(b):
                b = b.value
            if _is_self_attr(b):
                writes.append(b.attr)
        if isinstance(n, ast.Call) and isinstance(n.func, ast.Attribute):
            if n.func.attr in MUTATORS and _is_self_attr(n.func.value):
                writes.append(n.func.value.attr)
            if _is_self_attr(n.func) and n.func.attr in method_names:
                calls.append(n.func.attr)
        if isinstance(n, ast.Call) and isinstance(n.func, ast.Name) and n.func.id in ("setattr", "delattr") and n.args and isinstance(n.args[0], ast.Name) and n.args[0].id == "self":
            a1 = n.args[1] if len(n.args) > 1 else None
            writes.append(a1.value if isinstance(a1, ast.Constant) and isinstance(a1.value, str) else "<setattr>")
    uniq = lambda xs: [x for i, x in enumerate(xs) if x not in xs[:i]]  # noqa: E731
    return params, body, sorted(set(writes)), uniq(calls)


def translate_dialog(repo, bound_names, class_attrs, base_name):
    """Lean text of the dialog tables (appended to Generated/Wiring.lean) and a summary"""
    sup = os.path.join(repo, "src", "pyoma2", "support", "sel_from_plot.py")
    classes_out, assigns, calls, connects, methods = [], [], [], [], []
    if os.path.exists(sup):
        tree = ast.parse(open(sup).read())
        cnames = {c.name for c in tree.body if isinstance(c, ast.ClassDef)}
        patches = {}
        for st in tree.body:
            if isinstance(st, (ast.ClassDef, ast.FunctionDef, ast.Import, ast.ImportFrom)):
                continue
            for n in ast.walk(st):
                if isinstance(n, ast.Attribute) and isinstance(n.ctx, (ast.Store, ast.Del)) and isinstance(n.value, ast.Name) and n.value.id in cnames:
                    patches.setdefault(n.value.id, []).append(n.attr)
                if isinstance(n, ast.Call) and isinstance(n.func, ast.Name) and n.func.id in ("setattr", "delattr") and n.args \
                        and isinstance(n.args[0], ast.Name) and n.args[0].id in cnames:
                    a1 = n.args[1] if len(n.args) > 1 else None
                    patches.setdefault(n.args[0].id, []).append(a1.value if isinstance(a1, ast.Constant) and isinstance(a1.value, str) else "<setattr>")
        for c in tree.body:
            if not isinstance(c, ast.ClassDef):
                continue
            classes_out.append({"name": c.name, "module": "sel_from_plot", "bases": [base_name(b) for b in c.bases],
                                "own": bound_names(c) + patches.get(c.name, []), "attrs": class_attrs(c),
                                "extras": [canon(d, {}) for d in c.decorator_list] + [f"{k.arg}={canon(k.value, {})}" for k in c.keywords]})
            fns = [m for m in c.body if isinstance(m, (ast.FunctionDef, ast.AsyncFunctionDef))]
            msig = {}
            for m in fns:
                msig[m.name] = [x.arg for x in m.args.posonlyargs + m.args.args][1:]
            for m in fns:
                w = DialogWalker(c.name, m, msig)
                w.body(m.body, {}, [])
                assigns += [(c.name, m.name) + r for r in w.assigns]
                calls += [(c.name, m.name) + r for r in w.calls]
                connects += [(c.name, m.name) + r for r in w.connects]
                params, body, writes, scalls = _method_summary(m, set(msig))
                methods.append((c.name, m.name, params, [canon(d, {}) for d in m.decorator_list], body, writes, scalls))
    ls = lambda xs: "[" + ", ".join(lean_str(x) for x in xs) + "]"  # noqa: E731
    lc = lambda cs: "[" + ", ".join(cs) + "]"  # noqa: E731
    out = ["/-! ## the picking dialog: support/sel_from_plot.py -/", "",
           "inductive Cond where", "  | plotIn (vals : List String)", "  | plotEq (v : String)", "  | not (c : Cond)", "  | and (a b : Cond)",
           "  | or (a b : Cond)", "  | opaque (src : String)", "deriving DecidableEq, Repr", "",
           "structure DAssign where", "  cls : String", "  method : String", "  pos : Nat", "  cond : List Cond", "  target : String", "  value : String",
           "deriving DecidableEq, Repr", "",
           "structure DCall where", "  cls : String", "  method : String", "  pos : Nat", "  cond : List Cond", "  callee : String", "  args : List String",
           "deriving DecidableEq, Repr", "",
           "structure DConnect where", "  cls : String", "  method : String", "  pos : Nat", "  cond : List Cond", "  kind : String", "  registry : String",
           "  event : String", "  handler : String", "  hbind : List (String × String)", "deriving DecidableEq, Repr", "",
           "structure DMethod where", "  cls : String", "  name : String", "  params : List String", "  decorators : List String", "  body : String",
           "  writes : List String", "  selfCalls : List String", "deriving DecidableEq, Repr", ""]
    out.append("def dialogClasses : List ClassInfo := [")
    out.append(",\n".join(
        f"  {{ name := {lean_str(c['name'])}, module := {lean_str(c['module'])}, bases := {ls(c['bases'])},\n    own := {ls(c['own'])},\n"
        f"    attrs := [{', '.join(f'({lean_str(k)}, {lean_str(v)})' for k, v in c['attrs'])}], extras := {ls(c['extras'])} }}" for c in classes_out) + "]")
    out.append("")
    out.append("def dassigns : List DAssign := [")
    out.append(",\n".join(f"  {{ cls := {lean_str(a)}, method := {lean_str(b)}, pos := {p}, cond := {lc(cd)}, target := {lean_str(t)}, value := {lean_str(v)} }}"
                          for (a, b, p, cd, t, v) in assigns) + "]")
    out.append("")
    out.append("def dcalls : List DCall := [")
    out.append(",\n".join(f"  {{ cls := {lean_str(a)}, method := {lean_str(b)}, pos := {p}, cond := {lc(cd)}, callee := {lean_str(f)}, args := {ls(ar)} }}"
                          for (a, b, p, cd, f, ar) in calls) + "]")
    out.append("")
    out.append("def dconnects : List DConnect := [")
    out.append(",\n".join(
        f"  {{ cls := {lean_str(a)}, method := {lean_str(b)}, pos := {p}, cond := {lc(cd)}, kind := {lean_str(k)}, registry := {lean_str(r)},\n"
        f"    event := {lean_str(e)}, handler := {lean_str(h)}, hbind := [{', '.join(f'({lean_str(x)}, {lean_str(y)})' for x, y in hb)}] }}"
        for (a, b, p, cd, k, r, e, h, hb) in connects) + "]")
    out.append("")
    out.append("def dmethods : List DMethod := [")
    out.append(",\n".join(
        f"  {{ cls := {lean_str(a)}, name := {lean_str(n)}, params := {ls(ps)}, decorators := {ls(ds)},\n    body := {lean_str(bd)},\n"
        f"    writes := {ls(ws)}, selfCalls := {ls(sc)} }}" for (a, n, ps, ds, bd, ws, sc) in methods) + "]")
    out.append("")
    return out, {"dassigns": len(assigns), "dcalls": len(calls), "dconnects": len(connects), "dmethods": len(methods)}


def translate(repo):
    fdir = os.path.join(repo, "src", "pyoma2", "functions")
    sigs = _sig(fdir)
    CLASS_SIGS.clear()
    sup = os.path.join(repo, "src", "pyoma2", "support", "sel_from_plot.py")
    if os.path.exists(sup):
        for c in ast.parse(open(sup).read()).body:
            if isinstance(c, ast.ClassDef):
                for m in c.body:
                    if isinstance(m, ast.FunctionDef) and m.name == "__init__":
                        CLASS_SIGS[c.name] = [x.arg for x in m.args.posonlyargs + m.args.args][1:] + [x.arg for x in m.args.kwonlyargs]
    sites, stores, classes_out, methods_out = [], [], [], []

    def base_name(b):
        if isinstance(b, ast.Subscript):
            b = b.value
        return b.id if isinstance(b, ast.Name) else ast.unparse(b)

    def bound_names(c):
        """every name the class body binds (a later lookup `self.<name>` finds it in this class)"""
        out = []
        for m in c.body:
            if isinstance(m, (ast.FunctionDef, ast.AsyncFunctionDef, ast.ClassDef)):
                out.append(m.name)
            elif isinstance(m, ast.Assign):
                out += [n.id for t in m.targets for n in ast.walk(t) if isinstance(n, ast.Name)]
            elif isinstance(m, ast.AnnAssign) and m.value is not None and isinstance(m.target, ast.Name):
                out.append(m.target.id)
            elif isinstance(m, ast.AugAssign) and isinstance(m.target, ast.Name):
                out.append(m.target.id)
            elif isinstance(m, (ast.Import, ast.ImportFrom)):
                out += [(a.asname or a.name).split(".")[0] for a in m.names]
            elif not (isinstance(m, ast.Expr) and isinstance(m.value, ast.Constant)) and not isinstance(m, (ast.Pass, ast.AnnAssign)):
                out.append("<" + type(m).__name__ + ">")  # if / for / try / with in a class body: not understood
        return out

    def class_attrs(c):
        out = []
        for m in c.body:
            if isinstance(m, ast.Assign) and len(m.targets) == 1 and isinstance(m.targets[0], ast.Name):
                out.append((m.targets[0].id, canon(m.value, {})))
            elif isinstance(m, ast.AnnAssign) and m.value is not None and isinstance(m.target, ast.Name):
                out.append((m.target.id, canon(m.value, {})))
        return out

    for mod in ["base"] + ALG:
        tree = ast.parse(open(os.path.join(repo, "src", "pyoma2", "algorithms", f"{mod}.py")).read())
        classes = {c.name: c for c in tree.body if isinstance(c, ast.ClassDef)}
        modfuncs = {f.name: (f, False) for f in tree.body if isinstance(f, ast.FunctionDef)}
        # module-level statements that rebind an attribute of a class (`Cls.x = ...`, `setattr(Cls, ...)`)
        patches = {}
        for st in tree.body:
            if isinstance(st, (ast.ClassDef, ast.FunctionDef, ast.Import, ast.ImportFrom)):
                continue
            for n in ast.walk(st):
                if isinstance(n, ast.Attribute) and isinstance(n.ctx, (ast.Store, ast.Del)) and isinstance(n.value, ast.Name) and n.value.id in classes:
                    patches.setdefault(n.value.id, []).append(n.attr)
                if isinstance(n, ast.Call) and isinstance(n.func, ast.Name) and n.func.id in ("setattr", "delattr") and n.args \
                        and isinstance(n.args[0], ast.Name) and n.args[0].id in classes:
                    a1 = n.args[1] if len(n.args) > 1 else None
                    patches.setdefault(n.args[0].id, []).append(a1.value if isinstance(a1, ast.Constant) and isinstance(a1.value, str) else "<setattr>")

        def methods_of(cname, seen=()):
            """own methods first, then those of base classes defined in the same module"""
            out = {}
            c = classes.get(cname)
            if c is None or cname in seen:
                return out
            for b in c.bases:
                bn = b.value.id if isinstance(b, ast.Subscript) and isinstance(b.value, ast.Name) else (b.id if isinstance(b, ast.Name) else None)
                if bn:
                    out.update(methods_of(bn, seen + (cname,)))
            for m in c.body:
                if isinstance(m, ast.FunctionDef):
                    out[m.name] = m
            return out

        for c in tree.body:
            if not isinstance(c, ast.ClassDef):
                continue
            classes_out.append({
                "name": c.name, "module": mod, "bases": [base_name(b) for b in c.bases],
                "own": bound_names(c) + patches.get(c.name, []), "attrs": class_attrs(c),
                "extras": [canon(d, {}) for d in c.decorator_list] + [f"{k.arg}={canon(k.value, {})}" for k in c.keywords],
            })
            helpers = dict(modfuncs)
            for name, m in methods_of(c.name).items():
                if name not in WALKED and not (name.startswith("__") and name.endswith("__")) and not name.startswith("plot"):
                    is_static = any(isinstance(d, ast.Name) and d.id == "staticmethod" for d in m.decorator_list)
                    helpers["self." + name] = (m, not is_static)  # a @staticmethod has no `self` parameter to drop
            for m in c.body:
                if isinstance(m, ast.FunctionDef) and (m.name in WALKED or m.name.startswith("plot")):
                    w = Walker(sigs, c.name, m.name, helpers)
                    w.top(m.body)
                    if mod != "base":
                        sites += w.sites
                        for (t, v, p) in w.stores:
                            stores.append((c.name, m.name, t, v, p))
                    methods_out.append({"cls": c.name, "method": m.name, "guard": w.guard, "pre": w.pre,
                                        "decorators": [canon(d, {}) for d in m.decorator_list]})
    out = ["/-! GENERATED by harness/translate_wiring.py from /repo/src/pyoma2/algorithms — do not edit. -/", "namespace PV.Wiring.Gen", "",
           "structure Site where", "  cls : String", "  method : String", "  callee : String", "  idx : Nat", "  pos : Nat", "  bind : List (String × String)",
           "  ret : List String", "  dflt : List String := []", "deriving DecidableEq, Repr", "",
           "structure Store where", "  cls : String", "  method : String", "  target : String", "  value : String", "  pos : Nat", "deriving DecidableEq, Repr", "",
           "structure ClassInfo where", "  name : String", "  module : String", "  bases : List String", "  own : List String",
           "  attrs : List (String × String)", "  extras : List String", "deriving DecidableEq, Repr", "",
           "structure MethodInfo where", "  cls : String", "  method : String", "  guardKind : String", "  guardArg : String", "  guardPos : Nat",
           "  pre : List String", "  decorators : List String", "deriving DecidableEq, Repr", "",
           "def sites : List Site := ["]
    rows = []
    for s in sites:
        b = ", ".join(f"({lean_str(k)}, {lean_str(v)})" for k, v in s["bind"])
        r = ", ".join(lean_str(x) for x in s["ret"])
        rows.append(f"  {{ cls := {lean_str(s['cls'])}, method := {lean_str(s['method'])}, callee := {lean_str(s['callee'])}, idx := {s['idx']}, pos := {s['pos']},\n    bind := [{b}],\n    ret := [{r}], dflt := [{', '.join(lean_str(x) for x in s.get('dflt', []))}] }}")
    out.append(",\n".join(rows) + "]")
    out.append("")
    out.append("def stores : List Store := [")
    out.append(",\n".join(f"  {{ cls := {lean_str(a)}, method := {lean_str(b)}, target := {lean_str(t)}, value := {lean_str(v)}, pos := {p} }}" for (a, b, t, v, p) in stores) + "]")
    out.append("")
    ls = lambda xs: "[" + ", ".join(lean_str(x) for x in xs) + "]"  # noqa: E731
    out.append("def classes : List ClassInfo := [")
    out.append(",\n".join(
        f"  {{ name := {lean_str(c['name'])}, module := {lean_str(c['module'])}, bases := {ls(c['bases'])},\n    own := {ls(c['own'])},\n"
        f"    attrs := [{', '.join(f'({lean_str(k)}, {lean_str(v)})' for k, v in c['attrs'])}], extras := {ls(c['extras'])} }}" for c in classes_out) + "]")
    out.append("")
    out.append("def methods : List MethodInfo := [")
    out.append(",\n".join(
        f"  {{ cls := {lean_str(m['cls'])}, method := {lean_str(m['method'])}, guardKind := {lean_str(m['guard'][0])}, guardArg := {lean_str(m['guard'][1])}, "
        f"guardPos := {m['guard'][2]}, pre := {ls(m['pre'])}, decorators := {ls(m['decorators'])} }}" for m in methods_out) + "]")
    out.append("")
    dlg, dsum = translate_dialog(repo, bound_names, class_attrs, base_name)
    out += dlg
    out.append("end PV.Wiring.Gen")
    return "\n".join(out) + "\n", dict({"sites": len(sites), "stores": len(stores), "classes": len(classes_out), "methods": len(methods_out)}, **dsum)


def write(repo, lean_dir):
    path = os.path.join(lean_dir, "PyomaVerif", "Generated", "Wiring.lean")
    try:
        text, summary = translate(repo)
    except (SyntaxError, OSError, IndexError, KeyError, AttributeError, TypeError, ValueError) as e:
        return False, f"wiring translator failed closed: {e}", {}
    old = open(path).read() if os.path.exists(path) else None
    if old != text:
        open(path, "w").write(text)
    return True, "ok", summary


if __name__ == "__main__":
    import sys

    here = os.path.dirname(os.path.dirname(os.path.abspath(__file__)))
    repo = os.environ.get("PYOMA2_REPO", "/repo")
    if "--write" in sys.argv:
        ok, msg, s = write(repo, os.path.join(here, "lean"))
        print(msg, s)
        sys.exit(0 if ok else 1)
    print(translate(repo)[0])
