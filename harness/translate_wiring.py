"""Python-AST -> Lean translator for the *wiring* of the algorithm classes (glue code):
for every call of a library function (ssi.*, plscf.*, fdd.*, gen.SC_apply) inside a method of a class of
algorithms/{ssi,plscf,fdd}.py it emits which expression every PARAMETER of the callee receives (positional
arguments are resolved through the callee's signature, local names through the straight-line assignments that
precede the call, call results as `<callee>#<position>`), the names the results are unpacked into, and the
`self.result.* / self.run_params.*` stores of the method with their position relative to the call.
Output: lean/PyomaVerif/Generated/Wiring.lean (a list of `Site`s).  Regenerated on every run."""
import ast
import copy
import os

ALG = ["ssi", "plscf", "fdd"]
LIBS = {"ssi": "ssi", "plscf": "plscf", "fdd": "fdd", "gen": "gen"}
MAXLEN = 160


def _sig(functions_dir):
    """callee -> list of parameter names"""
    out = {}
    for mod in ("ssi", "plscf", "fdd", "gen"):
        tree = ast.parse(open(os.path.join(functions_dir, f"{mod}.py")).read())
        for n in tree.body:
            if isinstance(n, ast.FunctionDef):
                a = n.args
                out[f"{mod}.{n.name}"] = [x.arg for x in a.posonlyargs + a.args] + [x.arg for x in a.kwonlyargs]
    return out


class Sub(ast.NodeTransformer):
    def __init__(self, env):
        self.env = env

    def visit_Name(self, node):
        if isinstance(node.ctx, ast.Load) and node.id in self.env:
            return copy.deepcopy(self.env[node.id])
        return node


CLASS_SIGS = {}  # constructor name -> parameter names (without self); filled by translate()


class KwNorm(ast.NodeTransformer):
    """calls of constructors with a known signature are written in one normal form (all keywords, signature order), so
    that positional and keyword spellings binding the same parameters read the same"""

    def visit_Call(self, node):
        self.generic_visit(node)
        if isinstance(node.func, ast.Name) and node.func.id in CLASS_SIGS and not any(isinstance(a, ast.Starred) for a in node.args) \
                and all(k.arg is not None for k in node.keywords):
            params = CLASS_SIGS[node.func.id]
            if len(node.args) <= len(params):
                kws = {p_: a for p_, a in zip(params, node.args)}
                for k in node.keywords:
                    kws[k.arg] = k.value
                order = [p_ for p_ in params if p_ in kws] + [k for k in kws if k not in params]
                return ast.Call(func=node.func, args=[], keywords=[ast.keyword(arg=k, value=kws[k]) for k in order])
        return node


def canon(expr, env):
    e = KwNorm().visit(Sub(env).visit(copy.deepcopy(expr)))
    ast.fix_missing_locations(e)
    s = ast.unparse(e).replace("\n", " ")
    return s if len(s) <= MAXLEN else s[:MAXLEN] + "..."


def lib_call(v):
    if isinstance(v, ast.Call) and isinstance(v.func, ast.Attribute) and isinstance(v.func.value, ast.Name) and v.func.value.id in LIBS:
        return f"{v.func.value.id}.{v.func.attr}"
    return None


def simple(expr):
    """expressions that may be propagated as aliases: no calls except indexing/attribute chains"""
    return not any(isinstance(n, (ast.Call, ast.Lambda, ast.ListComp, ast.DictComp, ast.GeneratorExp)) for n in ast.walk(expr))


class Walker:
    def __init__(self, sigs, cls, method, helpers=None):
        self.sigs, self.cls, self.method = sigs, cls, method
        self.helpers = helpers or {}  # name -> (FunctionDef, is_method): private methods of the class / module-level helpers
        self.ret = None  # value returned by the helper being inlined
        self.depth = 0
        self.sites = []
        self.counter = {}
        self.stores = []  # (target string, canonical value, position index)
        self.pos = 0

    def body(self, stmts, env):
        for st in stmts:
            env = self.stmt(st, env)
        return env

    def record_call(self, call, env, targets):
        callee = lib_call(call)
        k = self.counter.get(callee, 0)
        self.counter[callee] = k + 1
        params = self.sigs.get(callee)
        bind = []
        if params is None:
            bind.append(("?signature", "unknown callee"))
            params = []
        for i, a in enumerate(call.args):
            if isinstance(a, ast.Starred):
                bind.append((f"*{i}", canon(a.value, env)))
            else:
                bind.append((params[i] if i < len(params) else f"?pos{i}", canon(a, env)))
        for kw in call.keywords:
            bind.append((kw.arg if kw.arg is not None else "**", canon(kw.value, env)))
        self.pos += 1
        self.sites.append({"cls": self.cls, "method": self.method, "callee": callee, "idx": k, "bind": bind, "ret": targets, "pos": self.pos})
        return callee, k

    def helper_of(self, call):
        """FunctionDef of a private method `self.x(...)` / module-level helper `x(...)` defined in the same module"""
        if not isinstance(call, ast.Call):
            return None
        f = call.func
        if isinstance(f, ast.Attribute) and isinstance(f.value, ast.Name) and f.value.id == "self" and ("self." + f.attr) in self.helpers:
            return self.helpers["self." + f.attr]
        if isinstance(f, ast.Name) and f.id in self.helpers:
            return self.helpers[f.id]
        return None

    def inline(self, call, env):
        """walk the helper's body in place of the call (its library calls and stores are recorded as if written here);
        returns the list of returned expressions (or None if the helper's shape is not understood)"""
        fn, is_method = self.helper_of(call)
        if self.depth >= 3 or any(isinstance(a, ast.Starred) for a in call.args) or any(k.arg is None for k in call.keywords):
            return None
        a = fn.args
        params = [x.arg for x in a.posonlyargs + a.args]
        if is_method:
            params = params[1:]
        defaults = dict(zip(params[len(params) - len(a.defaults):], a.defaults)) if a.defaults else {}
        for x, d in zip(a.kwonlyargs, a.kw_defaults):
            params.append(x.arg)
            if d is not None:
                defaults[x.arg] = d
        if len(call.args) > len(params):
            return None
        env2 = {}
        for name, arg in zip(params, call.args):
            env2[name] = Sub(env).visit(copy.deepcopy(arg))
        for kw in call.keywords:
            if kw.arg not in params:
                return None
            env2[kw.arg] = Sub(env).visit(copy.deepcopy(kw.value))
        for name in params:
            if name not in env2:
                if name not in defaults:
                    return None
                env2[name] = copy.deepcopy(defaults[name])
        saved, self.ret = self.ret, None
        self.depth += 1
        try:
            self.body(fn.body, env2)
            out = self.ret
        finally:
            self.depth -= 1
            self.ret = saved
        return out

    def stmt(self, st, env):
        env = dict(env)
        if self.depth > 0 and isinstance(st, ast.Return) and st.value is not None and self.helper_of(st.value) is None and not (
            isinstance(st.value, ast.Call) and lib_call(st.value) is None and not simple(st.value)
        ):
            v = st.value
            if lib_call(v):
                c, k = self.record_call(v, env, ["<returned>"])
                self.ret = [ast.Name(id=f"{c}[{k}]#all", ctx=ast.Load())]
            elif isinstance(v, (ast.Tuple, ast.List)):
                self.ret = [Sub(env).visit(copy.deepcopy(e)) for e in v.elts]
            else:
                self.ret = [Sub(env).visit(copy.deepcopy(v))]
            return env
        if isinstance(st, ast.Assign) and len(st.targets) == 1 and self.helper_of(st.value) is not None:
            tgt = st.targets[0]
            out = self.inline(st.value, env)
            if out is not None:
                if isinstance(tgt, (ast.Tuple, ast.List)):
                    if len(out) == len(tgt.elts):
                        for e, v in zip(tgt.elts, out):
                            if isinstance(e, ast.Name):
                                env[e.id] = v
                        return env
                    if len(out) == 1:
                        for i, e in enumerate(tgt.elts):
                            if isinstance(e, ast.Name):
                                env[e.id] = ast.Name(id=f"{ast.unparse(out[0])}#{i}"[:MAXLEN], ctx=ast.Load())
                        return env
                elif isinstance(tgt, ast.Name):
                    env[tgt.id] = out[0] if len(out) == 1 else ast.Tuple(elts=out, ctx=ast.Load())
                    return env
                elif isinstance(tgt, ast.Attribute) and ast.unparse(tgt).startswith(("self.result.", "self.run_params.")) and len(out) == 1:
                    self.pos += 1
                    self.stores.append((ast.unparse(tgt), canon(out[0], {}), self.pos))
                    return env
            # not understood: fall through to the opaque treatment below
        if isinstance(st, ast.Expr) and self.helper_of(st.value) is not None:
            if self.inline(st.value, env) is not None or True:
                return env
        if isinstance(st, ast.Return) and st.value is not None and self.helper_of(st.value) is not None:
            out = self.inline(st.value, env)
            if self.depth > 0 and out is not None:
                self.ret = out
            return env
        if isinstance(st, ast.Assign) and len(st.targets) == 1:
            tgt, val = st.targets[0], st.value
            callee = lib_call(val)
            if callee:
                names = [ast.unparse(e) for e in tgt.elts] if isinstance(tgt, (ast.Tuple, ast.List)) else [ast.unparse(tgt)]
                c, k = self.record_call(val, env, names)
                if isinstance(tgt, (ast.Tuple, ast.List)):
                    for i, e in enumerate(tgt.elts):
                        if isinstance(e, ast.Name):
                            env[e.id] = ast.Name(id=f"{c}[{k}]#{i}", ctx=ast.Load())
                elif isinstance(tgt, ast.Name):
                    env[tgt.id] = ast.Name(id=f"{c}[{k}]#all", ctx=ast.Load())
                return env
            # stores into self.result / self.run_params
            if isinstance(tgt, ast.Attribute) and ast.unparse(tgt).startswith(("self.result.", "self.run_params.")):
                self.pos += 1
                self.stores.append((ast.unparse(tgt), canon(val, env), self.pos))
                return env
            if isinstance(tgt, ast.Name):
                if simple(val):
                    env[tgt.id] = Sub(env).visit(copy.deepcopy(val))
                else:
                    # other calls (e.g. gen.HC_*, applymask) rebind names opaquely; nested library calls are still recorded
                    for n in ast.walk(val):
                        if lib_call(n):
                            self.record_call(n, env, [tgt.id])
                    env[tgt.id] = ast.Name(id=f"<{canon(val, env)[:60]}>", ctx=ast.Load())
                return env
            if isinstance(tgt, (ast.Tuple, ast.List)):
                for n in ast.walk(val):
                    if lib_call(n):
                        self.record_call(n, env, [ast.unparse(tgt)])
                for i, e in enumerate(tgt.elts):
                    if isinstance(e, ast.Name):
                        env[e.id] = ast.Name(id=f"<{canon(val, env)[:50]}>#{i}", ctx=ast.Load())
                return env
            return env
        if isinstance(st, ast.If):
            e1 = self.body(st.body, env)
            e2 = self.body(st.orelse, env) if st.orelse else dict(env)
            out = dict(env)
            test = canon(st.test, env)
            for name in set(e1) | set(e2):
                a, b = e1.get(name), e2.get(name)
                sa = ast.unparse(a) if a is not None else "<unbound>"
                sb = ast.unparse(b) if b is not None else "<unbound>"
                if sa == sb:
                    out[name] = a
                else:
                    out[name] = ast.Name(id=f"if({test}){{{sa}}}else{{{sb}}}"[:MAXLEN], ctx=ast.Load())
            return out
        if isinstance(st, ast.Return) and isinstance(st.value, ast.Call):
            self.pos += 1
            bind = [(kw.arg or "**", canon(kw.value, env)) for kw in st.value.keywords]
            self.sites.append({"cls": self.cls, "method": self.method, "callee": "return " + canon(st.value.func, {}), "idx": 0, "bind": bind, "ret": [], "pos": self.pos})
            return env
        if isinstance(st, ast.Expr):
            for n in ast.walk(st.value):
                if lib_call(n):
                    self.record_call(n, env, [])
            return env
        if isinstance(st, (ast.For, ast.While, ast.With, ast.Try)):
            # not expected in the glue methods; anything assigned inside becomes opaque
            for n in ast.walk(st):
                if isinstance(n, ast.Name) and isinstance(n.ctx, ast.Store):
                    env[n.id] = ast.Name(id=f"<loop:{n.id}>", ctx=ast.Load())
                if lib_call(n):
                    self.record_call(n, env, ["<in loop>"])
            return env
        return env


def lean_str(s):
    return '"' + s.replace("\\", "\\\\").replace('"', '\\"') + '"'


def translate(repo):
    fdir = os.path.join(repo, "src", "pyoma2", "functions")
    sigs = _sig(fdir)
    CLASS_SIGS.clear()
    sup = os.path.join(repo, "src", "pyoma2", "support", "sel_from_plot.py")
    if os.path.exists(sup):
        for c in ast.parse(open(sup).read()).body:
            if isinstance(c, ast.ClassDef):
                for m in c.body:
                    if isinstance(m, ast.FunctionDef) and m.name == "__init__":
                        CLASS_SIGS[c.name] = [x.arg for x in m.args.posonlyargs + m.args.args][1:] + [x.arg for x in m.args.kwonlyargs]
    sites, stores = [], []
    for mod in ALG:
        tree = ast.parse(open(os.path.join(repo, "src", "pyoma2", "algorithms", f"{mod}.py")).read())
        classes = {c.name: c for c in tree.body if isinstance(c, ast.ClassDef)}
        modfuncs = {f.name: (f, False) for f in tree.body if isinstance(f, ast.FunctionDef)}

        def methods_of(cname, seen=()):
            """own methods first, then those of base classes defined in the same module"""
            out = {}
            c = classes.get(cname)
            if c is None or cname in seen:
                return out
            for b in c.bases:
                bn = b.value.id if isinstance(b, ast.Subscript) and isinstance(b.value, ast.Name) else (b.id if isinstance(b, ast.Name) else None)
                if bn:
                    out.update(methods_of(bn, seen + (cname,)))
            for m in c.body:
                if isinstance(m, ast.FunctionDef):
                    out[m.name] = m
            return out

        for c in tree.body:
            if not isinstance(c, ast.ClassDef):
                continue
            helpers = dict(modfuncs)
            for name, m in methods_of(c.name).items():
                if name not in ("run", "mpe", "mpe_from_plot") and not (name.startswith("__") and name.endswith("__")) and not name.startswith("plot"):
                    helpers["self." + name] = (m, True)
            for m in c.body:
                if isinstance(m, ast.FunctionDef) and m.name in ("run", "mpe", "mpe_from_plot"):
                    w = Walker(sigs, c.name, m.name, helpers)
                    w.body(m.body, {})
                    sites += w.sites
                    for (t, v, p) in w.stores:
                        stores.append((c.name, m.name, t, v, p))
    out = ["/-! GENERATED by harness/translate_wiring.py from /repo/src/pyoma2/algorithms — do not edit. -/", "namespace PV.Wiring.Gen", "",
           "structure Site where", "  cls : String", "  method : String", "  callee : String", "  idx : Nat", "  pos : Nat", "  bind : List (String × String)",
           "  ret : List String", "deriving DecidableEq, Repr", "",
           "structure Store where", "  cls : String", "  method : String", "  target : String", "  value : String", "  pos : Nat", "deriving DecidableEq, Repr", "",
           "def sites : List Site := ["]
    rows = []
    for s in sites:
        b = ", ".join(f"({lean_str(k)}, {lean_str(v)})" for k, v in s["bind"])
        r = ", ".join(lean_str(x) for x in s["ret"])
        rows.append(f"  {{ cls := {lean_str(s['cls'])}, method := {lean_str(s['method'])}, callee := {lean_str(s['callee'])}, idx := {s['idx']}, pos := {s['pos']},\n    bind := [{b}],\n    ret := [{r}] }}")
    out.append(",\n".join(rows) + "]")
    out.append("")
    out.append("def stores : List Store := [")
    out.append(",\n".join(f"  {{ cls := {lean_str(a)}, method := {lean_str(b)}, target := {lean_str(t)}, value := {lean_str(v)}, pos := {p} }}" for (a, b, t, v, p) in stores) + "]")
    out.append("")
    out.append("end PV.Wiring.Gen")
    return "\n".join(out) + "\n", {"sites": len(sites), "stores": len(stores)}


def write(repo, lean_dir):
    path = os.path.join(lean_dir, "PyomaVerif", "Generated", "Wiring.lean")
    try:
        text, summary = translate(repo)
    except (SyntaxError, OSError, IndexError, KeyError) as e:
        return False, f"wiring translator failed closed: {e}", {}
    old = open(path).read() if os.path.exists(path) else None
    if old != text:
        open(path, "w").write(text)
    return True, "ok", summary


if __name__ == "__main__":
    import sys

    here = os.path.dirname(os.path.dirname(os.path.abspath(__file__)))
    repo = os.environ.get("PYOMA2_REPO", "/repo")
    if "--write" in sys.argv:
        ok, msg, s = write(repo, os.path.join(here, "lean"))
        print(msg, s)
        sys.exit(0 if ok else 1)
    print(translate(repo)[0])
