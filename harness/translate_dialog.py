"""Python-AST -> Lean translator for the picking dialog `SelFromPlot` (support/sel_from_plot.py): WHAT is searched,
WHO may write the selection, WHICH button does what, and HOW the selection is sorted (C16 clauses 14/15 + buttons).

Emitted (lean/PyomaVerif/Generated/Dialog.lean, namespace PV.Gen.Dialog, structures in Model/DialogTbl.lean):
 * `meths`      per method: attributes of self written / mutated in place, methods of self called, attribute chains read;
 * `callbacks`  every callable handed to somebody else (mpl_connect, add_command(command=), protocol, bind, after, ...:
                ANY call receiving a bound method of the dialog, a lambda or a local def) with the methods it runs;
 * `pickHelpers` per method appending to `self.sel_freq`: the array the appended frequency is taken from, what its
                subscript reads, the list the index goes to, whether the stored index is a component of that subscript;
 * `handlers`   per method branching on `<event>.button`: (button code, needs shift_is_held, lists guarded non-empty,
                lists popped, action) per branch, sorted by button code;
 * `sorts`      per dialog variant: `self.<list> = <list permuted by argsort(<key>)>` assignments in force;
 * `sites`      every `SelFromPlot(...)` construction in algorithms/*.py with the expressions bound to `algo` / `plot`;
 * `ctorParams`, `algoStores` the constructor's parameters and every assignment to `self.algo` in the class.
Local names are resolved through their single assignment, parameters renamed positionally ($1, $2, ...), helper
methods of the form `[x = e;]* return e` inlined, positional / keyword arguments bound through the signature: the
rows state which object is read / written, not how the statement is spelt.
Fails closed: a form outside this grammar makes `write` return (False, msg, {})."""
import ast
import copy
import glob
import os

CLASS = "SelFromPlot"
VARIANTS = ("SSI", "pLSCF", "FDD")
FREQ_LIST = "sel_freq"
MUT = {"append", "pop", "extend", "insert", "remove", "clear", "sort", "reverse", "__setitem__", "__delitem__",
       "__iadd__", "update", "add", "discard", "popitem", "setdefault"}
MAXLEN = 200


class Unsupported(Exception):
    pass


def lean_str(s):
    return '"' + s.replace("\\", "\\\\").replace('"', '\\"').replace("\n", "\\n") + '"'


def lst(xs, f=lean_str):
    return "[" + ", ".join(f(x) for x in xs) + "]"


def cut(s):
    return s if len(s) <= MAXLEN else s[:MAXLEN] + "..."


def dotted(n):
    parts = []
    while isinstance(n, ast.Attribute):
        parts.append(n.attr)
        n = n.value
    if isinstance(n, ast.Name):
        parts.append(n.id)
        return ".".join(reversed(parts))
    return None


def body_of(fn):
    b = fn.body
    if b and isinstance(b[0], ast.Expr) and isinstance(b[0].value, ast.Constant) and isinstance(b[0].value.value, str):
        b = b[1:]
    return b


def params_of(fn):
    a = fn.args
    if a.vararg or a.kwarg or a.posonlyargs:
        raise Unsupported(f"{fn.name}: *args / **kwargs / positional-only parameters")
    names = [x.arg for x in a.args] + [x.arg for x in a.kwonlyargs]
    if not names or names[0] != "self":
        raise Unsupported(f"{fn.name}: first parameter is not self (static / class method?)")
    return names[1:]


def walk_no_defer(node):
    """ast.walk that does not enter lambdas / nested defs / classes (their code runs later, if ever)"""
    todo = [node]
    while todo:
        n = todo.pop()
        yield n
        for c in ast.iter_child_nodes(n):
            if isinstance(c, (ast.Lambda, ast.FunctionDef, ast.AsyncFunctionDef, ast.ClassDef)):
                continue
            todo.append(c)


def stmts_no_defer(stmts):
    for st in stmts:
        if isinstance(st, (ast.FunctionDef, ast.AsyncFunctionDef, ast.ClassDef)):
            continue
        yield from walk_no_defer(st)


# ----------------------------------------------------------------------------- local environment of a method
def target_names(t):
    if isinstance(t, ast.Name):
        return [t.id]
    if isinstance(t, (ast.Tuple, ast.List)):
        return [n for e in t.elts for n in target_names(e)]
    if isinstance(t, ast.Starred):
        return target_names(t.value)
    return []


def local_env(fn):
    """name -> value expression for locals assigned exactly once, outside any loop, by `name = expr`; every other
    assigned local -> None (its value is not one expression)"""
    count, val, bad, localdefs, allv = {}, {}, set(), {}, {}

    def visit(stmts, inloop):
        for st in stmts:
            if isinstance(st, (ast.FunctionDef, ast.AsyncFunctionDef)):
                localdefs[st.name] = st
                continue
            if isinstance(st, ast.ClassDef):
                raise Unsupported(f"{fn.name}: nested class")
            if isinstance(st, ast.Assign):
                for t in st.targets:
                    for nm in target_names(t):
                        count[nm] = count.get(nm, 0) + 1
                        allv.setdefault(nm, []).append(st.value)
                        if isinstance(t, ast.Name) and len(st.targets) == 1 and not inloop:
                            val[nm] = st.value
                        else:
                            bad.add(nm)
            elif isinstance(st, ast.AnnAssign) and isinstance(st.target, ast.Name):
                count[st.target.id] = count.get(st.target.id, 0) + 1
                if st.value is not None and not inloop:
                    val[st.target.id] = st.value
                else:
                    bad.add(st.target.id)
            elif isinstance(st, ast.AugAssign):
                bad.update(target_names(st.target))
            elif isinstance(st, (ast.For, ast.AsyncFor)):
                bad.update(target_names(st.target))
                visit(st.body, True)
                visit(st.orelse, inloop)
            elif isinstance(st, ast.While):
                visit(st.body, True)
                visit(st.orelse, inloop)
            elif isinstance(st, ast.If):
                visit(st.body, inloop)
                visit(st.orelse, inloop)
            elif isinstance(st, (ast.With, ast.AsyncWith)):
                for it in st.items:
                    if it.optional_vars is not None:
                        bad.update(target_names(it.optional_vars))
                visit(st.body, inloop)
            elif isinstance(st, ast.Try) or st.__class__.__name__ == "TryStar":
                for h in st.handlers:
                    if h.name:
                        bad.add(h.name)
                    visit(h.body, inloop)
                visit(st.body, inloop)
                visit(st.orelse, inloop)
                visit(st.finalbody, inloop)
            elif isinstance(st, ast.Match):
                raise Unsupported(f"{fn.name}: match statement")
            elif isinstance(st, (ast.Global, ast.Nonlocal)):
                raise Unsupported(f"{fn.name}: global / nonlocal")

    visit(fn.body, False)
    for n in ast.walk(fn):
        if isinstance(n, ast.NamedExpr):
            bad.update(target_names(n.target))
        if isinstance(n, ast.comprehension):
            bad.update(x for x in target_names(n.target) if x in count)
    env = {}
    for nm, c in count.items():
        env[nm] = val[nm] if (c == 1 and nm not in bad and nm in val) else None
    for nm in bad:
        env[nm] = None
    return env, (localdefs, allv)


class Resolver(ast.NodeTransformer):
    """substitute single-assignment locals by their value, parameters by $k (or by the actual argument when a helper
    method is inlined), `self.m(...)` by the returned expression when m is a pure `return` helper"""

    def __init__(self, cls, fn, argmap=None, depth=0):
        self.cls, self.fn, self.depth = cls, fn, depth
        self.env = cls.env(fn)[0]
        ps = params_of(fn)
        self.argmap = argmap if argmap is not None else {p: ast.Name(id=f"${i + 1}", ctx=ast.Load()) for i, p in enumerate(ps)}
        self.bound = []

    def _comp(self, node):
        names = [n for g in node.generators for n in target_names(g.target)]
        self.bound.append(set(names))
        try:
            return self.generic_visit(node)
        finally:
            self.bound.pop()

    visit_ListComp = visit_SetComp = visit_GeneratorExp = visit_DictComp = _comp

    def visit_Lambda(self, node):
        self.bound.append({a.arg for a in node.args.args + node.args.kwonlyargs})
        try:
            return self.generic_visit(node)
        finally:
            self.bound.pop()

    def visit_Name(self, node):
        if not isinstance(node.ctx, ast.Load) or any(node.id in b for b in self.bound):
            return node
        if node.id in self.env:
            v = self.env[node.id]
            if v is None or self.depth > 12:
                return ast.Name(id=f"<multi:{node.id}>", ctx=ast.Load())
            self.depth += 1
            try:
                return self.visit(copy.deepcopy(v))
            finally:
                self.depth -= 1
        if node.id in self.argmap:
            return copy.deepcopy(self.argmap[node.id])
        return node

    def visit_Call(self, node):
        node = self.generic_visit(node)
        f = node.func
        if isinstance(f, ast.Attribute) and isinstance(f.value, ast.Name) and f.value.id == "self" and f.attr in self.cls.methods:
            callee = self.cls.methods[f.attr]
            ret = self.cls.pure_return(callee)
            if ret is not None and self.depth < 6 and not any(isinstance(a, ast.Starred) for a in node.args) \
                    and all(k.arg is not None for k in node.keywords):
                ps = params_of(callee)
                if len(node.args) <= len(ps):
                    amap = dict(zip(ps, node.args))
                    amap.update({k.arg: k.value for k in node.keywords})
                    a = callee.args
                    pos = a.args[1:]
                    for x, d in zip(pos[len(pos) - len(a.defaults):], a.defaults):
                        amap.setdefault(x.arg, d)
                    for x, d in zip(a.kwonlyargs, a.kw_defaults):
                        if d is not None:
                            amap.setdefault(x.arg, d)
                    if all(p in amap for p in ps):
                        return Resolver(self.cls, callee, amap, self.depth + 1).visit(copy.deepcopy(ret))
        return node


def chains(node):
    """maximal attribute chains rooted at self / a $k parameter / an unresolved local that the expression reads"""
    out = []

    def rec(n, is_func=False):
        if isinstance(n, ast.Attribute):
            d = dotted(n)
            if d is not None:
                root = d.split(".")[0]
                if root == "self" or root.startswith("$") or root.startswith("<multi:"):
                    if is_func:
                        d = d.rsplit(".", 1)[0]
                    for suf in (".shape", ".size", ".T"):
                        if d.endswith(suf):
                            d = d[: -len(suf)]
                    if d != "self":
                        out.append(d)
                    return
        if isinstance(n, ast.Call):
            rec(n.func, True)
            for a in n.args:
                rec(a)
            for k in n.keywords:
                rec(k.value)
            return
        if isinstance(n, ast.Name) and (n.id.startswith("$") or n.id.startswith("<multi:")):
            out.append(n.id)
            return
        for c in ast.iter_child_nodes(n):
            rec(c)

    rec(node)
    return sorted(set(out))


def self_attr(n):
    """first attribute after self of a chain rooted at self, else None"""
    d = dotted(n) if isinstance(n, ast.Attribute) else None
    if d and d.startswith("self.") :
        return d.split(".")[1]
    return None


# ----------------------------------------------------------------------------- the class
class Cls:
    def __init__(self, node):
        self.node = node
        self.methods = {}
        for st in node.body:
            if isinstance(st, ast.FunctionDef):
                if st.name in self.methods:
                    raise Unsupported(f"method {st.name} defined twice")
                self.methods[st.name] = st
            elif isinstance(st, ast.AsyncFunctionDef):
                raise Unsupported("async method")
        self._env = {}

    def env(self, fn):
        if fn.name not in self._env:
            self._env[fn.name] = local_env(fn)
        return self._env[fn.name]

    def pure_return(self, fn):
        """the returned expression of a helper whose body is `[name = expr]* return expr` (no effect on self)"""
        if fn.decorator_list:
            return None
        b = body_of(fn)
        if not b or not isinstance(b[-1], ast.Return) or b[-1].value is None:
            return None
        for st in b[:-1]:
            if not (isinstance(st, ast.Assign) and len(st.targets) == 1 and isinstance(st.targets[0], ast.Name)):
                return None
        return b[-1].value

    def resolve(self, fn, expr):
        return Resolver(self, fn).visit(copy.deepcopy(expr))


def writes_of(cls, fn, stmts=None):
    """attributes of self written / mutated in place by the statements (not entering lambdas / nested defs)"""
    env, (_, allv) = cls.env(fn)
    w = set()

    def alias_of_self(name):
        """may the local hold an object reachable from self (so that mutating it in place writes the dialog)"""
        return any(any(c.startswith("self") for c in chains(v)) or any(isinstance(x, ast.Name) and x.id == "self" for x in ast.walk(v))
                   for v in allv.get(name, [])) or name not in allv

    def tgt(t):
        if isinstance(t, (ast.Tuple, ast.List)):
            for e in t.elts:
                tgt(e)
        elif isinstance(t, ast.Starred):
            tgt(t.value)
        elif isinstance(t, ast.Subscript):
            tgt(t.value)
        elif isinstance(t, ast.Attribute):
            a = self_attr(t)
            if a is not None:
                w.add(a)
            elif dotted(t) is None:
                tgt(t.value)
        elif isinstance(t, ast.Name):
            v = env.get(t.id)
            if v is not None and isinstance(v, ast.Attribute) and self_attr(v):
                pass  # rebinding a local alias does not touch the attribute

    for n in stmts_no_defer(fn.body if stmts is None else stmts):
        if isinstance(n, ast.Assign):
            for t in n.targets:
                tgt(t)
        elif isinstance(n, (ast.AugAssign, ast.AnnAssign)):
            tgt(n.target)
            if isinstance(n, ast.AugAssign) and isinstance(n.target, ast.Name) and n.target.id in env:
                v = env.get(n.target.id)  # `l = self.a; l += [..]` mutates the list
                a = self_attr(v) if isinstance(v, ast.Attribute) else None
                if a is not None:
                    w.add(a)
                elif alias_of_self(n.target.id):
                    w.add("*")
        elif isinstance(n, ast.Delete):
            for t in n.targets:
                tgt(t)
        elif isinstance(n, (ast.For, ast.AsyncFor)):
            tgt(n.target)
        elif isinstance(n, (ast.With, ast.AsyncWith)):
            for it in n.items:
                if it.optional_vars is not None:
                    tgt(it.optional_vars)
        elif isinstance(n, ast.NamedExpr):
            tgt(n.target)
        elif isinstance(n, ast.Call):
            f = n.func
            fd = dotted(f) if isinstance(f, (ast.Attribute, ast.Name)) else None
            if fd in ("setattr", "delattr", "vars", "object.__setattr__", "self.__setattr__", "self.__dict__.update"):
                w.add("*")
            if isinstance(f, ast.Attribute) and f.attr in MUT:
                r = f.value
                a = self_attr(r) if isinstance(r, ast.Attribute) else None
                if a is None and isinstance(r, ast.Subscript):
                    rr = r
                    while isinstance(rr, ast.Subscript):
                        rr = rr.value
                    a = self_attr(rr) if isinstance(rr, ast.Attribute) else None
                if a is None and isinstance(r, ast.Name):
                    if r.id in env:
                        v = env[r.id]
                        a = self_attr(v) if isinstance(v, ast.Attribute) else None
                        if a is None and alias_of_self(r.id):
                            a = "*"  # an alias of something reachable from self, not a plain attribute
                    elif r.id in params_of(fn):
                        a = None
                if a is not None:
                    w.add(a)
        elif isinstance(n, ast.Attribute) and n.attr == "__dict__" and isinstance(n.value, ast.Name) and n.value.id == "self":
            w.add("*")
        elif isinstance(n, ast.Name) and n.id == "self" and isinstance(n.ctx, ast.Load):
            pass
    # a bare `self` handed to somebody else can be written through
    class Bare(ast.NodeVisitor):
        def __init__(s):
            s.hit = False

        def visit_Attribute(s, node):
            if isinstance(node.value, ast.Name) and node.value.id == "self":
                return
            s.generic_visit(node)

        def visit_Name(s, node):
            if node.id == "self":
                s.hit = True

        def visit_Lambda(s, node):
            return

        def visit_FunctionDef(s, node):
            return

    for st in (fn.body if stmts is None else stmts):
        if isinstance(st, (ast.FunctionDef, ast.AsyncFunctionDef)):
            continue
        b = Bare()
        b.visit(st)
        if b.hit:
            w.add("*")
    return sorted(w)


def self_calls(cls, node_iter):
    out = []
    for n in node_iter:
        if isinstance(n, ast.Call) and isinstance(n.func, ast.Attribute) and isinstance(n.func.value, ast.Name) \
                and n.func.value.id == "self" and n.func.attr in cls.methods:
            out.append(n.func.attr)
    return out


def rename_params(fn, node):
    ps = params_of(fn)

    class T(ast.NodeTransformer):
        def visit_Name(s, n):
            if n.id in ps:
                return ast.Name(id=f"${ps.index(n.id) + 1}", ctx=n.ctx)
            return n

    return T().visit(copy.deepcopy(node))


def reads_of(cls, fn):
    out = set()
    for st in fn.body:
        if isinstance(st, (ast.FunctionDef, ast.AsyncFunctionDef)):
            continue
        out.update(chains(rename_params(fn, st)))
    return sorted(c for c in out if not c.startswith("<multi:"))


# ----------------------------------------------------------------------------- callbacks
def deferred_targets(cls, fn, node):
    """(targets, opaque) of a callable expression: bound method of self, lambda, local def, functools.partial(self.m, ..)"""
    env, (localdefs, _) = cls.env(fn)
    if isinstance(node, ast.Name) and node.id in env and env[node.id] is not None:
        node = env[node.id]
    if isinstance(node, ast.Attribute) and isinstance(node.value, ast.Name) and node.value.id == "self" and node.attr in cls.methods:
        return [node.attr], False
    if isinstance(node, ast.Call) and dotted(node.func) in ("partial", "functools.partial") and node.args:
        return deferred_targets(cls, fn, node.args[0])
    if isinstance(node, ast.Lambda):
        calls = [n for n in ast.walk(node.body) if isinstance(n, ast.Call)]
        tg = self_calls(cls, calls)
        opaque = len(tg) != len(calls) or any(isinstance(n, (ast.NamedExpr, ast.Lambda)) for n in ast.walk(node.body))
        return tg, opaque
    if isinstance(node, ast.Name) and node.id in localdefs:
        d = localdefs[node.id]
        calls = [n for n in ast.walk(d) if isinstance(n, ast.Call)]
        tg = self_calls(cls, calls)
        ok = all(isinstance(st, (ast.Expr, ast.Return, ast.Pass)) for st in body_of(d)) and len(tg) == len(calls)
        return tg, not ok
    return None


def callbacks_of(cls, fn):
    rows = []
    for n in stmts_no_defer(fn.body):
        if not isinstance(n, ast.Call):
            continue
        f = n.func
        if isinstance(f, ast.Attribute) and isinstance(f.value, ast.Name) and f.value.id == "self" and f.attr in cls.methods:
            # a callable passed to an own method: the method may store it anywhere -> cannot follow
            for a in list(n.args) + [k.value for k in n.keywords]:
                if isinstance(a, ast.Lambda) or (deferred_targets(cls, fn, a) is not None and not isinstance(a, ast.Name)):
                    rows.append((fn.name, "self." + f.attr, "", [], True))
            continue
        if dotted(f) in ("partial", "functools.partial"):
            continue
        kind = f.attr if isinstance(f, ast.Attribute) else (f.id if isinstance(f, ast.Name) else "<call>")
        event = ""
        for a in n.args:
            if isinstance(a, ast.Constant) and isinstance(a.value, str):
                event = a.value
                break
        if not event:
            for k in n.keywords:
                if k.arg in ("label", "text", "sequence", "name") and isinstance(k.value, ast.Constant) and isinstance(k.value.value, str):
                    event = k.value.value
                    break
        for a in list(n.args) + [k.value for k in n.keywords]:
            if isinstance(a, ast.Starred):
                rows.append((fn.name, kind, event, [], True))
                continue
            r = deferred_targets(cls, fn, a)
            if r is not None:
                rows.append((fn.name, kind, event, r[0], r[1]))
    # a lambda / bound method stored somewhere instead of being passed (self.cb = self.m; d["x"] = lambda: ...)
    for n in stmts_no_defer(fn.body):
        if isinstance(n, ast.Assign) and not all(isinstance(t, ast.Name) for t in n.targets):
            r = deferred_targets(cls, fn, n.value) if isinstance(n.value, (ast.Lambda, ast.Attribute)) else None
            if r is not None and (isinstance(n.value, ast.Lambda) or r[0]):
                rows.append((fn.name, "<stored>", ast.unparse(n.targets[0]), r[0], True))
    return rows


# ----------------------------------------------------------------------------- pick helpers
def strip_int(n):
    if isinstance(n, ast.Call) and isinstance(n.func, ast.Name) and n.func.id == "int" and len(n.args) == 1 and not n.keywords:
        return n.args[0]
    return n


def multis(node):
    return sorted({n.id[7:-1] for n in ast.walk(node) if isinstance(n, ast.Name) and n.id.startswith("<multi:")})


def bases_in(node):
    """resolved base of every subscript / .shape whose base is an attribute chain of self (or not a chain at all)"""
    out = set()
    for n in ast.walk(node):
        b = None
        if isinstance(n, ast.Subscript):
            b = n.value
        elif isinstance(n, ast.Attribute) and n.attr in ("shape", "size", "T") and dotted(n) is not None:
            b = n.value
        if b is None:
            continue
        d = dotted(b)
        if d is not None:
            for suf in (".shape", ".T", ".size"):
                if d.endswith(suf):
                    d = d[: -len(suf)]
            if d.startswith("self.") or d.startswith("<multi:"):
                out.add(d)
        elif isinstance(b, ast.Call):
            fd = dotted(b.func) or "<call>"
            if fd not in ("np.array", "np.asarray", "numpy.array", "numpy.asarray", "np.abs", "np.arange", "abs"):
                out.add(f"<{cut(ast.unparse(b))}>")
    return sorted(out)


def pick_helper(cls, fn):
    apps = []
    for n in stmts_no_defer(fn.body):
        if isinstance(n, ast.Call) and isinstance(n.func, ast.Attribute) and n.func.attr in ("append", "insert", "extend") \
                and isinstance(n.func.value, ast.Attribute) and self_attr(n.func.value) is not None:
            apps.append((self_attr(n.func.value), n))
    if not any(a == FREQ_LIST for a, _ in apps):
        return None
    fa = [n for a, n in apps if a == FREQ_LIST]
    ia = [(a, n) for a, n in apps if a != FREQ_LIST]
    unresolved = []
    if len(fa) != 1 or len(ia) != 1 or any(n.func.attr != "append" or len(n.args) != 1 or n.keywords for _, n in apps):
        unresolved.append("<appends>")
        return (fn.name, "<several appends>", [], ia[0][0] if ia else "", [], False, [], unresolved, "")
    farg = cls.resolve(fn, fa[0].args[0])
    iarg = cls.resolve(fn, ia[0][1].args[0])
    unresolved += multis(farg) + multis(iarg)
    if isinstance(farg, ast.Subscript):
        table = ast.unparse(farg.value)
        idx = farg.slice
        idx_reads = chains(idx)
        comps = [idx] + (list(idx.elts) if isinstance(idx, ast.Tuple) else [])
        inidx = any(ast.dump(strip_int(c)) == ast.dump(strip_int(iarg)) for c in comps)
        tabs = set(bases_in(idx)) | set(bases_in(iarg))
    else:
        table = f"<{cut(ast.unparse(farg))}>"
        idx_reads = chains(farg)
        inidx = False
        tabs = set(bases_in(farg)) | set(bases_in(iarg))
    on_algo = "self." + table[len("self.algo."):] if table.startswith("self.algo.") and dotted(farg.value) is not None else ""
    return (fn.name, table, idx_reads, ia[0][0], chains(iarg), inidx, sorted(tabs), sorted(set(unresolved)), on_algo)


# ----------------------------------------------------------------------------- click handlers
def parse_test(fn, test):
    ps = params_of(fn)
    conj = test.values if isinstance(test, ast.BoolOp) and isinstance(test.op, ast.And) else [test]
    button, shift, ok = None, False, True
    for c in conj:
        if isinstance(c, ast.Compare) and len(c.ops) == 1 and isinstance(c.ops[0], ast.Eq):
            l, r = c.left, c.comparators[0]
            if isinstance(l, ast.Constant):
                l, r = r, l
            if isinstance(l, ast.Attribute) and l.attr == "button" and isinstance(l.value, ast.Name) and ps and l.value.id == ps[0] \
                    and isinstance(r, ast.Constant) and type(r.value) is int and r.value >= 0 and button is None:
                button = r.value
                continue
        if isinstance(c, ast.Attribute) and self_attr(c) == "shift_is_held" and dotted(c) == "self.shift_is_held":
            shift = True
            continue
        ok = False
    return button, shift, ok and button is not None


def mentions_button(test):
    return any(isinstance(n, ast.Attribute) and n.attr == "button" for n in ast.walk(test))


def parse_action(cls, fn, body, helpers):
    guard = []
    inner = body
    if len(body) == 1 and isinstance(body[0], ast.If) and not body[0].orelse:
        t = body[0].test
        conj = t.values if isinstance(t, ast.BoolOp) and isinstance(t.op, ast.And) else [t]
        if all(isinstance(c, ast.Attribute) and dotted(c) == "self." + c.attr for c in conj):
            guard = sorted(c.attr for c in conj)
            inner = body[0].body
    assigns, calls, pops, other = {}, [], [], False
    for st in inner:
        if isinstance(st, ast.Assign) and len(st.targets) == 1:
            t = st.targets[0]
            if isinstance(t, ast.Name):
                continue
            if isinstance(t, ast.Attribute) and dotted(t) == "self." + t.attr:
                assigns[t.attr] = ast.unparse(cls.resolve(fn, st.value))
                continue
            other = True
        elif isinstance(st, ast.Expr) and isinstance(st.value, ast.Call):
            c = st.value
            f = c.func
            if isinstance(f, ast.Attribute) and isinstance(f.value, ast.Name) and f.value.id == "self" and f.attr in cls.methods:
                calls.append(f.attr)
            elif isinstance(f, ast.Attribute) and f.attr == "pop" and isinstance(f.value, ast.Attribute) and dotted(f.value) == "self." + f.value.attr \
                    and not c.keywords and len(c.args) <= 1:
                pops.append((f.value.attr, cls.resolve(fn, c.args[0]) if c.args else None))
            else:
                other = True
        else:
            other = True
    src = cut("; ".join(ast.unparse(rename_params(fn, st)) for st in inner))
    popped = sorted(a for a, _ in pops)
    hs = [c for c in calls if c in helpers]
    if other or len(set(popped)) != len(popped):
        return guard, popped, ("other", src)
    if hs and not pops:
        if len(hs) != 1:
            return guard, popped, ("other", src)
        return guard, popped, ("pick", hs[0], assigns.get("x_data_pole", ""), assigns.get("y_data_pole", ""))
    if pops and not hs:
        if all(a is None for _, a in pops):
            return guard, popped, ("popLast",)
        if all(a is not None for _, a in pops) and len({ast.dump(a) for _, a in pops}) == 1:
            a = pops[0][1]
            if multis(a):
                return guard, popped, ("other", src)
            fnname = (dotted(a.func) or "") if isinstance(a, ast.Call) else ""
            return guard, popped, ("popNearest", fnname, chains(a))
    return guard, popped, ("other", src)


def handler_of(cls, fn, helpers):
    b = body_of(fn)
    ifs = [st for st in stmts_no_defer(fn.body) if isinstance(st, ast.If) and mentions_button(st.test)]
    if not ifs:
        return None
    well = len(b) == 1 and isinstance(b[0], ast.If) and not fn.decorator_list
    branches = []
    node = b[0] if well else ifs[0]
    while True:
        button, shift, ok = parse_test(fn, node.test)
        well = well and ok
        guard, popped, act = parse_action(cls, fn, node.body, helpers)
        branches.append((button if button is not None else 0, shift, guard, popped, act))
        if len(node.orelse) == 1 and isinstance(node.orelse[0], ast.If):
            node = node.orelse[0]
            continue
        if node.orelse:
            well = False
        break
    codes = [x[0] for x in branches]
    well = well and len(set(codes)) == len(codes)
    if well:
        branches.sort(key=lambda x: x[0])  # pairwise exclusive tests: the order of the elif chain is immaterial
    return (fn.name, len(params_of(fn)), well, branches)


# ----------------------------------------------------------------------------- sorting of the selection
def eval_plot_cond(test, p):
    """value of a test on self.plot for the variant p; None if it is not such a test"""
    if isinstance(test, ast.BoolOp):
        vals = [eval_plot_cond(v, p) for v in test.values]
        if any(v is None for v in vals):
            return None
        return all(vals) if isinstance(test.op, ast.And) else any(vals)
    if isinstance(test, ast.UnaryOp) and isinstance(test.op, ast.Not):
        v = eval_plot_cond(test.operand, p)
        return None if v is None else not v
    if isinstance(test, ast.Compare) and len(test.ops) == 1 and dotted(test.left) == "self.plot":
        op, r = test.ops[0], test.comparators[0]
        if isinstance(op, (ast.In, ast.NotIn)) and isinstance(r, (ast.Tuple, ast.List, ast.Set)) \
                and all(isinstance(e, ast.Constant) and isinstance(e.value, str) for e in r.elts):
            v = p in [e.value for e in r.elts]
            return v if isinstance(op, ast.In) else not v
        if isinstance(op, (ast.Eq, ast.NotEq)) and isinstance(r, ast.Constant) and isinstance(r.value, str):
            v = p == r.value
            return v if isinstance(op, ast.Eq) else not v
    return None


def is_argsort(n):
    return isinstance(n, ast.Call) and dotted(n.func) in ("np.argsort", "numpy.argsort") and len(n.args) >= 1


def match_perm(val):
    """(source, argsort call) if `val` is <source> permuted by an argsort result, else None"""
    v = val
    if isinstance(v, ast.Call) and isinstance(v.func, ast.Name) and v.func.id == "list" and len(v.args) == 1 and not v.keywords:
        v = v.args[0]
    elif isinstance(v, ast.Call) and isinstance(v.func, ast.Attribute) and v.func.attr == "tolist" and not v.args:
        v = v.func.value
    if isinstance(v, ast.Subscript) and is_argsort(v.slice):
        s = v.value
        if isinstance(s, ast.Call) and dotted(s.func) in ("np.array", "np.asarray", "numpy.array", "numpy.asarray") and len(s.args) == 1 and not s.keywords:
            s = s.args[0]
        return s, v.slice
    if isinstance(v, ast.ListComp) and len(v.generators) == 1 and not v.generators[0].ifs and isinstance(v.generators[0].target, ast.Name) \
            and is_argsort(v.generators[0].iter) and isinstance(v.elt, ast.Subscript) and isinstance(v.elt.slice, ast.Name) \
            and v.elt.slice.id == v.generators[0].target.id:
        return v.elt.value, v.generators[0].iter
    return None


def sorts_of(cls, fn, p):
    if not any(is_argsort(n) for n in ast.walk(fn)):
        return []
    first_write = {}
    for n in stmts_no_defer(fn.body):
        if isinstance(n, ast.Assign):
            for t in n.targets:
                if isinstance(t, ast.Attribute) and self_attr(t):
                    first_write[self_attr(t)] = min(first_write.get(self_attr(t), 10 ** 9), n.lineno)
    rows = []

    def visit(stmts):
        for st in stmts:
            if isinstance(st, ast.If):
                v = eval_plot_cond(st.test, p)
                if v is None:
                    rows.append((fn.name, "<undecided>", cut(ast.unparse(st.test)), "", False))
                    visit(st.body)
                    visit(st.orelse)
                else:
                    visit(st.body if v else st.orelse)
            elif isinstance(st, (ast.For, ast.While, ast.With, ast.Try)):
                rows.append((fn.name, "<loop-or-try>", "", "", False))
            elif isinstance(st, ast.Assign):
                for t in st.targets:
                    if isinstance(t, ast.Attribute) and dotted(t) == "self." + t.attr:
                        val = cls.resolve(fn, st.value)
                        m = match_perm(val)
                        if m is None:
                            rows.append((fn.name, t.attr, f"<{cut(ast.unparse(val))}>", "", False))
                            continue
                        src, call = m
                        key = call.args[0]
                        kind = [k.value.value for k in call.keywords if k.arg == "kind" and isinstance(k.value, ast.Constant)]
                        stable = bool(kind) and kind[0] in ("stable", "mergesort")
                        extra = [k.arg for k in call.keywords if k.arg != "kind"] + (["<pos>"] if len(call.args) > 1 else [])
                        perm = ast.unparse(key)
                        stale = [c for c in chains(key) if c.startswith("self.") and first_write.get(c.split(".")[1], 10 ** 9) < call.lineno]
                        if stale:
                            perm = "<after-rebind>" + perm
                        if extra:
                            perm = perm + "<" + ",".join(extra) + ">"
                        rows.append((fn.name, t.attr, ast.unparse(src), perm, stable))
                    elif isinstance(t, ast.Attribute) and self_attr(t):
                        rows.append((fn.name, "<" + ast.unparse(t) + ">", "", "", False))

    visit(body_of(fn))
    return rows


# ----------------------------------------------------------------------------- construction sites
def sites_of(repo, ctor_params):
    rows = []
    for path in sorted(glob.glob(os.path.join(repo, "src", "pyoma2", "algorithms", "*.py"))):
        tree = ast.parse(open(path).read())
        for c in tree.body:
            if not isinstance(c, ast.ClassDef):
                continue
            for m in c.body:
                if not isinstance(m, ast.FunctionDef):
                    continue
                for n in ast.walk(m):
                    if isinstance(n, ast.Call) and (dotted(n.func) or "").split(".")[-1] == CLASS:
                        if any(isinstance(a, ast.Starred) for a in n.args) or any(k.arg is None for k in n.keywords) or len(n.args) > len(ctor_params):
                            rows.append((c.name, m.name, "<star>", "<star>"))
                            continue
                        b = dict(zip(ctor_params, n.args))
                        b.update({k.arg: k.value for k in n.keywords})
                        rows.append((c.name, m.name, ast.unparse(b["algo"]) if "algo" in b else "<unbound>",
                                     ast.unparse(b["plot"]) if "plot" in b else "<default>"))
    return rows


# ----------------------------------------------------------------------------- driver
def translate(repo):
    path = os.path.join(repo, "src", "pyoma2", "support", "sel_from_plot.py")
    tree = ast.parse(open(path).read())
    cs = [n for n in tree.body if isinstance(n, ast.ClassDef) and n.name == CLASS]
    if len(cs) != 1:
        raise Unsupported(f"class {CLASS} not found exactly once in support/sel_from_plot.py")
    if cs[0].bases or cs[0].keywords or cs[0].decorator_list:
        raise Unsupported(f"class {CLASS} has bases / keywords / decorators: inherited methods are not read")
    # module-level patches of the class (SelFromPlot.m = ...) would bypass the table
    for n in ast.walk(tree):
        if isinstance(n, (ast.Assign, ast.AugAssign)):
            for t in (n.targets if isinstance(n, ast.Assign) else [n.target]):
                if isinstance(t, ast.Attribute) and (dotted(t) or "").startswith(CLASS + "."):
                    raise Unsupported(f"module-level patch {ast.unparse(t)}")
        if isinstance(n, ast.Call) and dotted(n.func) == "setattr" and n.args and dotted(n.args[0]) == CLASS:
            raise Unsupported("setattr on the class")
    cls = Cls(cs[0])
    if "__init__" not in cls.methods:
        raise Unsupported("no __init__")
    for name in ("__setattr__", "__getattr__", "__getattribute__"):
        if name in cls.methods:
            raise Unsupported(f"{name} overridden")
    ctor = params_of(cls.methods["__init__"])

    meths, cbs, helpers_rows, handlers, algo_stores = [], [], [], [], []
    for name, fn in cls.methods.items():
        if any(not (isinstance(d, ast.Name) and d.id in ()) for d in fn.decorator_list):
            raise Unsupported(f"{name}: decorated method")
        ps = params_of(fn)
        calls = sorted(set(self_calls(cls, stmts_no_defer(fn.body))))
        meths.append((name, len(ps), writes_of(cls, fn), calls, reads_of(cls, fn)))
        cbs += callbacks_of(cls, fn)
        h = pick_helper(cls, fn)
        if h is not None:
            helpers_rows.append(h)
        for n in stmts_no_defer(fn.body):
            if isinstance(n, ast.Assign):
                for t in n.targets:
                    if isinstance(t, ast.Attribute) and dotted(t) == "self.algo":
                        algo_stores.append((name, ast.unparse(rename_params(fn, cls.resolve(fn, n.value)))))
                    elif isinstance(t, (ast.Tuple, ast.List)) and any(isinstance(e, ast.Attribute) and dotted(e) == "self.algo" for e in t.elts):
                        algo_stores.append((name, "<unpacked>"))
    helper_names = {h[0] for h in helpers_rows}
    for name, fn in cls.methods.items():
        h = handler_of(cls, fn, helper_names)
        if h is not None:
            handlers.append(h)
    sorts = [(p, [r for fn in cls.methods.values() for r in sorts_of(cls, fn, p)]) for p in VARIANTS]
    sites = sites_of(repo, ctor)

    def act(a):
        if a[0] == "pick":
            return f"(.pick {lean_str(a[1])} {lean_str(a[2])} {lean_str(a[3])})"
        if a[0] == "popLast":
            return ".popLast"
        if a[0] == "popNearest":
            return f"(.popNearest {lean_str(a[1])} {lst(a[2])})"
        return f"(.other {lean_str(a[1])})"

    b = lambda v: "true" if v else "false"  # noqa: E731
    o = ["import PyomaVerif.Model.DialogTbl",
         "/-! GENERATED by harness/translate_dialog.py from support/sel_from_plot.py and algorithms/*.py — do not edit. -/",
         "namespace PV.Gen.Dialog", "open PV.DialogTbl", ""]
    o.append(f"def ctorParams : List String := {lst(ctor)}")
    o.append("")
    o.append("def algoStores : List (String × String) := " + lst(algo_stores, lambda r: f"({lean_str(r[0])}, {lean_str(r[1])})"))
    o.append("")
    o.append("def meths : List Meth := [")
    o.append(",\n".join(f"  {{ name := {lean_str(m[0])}, nparams := {m[1]}, writes := {lst(m[2])},\n    calls := {lst(m[3])},\n    reads := {lst(m[4])} }}" for m in meths) + "]")
    o.append("")
    o.append("def callbacks : List Callback := [")
    o.append(",\n".join(f"  {{ method := {lean_str(c[0])}, kind := {lean_str(c[1])}, event := {lean_str(c[2])}, targets := {lst(c[3])}, unknown := {b(c[4])} }}" for c in cbs) + "]")
    o.append("")
    o.append("def pickHelpers : List PickHelper := [")
    o.append(",\n".join(
        f"  {{ name := {lean_str(h[0])}, freqTable := {lean_str(h[1])}, freqIndexReads := {lst(h[2])},\n    indList := {lean_str(h[3])}, indReads := {lst(h[4])}, indInFreqIndex := {b(h[5])},\n    tables := {lst(h[6])}, unresolved := {lst(h[7])}, tableOnAlgo := {lean_str(h[8])} }}"
        for h in helpers_rows) + "]")
    o.append("")
    o.append("def handlers : List Handler := [")
    o.append(",\n".join(
        f"  {{ name := {lean_str(h[0])}, nparams := {h[1]}, wellFormed := {b(h[2])}, branches := [\n" + ",\n".join(
            f"      {{ button := {br[0]}, shift := {b(br[1])}, guard := {lst(br[2])}, popped := {lst(br[3])},\n        act := {act(br[4])} }}" for br in h[3]) + "] }"
        for h in handlers) + "]")
    o.append("")
    o.append("def sorts : List (String × List SortAssign) := [")
    o.append(",\n".join(
        f"  ({lean_str(p)}, [" + ", ".join(
            f"{{ method := {lean_str(r[0])}, target := {lean_str(r[1])}, source := {lean_str(r[2])}, perm := {lean_str(r[3])}, stable := {b(r[4])} }}" for r in rows) + "])"
        for p, rows in sorts) + "]")
    o.append("")
    o.append("def sites : List DlgSite := [")
    o.append(",\n".join(f"  {{ cls := {lean_str(s[0])}, method := {lean_str(s[1])}, algo := {lean_str(s[2])}, plot := {lean_str(s[3])} }}" for s in sites) + "]")
    o.append("")
    o.append("end PV.Gen.Dialog")
    summary = {"methods": len(meths), "callbacks": len(cbs), "pick_helpers": len(helpers_rows), "handlers": len(handlers), "sites": len(sites)}
    return "\n".join(o) + "\n", summary


def write(repo, lean_dir):
    path = os.path.join(lean_dir, "PyomaVerif", "Generated", "Dialog.lean")
    try:
        text, summary = translate(repo)
    except (Unsupported, SyntaxError, OSError, IndexError, KeyError, AttributeError, TypeError, ValueError) as e:
        return False, f"dialog translator failed closed: {type(e).__name__}: {e}", {}
    old = open(path).read() if os.path.exists(path) else None
    if old != text:
        open(path, "w").write(text)
    return True, "ok", summary


if __name__ == "__main__":
    import sys

    here = os.path.dirname(os.path.dirname(os.path.abspath(__file__)))
    repo = os.environ.get("PYOMA2_REPO", "/repo")
    if "--write" in sys.argv:
        ok, msg, s = write(repo, os.path.join(here, "lean"))
        print(msg, s)
        sys.exit(0 if ok else 1)
    print(translate(repo)[0])
