"""Exact modal systems and their noise-free free-vibration responses (shared by C01, C02, C03, C08)."""
import math

import numpy as np


class ModalSystem:
    def __init__(self, fn, xi, phi, fs):
        self.fn = np.asarray(fn, float)  # Hz
        self.xi = np.asarray(xi, float)
        self.phi = np.asarray(phi)  # (nch, m), real or complex
        self.fs = float(fs)
        self.dt = 1.0 / fs
        w = 2 * np.pi * self.fn
        self.lam = -self.xi * w + 1j * w * np.sqrt(1 - self.xi**2)  # continuous poles (upper half plane)
        self.mu = np.exp(self.lam * self.dt)

    @property
    def m(self):
        return len(self.fn)

    def response(self, N, amp=None, gains=None):
        """free decay y[t, ch] = sum_k 2 Re(phi[ch,k] a_k mu_k^t): a real 2m-state linear system"""
        m = self.m
        if amp is None:
            amp = np.ones(m, complex)
        t = np.arange(N)[:, None]
        modal = amp[None, :] * self.mu[None, :] ** t  # (N, m)
        y = 2 * np.real(modal @ self.phi.T)
        if gains is not None:
            y = y * np.asarray(gains)[None, :]
        return y

    def state_space(self):
        """real (A, C) of order 2m in modal block form"""
        m = self.m
        A = np.zeros((2 * m, 2 * m))
        C = np.zeros((self.phi.shape[0], 2 * m))
        for k in range(m):
            a, b = self.mu[k].real, self.mu[k].imag
            A[2 * k : 2 * k + 2, 2 * k : 2 * k + 2] = [[a, b], [-b, a]]
            C[:, 2 * k] = 2 * self.phi[:, k].real
            C[:, 2 * k + 1] = 2 * self.phi[:, k].imag
        return A, C

    def norm_shapes(self):
        out = []
        for k in range(self.m):
            v = self.phi[:, k]
            out.append(v / v[np.argmax(np.abs(v))])
        return np.array(out).T


def random_system(rng, g, m, nch, fs, complex_shapes=False, xi_rng=(0.002, 0.08), fmax=0.45, min_sep=0.03):
    """m underdamped modes with distinct frequencies in (0, fmax*fs), separated by min_sep*fs"""
    for _ in range(1000):
        f = sorted(rng.uniform(0.02, fmax) for _ in range(m))
        if all(b - a >= min_sep for a, b in zip(f, f[1:])):
            break
    else:
        f = list(np.linspace(0.05, fmax - 0.02, m))
    fn = np.array(f) * fs
    xi = np.array([math.exp(rng.uniform(math.log(xi_rng[0]), math.log(xi_rng[1]))) for _ in range(m)])
    phi = g.standard_normal((nch, m))
    if complex_shapes:
        phi = phi + 1j * g.standard_normal((nch, m))
    return ModalSystem(fn, xi, phi, fs)


def mac(a, b):
    a = np.asarray(a).ravel()
    b = np.asarray(b).ravel()
    if a.shape != b.shape:  # a shape with the wrong number of components matches nothing
        return 0.0
    return abs(np.vdot(a, b)) ** 2 / (np.vdot(a, a).real * np.vdot(b, b).real)


def match_poles(fn_tab, xi_tab, phi_tab, sys, lam_tab=None):
    """for every true mode find the (up to two) table rows of one order column nearest in frequency
    (the conjugate pair); a pole in the lower half plane is compared with the conjugate shape;
    returns list of (k, rows, max rel fn err, max xi err, min MAC)"""
    out = []
    valid = ~np.isnan(fn_tab)
    for k in range(sys.m):
        if not valid.any():
            out.append((k, [], np.inf, np.inf, 0.0))
            continue
        d = np.abs(fn_tab - sys.fn[k]) / sys.fn[k]
        d = np.where(valid, d, np.inf)
        rows = [int(i) for i in np.argsort(d)[:2] if np.isfinite(d[i])]
        out.append(
            (
                k,
                rows,
                max(d[i] for i in rows),
                max(abs(xi_tab[i] - sys.xi[k]) for i in rows),
                min(
                    mac(phi_tab[i], np.conj(sys.phi[:, k]) if (lam_tab is not None and lam_tab[i].imag < 0) else sys.phi[:, k])
                    for i in rows
                ),
            )
        )
    return out


def observability_index(S, rows, tol=1e-6, kmax=40):
    """smallest k such that [C; CA; ...; CA^(k-1)] restricted to the sensor `rows` has (numerical) rank 2m"""
    A, C = S.state_space()
    Cr = C[list(rows), :]
    blocks = []
    M = np.eye(A.shape[0])
    for k in range(1, kmax + 1):
        blocks.append(Cr @ M)
        M = M @ A
        O = np.vstack(blocks)
        sv = np.linalg.svd(O, compute_uv=False)
        if len(sv) >= A.shape[0] and sv[A.shape[0] - 1] > tol * sv[0]:
            return k
    return None
