"""C15, extended orchestration alphabet (helper of c15.py; not a check of its own).

The letters that were outside the model until depth round 2 (audit gap 12):

  readd       setup.add_algorithms(setup[n])         - the SAME object again (re-binding after preprocessing)
  set_params  setup[n].set_run_params(p | None)
  plot        setup.mpe_from_plot(n, **kw)           - the Tk dialog `SelFromPlot` replaced by a scripted stand-in
                                                       (what the user clicks is part of the letter)

Real code: BaseSetup.add_algorithms / __getitem__ / mpe_from_plot, BaseAlgorithm.set_run_params / _set_data and the
`mpe_from_plot` of FDD, EFDD, FSDD, SSIcov, SSIdat, pLSCF on a real SingleSetup.  Model: Model/OrchX.lean `stepX`
through the driver op `orch_trace_x` (terms, evaluated stand-alone with the real classes as in c15.py).
"""
import copy
import itertools

LEAN_MODULES = ["PyomaVerif.Props.C15X", "PyomaVerif.Mutants.C15X", "PyomaVerif.Props.WiringGuardX"]
THEOREMS = [
    "PV.C15.C15_readd_rebinds",
    "PV.C15.C15_unknown_name",
    "PV.C15.C15_readd_then_run",
    "PV.C15.C15_readd_result_is_stale",
    "PV.C15.C15_setParams_effect",
    "PV.C15.C15_gating_recovers",
    "PV.C15.C15_gating_recovers_params",
    "PV.C15.C15_gating_mpe_from_plot_outcome",
    "PV.C15.C15_gating_mpe_from_plot",
    "PV.C15.C15_gating_mpe_from_plot_before_run",
    "PV.C15.C15_mpe_from_plot_result",
    "PV.C15.C15_isolation_frame_x",
    "PV.C15.C15_history_independent_x",
    "PV.C15.C15_history_independent_x_new",
    "PV.C15.C15_projX_own",
    "PV.C15.C15_execX_base",
    "PV.WiringGuard.C15_PlotGuarded_from_source",
    "PV.WiringGuard.C15_AllGuarded_x_from_source",
    "PV.C15.MutantsX.readdSkip_rebinds_fails",
    "PV.C15.MutantsX.plotViaGet_unknown_name_fails",
    "PV.C15.MutantsX.preFixPlot_gating_fails",
    "PV.C15.MutantsX.fixedPlot_gating_holds",
    "PV.C15.MutantsX.setParamsReset_effect_fails",
]
RULE = (
    " | extended alphabet (orchx.py): every call sequence of length 3 for 2 ordered class pairs (thorough: 6 pairs, +1 pair "
    "length 4) over a 13-letter alphabet {add A, add A without parameters, add B, inject unbound B, run A, run_all, decimate, "
    "re-add A, re-add unknown, set_run_params A (other set), set_run_params A None, mpe_from_plot A, mpe_from_plot unknown} plus "
    "sampled length-6 sequences over 3 names, 6 classes, re-add / set_run_params / mpe_from_plot / mpe / run / run_all / "
    "preprocessing / rollback; after EVERY call the same observation as for the old alphabet vs `orch_trace_x`; history "
    "projection `orch_proj_x` replayed on the real code; oracle from the statement: mpe_from_plot without a prior run or with "
    "an unknown name raises and stores nothing, re-add / set_run_params touch only their target, a run after them equals a "
    "stand-alone run with the parameters set last on the data bound last; the same letters on a real MultiSetup_PreGER with the "
    "five _MS classes (2 user stories per class + sampled length-6 sequences): exception class, dict order, class, "
    "hash(run_params), identity of the bound data object and fs/dt, presence of result / modal parameters"
)
ASSUMPTIONS = [
    "re-adding is `add_algorithms(setup[n])` - an object that is in the dict; an object the user kept across `rollback` and adds "
    "again (it returns with its old result) is outside the model",
    "the dialog of mpe_from_plot is a scripted stand-in for `SelFromPlot` (it only reads the algorithm; Tk is not exercised)",
]

# what the user passes to mpe_from_plot and what they click in the dialog: (sel_freq, orders)
_EFK = {"g1": (dict(DF1=1.0, DF2=2.0, sppk=1, npmax=3), ([2.5, 4.5], None)),
        "g2": (dict(DF1=0.8, DF2=1.5, sppk=0, npmax=3, freqlim=(0.0, 10.0)), ([4.5], None))}
_SSK = {"g1": (dict(rtol=0.2), ([2.5, 4.5], [6, 6])), "g2": (dict(), ([4.5], [5]))}
PLOT = {
    "FDD": {"g1": (dict(DF=1.0), ([2.5, 4.5], None)), "g2": (dict(DF=0.8, freqlim=(0.0, 10.0)), ([4.5], None))},
    "EFDD": _EFK,
    "FSDD": _EFK,
    "SSIcov": _SSK,
    "SSIdat": _SSK,
    "pLSCF": {"g1": (dict(rtol=0.5), ([2.5, 4.5], [4, 4])), "g2": (dict(rtol=0.5), ([4.5], [3]))},
}


def stored_by_plot(cls, kw):
    """fields of run_params after `cls.mpe_from_plot(**kw)` (defaults of the signatures filled in; never sel_freq)"""
    if cls == "FDD":
        return dict(DF=kw.get("DF", 0.1))
    if cls in ("EFDD", "FSDD"):
        return dict(DF1=kw.get("DF1", 0.1), DF2=kw.get("DF2", 1.0), cm=kw.get("cm", 1), MAClim=kw.get("MAClim", 0.85),
                    sppk=kw.get("sppk", 3), npmax=kw.get("npmax", 20))
    return dict(rtol=kw.get("rtol", 5e-2 if cls == "pLSCF" else 1e-2))


# ----------------------------------------------------------------------------- the scripted dialog
_CLICKS = [None]
_DIALOGS = [0]


class FakeSelFromPlot:
    """stand-in for pyoma2.support.sel_from_plot.SelFromPlot: returns what the script says the user clicked"""

    def __init__(self, algo, freqlim=None, plot=None):
        if _CLICKS[0] is None:
            raise RuntimeError("dialog opened without a script")
        _DIALOGS[0] += 1
        if algo.result is None:  # the real dialog reads algo.result.* when it draws
            raise AttributeError("'NoneType' object has no attribute 'freq'")
        sel, order = copy.deepcopy(_CLICKS[0])
        self.result = (sel, order)


class dialog:
    """context manager: the three algorithm modules see the scripted dialog"""

    def __enter__(self):
        import pyoma2.algorithms.fdd as a
        import pyoma2.algorithms.plscf as b
        import pyoma2.algorithms.ssi as c

        self.saved = [(m, m.SelFromPlot) for m in (a, b, c)]
        for m, _ in self.saved:
            m.SelFromPlot = FakeSelFromPlot
        return self

    def __exit__(self, *exc):
        for m, v in self.saved:
            m.SelFromPlot = v
        _CLICKS[0] = None
        return False


def call_plot(alg_or_setup, name, cls, a):
    """mpe_from_plot with the letter's keywords; `name` None: directly on an algorithm instance"""
    kw, clicks = PLOT[cls][a] if cls in PLOT else (dict(), ([1.0], None))
    _CLICKS[0] = clicks
    if name is None:
        alg_or_setup.mpe_from_plot(**copy.deepcopy(kw))
    else:
        alg_or_setup.mpe_from_plot(name, **copy.deepcopy(kw))


# ----------------------------------------------------------------------------- real execution
def apply_op_x(ss, op, caller=None):
    import c15

    k = op["k"]
    if k == "readd":
        ss.add_algorithms(ss[c15.rn(op["n"])])
    elif k == "set_params":
        alg = ss[c15.rn(op["n"])]
        if op["p"] is None:
            alg.set_run_params(None)
        else:
            c, kw = c15.BASE[op["p"]]
            alg.set_run_params(c15.lib()[c].RunParamCls(**copy.deepcopy(kw)))
    elif k == "plot":
        alg = ss.algorithms.get(c15.rn(op["n"]))
        call_plot(ss, c15.rn(op["n"]), type(alg).__name__ if alg is not None else "-", op["a"])
    else:
        c15.apply_op(ss, op, caller)


def execute_x(world, seq):
    import c15

    user = world.data0.copy()
    ss = c15.lib()["SingleSetup"](user, c15.FS0)
    caller = {}
    obs = [c15.observe(ss, "init", user, caller)]
    for op in seq:
        try:
            apply_op_x(ss, op, caller)
            out = "ok"
        except Exception as e:  # noqa: BLE001
            out = type(e).__name__
        obs.append(c15.observe(ss, out, user, caller))
    return obs


def sig_x(seq):
    import c15

    def one(o):
        k = o["k"]
        if k == "readd":
            return f"readd({o['n']})"
        if k == "set_params":
            return f"set_params({o['n']}:{o['p']})"
        if k == "plot":
            return f"plot({o['n']},{o['a']})"
        return c15.seq_sig([o])

    return " ; ".join(one(o) for o in seq)


# ----------------------------------------------------------------------------- stand-alone evaluation of the new terms
def world_x(base_world):
    """the c15 World of this seed, with the two new term constructors (shares its caches)"""
    import c15

    class WorldX(c15.World):
        def __init__(self, w):  # noqa: D401 - same data, same caches
            self.__dict__ = w.__dict__
            self.__dict__.setdefault("traces_x", {})

        def evP(self, t):
            if t[0] != "plotP":
                return c15.World.evP(self, t)
            key = c15.json.dumps(t)
            if key not in self.pc:
                _, cls, p, a = t
                rp = copy.deepcopy(self.evP(p)[0])
                for k_, v_ in stored_by_plot(cls, PLOT[cls][a][0]).items():
                    setattr(rp, k_, copy.deepcopy(v_))
                self.pc[key] = (rp, c15.fp(vars(rp)))
            return self.pc[key]

        def evR(self, t):
            if t[0] != "plot":
                return c15.World.evR(self, t)
            key = c15.json.dumps(t)
            if key not in self.rc:
                try:
                    _, cls, p, b, r, a = t
                    prev = self.evR(r)
                    if prev[0] == "exc":
                        raise RuntimeError("inner")
                    inst = self._inst(cls, p, b)
                    inst.result = copy.deepcopy(prev[0])
                    call_plot(inst, None, cls, a)
                    self.rc[key] = (inst.result, c15.fp(vars(inst.result)))
                except Exception as e:  # noqa: BLE001
                    self.rc[key] = ("exc", type(e).__name__)
            return self.rc[key]

        def trace_x(self, seq):
            key = c15.json.dumps(seq)
            if key not in self.traces_x:
                self.traces_x[key] = execute_x(self, seq)
            return self.traces_x[key]

    return WorldX(base_world)


def compare_x(world, seq, obs, model):
    """-> (ok, detail, numeric_skip); as c15.compare, numerical failures also inside mpe_from_plot"""
    for i, mo in enumerate(model):
        ob = obs[i + 1]
        where = f"call {i} {sig_x([seq[i]])}"
        if mo["out"] != ob["out"]:
            if mo["out"] == "ok" and seq[i]["k"] in ("run", "run_all", "mpe", "plot"):
                for e in mo["algs"]:
                    if e["r"] is not None and world.evR(e["r"]) == ("exc", ob["out"]):
                        return True, f"{where}: numerical {ob['out']} reproduced stand-alone", True
            return False, f"{where}: outcome model={mo['out']} impl={ob['out']}", False
        d, fs, dfp = world.evD(mo["data"])
        if [dfp, fs] != ob["data"]:
            return False, f"{where}: setup data/fs differ from {mo['data']}", False
        if [e["n"] for e in mo["algs"]] != [a["n"] for a in ob["algs"]]:
            return False, f"{where}: dict keys model={[e['n'] for e in mo['algs']]} impl={[a['n'] for a in ob['algs']]}", False
        for e, a in zip(mo["algs"], ob["algs"]):
            if e["c"] != a["c"]:
                return False, f"{where}: class of {e['n']}", False
            pm = None if e["p"] is None else world.evP(e["p"])[1]
            if pm != a["p"]:
                return False, f"{where}: run_params of {e['n']} differ from {e['p']}", False
            bm = e["b"] if isinstance(e["b"], str) else [world.evD(e["b"][1])[2], world.evD(e["b"][1])[1]]
            if bm != a["b"]:
                return False, f"{where}: bound data of {e['n']} differ from {e['b']}", False
            if e["r"] is None:
                rm = None
            else:
                ev = world.evR(e["r"])
                if ev[0] == "exc":
                    return False, f"{where}: stand-alone evaluation of {e['r']} raised {ev[1]} but the setup holds a result", False
                rm = ev[1]
            if rm != a["r"]:
                return False, f"{where}: result of {e['n']} differs from stand-alone {e['r']}", False
    return True, "", False


# ----------------------------------------------------------------------------- sequences
def alphabet_x(ca, cb):
    return [
        dict(k="add", n="A", c=ca, p=ca),
        dict(k="add", n="A", c=ca, p=None),
        dict(k="add", n="B", c=cb, p=cb),
        dict(k="inject", n="B", c=cb, p=cb, none=False),
        dict(k="run", n="A"),
        dict(k="run_all"),
        dict(k="pre", q="dec2"),
        dict(k="readd", n="A"),
        dict(k="readd", n="Z"),
        dict(k="set_params", n="A", p=ca + "_b"),
        dict(k="set_params", n="A", p=None),
        dict(k="plot", n="A", a="g1"),
        dict(k="plot", n="Z", a="g1"),
    ]


def universes_x(ctx):
    import c15

    six = c15.CLASSES5 + ["FSDD"]
    s = ctx.seed
    if not ctx.thorough:
        return [((six[s % 6], six[(s + 2) % 6]), 3), ((six[(s + 3) % 6], six[(s + 4) % 6]), 3)]
    return [((six[(s + i) % 6], six[(s + i + 2) % 6]), 3) for i in range(6)] + [((six[(s + 1) % 6], six[s % 6]), 4)]


def sample_seq_x(rng, L=6):
    """random sequence over the large extended alphabet; classes are tracked per name so that set_run_params hands over a
    parameter object of the algorithm's own class (another class's object is a numerical matter, not orchestration)"""
    import c15

    names = ["A", "B", "C"]
    classes = ["FDD", "EFDD", "FSDD", "SSIcov", "SSIdat", "pLSCF"]
    cls_of = {n: rng.choice(classes) for n in names}
    seq, npre = [], 0
    for j in range(L):
        u = rng.random()
        n = rng.choice(names)
        if j == 0 and u < 0.9:
            u = 0.0  # most histories start by adding something ...
        elif j == 1 and u < 0.6 and seq[0]["k"] == "add":
            seq.append(dict(k="run", n=seq[0]["n"]) if u < 0.45 else dict(k="run_all"))  # ... and running it
            continue
        if u < 0.18:
            c = cls_of[n]
            seq.append(dict(k="add", n=n, c=c, p=rng.choice([c, c + "_b", c, c, None])))
        elif u < 0.33:
            seq.append(dict(k="run", n=n if rng.random() < 0.9 else "Z"))
        elif u < 0.40:
            seq.append(dict(k="run_all"))
        elif u < 0.48:
            seq.append(dict(k="mpe", n=n, a=rng.choice(["m1", "m2", "m3"])))
        elif u < 0.62:
            seq.append(dict(k="plot", n=n if rng.random() < 0.9 else "Z", a=rng.choice(["g1", "g2"])))
        elif u < 0.74:
            seq.append(dict(k="readd", n=n if rng.random() < 0.9 else "Z"))
        elif u < 0.86:
            c = cls_of[n]
            seq.append(dict(k="set_params", n=n if rng.random() < 0.9 else "Z", p=rng.choice([c, c + "_b", c + "_b", None])))
        elif u < 0.94:
            if npre < 2:
                npre += 1
                seq.append(dict(k="pre", q=rng.choice(list(c15.PRE))))
            else:
                seq.append(dict(k="run", n=n))
        elif u < 0.97:
            npre = 0
            seq.append(dict(k="rollback"))
        else:
            c = cls_of[n]
            seq.append(dict(k="inject", n=n, c=c, p=rng.choice([c, None]), none=rng.random() < 0.5))
    return seq


def sessions_x():
    """the user stories of the two clauses, for every class: (a) added without parameters -> run fails -> set_run_params ->
    run; (b) run -> decimate -> re-add -> (stale result) -> run; (c) extract from the plot before / after the run, then
    again after set_run_params(None)"""
    import c15

    out = []
    for c in c15.CLASSES5 + ["FSDD"]:
        out.append([dict(k="add", n="A", c=c, p=None), dict(k="run", n="A"), dict(k="set_params", n="A", p=c),
                    dict(k="run", n="A"), dict(k="plot", n="A", a="g1")])
        out.append([dict(k="add", n="A", c=c, p=c), dict(k="run", n="A"), dict(k="pre", q="dec2"), dict(k="readd", n="A"),
                    dict(k="plot", n="A", a="g2"), dict(k="run", n="A"), dict(k="plot", n="A", a="g2")])
        out.append([dict(k="add", n="A", c=c, p=c), dict(k="plot", n="A", a="g1"), dict(k="run_all"),
                    dict(k="plot", n="A", a="g1"), dict(k="set_params", n="A", p=None), dict(k="plot", n="A", a="g2"),
                    dict(k="mpe", n="A", a="m1")])
        out.append([dict(k="inject", n="A", c=c, p=None, none=True), dict(k="run", n="A"), dict(k="readd", n="A"),
                    dict(k="set_params", n="A", p=c + "_b"), dict(k="run", n="A")])
    return out


_SEQS = {}


def sequences_x(ctx):
    key = (ctx.seed, ctx.tier)
    if key not in _SEQS:
        ex = []
        for (ca, cb), L in universes_x(ctx):
            ex += [list(t) for t in itertools.product(alphabet_x(ca, cb), repeat=L)]
            ctx.count(f"x_universe_{ca}_{cb}_len{L}")
        sm = [sample_seq_x(ctx.rng) for _ in range(ctx.n(160, 3000))] + sessions_x()
        _SEQS[key] = (ex, sm)
    return _SEQS[key]


# ----------------------------------------------------------------------------- oracle (from the statement; no model)
def judge_x(world, seq, obs, report, stats):
    """the clauses about the three new calls, judged from the observations alone.  Tracks, per name, what the statement
    says a run depends on: class, the parameter set handed over last, the data bound last."""
    import c15

    tr = {}
    for i, op in enumerate(seq):
        before, after = obs[i], obs[i + 1]
        k, out = op["k"], after["out"]
        B = {a["n"]: a for a in before["algs"]}
        Af = {a["n"]: a for a in after["algs"]}
        tgt = op.get("n")
        if k == "rollback":
            tr = {}
            continue
        if k in ("add", "inject"):
            tr[tgt] = dict(cls=op["c"], pid=op["p"], bound=None if k == "inject" else (c15._ARRS[after["data"][0]], after["data"][1]))
            continue
        if k in ("readd", "set_params", "plot"):
            stats("oracle_x_calls")
            meth = {"readd": "add_algorithms", "set_params": "set_run_params", "plot": "mpe_from_plot"}[k]
            cls = B[tgt]["c"] if tgt in B else "-"
            if after["user"] != before["user"] or after["data"] != before["data"]:
                report(f"setup-data-changed:{meth}", f"{sig_x([op])} changed the setup's data", i)
            if list(B) != list(Af):
                report(f"algorithms-changed:{meth}", "set/order of algorithms changed", i, list(Af), list(B))
                return
            for n in B:  # isolation: nobody else is touched
                if n != tgt and B[n] != Af[n]:
                    report(f"crosstalk:{meth}:{B[n]['c']}", f"{sig_x([op])} changed algorithm {n}", i)
            if tgt not in B:
                if out == "ok":
                    report(f"gating-no-exception:{meth}:unknown-name", f"{sig_x([op])} succeeded for a name that is not in the setup", i)
                continue
            b, a = B[tgt], Af[tgt]
            if k == "readd":
                if out != "ok":
                    report(f"unexpected-exception:{meth}:{out}", "re-adding raised", i)
                    return
                if a["b"] != after["data"]:
                    report(f"readd-not-bound:{cls}", "a re-added algorithm is not bound to the setup's current data", i, a["b"], after["data"])
                if (a["p"], a["r"], a["c"]) != (b["p"], b["r"], b["c"]):
                    report(f"readd-changed:{cls}", "re-adding changed parameters / result / class", i)
                if tgt in tr:
                    tr[tgt]["bound"] = (c15._ARRS[after["data"][0]], after["data"][1])
            elif k == "set_params":
                if out != "ok":
                    report(f"unexpected-exception:{meth}:{out}", "set_run_params raised", i)
                    return
                exp_p = None if op["p"] is None else c15.fp(vars(c15.make(c15.BASE[op["p"]][0], "x", op["p"]).run_params))
                if a["p"] != exp_p:
                    report(f"set-params-not-stored:{cls}", "run_params after set_run_params are not the ones handed over", i)
                if (a["r"], a["b"]) != (b["r"], b["b"]):
                    report(f"set-params-changed:{cls}", "set_run_params changed result / bound data", i)
                if tgt in tr:
                    tr[tgt]["pid"] = op["p"]
            else:
                lacking = b["r"] is None
                if lacking and out == "ok":
                    report(f"gating-no-exception:mpe_from_plot:{cls}", "mpe_from_plot succeeded without a prior run", i)
                if out != "ok":
                    for f, nm in (("p", "run_params"), ("r", "result"), ("b", "bound-data")):
                        if b[f] != a[f]:
                            report(f"gating-stored:{cls}.mpe_from_plot:{out}:{nm}",
                                   f"{cls}.mpe_from_plot raised {out} but {nm} of the algorithm differs from before the call", i,
                                   {"before": b, "after": a})
                    if lacking:
                        stats("plot_gated")
                    continue
                if a["b"] != b["b"]:
                    report(f"mpe-changed:{cls}:bound-data", "mpe_from_plot changed the bound data", i)
                stats("plot_extracted")
            continue
        if k == "run" and out == "ok" and tgt in tr and tr[tgt]["bound"] is not None and tr[tgt]["pid"] is not None:
            t = tr[tgt]
            if c15.BASE[t["pid"]][0] != t["cls"]:
                continue
            so = world.solo(t["cls"], t["pid"], *t["bound"], None)
            stats("oracle_x_runs_after_rebind")
            if "exc" in so:
                stats("numeric_exception_skipped")
                return
            if Af[tgt]["r"] != so["r"]:
                report(f"isolation-result:{t['cls']}:run-after-rebind",
                       f"result of {tgt} after {sig_x(seq[: i + 1])} differs from a stand-alone run with the parameters set last "
                       "on the data bound last", i, Af[tgt]["r"], so["r"])


# ----------------------------------------------------------------------------- the same protocol on MultiSetup_PreGER with the _MS classes
_HC = dict(conj=True, xi_max=0.9, mpc_lim=0.0, mpd_lim=1.0)
MS_BASE = {"FDD_MS": dict(nxseg=64), "EFDD_MS": dict(nxseg=128), "SSIcov_MS": dict(br=4, ordmax=8),
           "SSIdat_MS": dict(br=4, ordmax=8), "pLSCF_MS": dict(ordmax=6, nxseg=64, method_SD="cor", hc=_HC)}
_MSLIB = {}


def mslib():
    if not _MSLIB:
        from pyoma2.algorithms.fdd import EFDD_MS, FDD_MS
        from pyoma2.algorithms.plscf import pLSCF_MS
        from pyoma2.algorithms.ssi import SSIcov_MS, SSIdat_MS
        from pyoma2.setup import MultiSetup_PreGER

        _MSLIB.update(FDD_MS=FDD_MS, EFDD_MS=EFDD_MS, SSIcov_MS=SSIcov_MS, SSIdat_MS=SSIdat_MS, pLSCF_MS=pLSCF_MS,
                      PreGER=MultiSetup_PreGER)
    return _MSLIB


def ms_make(cls, name, pid):
    import c15

    return mslib()[cls](name=c15.rn(name)) if pid is None else mslib()[cls](name=c15.rn(name), **copy.deepcopy(MS_BASE[pid]))


def apply_op_ms(ms, op):
    import c15

    k, n = op["k"], c15.rn(op.get("n", ""))
    if k == "add":
        ms.add_algorithms(ms_make(op["c"], op["n"], op["p"]))
    elif k == "inject":
        inst = ms_make(op["c"], op["n"], op["p"])
        if op.get("none"):
            inst.fs = None
            inst.data = None
        ms.algorithms[n] = inst
    elif k == "run":
        ms.run_by_name(n)
    elif k == "run_all":
        ms.run_all()
    elif k == "mpe":
        alg = ms.algorithms.get(n)
        kw = c15.MPE[type(alg).__name__[:-3]][op["a"]] if alg is not None else dict(sel_freq=[1.0])
        ms.mpe(n, **copy.deepcopy(kw))
    elif k == "pre":
        c15.PRE[op["q"]](ms)
    elif k == "rollback":
        ms.rollback()
    elif k == "readd":
        ms.add_algorithms(ms[n])
    elif k == "set_params":
        alg = ms[n]
        alg.set_run_params(None if op["p"] is None else mslib()[op["p"]].RunParamCls(**copy.deepcopy(MS_BASE[op["p"]])))
    elif k == "plot":
        alg = ms.algorithms.get(n)
        call_plot(ms, n, type(alg).__name__[:-3] if alg is not None else "-", op["a"])
    else:
        raise RuntimeError(k)


def ms_evP(t, cache):
    import c15

    key = c15.json.dumps(t)
    if key not in cache:
        if t[0] == "base":
            rp = mslib()[t[1]].RunParamCls(**copy.deepcopy(MS_BASE[t[1]]))
        else:
            _, cls, p, a = t
            rp = copy.deepcopy(ms_evP(p, cache)[0])
            st = c15.stored_by_mpe(cls[:-3], c15.MPE[cls[:-3]][a]) if t[0] == "mpeP" else stored_by_plot(cls[:-3], PLOT[cls[:-3]][a][0])
            for k_, v_ in st.items():
                setattr(rp, k_, copy.deepcopy(v_))
        cache[key] = (rp, c15.fp(vars(rp)))
    return cache[key]


def to_ms(seq):
    """a sequence over the single-setup classes, re-lettered for the _MS classes (there is no FSDD_MS)"""
    m = lambda c: None if c is None else ("EFDD" if c.startswith("FSDD") else c.split("_")[0]) + "_MS"  # noqa: E731
    out = []
    for o in seq:
        o = dict(o)
        if "c" in o:
            o["c"] = m(o["c"])
        if o["k"] in ("add", "inject", "set_params"):
            o["p"] = m(o["p"])
        out.append(o)
    return out


def sessions_ms():
    out = []
    for c in MS_BASE:
        out.append([dict(k="add", n="A", c=c, p=None), dict(k="run", n="A"), dict(k="set_params", n="A", p=c), dict(k="run", n="A"),
                    dict(k="plot", n="A", a="g1"), dict(k="readd", n="Z"), dict(k="plot", n="Z", a="g1")])
        out.append([dict(k="add", n="A", c=c, p=c), dict(k="plot", n="A", a="g1"), dict(k="run_all"), dict(k="pre", q="dec2"),
                    dict(k="readd", n="A"), dict(k="run", n="A"), dict(k="mpe", n="A", a="m1"), dict(k="plot", n="A", a="g2"),
                    dict(k="set_params", n="A", p=None), dict(k="plot", n="A", a="g1"), dict(k="mpe", n="A", a="m2")])
    return out


def ms_numeric(ms, out, op):
    """did the call fail inside the numerics?  yes iff a stand-alone instance with the same parameters (and, for an
    extraction, a copy of the same result - the orchestration prerequisites are there) on the same data fails alike"""
    import c15

    if op["k"] in ("mpe", "plot"):
        a = ms.algorithms.get(c15.rn(op["n"]))
        if a is None or a.result is None or a.run_params is None:
            return False
        inst = type(a)(name="solo")
        inst.run_params = copy.deepcopy(a.run_params)
        inst._set_data(a.data, a.fs)
        inst.result = copy.deepcopy(a.result)
        try:
            if op["k"] == "mpe":
                inst.mpe(**copy.deepcopy(c15.MPE[type(a).__name__[:-3]][op["a"]]))
            else:
                call_plot(inst, None, type(a).__name__[:-3], op["a"])
        except Exception as e:  # noqa: BLE001
            return type(e).__name__ == out
        return False
    for a in ms.algorithms.values():
        if a.run_params is None or getattr(a, "data", None) is None:
            continue
        inst = type(a)(name="solo")
        inst.run_params = copy.deepcopy(a.run_params)
        inst._set_data(a.data, a.fs)
        try:
            inst._pre_run()
            inst.run()
        except Exception as e:  # noqa: BLE001
            if type(e).__name__ == out:
                return True
    return False


def corr_ms(ctx, base_world):
    """`orch_trace_x` against a real MultiSetup_PreGER holding _MS algorithms: exception class, dict order, class,
    hash(run_params), WHICH data object each algorithm is bound to (identity, per data term of the model), fs, and whether
    a result / modal parameters are there.  (The numbers of an _MS run are C03's business.)"""
    import c15

    seqs = sessions_ms() + [to_ms(sample_seq_x(ctx.rng)) for _ in range(ctx.n(10, 300))]
    d0 = [base_world.data0, c15.mkdata(base_world.seed + 7)]
    pc = {}
    with dialog():
        for seq in seqs:
            ms = mslib()["PreGER"](fs=c15.FS0, ref_ind=[[0, 1], [0, 1]], datasets=[d.copy() for d in d0])
            model = ctx.model("orch_trace_x", ops=seq)
            objs, detail, outs = {}, "", []
            for i, (op, mo) in enumerate(zip(seq, model)):
                try:
                    apply_op_ms(ms, op)
                    out = "ok"
                except Exception as e:  # noqa: BLE001
                    out = type(e).__name__
                outs.append(out)
                where = f"call {i} {sig_x([op])}"
                dk = c15.json.dumps(mo["data"])
                if op["k"] in ("pre", "rollback") and out == "ok":
                    # a NEW data object; equal in content to the one the same term named before (rollback restores the start)
                    if dk in objs and (objs[dk][2] != c15.fp(ms.data) or objs[dk][1] != float(ms.fs)):
                        detail = f"{where}: the setup's data differ in content from the earlier {mo['data']}"
                    objs[dk] = (ms.data, float(ms.fs), c15.fp(ms.data))
                objs.setdefault(dk, (ms.data, float(ms.fs), c15.fp(ms.data)))
                if detail:
                    pass
                elif out != mo["out"]:
                    if mo["out"] == "ok" and op["k"] in ("run", "run_all", "mpe", "plot") and ms_numeric(ms, out, op):
                        ctx.skipped += 1
                        ctx.count("numeric_exception_skipped_corr")
                        outs.append("(numerical)")
                        break
                    detail = f"{where}: outcome model={mo['out']} impl={out}"
                elif objs[dk][0] is not ms.data:
                    detail = f"{where}: the setup's data object is not the one of {mo['data']}"
                elif [e["n"] for e in mo["algs"]] != [c15.LOGICAL.get(n, n) for n in ms.algorithms]:
                    detail = f"{where}: dict keys"
                else:
                    for e, a in zip(mo["algs"], ms.algorithms.values()):
                        d, f = getattr(a, "data", c15._MISSING), getattr(a, "fs", c15._MISSING)
                        if d is c15._MISSING or f is c15._MISSING:
                            b_ok = e["b"] == "missing"
                        elif d is None or f is None:
                            b_ok = e["b"] == "unset"
                        else:
                            want = objs.get(c15.json.dumps(e["b"][1])) if isinstance(e["b"], list) else None
                            b_ok = want is not None and d is want[0] and float(f) == want[1] and a.dt == 1 / f
                        pm = None if e["p"] is None else ms_evP(e["p"], pc)[1]
                        pa = None if a.run_params is None else c15.fp(vars(a.run_params))
                        has_modes = a.result is not None and a.result.Fn is not None
                        if type(a).__name__ != e["c"]:
                            detail = f"{where}: class of {e['n']}"
                        elif not b_ok:
                            detail = f"{where}: {e['n']} is not bound to the data object / fs of {e['b']}"
                        elif pm != pa:
                            detail = f"{where}: run_params of {e['n']} differ from {e['p']}"
                        elif (a.result is None) != (e["r"] is None):
                            detail = f"{where}: result of {e['n']} present={a.result is not None}, model {e['r']}"
                        elif e["r"] is not None and has_modes != (e["r"][0] in ("mpe", "plot")):
                            detail = f"{where}: modal parameters of {e['n']} present={has_modes}, model {e['r'][0]}"
                if detail:
                    break
                if op["k"] in ("readd", "set_params", "plot"):
                    ctx.count(f"x_ms_{op['k']}_{out}")
            ctx.corr("orchestration_x[MultiSetup_PreGER, _MS classes]", not detail, {"data_seed": base_world.seed, "seq": seq, "sig": sig_x(seq)},
                     detail, outs, ("ms", sig_x(seq)))


# ----------------------------------------------------------------------------- entry points (called from c15.py)
_ST = {}


def correspondence(ctx, base_world):
    import c15

    world = world_x(base_world)
    ex, sm = sequences_x(ctx)
    st = _ST.setdefault((ctx.seed, ctx.tier), dict(cases=0, reports=[]))
    with dialog():
        for fn, seqs in (("orchestration_x[exhaustive]", ex), ("orchestration_x[sampled len 6]", sm)):
            for seq in seqs:
                obs = world.trace_x(seq) if fn.endswith("6]") else execute_x(world, seq)
                model = ctx.model("orch_trace_x", ops=seq)
                ok, detail, skip = compare_x(world, seq, obs, model)
                if skip:
                    ctx.skipped += 1
                    ctx.count("numeric_exception_skipped_corr")
                ctx.corr(fn, ok, {"data_seed": world.seed, "seq": seq, "sig": sig_x(seq)}, detail,
                         [o["out"] for o in obs[1:]], sig_x(seq))
                for o, op in zip(obs[1:], seq):
                    if op["k"] in ("readd", "set_params", "plot"):
                        ctx.count(f"x_{op['k']}_{o['out']}")
                ctx.count("x_alg_results_compared", sum(1 for o in obs[1:] for a in o["algs"] if a["r"] is not None))

                def report(sig, what, i, observed=None, expected=None, seq=seq):
                    if sum(1 for r in st["reports"] if r["sig"] == sig) < 2:
                        st["reports"].append(dict(sig=sig, what=what + f" [call {i} of: {sig_x(seq[: i + 1])}]",
                                                  inp={"kind": "sequence_x", "data_seed": world.seed, "seq": seq[: i + 1], "call": i},
                                                  observed=observed, expected=expected))

                judge_x(world, seq, obs, report, ctx.count)
                st["cases"] += 1
        # C15_history_independent_x on the real code
        for seq in sm[: ctx.n(40, 800)]:
            full = world.trace_x(seq)[-1]
            for n in sorted({a["n"] for a in full["algs"]}):
                pj = ctx.model("orch_proj_x", ops=seq, n=n)
                if len(pj) == len(seq):
                    continue
                part = world.trace_x(pj)[-1] if pj else dict(algs=[], data=world.trace_x([])[-1]["data"])
                a1 = [a for a in full["algs"] if a["n"] == n]
                a2 = [a for a in part["algs"] if a["n"] == n]
                ok = a1 == a2 and full["data"] == part["data"]
                if not ok and compare_x(world, seq, world.trace_x(seq), ctx.model("orch_trace_x", ops=seq))[2]:
                    ctx.skipped += 1
                    continue
                ctx.corr("history_projection_x", ok, {"data_seed": world.seed, "seq": seq, "n": n, "proj": pj}, a2, a1,
                         ("proj_x", sig_x(seq), n))
                ctx.count("x_projection_dropped_calls", len(seq) - len(pj))
    corr_ms(ctx, base_world)
    st["done"] = True


def oracle(ctx, base_world):
    world = world_x(base_world)
    st = _ST.get((ctx.seed, ctx.tier))
    if not (st and st.get("done")):  # correspondence did not get through: judge here, without the model
        st = _ST[(ctx.seed, ctx.tier)] = dict(cases=0, reports=[])
        ex, sm = sequences_x(ctx)
        with dialog():
            for seq in ex + sm:
                obs = execute_x(world, seq)

                def report(sig, what, i, observed=None, expected=None, seq=seq):
                    if sum(1 for r in st["reports"] if r["sig"] == sig) < 2:
                        st["reports"].append(dict(sig=sig, what=what + f" [call {i} of: {sig_x(seq[: i + 1])}]",
                                                  inp={"kind": "sequence_x", "data_seed": world.seed, "seq": seq[: i + 1], "call": i},
                                                  observed=observed, expected=expected))

                judge_x(world, seq, obs, report, ctx.count)
                st["cases"] += 1
        st["done"] = True
    if not st.get("emitted"):
        st["emitted"] = True
        ctx.oracle_cases += st["cases"]
        for r in sorted(st["reports"], key=lambda r: (r["call"] if "call" in r else r["inp"]["call"], r["sig"])):
            ctx.violation(r["sig"], r["what"], r["inp"], r["observed"], r["expected"])


def replay(inp):
    import c15

    world = world_x(c15.World(inp["data_seed"]))
    seq = inp["seq"]
    with dialog():
        obs = execute_x(world, seq)
        for i, op in enumerate(seq):
            print(f"  call {i}: {sig_x([op]):40s} -> {obs[i + 1]['out']}")
            for a in obs[i + 1]["algs"]:
                print(f"      {a['n']}: {a['c']} run_params={a['p']} result={a['r']} bound={a['b']}")
        n = [0]

        def report(sig, what, i, observed=None, expected=None):
            n[0] += 1
            print("VIOLATION reproduced:", sig, "-", what, "(call", i, ")", observed if observed is not None else "")

        judge_x(world, seq, obs, report, lambda *a: None)
    print("violations reproduced:", n[0])
    return 0
