"""C10 — stability labels follow the soft criteria between consecutive orders (gen.SC_apply)."""
import copy
import math
from fractions import Fraction

import numpy as np

from common import R

LEAN_MODULES = ["PyomaVerif.Props.C10", "PyomaVerif.Mutants.C10", "PyomaVerif.Props.C09", "PyomaVerif.Props.WiringRun", "PyomaVerif.Props.C09All", "PyomaVerif.Props.C18MacLink", "PyomaVerif.Props.WiringStore", "PyomaVerif.Props.WiringClass", "PyomaVerif.Props.WiringCalls", "PyomaVerif.Props.C10Table",
                "PyomaVerif.Props.C10Readings"]
THEOREMS = [
    # C10 o C09: the labels of every class are SC_apply of the FILTERED tables it returns; stable <=> kept pole whose
    # first nearest kept pole of the previous order is within the tolerances; removed poles never stable / never reference
    "PV.C09All.C09_seq_all",
    "PV.C09All.stable_iff",
    "PV.C09All.C10_labels_of_kept",
    "PV.C09All.C10_reference_is_kept",
    "PV.C09All.ex_labels",
    "PV.C09All.ex_distinguishes",
    # call-site wiring of the class layer, regenerated from /repo on every run (translate_wiring.py)
    "PV.WiringRun.C10_sc_apply_wiring",
    "PV.WiringStore.C10_run_result_store",
    "PV.WiringClass.C10_run_inherited",
    "PV.WiringCalls.C12_ssidat_run_calls",
    "PV.WiringCalls.C03_ssidat_ms_run_calls",
    "PV.WiringCalls.C05_plscf_run_calls",
    # C10_from_result_tables: in every run() the three arguments of SC_apply are the very tables stored as
    # Fn_poles/Xi_poles/Phi_poles after the last mask (obligation `labOf` of the programs translated from /repo)
    "PV.C09.C09_seq_SSIdat",
    "PV.C09.C09_seq_SSIcov",
    "PV.C09.C09_seq_SSIdat_MS",
    "PV.C09.C09_seq_SSIcov_MS",
    "PV.C09.C09_seq_pLSCF",
    "PV.C09.C09_seq_pLSCF_MS",
    "PV.C09.check_sound",
    "PV.C10.C10_label_iff",
    "PV.C10.C10_label_iff_pos",
    "PV.C10.C10_label_01",
    "PV.C10.C10_visited_aligned",
    "PV.C10.C10_visited_step_one",
    "PV.C10.C10_nan_never_stable",
    "PV.C10.C10_prev_empty_never_stable",
    "PV.C10.C10_first_order_never_stable",
    "PV.C10.C10_unvisited_never_stable",
    "PV.C10.C10_plscf_shift",
    "PV.C10.C10_mac_formula",
    "PV.C10.C10_shape",
    "PV.C10.C10_error_iff",
    # depth round: Stab.scMac is the C18 model of gen.MAC on 1-D arguments
    "PV.C18.C18_scMac_eq_macEntry",
    "PV.C18.C18_scMac_eq_mac",
    "PV.C10.Mutants.next_order_mutant_differs",
    "PV.C10.Mutants.nan_argmin_mutant_differs",
    "PV.C10.Mutants.last_nearest_mutant_differs",
    # table widths derived from the pole-table models (Model/Poles.lean): pLSCF Fn.c = ordmax, SSI Fn.c = ordmax + 1
    "PV.C10.C10_plscf_shift_table",
    "PV.C10.C10_ssi_table",
    # depth round 2: the two readings of "order" for the pLSCF label table, cell by cell (Props/C10Readings.lean)
    "PV.C10.C10_plscf_two_readings",
]
RULE = (
    "correspondence: gen.SC_apply vs Stab.scApply on random pole tables (<= 12x12 quick, <= 40 orders thorough; values on a "
    "2^-10 grid so float differences are exact, Gaussian-rational shapes so MAC is exact), arbitrary NaN patterns, duplicates "
    "and near-duplicates, every ordmin, step 1..3, plus a malformed stream (orders beyond the table, step 0, zero/negative "
    "frequencies, zero dampings, zero shapes, NaN in one table only): labels / exception class identical, inputs not mutated; "
    "cases with a tested ratio within 1e-9 of its tolerance are skipped and counted. oracle: brute-force restatement of the "
    "property in exact rationals on the same generator (positive f, xi; ordmin on the step grid), and result.Lab vs "
    "result.{Fn,Xi,Phi}_poles after real SSIcov/SSIdat/pLSCF runs; gen.MAC on two 1-D shapes (1..12 components: Gaussian, integer, grid, "
    "collinear, nearly collinear, zero shape, NaN component) vs Stab.scMac (op sc_mac; = macEntry? by C18_scMac_eq_macEntry) at 1e-12, NaN <-> none. distinct = distinct (rows, cols, d, ordmin, ordmax, step, NaN-count)"
)
def pre_build(ctx):
    import translate_hc
    from common import LEAN, REPO

    ok, msg, summary = translate_hc.write(REPO, LEAN)
    ctx.notes.append(f"translator: {msg}")
    from common import wiring_pre_build

    ok2, msg2 = wiring_pre_build(ctx)
    return ok and ok2, msg + "; " + msg2


EXTRA_TRUSTED = ["float rounding of the three ratios and of MAC (cases within 1e-9 of a tolerance are not judged)"]
ASSUMPTIONS = [
    "numpy nanargmin/abs/comparison semantics on NaN are mirrored by NanTable (validated by the correspondence)",
    "x/0 with x>=0 (inf or NaN) is represented as NaN: both compare '<' false",
    "for pLSCF 'order' means the column index of the pole tables (column k holds polynomial order k+1), as in the library's own stabilisation chart and mpe",
    "the verdict on pLSCF runs uses that column-index reading; under the other reading (polynomial order = column + 1) the cells of "
    "order n = ordmin >= 2 that pass the soft criteria would be stable and are labelled 0 (ordmin is handed to SC_apply as a column "
    "index): C10_plscf_two_readings says these are the only cells; the oracle counts them per run (plscf_two_readings_cells_differ, "
    "information, not a violation)",
]

GRID = 1024


def _sc():
    from pyoma2.functions import gen

    return gen.SC_apply


# ----------------------------------------------------------------------------- encoding
def omat(a):
    return [[None if (isinstance(v, float) and math.isnan(v)) else R(float(v)) for v in row] for row in np.asarray(a).tolist()]


def ophi(P):
    out = []
    for row in np.asarray(P):
        r = []
        for vec in row:
            r.append([None if (math.isnan(z.real) or math.isnan(z.imag)) else [R(float(z.real)), R(float(z.imag))] for z in vec])
        out.append(r)
    return out


def fr_mat(a):
    return [[None if math.isnan(v) else Fraction(float(v)) for v in row] for row in np.asarray(a, dtype=float).tolist()]


def fr_phi(P):
    out = []
    for row in np.asarray(P, dtype=complex):
        r = []
        for vec in row:
            r.append([None if (math.isnan(z.real) or math.isnan(z.imag)) else (Fraction(float(z.real)), Fraction(float(z.imag))) for z in vec])
        out.append(r)
    return out


# ----------------------------------------------------------------------------- generator
def gen_tables(ctx, maxr=12, maxc=12, malformed=False):
    """pole tables shaped like the result of a run: a few physical modes drifting slowly over the
    orders, spurious poles, NaN holes; all values on a 2^-10 grid."""
    rng = ctx.rng
    rows = rng.randint(1, maxr)
    cols = rng.randint(1, maxc)
    d = rng.randint(1, 4)
    nmodes = rng.randint(0, min(4, rows))
    base_f = [rng.randint(1 * GRID, 30 * GRID) for _ in range(nmodes)]
    base_x = [rng.randint(8, 300) for _ in range(nmodes)]  # / 4096
    base_p = [[(rng.randint(-8, 8), rng.randint(-8, 8) if rng.random() < 0.5 else 0) for _ in range(d)] for _ in range(nmodes)]
    Fn = np.full((rows, cols), np.nan)
    Xi = np.full((rows, cols), np.nan)
    Phi = np.full((rows, cols, d), np.nan + 0j, dtype=complex)
    pnan = rng.choice([0.0, 0.1, 0.3, 0.6, 0.9])
    drift = rng.choice([0, 1, 4, 40, 400])  # grid units per order
    for o in range(cols):
        slots = list(range(rows))
        rng.shuffle(slots)
        for i in slots:
            if rng.random() < pnan:
                continue
            u = rng.random()
            if nmodes and u < 0.6:
                m = rng.randrange(nmodes)
                f = base_f[m] + rng.randint(-drift, drift)
                x = base_x[m] + rng.randint(-min(drift, 6), min(drift, 6))
                p = [(a + (rng.randint(-1, 1) if rng.random() < 0.3 else 0), b) for (a, b) in base_p[m]]
            else:
                f = rng.randint(1, 32 * GRID)
                x = rng.randint(1, 400)
                p = [(rng.randint(-8, 8), rng.randint(-8, 8) if rng.random() < 0.5 else 0) for _ in range(d)]
            f = max(f, 1)
            x = max(x, 1)
            if all(a == 0 and b == 0 for a, b in p):
                p[0] = (1, 0)
            Fn[i, o] = f / GRID
            Xi[i, o] = x / 4096
            Phi[i, o, :] = [complex(a / 8, b / 8) for a, b in p]
    if malformed:
        for _ in range(rng.randint(1, 4)):
            i, o = rng.randrange(rows), rng.randrange(cols)
            k = rng.randrange(7)
            if k == 0:
                Fn[i, o] = 0.0
            elif k == 1:
                Xi[i, o] = 0.0
            elif k == 2:
                Phi[i, o, :] = 0
            elif k == 3:
                Fn[i, o] = -abs(Fn[i, o]) if not math.isnan(Fn[i, o]) else -1.5
            elif k == 4:
                Xi[i, o] = np.nan
            elif k == 5:
                Phi[i, o, rng.randrange(d)] = np.nan
            else:
                Fn[i, o] = np.nan
    # -0.0 has no exact-rational counterpart (the codec would send +0): normalise signed zeros
    return Fn + 0.0, Xi + 0.0, Phi


def gen_params(ctx, cols, aligned, malformed=False):
    rng = ctx.rng
    step = rng.choice([1, 1, 1, 2, 3])
    top = (cols - 1) * step
    ordmax = top if rng.random() < 0.7 else rng.randint(0, top)
    if aligned:
        ordmin = step * rng.randint(0, ordmax // step)
    else:
        ordmin = rng.randint(0, ordmax)
    if malformed:
        k = rng.randrange(4)
        if k == 0:
            ordmax = top + rng.randint(1, 2 * step + 1)
        elif k == 1:
            step = 0
        elif k == 2:
            ordmin = ordmax + rng.randint(1, 3)
    eF = rng.choice([0.01, 0.02, 0.05, 0.001, 0.2, 1.5])
    eX = rng.choice([0.05, 0.1, 0.02, 0.5, 3.0])
    eP = rng.choice([0.02, 0.05, 0.001, 0.3, 1.0])
    return ordmin, ordmax, step, eF, eX, eP


# ----------------------------------------------------------------------------- the property, restated (exact rationals)
def mac_exact(x, y):
    """|x^H y|^2 / ((x^H x)(y^H y)); None if a component is NaN or a shape is zero"""
    if any(v is None for v in x) or any(v is None for v in y):
        return None
    re = sum(a[0] * b[0] + a[1] * b[1] for a, b in zip(x, y))
    im = sum(a[0] * b[1] - a[1] * b[0] for a, b in zip(x, y))
    xx = sum(a[0] * a[0] + a[1] * a[1] for a in x)
    yy = sum(b[0] * b[0] + b[1] * b[1] for b in y)
    if xx == 0 or yy == 0:
        return None
    return (re * re + im * im) / (xx * yy)


def spec_labels(Fn, Xi, Phi, visited, eF, eX, eP, tie_guard=Fraction(0)):
    """Expected labels from the property text.  Fn, Xi: lists of lists of Fraction/None; Phi: nested
    lists of (re, im)/None.  `visited(o)`: is column o inside [ordmin, ordmax].  Returns
    (labels with None = not judged, margin, counters)."""
    rows = len(Fn)
    cols = len(Fn[0]) if rows else 0
    eF, eX, eP = Fraction(eF), Fraction(eX), Fraction(eP)
    lab = [[0] * cols for _ in range(rows)]
    margin = None
    cnt = {"judged": 0, "stable": 0, "nan": 0, "prev_empty": 0}
    for o in range(cols):
        for i in range(rows):
            f = Fn[i][o]
            if f is None:
                cnt["nan"] += 1
                continue  # rejected poles are never stable
            if o == 0 or not visited(o):
                continue  # first order / outside [ordmin, ordmax]
            prev = [(abs(Fn[j][o - 1] - f), j) for j in range(rows) if Fn[j][o - 1] is not None]
            if not prev:
                cnt["prev_empty"] += 1
                continue
            dist, j = min(prev)  # closest in frequency, first among equals
            if tie_guard:
                others = [dd for dd, jj in prev if Fn[jj][o - 1] != Fn[j][o - 1]]
                if others and min(others) - dist <= tie_guard * abs(f):
                    lab[i][o] = None
                    continue
            xi, xj = Xi[i][o], Xi[j][o - 1]
            m = mac_exact(Phi[i][o], Phi[j][o - 1])
            if xi is None or xj is None or m is None or f <= 0 or xi <= 0:
                lab[i][o] = None  # outside the property's domain (hard criteria guarantee these)
                continue
            c1 = abs(f - Fn[j][o - 1]) / f
            c2 = abs(xi - xj) / xi
            c3 = 1 - m
            mg = min(abs(c1 - eF), abs(c2 - eX), abs(c3 - eP))
            margin = mg if margin is None else min(margin, mg)
            if mg < Fraction(1, 10**9):
                lab[i][o] = None
                continue
            cnt["judged"] += 1
            if c1 < eF and c2 < eX and c3 < eP:
                lab[i][o] = 1
                cnt["stable"] += 1
    return lab, margin, cnt


def call_real(sc, Fn, Xi, Phi, ordmin, ordmax, step, eF, eX, eP, ctx=None):
    a, b, c = Fn.copy(), Xi.copy(), Phi.copy()
    if ctx is not None:
        # the tables' values are what matters, not how the caller stores them (each table independently)
        from common import relayout

        kinds = ("fortran", "strided", "readonly")
        a, b, c = relayout(ctx, a, 0.2, kinds)[0], relayout(ctx, b, 0.2, kinds)[0], relayout(ctx, c, 0.2, kinds)[0]
    try:
        with np.errstate(all="ignore"):
            L = sc(a, b, c, ordmin, ordmax, step, eF, eX, eP)
        out = {"lab": np.asarray(L).tolist()}
    except Exception as e:  # noqa: BLE001
        out = {"exc": type(e).__name__}
    pure = (
        np.array_equal(a, Fn, equal_nan=True) and np.array_equal(b, Xi, equal_nan=True) and np.array_equal(c, Phi, equal_nan=True)
    )
    return out, pure


def near_threshold(Fn, Xi, Phi, eF, eX, eP):
    """is any ratio the code could test (any pair of consecutive-order cells) within 1e-9 of its tolerance"""
    F, X, P = fr_mat(Fn), fr_mat(Xi), fr_phi(Phi)
    rows = len(F)
    cols = len(F[0]) if rows else 0
    eps = Fraction(1, 10**9)
    eF, eX, eP = Fraction(eF), Fraction(eX), Fraction(eP)
    for o in range(1, cols):
        for i in range(rows):
            f = F[i][o]
            if f is None:
                continue
            best = None
            for j in range(rows):
                g = F[j][o - 1]
                if g is None:
                    continue
                dd = abs(g - f)
                if best is None or dd < best[0]:
                    best = (dd, j)
            if best is None:
                continue
            j = best[1]
            if f != 0 and abs(abs(f - F[j][o - 1]) / f - eF) < eps:
                return True
            xi, xj = X[i][o], X[j][o - 1]
            if xi is not None and xj is not None and xi != 0 and abs(abs(xi - xj) / xi - eX) < eps:
                return True
            m = mac_exact(P[i][o], P[j][o - 1])
            if m is not None and abs(1 - m - eP) < eps:
                return True
    return False


# ----------------------------------------------------------------------------- correspondence
def _corr_sc_mac(ctx, g):
    """the driver op `sc_mac` (Stab.scMac, proved equal to the C18 model macEntry?: C18_scMac_eq_macEntry) against
    gen.MAC on two 1-D shapes: value at a rounding-only tolerance, NaN <-> none (NaN component, zero shape)."""
    from pyoma2.functions import gen

    d = ctx.rng.choice([1, 2, 3]) if ctx.rng.random() < 0.3 else ctx.rng.randint(1, 12)
    kind = ctx.rng.choice(["gauss", "gauss", "int", "grid", "collinear", "near", "zero", "nan"])
    if kind in ("int", "zero"):
        x = (g.integers(-4, 5, size=d) + 1j * g.integers(-4, 5, size=d)).astype(complex)
        y = (g.integers(-4, 5, size=d) + 1j * g.integers(-4, 5, size=d)).astype(complex)
    elif kind == "grid":
        x = (g.integers(-2048, 2049, size=d) + 1j * g.integers(-2048, 2049, size=d)) / GRID
        y = (g.integers(-2048, 2049, size=d) + 1j * g.integers(-2048, 2049, size=d)) / GRID
    else:
        x = g.standard_normal(d) + 1j * g.standard_normal(d)
        y = g.standard_normal(d) + 1j * g.standard_normal(d)
    if kind == "collinear":
        y = complex(g.standard_normal(), g.standard_normal()) * x
    elif kind == "near":
        y = complex(g.standard_normal(), g.standard_normal()) * x + 10.0 ** ctx.rng.uniform(-12, -2) * y
    elif kind == "zero":
        if ctx.rng.random() < 0.5:
            x = np.zeros(d, dtype=complex)
        else:
            y = np.zeros(d, dtype=complex)
    elif kind == "nan":
        (x if ctx.rng.random() < 0.5 else y)[ctx.rng.randrange(d)] = complex(math.nan, ctx.rng.choice([0.0, math.nan]))
    if kind not in ("zero", "nan") and (not np.any(x != 0) or not np.any(y != 0)):
        x[0], y[0] = 1.0, 1.0 + 1.0j
    enc = lambda v: [None if (math.isnan(z.real) or math.isnan(z.imag)) else [R(float(z.real)), R(float(z.imag))] for z in v]  # noqa: E731
    inp = {"d": d, "x": enc(x), "y": enc(y)}
    with np.errstate(all="ignore"):
        val = gen.MAC(x.copy(), y.copy())
    scalar = np.ndim(val) == 0
    v = float(np.real(val)) if scalar else math.nan
    m = ctx.model("sc_mac", **inp)
    if m is None:
        ok = scalar and not math.isfinite(v) and kind in ("zero", "nan")
    else:
        mv = Fraction(m)
        err = abs(v - float(mv)) if math.isfinite(v) else math.inf
        ok = scalar and err <= 1e-12 and 0 <= mv <= 1 and kind not in ("zero", "nan")
        if math.isfinite(err) and err / 1e-12 > ctx.dist.get("margin_corr_sc_mac", 0.0):
            ctx.dist["margin_corr_sc_mac"] = float(f"{err / 1e-12:.3g}")
    ctx.corr("MAC[1-D]", ok, inp, m, v if scalar else str(np.shape(val)), (kind, d))
    ctx.count(f"corr_sc_mac_{kind}")


# --- default values as regenerated obligations (Generated/Defaults.lean <- harness/translate_defaults.py; stream defaults[...])
import defaults_stream  # noqa: E402
from common import all_pre_build as pre_build  # noqa: E402,F401,F811  (runs EVERY translate_*.py)
LEAN_MODULES += ["PyomaVerif.Props.WiringDefaultsC10"]
THEOREMS += ["PV.WiringDefaults.C10_sc_defaults"]


def correspondence(ctx):
    defaults_stream.correspondence(ctx, props=())
    sc = _sc()
    n = ctx.n(1500, 12000)
    for k in range(n):
        malformed = ctx.rng.random() < 0.25
        big = ctx.thorough and ctx.rng.random() < 0.15
        Fn, Xi, Phi = gen_tables(ctx, maxr=14 if big else 12, maxc=41 if big else 12, malformed=malformed)
        rows, cols, d = Phi.shape
        ordmin, ordmax, step, eF, eX, eP = gen_params(ctx, cols, aligned=False, malformed=malformed)
        if near_threshold(Fn, Xi, Phi, eF, eX, eP):
            ctx.skipped += 1
            ctx.count("corr_skipped_near_threshold")
            continue
        inp = {
            "Fn": omat(Fn), "Xi": omat(Xi), "Phi": ophi(Phi), "d": d, "ordmin": ordmin, "ordmax": ordmax, "step": step,
            "err_fn": R(eF), "err_xi": R(eX), "err_phi": R(eP),
        }
        impl, pure = call_real(sc, Fn, Xi, Phi, ordmin, ordmax, step, eF, eX, eP, ctx)
        model = ctx.model("sc_apply", **inp)
        ok = (model == impl) and pure
        nn = int(np.isnan(Fn).sum())
        ctx.corr("SC_apply", ok, inp, model, impl | {"inputs_unchanged": pure}, (rows, cols, d, ordmin, ordmax, step, nn))
        if "exc" in impl:
            ctx.count("corr_exc_" + impl["exc"])
        else:
            ctx.count("corr_labels_1", int(np.sum(impl["lab"])))
            ctx.count("corr_cells", rows * cols)
            ctx.count("corr_nan_cells", nn)
        ctx.count("corr_malformed" if malformed else "corr_wellformed")
        if k == 0:
            ctx.sample({"rows": rows, "cols": cols, "d": d, "ordmin": ordmin, "ordmax": ordmax, "step": step,
                        "err": [eF, eX, eP], "Fn_col0": Fn[:, 0].tolist()})
    # after the SC_apply stream, so that its random sequence is unchanged
    g_mac = ctx.nprng()
    for _ in range(ctx.n(300, 6000)):
        _corr_sc_mac(ctx, g_mac)


# ----------------------------------------------------------------------------- oracle
def _judge(ctx, where, Fn, Xi, Phi, lab_real, visited, eF, eX, eP, inp, tie_guard=Fraction(0)):
    F, X, P = fr_mat(Fn), fr_mat(Xi), fr_phi(Phi)
    exp, margin, cnt = spec_labels(F, X, P, visited, eF, eX, eP, tie_guard)
    ctx.oracle_cases += 1
    for key, v in cnt.items():
        ctx.count(f"oracle_{key}", v)
    rows = len(F)
    cols = len(F[0]) if rows else 0
    lab_real = np.asarray(lab_real)
    if lab_real.shape != (rows, cols):
        ctx.violation(f"{where}-shape", f"{where}: label table has shape {lab_real.shape}, pole table {(rows, cols)}", inp)
        return
    for o in range(cols):
        for i in range(rows):
            e = exp[i][o]
            if e is None:
                ctx.skipped += 1
                continue
            got = int(lab_real[i, o])
            if got == e:
                continue
            if F[i][o] is None:
                sig = "nan-pole-labelled-stable"
            elif o == 0:
                sig = "first-order-labelled-stable"
            elif not visited(o):
                sig = "order-outside-range-labelled-stable"
            elif all(F[j][o - 1] is None for j in range(rows)):
                sig = "empty-previous-order-labelled-stable"
            elif e == 1:
                sig = "stable-pole-not-labelled"
            else:
                sig = "unstable-pole-labelled-stable"
            ctx.violation(
                f"{where}-{sig}",
                f"{where}: Lab[{i},{o}] = {got}, the soft criteria against the closest pole of the previous order give {e}",
                inp | {"cell": [i, o]}, observed=got, expected=e,
            )
            return


def _two_readings(ctx, Fn, Xi, Phi, Lab, ordmin, ordmax, sc, inp):
    """depth round 2 (g19): a pLSCF class run judged explicitly under BOTH readings of "order".
    A = column index (the library's own convention in its stabilisation chart and in mpe; ASSUMPTIONS; the reading the
        verdict uses - _judge above): column o is visited iff ordmin <= o <= ordmax - 1;
    B = polynomial order n = column + 1: visited iff ordmin <= o + 1 <= ordmax (o = 0, the first order, never stable).
    Information only, NOT a violation: how many judged cells get different expected labels under A and B, and how many
    stored labels differ from reading B.  Lean: PV.C10.C10_plscf_two_readings - the readings differ exactly on the cells of
    order n = ordmin (column ordmin - 1) with ordmin >= 2 whose pole passes the soft criteria; checked here on every run."""
    F, X, P = fr_mat(Fn), fr_mat(Xi), fr_phi(Phi)
    tg = Fraction(1, 10**9)
    eF, eX, eP = sc["err_fn"], sc["err_xi"], sc["err_phi"]
    expA, _, _ = spec_labels(F, X, P, lambda o: ordmin <= o <= ordmax - 1, eF, eX, eP, tg)
    expB, _, _ = spec_labels(F, X, P, lambda o: ordmin <= o + 1 <= ordmax, eF, eX, eP, tg)
    lab = np.asarray(Lab)
    differ, judged, labB = [], 0, 0
    for i in range(len(F)):
        for o in range(len(F[0]) if F else 0):
            a, b = expA[i][o], expB[i][o]
            if a is None or b is None:
                continue
            judged += 1
            if a != b:
                differ.append((i, o))
            if int(lab[i, o]) != b:
                labB += 1
    ctx.count("plscf_two_readings_runs")
    ctx.count("plscf_two_readings_runs_ordmin_ge_2", int(ordmin >= 2))
    ctx.count("plscf_two_readings_cells_judged", judged)
    ctx.count("plscf_two_readings_cells_differ", len(differ))
    ctx.count("plscf_labels_differing_from_order_reading", labB)
    located = all(o == ordmin - 1 and ordmin >= 2 and expB[i][o] == 1 and expA[i][o] == 0 for (i, o) in differ)
    ctx.corr("pLSCF[two readings of order differ only at n = ordmin >= 2, A = 0, B = 1]", located, None, differ[:5], [ordmin, ordmax],
             ("two-readings", ordmin >= 2, bool(differ)))


def _real_runs(ctx):
    """result.Lab against result.{Fn,Xi,Phi}_poles after real runs of the classes"""
    from pyoma2.algorithms import SSIcov, SSIdat, pLSCF
    from pyoma2.setup.single import SingleSetup

    rng = ctx.rng
    g = ctx.nprng()
    for _ in range(ctx.n(8, 60)):
        fs = 50.0
        N = rng.choice([1500, 2500])
        t = np.arange(N) / fs
        nch = rng.randint(2, 4)
        y = 0.02 * g.standard_normal((N, nch))
        for _m in range(rng.randint(1, 3)):
            f = rng.uniform(1.0, 12.0)
            xi = rng.uniform(0.005, 0.03)
            w = 2 * np.pi * f
            h = np.exp(-xi * w * t) * np.sin(w * np.sqrt(1 - xi**2) * t)
            q = np.convolve(g.standard_normal(N), h)[:N]
            y += np.outer(q, g.standard_normal(nch))
        sc = {"err_fn": rng.choice([0.01, 0.05, 0.1]), "err_xi": rng.choice([0.05, 0.2, 0.5]), "err_phi": rng.choice([0.03, 0.1, 0.3])}
        kind = rng.choice(["SSIcov", "SSIdat", "pLSCF"])
        ordmax = rng.randint(6, 14)
        ordmin = rng.randint(0, ordmax)
        try:
            ss = SingleSetup(y, fs)
            if kind == "pLSCF":
                alg = pLSCF(name="x", ordmax=ordmax, ordmin=ordmin, nxseg=rng.choice([128, 256]), sc=sc)
            elif kind == "SSIcov":
                alg = SSIcov(name="x", br=rng.randint(ordmax // nch + 2, ordmax // nch + 5), ordmax=ordmax, ordmin=ordmin, step=1, sc=sc)
            else:
                alg = SSIdat(name="x", br=rng.randint(ordmax // nch + 2, ordmax // nch + 5), ordmax=ordmax, ordmin=ordmin, step=1, sc=sc)
            ss.add_algorithms(alg)
            with np.errstate(all="ignore"):
                ss.run_by_name("x")
            res = alg.result
        except Exception as e:  # noqa: BLE001
            ctx.skipped += 1
            ctx.count("real_run_failed_" + type(e).__name__)
            continue
        Fn, Xi, Phi, Lab = res.Fn_poles, res.Xi_poles, res.Phi_poles, res.Lab
        cols = Fn.shape[1]
        # pLSCF: the call is SC_apply(.., ordmin, ordmax - 1, 1, ..) on `ordmax` columns
        last = ordmax - 1 if kind == "pLSCF" else ordmax
        if cols != last + 1:
            ctx.violation(f"{kind}-columns", f"{kind}: {cols} columns for ordmax {ordmax}", {"kind": kind, "ordmax": ordmax})
            continue
        vis = lambda o: ordmin <= o <= last  # noqa: E731
        ctx.count("real_" + kind)
        ctx.nontrivial.add(("real", kind, Fn.shape, ordmin, ordmax))
        inp = {"kind": kind, "Fn": Fn.tolist(), "Xi": Xi.tolist(), "Phi_re": Phi.real.tolist(), "Phi_im": Phi.imag.tolist(),
               "ordmin": ordmin, "ordmax": ordmax, "sc": sc}
        _judge(ctx, kind, Fn, Xi, Phi, Lab, vis, sc["err_fn"], sc["err_xi"], sc["err_phi"], inp, tie_guard=Fraction(1, 10**9))
        if kind == "pLSCF":
            _two_readings(ctx, Fn, Xi, Phi, Lab, ordmin, ordmax, sc, inp)


def oracle(ctx, scale):
    sc = _sc()
    for _ in range(ctx.n(1100, 10000) * scale):
        big = ctx.thorough and ctx.rng.random() < 0.15
        Fn, Xi, Phi = gen_tables(ctx, maxr=14 if big else 12, maxc=41 if big else 12)
        rows, cols, d = Phi.shape
        ordmin, ordmax, step, eF, eX, eP = gen_params(ctx, cols, aligned=True)
        impl, pure = call_real(sc, Fn, Xi, Phi, ordmin, ordmax, step, eF, eX, eP, ctx)
        inp = {"Fn": Fn.tolist(), "Xi": Xi.tolist(), "Phi_re": Phi.real.tolist(), "Phi_im": Phi.imag.tolist(),
               "ordmin": ordmin, "ordmax": ordmax, "step": step, "err": [eF, eX, eP]}
        ctx.nontrivial.add(("oracle", rows, cols, d, ordmin, ordmax, step, int(np.isnan(Fn).sum())))
        if "exc" in impl:
            ctx.oracle_cases += 1
            ctx.violation("SC_apply-raises", f"SC_apply raised {impl['exc']} on a well-formed table", inp, observed=impl["exc"])
            continue
        if not pure:
            ctx.oracle_cases += 1
            ctx.violation("SC_apply-mutates-input", "SC_apply changed one of its input tables", inp)
            continue
        # order of column o is o*step; ordmin on the step grid
        vis = lambda o: ordmin <= o * step <= ordmax  # noqa: E731
        _judge(ctx, "SC_apply", Fn, Xi, Phi, impl["lab"], vis, eF, eX, eP, inp)
    if scale == 1:
        _real_runs(ctx)


def replay(rec):
    sc = _sc()
    v = rec["violation"]
    inp = v["input"]
    print("replaying", v["sig"], "-", v["what"])

    def arr(x):
        return np.array([[float("nan") if c == "nan" else c for c in row] for row in x], dtype=float)

    Fn, Xi = arr(inp["Fn"]), arr(inp["Xi"])
    Pr = np.array([[[float("nan") if c == "nan" else c for c in vec] for vec in row] for row in inp["Phi_re"]], dtype=float)
    Pi = np.array([[[float("nan") if c == "nan" else c for c in vec] for vec in row] for row in inp["Phi_im"]], dtype=float)
    Phi = Pr + 1j * Pi
    if "kind" in inp:
        ordmin, last, step = inp["ordmin"], (inp["ordmax"] - 1 if inp["kind"] == "pLSCF" else inp["ordmax"]), 1
        eF, eX, eP = inp["sc"]["err_fn"], inp["sc"]["err_xi"], inp["sc"]["err_phi"]
        ordmax = last
    else:
        ordmin, ordmax, step = inp["ordmin"], inp["ordmax"], inp["step"]
        eF, eX, eP = inp["err"]
    impl, _ = call_real(sc, Fn, Xi, Phi, ordmin, ordmax, step, eF, eX, eP)
    exp, _, _ = spec_labels(fr_mat(Fn), fr_mat(Xi), fr_phi(Phi), lambda o: ordmin <= o * step <= ordmax, eF, eX, eP)
    if "cell" in inp and "lab" in impl:
        i, o = inp["cell"]
        print(f"Lab[{i},{o}] =", impl["lab"][i][o], "expected", exp[i][o])
        return 1 if impl["lab"][i][o] != exp[i][o] else 0
    print(impl if "exc" in impl else "labels computed")
    return 1 if "exc" in impl else 0
