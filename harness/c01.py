"""C01 — SSI recovers exact modal parameters from noise-free free vibration."""
import math
from contextlib import contextmanager

import numpy as np

import sysgen
from common import Cmat, Cx, R, Rmat, cfl, fl, flmat, max_rel_err


LEAN_MODULES = ["PyomaVerif.Props.C01", "PyomaVerif.Props.WiringRun", "PyomaVerif.Props.C01C11", "PyomaVerif.Props.C01E2E", "PyomaVerif.Props.C01Stored", "PyomaVerif.Props.WiringCalls", "PyomaVerif.Props.C01Table", "PyomaVerif.Props.C03Table", "PyomaVerif.Props.C01TableLegacy", "PyomaVerif.Props.C01Excite", "PyomaVerif.Props.C01Args", "PyomaVerif.Mutants.C01Args", "PyomaVerif.Props.C01StoredTable"]
THEOREMS = [
    # the exact sequence of core-routine calls of the run()/mpe() body and the exact set of parameters bound at each (regenerated call table)
    "PV.WiringCalls.C12_ssidat_run_calls",
    # call-site wiring of the class layer, regenerated from /repo on every run (translate_wiring.py)
    "PV.WiringRun.C12_run_build_hank",
    "PV.WiringRun.C01_run_realisation",
    "PV.rank_factor_unique",
    "PV.realisation_similar",
    "PV.eig_transfer",
    "PV.obs_shift",
    "PV.qr_leading_block",
    "PV.orth_leading",
    "PV.toMx_mul",
    "PV.C01.fast_is_left_inverse",
    "PV.C01.C01_realisation_fast",
    "PV.C01.C01_realisation_legacy",
    "PV.C01.C01_chain",
    "PV.C01.freevib_hankel_factor",
    "PV.C01.pole_recovery",
    "PV.C01C11.C01_extract",
    # end to end: record -> Hankel -> realisation -> poles/shapes -> extraction (Props/C01E2E.lean, Lemmas/FreeVib.lean)
    "PV.FreeVib.hankMM_factor",
    "PV.FreeVib.hankYf_factor",
    "PV.FreeVib.hankDat_factor",
    "PV.FreeVib.rank_factor_unique_lr",
    "PV.FreeVib.svd_split",
    "PV.FreeVib.svd_rank_count",
    "PV.FreeVib.obs_left_inv_extend",
    "PV.FreeVib.realised_of_factor",
    "PV.FreeVib.realised_of_factor_rank",
    "PV.FreeVib.shape_exact",
    "PV.FreeVib.lamC_exp",
    "PV.FreeVib.fn_xi_of_modal",
    "PV.FreeVib.normalise_conj",
    "PV.C01E2E.recovered_of_similar",
    "PV.C01E2E.C01_e2e_cov",
    "PV.C01E2E.C01_e2e_dat",
    # the rank condition on the controllability factor derived from the property's own premises (A invertible, spanning state
    # sequence <= distinct eigenvalues and no vanishing modal coordinate of x0, reference subset observable)
    "PV.C01Excite.C01_gamma_of_premises",
    "PV.C01Excite.C01_excited_of_modal",
    "PV.C01Excite.C01_e2e_cov_excited",
    "PV.C01Excite.C01_e2e_dat_excited",
    # ... and observability / invertibility too: every mode seen by a (reference) channel, distinct non-zero poles
    "PV.C01Excite.C01_observable_of_modal",
    "PV.C01Excite.C01_invertible_of_modal",
    "PV.C01Excite.C01_e2e_cov_modal",
    "PV.C01Excite.C01_e2e_dat_modal",
    "PV.C01E2E.Mode.conj",
    "PV.C01E2E.C01_pole_pair",
    "PV.C01E2E.Ex.recovered",
    "PV.C01E2E.ExDat.recovered",
    # depth round (audit C01 gap 1): identification composed with the hard criteria -> the STORED tables
    "PV.C01Stored.toMat_ssiRaw_fn",
    "PV.C01Stored.C01_stored",
    "PV.C01Stored.C01_stored_neutral",
    "PV.C01Stored.C01_stored_cov",
    "PV.C01Stored.C01_stored_dat",
    # pole table JOINED with the stored tables: the unfiltered solution of the run is rawOf (ssiPoles …), no OrderFilled hypothesis
    "PV.Poles.ssiPoles_raw",
    "PV.Poles.ssiPoles_same_pattern",
    "PV.C01StoredTable.C09_table_survives",
    "PV.C01StoredTable.C01_stored_of_table",
    "PV.C01StoredTable.C01_e2e_cov_stored_table",
    "PV.C01StoredTable.C01_e2e_dat_stored_table",
    "PV.C01Stored.Ex.stored",
    "PV.C09Stored.C09_raw_survives",
    "PV.C09Stored.C09_neutral_identity",
    # the same, concluded on the cells of the tables the model of ssi.SSI_poles returns (Model/Poles.lean `ssiPoles`,
    # Lemmas/Poles.lean, Props/C01Table.lean): column content, list position -> column, "SSI_poles returns" are derived
    "PV.Poles.ssiPoles_spec",
    "PV.Poles.ssiPoles_ok",
    "PV.C01Table.C01_table_of_recovered",
    "PV.C01Table.fastLists_get",
    "PV.C01Table.ssiEigArgs_fast",
    "PV.C01Table.C01_e2e_cov_table",
    "PV.C01Table.C01_e2e_dat_table",
    "PV.C01Table.Ex.table",
    "PV.C01Table.ExDat.table",
    # multi-setup (C03): the same tables on the lists of SSI_multi_setup; the hypothesis ColumnFilled of C03C11_global derived
    # (listed here because the SSI_poles streams live in this harness)
    "PV.C03Table.C03_e2e_table",
    "PV.C03Table.C03_columnFilled",
    "PV.C03Table.Ex.table",
    # depth round (w18): the LEGACY routine ssi.SSI as a list model (`legacySSI`: Nch, the loop with step, slice clipping,
    # recorded pinv) composed with ssiPoles -> table-level end-to-end theorems; step >= 2 as coded (IndexError)
    "PV.Poles.legacyLists_spec",
    "PV.Poles.ssiPoles_step_never_ok",
    "PV.Poles.ssiPoles_step_indexError",
    "PV.C01TableLegacy.legacySSI_get",
    "PV.C01TableLegacy.ssiEigArgs_legacy",
    "PV.C01TableLegacy.C01_e2e_cov_table_legacy",
    "PV.C01TableLegacy.C01_e2e_dat_table_legacy",
    "PV.C01TableLegacy.C01_step_indexError_fast",
    "PV.C01TableLegacy.C01_step_indexError_legacy",
    "PV.C01TableLegacy.C01_step_never_ok_fast",
    "PV.C01TableLegacy.C01_step_ok_only_boundary",
    "PV.C01TableLegacy.C01_step_column_mislabel",
    "PV.C01TableLegacy.Ex.table",
    "PV.C01TableLegacy.ExDat.table",
    "PV.C01TableLegacy.ExStep.fast_3_2",
    "PV.C01TableLegacy.ExStep.legacy_3_2",
    "PV.C01TableLegacy.ExStep.step_boundary",
    # depth round 2 (g05): SSI_fast as ONE model function `fastSSI` (l DERIVED from the row count of U1 and br; the matrices handed
    # to np.linalg.qr / inv FORMED by the model and compared with the recorded call arguments), the pinv arguments of the legacy
    # routine; the subjects of the contracts QrC / PinvC of the table theorems are those arguments
    "PV.Poles.fastLoop_spec",
    "PV.Poles.legacyArgLoop_spec",
    "PV.C01Args.fastSSI_args",
    "PV.C01Args.fastSSI_get",
    "PV.C01Args.fastQrArg_eq",
    "PV.C01Args.fastInvArgs_get",
    "PV.C01Args.legacyPinvArgs_get",
    "PV.C01Args.legacyPinvArgs_step_zero",
    "PV.C01Args.C01_e2e_cov_table_whole",
    "PV.C01Args.C01_e2e_dat_table_whole",
    "PV.C01Args.Ex.whole_ok",
    "PV.C01Args.Ex.table",
    "PV.C01Args.ExDat.table",
    # mutants: l from the COLUMN count, inv of the TRANSPOSED block, pinv of the whole factor -- each changes an argument / a list
    "PV.Mutants.C01Args.l_from_columns_differs",
    "PV.Mutants.C01Args.inv_of_transpose_differs",
    "PV.Mutants.C01Args.pinv_of_whole_factor_differs",
]
RULE = (
    "correspondence: ssi.SSI_fast (also its list-building loop with step 1..3; also as ONE model function `fastSSI` that derives l from H.shape and br "
    "and forms the arguments of np.linalg.qr / inv, compared with the recorded call arguments entry by entry, step 0..3, ordmax beyond the factors "
    "incl. ValueError / LinAlgError; the arguments of np.linalg.pinv in ssi.SSI likewise, and the recorded pinv result = np.linalg.pinv(argument) "
    "with the default cut-off), ssi.SSI (also as ONE model function `legacySSI`: Nch, the loop "
    "with step 0..3, ordmax beyond the recorded factors incl. the ValueError of a tall H; its lists fed to SSI_poles with the same step: "
    "IndexError from both for ordmax > step >= 2, also through SSIcov/SSIdat.run), ssi.ac2mp and ssi.SSI_poles as one model function "
    "(table VALUES cell by cell incl. Lambds, NaN pattern, shapes, step != 1 incl. the exception class, the matrices handed to "
    "eig, Fn_cov/Xi_cov cells with calc_unc) vs the Lean model, the LAPACK results "
    "(svd, qr, inv, pinv, eig) recorded by wrapping the numpy/scipy entry points in the harness process and handed to the "
    "model as exact rationals (1e-10 relative); oracle: random exact systems over the property's domain (m 1..6, 2..8 "
    "channels, reference subsets observing all modes, br >= index+1, cov_mm and dat, fast and legacy routine, real/complex "
    "shapes), free decay synthesised in float, poles at order 2m compared with the truth (1e-8, guarded by the singular "
    "value gap), also through SingleSetup + SSIcov/SSIdat + mpe. distinct = (m, channels, refs, br, method, routine, complex)"
)
EXTRA_TRUSTED = [
    "contracts of np.linalg.svd / qr / inv / pinv and scipy.linalg.eig (factorisation identities, orthonormal columns, "
    "triangular R, left inverse, eigen-equation) and of np.log / np.abs",
    "that a float SVD of an exactly rank-2m Hankel matrix returns a factor spanning its column space up to rounding (exercised by the oracle only)",
]
ASSUMPTIONS = [
    "cases whose Hankel singular-value gap s_2m/s_1 is below 1e-7 are skipped and counted",
    "reference subsets are kept only if every mode has a reference component of magnitude >= 0.2 (all modes observed)",
]


@contextmanager
def record(module, name, store):
    orig = getattr(module, name)

    def wrapper(*a, **k):
        out = orig(*a, **k)
        store.append((a, out))
        return out

    setattr(module, name, wrapper)
    try:
        yield
    finally:
        setattr(module, name, orig)


def _system_case(ctx, max_m=6, max_ch=8, long=False):
    """long: a record of 2e4..7e4 samples (slow, lightly damped modes that have not died out by its end) - "every record
    length that leaves the Hankel matrix well conditioned" includes the lengths met in practice, where an implementation may
    take another route (blocked or lag-wise products); the free decay then must still give an exactly rank-2m matrix"""
    rng = ctx.rng
    g = ctx.nprng()
    for _ in range(200 if long else 50):
        m = rng.randint(1, 2 if long else max_m)
        nch = rng.randint(3, 6) if long else rng.randint(2, max_ch)
        fs = rng.choice([10.0, 100.0, 1000.0, 64.0, 51.2, 93.0, 102.4, 99.0, 12.5])  # incl. rates with 1/(1/fs) != fs in floating point
        cs = rng.random() < 0.5
        if long:
            ff = [rng.uniform(0.004, 0.012)] if m == 1 else [rng.uniform(0.004, 0.007), rng.uniform(0.009, 0.012)]
            xi = [rng.uniform(0.002, max(0.0021, min(0.006, 3.0e-5 / f))) for f in ff]
            phi = g.standard_normal((nch, m)) + (1j * g.standard_normal((nch, m)) if cs else 0)
            S = sysgen.ModalSystem(np.array(ff) * fs, xi, phi, fs)
            decay = 2 * math.pi * float(np.max(S.xi * S.fn)) / fs  # per sample
            Nl = int(min(70000, 4.0 / decay))  # the slowest-decaying... every mode still has e^-4 of its amplitude at the end
            if Nl < 20000:
                continue
            r = rng.randint(1, nch)
            ref = sorted(rng.sample(range(nch), r))
            if np.min(np.abs(S.phi[ref, :]).max(axis=0)) < 0.2:
                continue
            idx = sysgen.observability_index(S, ref, tol=1e-6)
            if idx is None:
                continue
            br = max(idx + 1, rng.choice([20, 25, 30, 40, 50]))
            amp = g.standard_normal(m) + 1j * g.standard_normal(m)
            amp /= np.abs(amp)
            ctx.count("system_long_record")
            return S, ref, br, rng.randint(max(20000, Nl // 2), Nl), amp, cs
        S = sysgen.random_system(rng, g, m, nch, fs, cs)
        if m >= 2 and rng.random() < 0.25:
            # two distinct modes whose frequencies differ by 0.8 % .. 4 % only (closer than the default matching tolerance
            # of the extraction step): still "distinct frequencies", identified exactly from noise-free data
            j = rng.randrange(m - 1)
            f2 = S.fn[j] * (1.0 + rng.uniform(0.008, 0.04))
            if f2 < (S.fn[j + 2] - 0.02 * fs if j + 2 < m else 0.45 * fs):
                fn = S.fn.copy()
                fn[j + 1] = f2
                S = sysgen.ModalSystem(fn, S.xi, S.phi, fs)
                S.close_pair = True
                ctx.count("system_close_mode_pair")
        r = rng.randint(1, nch)
        ref = sorted(rng.sample(range(nch), r))
        if rng.random() < 0.3:
            rng.shuffle(ref)
        if np.min(np.abs(S.phi[ref, :]).max(axis=0)) < 0.2:
            continue
        weak = False
        if rng.random() < 0.3:
            # stress stream: one mode only weakly visible at the references (still observed: the premise holds); the factors
            # are then ill-conditioned (1e3..1e6) but both routines stay accurate to ~1e-9 above the gap guard
            S.phi[ref, rng.randrange(m)] *= 10 ** -rng.uniform(2, 4.5)
            weak = True
        idx = sysgen.observability_index(S, ref, tol=(1e-9 if weak else 1e-6))
        if idx is None:
            continue
        br = idx + 1 + rng.randint(0, 3)
        N = rng.randint(400, 1500)
        amp = g.standard_normal(m) + 1j * g.standard_normal(m)
        amp /= np.abs(amp)
        return S, ref, br, N, amp, cs
    raise RuntimeError("no admissible system generated")


def _eig_records(eigs, dt):
    """the outputs of the successive scipy.linalg.eig calls of SSI_poles (via ac2mp) and of np.log / np.abs on them, as
    the model's per-call records; None if a value is not finite (log 0) or a pole is exactly 0 (0/0 in xi)"""
    from common import Cvec, Rvec

    recs = []
    for (_a, out) in eigs:
        lam_d, lv, rv = out
        with np.errstate(all="ignore"):
            lamc = (np.log(lam_d)) * (1 / dt)
        if not (np.all(np.isfinite(lamc)) and np.all(np.abs(lamc) > 0) and np.all(np.abs(lam_d) > 0)):
            return None
        recs.append(dict(lamd=Cvec(lam_d), L=Cmat(lv), V=Cmat(rv), lamc=Cvec(lamc), absc=Rvec(np.abs(lamc)), absd=Rvec(np.abs(lam_d))))
    return recs


def _cells_close(M, Rl, rtol):
    """same shape, same NaN pattern, every non-NaN cell within rtol (relative, per cell)"""
    M = np.asarray(M)
    Rl = np.asarray(Rl)
    if M.shape != Rl.shape or (np.isnan(M) != np.isnan(Rl)).any():
        return False
    k = ~np.isnan(Rl)
    return bool(np.all(np.abs(M[k] - Rl[k]) <= rtol * np.abs(Rl[k]) + 1e-300))


def _poles_case(ctx, ssi, stream, Obs, A, C, ordmax, dt, step, key, unc=None):
    """ssi.SSI_poles against the model function `ssiPoles` on the same lists AA, CC: VALUES of the four (six) tables cell by
    cell, the NaN pattern, the shapes, the exception class, and the matrices handed to scipy.linalg.eig"""
    import scipy.linalg

    eigs, invs = [], []
    kw = {}
    if unc is not None:
        kw = dict(calc_unc=True, Q1=unc[0], Q2=unc[1], Q3=unc[2], Q4=unc[3])
    try:
        with record(scipy.linalg, "eig", eigs), record(np.linalg, "inv", invs):
            out = ssi.SSI_poles(Obs, A, C, ordmax, dt, step, **kw)
        raised = None
    except (IndexError, ValueError, ZeroDivisionError) as e:
        raised = type(e).__name__
    recs = _eig_records(eigs, dt)
    if recs is None:
        ctx.skipped += 1
        ctx.count("poles_skipped_nonfinite_pole")
        return
    _eig_contract(ctx, eigs)
    uj = None
    if unc is not None:
        uj = dict(Q1=Rmat(unc[0]), Q2=Rmat(unc[1]), Q3=Rmat(unc[2]), OO=[Rmat(o) for (_a, o) in invs], pi=R(np.pi), dt=R(dt))
    m = ctx.model("ssi_poles", AA=[Rmat(a) for a in A], CC=[Rmat(c) for c in C], ordmax=ordmax, step=step, recs=recs,
                  twopi=R(2 * np.pi), unc=uj)
    inp = {"A": [np.asarray(a).tolist() for a in A], "C": [np.asarray(c).tolist() for c in C], "ordmax": ordmax, "dt": dt, "step": step}
    if raised is not None or "raises" in m:
        ctx.count(f"poles_raises_{raised}")
        ctx.corr(stream, m.get("raises") == raised, inp, m.get("raises"), raised, key + ("raises", raised))
        return
    Fn, Xi, Phi, Lam, Fn_cov, Xi_cov, Phi_cov = out
    cm = lambda T: np.array([[cfl(z) for z in row] for row in T], dtype=complex).reshape(np.asarray(T, dtype=object).shape[:2])  # noqa: E731
    ok = _cells_close(np.array(flmat(m["fn"])).reshape(Fn.shape), Fn, 1e-12) and _cells_close(np.array(flmat(m["xi"])).reshape(Xi.shape), Xi, 1e-12)
    # Lambdas: the recorded np.log(lam_d)*(1/dt) goes through unchanged
    ok = ok and _cells_close(cm(m["lam"]) if Lam.size else np.zeros(Lam.shape), Lam, 1e-15)
    # the matrices handed to eig are AA[ii] of the visited orders, in that order
    ea = m["eigargs"]
    ok = ok and len(ea) == len(eigs) and all(x is not None and np.array_equal(np.array(flmat(x)).reshape(np.asarray(a[0]).shape), a[0]) for x, (a, _o) in zip(ea, eigs))
    # Phi: shape, NaN pattern, values (a column of C·V that is tiny by cancellation carries a large relative rounding error)
    PH = np.array([[[cfl(z) for z in cell] for cell in row] for row in m["phi"]], dtype=complex).reshape(Phi.shape)
    ok = ok and (np.isnan(PH) == np.isnan(Phi)).all()
    orders = list(range(1, ordmax + 1, step))
    for k, ii in enumerate(orders):
        if not ok:
            break
        rv = eigs[k][1][2]
        raw = np.asarray(C[ii]) @ rv
        for j in range(raw.shape[1]):
            cancel = (np.abs(C[ii]) @ np.abs(rv[:, j])).max() / max(np.abs(raw[:, j]).max(), 1e-300)
            ok = ok and max_rel_err(PH[j, ii, :], Phi[j, ii, :]) <= 1e-12 + 4e-16 * cancel * raw.shape[0]
    if unc is not None:
        ok = ok and m["fncov"] is not None and m["xicov"] is not None and m["phicov"] is not None
        if ok:
            ok = _cells_close(np.array(flmat(m["fncov"])).reshape(Fn_cov.shape), Fn_cov, 1e-9) and _cells_close(np.array(flmat(m["xicov"])).reshape(Xi_cov.shape), Xi_cov, 1e-9)
            PC = np.array([[[fl(v) for v in cell] for cell in row] for row in m["phicov"]], dtype=float).reshape(Phi_cov.shape)
            ok = ok and np.isnan(PC).all() and np.isnan(Phi_cov).all() and len(invs) == len(orders)
    else:
        ok = ok and m["fncov"] is None and m["xicov"] is None and m["phicov"] is None and Fn_cov is None and Xi_cov is None and Phi_cov is None
    ctx.corr(stream, bool(ok), inp, None, None, key)


def _same_to_rounding(M, ref, shape, rtol=1e-15):
    """model matrix (exact rationals, already converted) against the recorded float argument: same shape, every entry within one
    rounding (the model forms U[i,j]*sqrt(s_j) exactly, numpy rounds that product once)"""
    ref = np.asarray(ref)
    if tuple(shape) != ref.shape:
        return False
    if ref.size == 0:
        return True
    Mf = np.array(flmat(M), dtype=float).reshape(ref.shape)
    return bool(np.all(np.abs(Mf - ref) <= rtol * np.abs(ref)))


def _eig_contract(ctx, eigs):
    """the recorded scipy.linalg.eig outputs satisfy the eigen-equation the theorems assume (EigOf.eq) to rounding:
    A V = V diag(lam), relative to |A| (columns of V have unit norm)"""
    for (a, out) in eigs:
        Aa = np.asarray(a[0], dtype=float)
        if Aa.size == 0:
            continue
        lam, _lv, rv = out
        if not (np.all(np.isfinite(lam)) and np.all(np.isfinite(rv))):
            continue
        sc = max(np.abs(Aa).sum(axis=1).max(), 1e-300)
        ctx.contract("eig", np.abs(Aa @ rv - rv * lam).max() / sc, 1e-10, "A V = V diag(lam) (right eigenvectors of scipy.linalg.eig)")


def _fast_whole_case(ctx, ssi, H, br, ordmax, step, key):
    """ssi.SSI_fast(H, br, ordmax, step) against the model function `fastSSI` (driver op ssi_fast_whole), which DERIVES the number
    of channels l = int(H.shape[0]/(br+1)) and FORMS the LAPACK arguments: exception class; Obs; the matrix handed to
    np.linalg.qr (entry by entry, one rounding); the matrices handed to the successive np.linalg.inv calls (exact: slices of the
    recorded R); number, shapes and values of the list entries A, C.  The recorded inverses satisfy the contract QrC.inv."""
    svds, qrs, invs, solves = [], [], [], []
    try:
        with record(np.linalg, "svd", svds), record(np.linalg, "qr", qrs), record(np.linalg, "inv", invs), record(np.linalg, "solve", solves):
            Obs, A, C, *_ = ssi.SSI_fast(H, br, ordmax, step)
        raised = None
        if not invs and solves:
            # the routine solves R[:n,:n] X = S[:n,:n] instead of forming the inverse (same LU factorisation, same contract
            # "left inverse of the block"): the block handed to `solve` is the inv-argument, its float inverse the recorded factor
            invs = [((a[0],), np.linalg.inv(np.asarray(a[0], dtype=float)) if np.asarray(a[0]).size else np.zeros((0, 0))) for (a, _o) in solves]
            ctx.count("fast_whole_solve_instead_of_inv")
    except (ValueError, IndexError, ZeroDivisionError) as e:  # LinAlgError is a ValueError
        raised = type(e).__name__
        if "ingular" in str(e):  # inv of an exactly singular block: no recorded result to hand to the model
            ctx.skipped += 1
            ctx.count("fast_whole_skipped_singular")
            return
    if not svds:
        ctx.skipped += 1
        return
    stream = "ssi.SSI_fast[whole,args]"
    U, SIG, _Vt = svds[0][1]
    Q, Rm = (qrs[0][1] if qrs else (np.zeros((0, 0)), np.zeros((0, 0))))
    mat = lambda x: Rmat(x) if np.asarray(x).size else []  # noqa: E731
    m = ctx.model("ssi_fast_whole", U=Rmat(U), sq=[R(v) for v in np.sqrt(SIG)], Q=mat(Q), R=mat(Rm),
                  Rinv=[mat(np.asarray(o)) for (_a, o) in invs], br=br, ordmax=ordmax, step=step)
    inp = {"H": H.tolist(), "br": br, "ordmax": ordmax, "step": step}
    if raised is not None or "raises" in m:
        ctx.count(f"fast_whole_raises_{raised}")
        ctx.corr(stream, m.get("raises") == raised, inp, m.get("raises"), raised, key + ("raises", raised))
        return
    why = None
    if not _same_to_rounding(m["Obs"], Obs, m["shapeObs"]):
        why = "Obs"
    elif len(qrs) != 1 or len(qrs[0][0]) != 1 or not _same_to_rounding(m["qrarg"], qrs[0][0][0], m["shapeQr"]):
        why = "qr-argument"
    elif len(invs) != len(m["invargs"]) or len(m["A"]) != len(A) or len(m["C"]) != len(C) or len(A) != len(invs):
        why = "number of passes"
    for k in range(len(A)):
        if why:
            break
        a0 = invs[k][0]
        if len(a0) != 1 or not _same_to_rounding(m["invargs"][k], a0[0], m["shapesInv"][k], rtol=0.0):
            why = f"inv-argument of pass {k}"
        elif tuple(m["shapesA"][k]) != A[k].shape or tuple(m["shapesC"][k]) != C[k].shape:
            why = f"shape of list entry {k}"
        elif A[k].size:
            n_ = A[k].shape[0]
            Ri = np.asarray(invs[k][1])
            tol = 1e-12 + 1e-13 * n_ * np.abs(Ri).max() * np.abs(Obs).max() * Obs.shape[0] / max(np.abs(A[k]).max(), 1e-300)
            if max_rel_err(np.array(flmat(m["A"][k])).reshape(A[k].shape), A[k]) > tol:
                why = f"A[{k}]"
            elif max_rel_err(np.array(flmat(m["C"][k])).reshape(C[k].shape), C[k]) > 1e-12:
                why = f"C[{k}]"
            Ra = np.asarray(a0[0], dtype=float)
            with np.errstate(all="ignore"):
                cond = np.linalg.cond(Ra)
            if np.isfinite(cond) and cond < 1e12:
                ctx.contract("inv", np.abs(Ri @ Ra - np.eye(n_)).max() / max(cond, 1.0), 1e-13, "inv(R[:n,:n]) R[:n,:n] = I (relative to the condition number)")
    ctx.count(f"fast_whole_refs_{'eq' if H.shape[0] == H.shape[1] else 'ne'}_channels")
    ctx.corr(stream, why is None, inp, why, None, key)


def _legacy_lists_case(ctx, ssi, H, br, ordmax, step, key):
    """ssi.SSI(H, br, ordmax, step) against the model function `legacySSI` (driver op ssi_legacy_lists): the exception class,
    the number of list entries, every shape, every value of A (rounding of the product pinv·Obs[Nch:]) and of C.  Returns the
    real lists (None if the call raised)."""
    svds, pinvs = [], []
    try:
        with record(np.linalg, "svd", svds), record(np.linalg, "pinv", pinvs):
            A, C = ssi.SSI(H, br, ordmax, step)
        raised = None
    except (ValueError, IndexError, ZeroDivisionError) as e:
        A = C = None
        raised = type(e).__name__
    if not svds:
        ctx.skipped += 1
        return None
    U, SIG, _Vt = svds[0][1]
    P = [np.asarray(o) for (_a, o) in pinvs]
    m = ctx.model("ssi_legacy_lists", U=Rmat(U), sq=[R(v) for v in np.sqrt(SIG)], pinv=[Rmat(x) if x.size else [] for x in P],
                  br=br, ordmax=ordmax, step=step)
    inp = {"H": H.tolist(), "br": br, "ordmax": ordmax, "step": step}
    if raised is not None or "raises" in m:
        ctx.count(f"legacy_lists_raises_{raised}")
        ctx.corr("ssi.SSI[lists,step]", m.get("raises") == raised, inp, m.get("raises"), raised, key + ("raises", raised))
        return None
    ok = len(m["A"]) == len(A) == len(P) and len(m["C"]) == len(C)
    for k in range(len(A)):
        if not ok:
            break
        ok = tuple(m["shapesA"][k]) == A[k].shape and tuple(m["shapesC"][k]) == C[k].shape
        if ok and A[k].size:
            n_ = A[k].shape[0]
            Obs_k = (U[:, :k * step] * np.sqrt(SIG)[:k * step]) if k * step <= len(SIG) else None
            mag = np.abs(C[k]).max() if Obs_k is None else np.abs(Obs_k).max()
            tol = 1e-12 + 1e-13 * n_ * np.abs(P[k]).max() * mag * H.shape[0] / max(np.abs(A[k]).max(), 1e-300)
            ok = max_rel_err(np.array(flmat(m["A"][k])).reshape(A[k].shape), A[k]) <= tol
            ok = ok and max_rel_err(np.array(flmat(m["C"][k])).reshape(C[k].shape), C[k]) <= 1e-12
    ctx.corr("ssi.SSI[lists,step]", bool(ok), inp, None, None, key)
    # ---- the matrices handed to np.linalg.pinv are the ones the model forms (`legacyPinvArgs`), and what came back is what
    # np.linalg.pinv gives for them with its default cut-off (the contract PinvC is about THAT function) and a left inverse
    ma = ctx.model("ssi_legacy_args", U=Rmat(U), sq=[R(v) for v in np.sqrt(SIG)], br=br, ordmax=ordmax, step=step)
    why = None
    if "raises" in ma or len(ma["pinvargs"]) != len(pinvs):
        why = "number of passes"
    for k in range(len(pinvs)):
        if why:
            break
        a0 = pinvs[k][0]
        if len(a0) != 1 or not _same_to_rounding(ma["pinvargs"][k], a0[0], ma["shapes"][k]):
            why = f"pinv-argument of pass {k}"
        elif P[k].size:
            arg = np.asarray(a0[0], dtype=float)
            ref = np.linalg.pinv(arg)
            ctx.contract("pinv_default", np.abs(P[k] - ref).max() / max(np.abs(ref).max(), 1e-300), 1e-12, "the recorded result is np.linalg.pinv(argument) with the default cut-off")
            sv = np.linalg.svd(arg, compute_uv=False)
            if arg.shape[0] >= arg.shape[1] and sv[-1] > 1e-10 * sv[0]:
                ctx.contract("pinv", np.abs(P[k] @ arg - np.eye(arg.shape[1])).max() * sv[-1] / sv[0], 1e-13, "pinv(O) O = I for full column rank (relative to the condition number)")
    ctx.corr("ssi.SSI[pinv args]", why is None, inp, why, None, key)
    return A, C


def _step_crash_stream(ctx, ssi, H, Y, ref, br, method, ordmax, dt):
    """step >= 2 as coded.  SSI_fast / SSI build lists with ONE entry per multiple of `step`; SSI_poles indexes them by ORDER.
    For ordmax > step (and for 1 <= ordmax < step) the real SSI_poles and the model `ssiPoles` must BOTH end in IndexError
    (theorems C01_step_indexError_fast / _legacy, C01_step_ok_only_boundary); for ordmax == step both return (the order-`step` poles sit in column 1) and the cells
    agree.  The same through the class (SSIcov / SSIdat with step >= 2): run() raises IndexError."""
    rng = ctx.rng
    step = rng.choice([2, 2, 3])
    om = rng.choice([step - 1, step, step + 1, max(step, min(ordmax, step + 2)), max(step, ordmax)])
    if om > min(H.shape) - 1:
        ctx.skipped += 1
        return
    expect = "IndexError" if om != step else None  # C01_step_ok_only_boundary: returns only for ordmax == step
    for routine in ("fast", "legacy"):
        if routine == "fast":
            Obs, A, C, *_ = ssi.SSI_fast(H, br, om, step)
        else:
            out = _legacy_lists_case(ctx, ssi, H, br, om, step, ("legacy-step", om, step))
            if out is None:
                continue
            (A, C), Obs = out, None
        try:
            ssi.SSI_poles(Obs, A, C, om, dt, step)
            raised = None
        except IndexError:
            raised = "IndexError"
        ctx.count(f"step_{routine}_{'crash' if raised else 'returns'}")
        ctx.corr(f"ssi.SSI_poles[{routine} lists,same step]", raised == expect, {"ordmax": om, "step": step}, expect, raised, ("same-step", routine, (om > step) - (om < step)))
        _poles_case(ctx, ssi, f"ssi.SSI_poles[{routine} lists,same step]", Obs, A, C, om, dt, step, ("same-step-model", routine, om, step))
    if om > step and rng.random() < 0.5:
        from pyoma2.algorithms import SSIcov, SSIdat
        from pyoma2.setup import SingleSetup

        ss = SingleSetup(Y.copy(), fs=1.0 / dt)
        cls = SSIcov if method == "cov_mm" else SSIdat
        kw = dict(method="cov_mm") if method == "cov_mm" else {}
        alg = cls(name="a", br=br, ordmax=om, step=step, ref_ind=list(ref), **kw)
        ss.add_algorithms(alg)
        try:
            ss.run_by_name("a")
            raised = None
        except IndexError:
            raised = "IndexError"
        except np.linalg.LinAlgError:
            ctx.skipped += 1
            return
        ctx.count(f"class_step_{raised}")
        ctx.corr("SSI*.run[step>=2]", raised == "IndexError", {"class": cls.__name__, "ordmax": om, "step": step, "br": br}, "IndexError", raised, ("class-step", cls.__name__))


def _poles_unc_stream(ctx, ssi):
    """SSI_poles(calc_unc=True): Fn_cov / Xi_cov tables against the model, every cell (generator of C17's correspondence)"""
    import c17

    done = tries = 0
    want = ctx.n(3, 40)
    while done < want and tries < 10 * want:
        tries += 1
        g = ctx.nprng()
        l = ctx.rng.randint(1, 2)
        r = ctx.rng.randint(1, l)
        p = ctx.rng.randint(2, 3)
        cap = min(4, p * l, (p + 1) * r)
        if cap < 2:
            continue
        ordmax = ctx.rng.randint(2, cap)
        H = c17.gen_hankel_lowrank(g, l, r, p, ordmax + ctx.rng.randint(0, 1), 10 ** g.uniform(-4, -2))
        if not c17.sv_guard(H, ordmax):
            ctx.skipped += 1
            continue
        nbc = ctx.rng.randint(1, 3)
        T = g.standard_normal((H.size, nbc))
        Obs, A, C, Q1, Q2, Q3, Q4 = ssi.SSI_fast(H, p, ordmax, step=1, calc_unc=True, T=T, nb=nbc)
        _poles_case(ctx, ssi, "ssi.SSI_poles[cov values]", Obs, A, C, ordmax, c17.DT, 1, ("cov", l, r, p, ordmax, nbc), unc=(Q1, Q2, Q3, Q4))
        done += 1
    ctx.count("poles_cov_cases", done)


# --- default values as regenerated obligations (Generated/Defaults.lean <- harness/translate_defaults.py; stream defaults[...])
import defaults_stream  # noqa: E402
from common import all_pre_build as pre_build  # noqa: E402,F401,F811  (runs EVERY translate_*.py)
LEAN_MODULES += ["PyomaVerif.Props.WiringDefaultsC09", "PyomaVerif.Props.WiringDefaultsC12", "PyomaVerif.Props.C01StoredDefault"]
THEOREMS += ["PV.C01StoredDefault.default_limits", "PV.C01StoredDefault.C01_default_covers_domain", "PV.C01StoredDefault.shapeOk_default_of_real", "PV.C01StoredDefault.C01_stored_default", "PV.WiringDefaults.C09_hc_defaults", "PV.WiringDefaults.C12_runparams_defaults"]


def correspondence(ctx):
    defaults_stream.correspondence(ctx, props=("C12",))
    import scipy.linalg

    from pyoma2.functions import ssi

    rng = ctx.rng
    n_cases = ctx.n(12, 300)
    for k in range(n_cases):
        S, ref, br, N, amp, cs = _system_case(ctx, max_m=3, max_ch=3)
        br = min(br, 4)
        Y = S.response(N, amp)
        l = Y.shape[1]
        method = rng.choice(["cov_mm", "dat"])
        try:
            H, _ = ssi.build_hank(Y.T, Y.T[ref, :], br, method)
        except Exception:
            ctx.skipped += 1
            continue
        if rng.random() < 0.3:
            H = H + 1e-3 * np.abs(H).max() * ctx.nprng().standard_normal(H.shape)  # also full-rank input
        ordmax = min(2 * S.m + rng.randint(0, 2), min(H.shape) - 1, 8)
        if ordmax < 1:
            ctx.skipped += 1
            continue
        # ---- SSI_fast with recorded svd / qr / inv
        svds, qrs, invs = [], [], []
        with record(np.linalg, "svd", svds), record(np.linalg, "qr", qrs), record(np.linalg, "inv", invs):
            Obs, A, C, *_ = ssi.SSI_fast(H, br, ordmax)
        U, SIG, _Vt = svds[0][1]
        Q, Rm = qrs[0][1]
        Rinv = [np.asarray(o) for (_a, o) in invs]
        # the recorded factors satisfy the contracts the theorems assume (SvdOf, QrOf) to rounding
        hs = max(np.abs(H).max(), 1e-300)
        ks = len(SIG)
        ctx.contract("svd", max(np.abs((U[:, :ks] * SIG) @ _Vt[:ks, :] - H).max() / hs, np.abs(U.T @ U - np.eye(U.shape[1])).max(), float(np.max(np.diff(SIG), initial=0.0)) / hs),
                     1e-10, "H = U diag(S) V^T, U^T U = I, S non-increasing")
        Aq = np.asarray(qrs[0][0][0])
        ctx.contract("qr", max(np.abs(Q @ Rm - Aq).max() / max(np.abs(Aq).max(), 1e-300), np.abs(Q.T @ Q - np.eye(Q.shape[1])).max(), np.abs(np.tril(Rm, -1)).max()),
                     1e-10, "A = Q R, Q^T Q = I, R upper triangular")
        if len(Rinv) != ordmax + 1:
            # the code no longer forms inv(R[:n,:n]) explicitly (e.g. np.linalg.solve): the model's factor is then a float
            # inverse of the recorded triangular factor, computed here -- same contract, same tolerance
            Rinv = [np.linalg.inv(Rm[:n, :n]) for n in range(ordmax + 1)]
            ctx.count("fast_inverse_not_recorded")
        m = ctx.model(
            "ssi_fast", U=Rmat(U[:, :ordmax]), sq=[R(v) for v in np.sqrt(SIG[:ordmax])], Q=Rmat(Q),
            Rinv=[Rmat(x) if x.size else [] for x in Rinv], l=l, ordmax=ordmax,
        )
        # float rounding of the product inv(R)·S grows with the magnitude of the factors: scale the tolerance by it
        def tolA(F, n, An):
            return 1e-12 + 1e-13 * n * np.abs(F).max() * np.abs(Obs).max() * Obs.shape[0] / max(np.abs(An).max(), 1e-300)

        ok = all(max_rel_err(np.array(flmat(m["A"][n])).reshape(n, n), A[n]) <= tolA(Rinv[n], n, A[n]) for n in range(1, ordmax + 1))
        ok = ok and all(max_rel_err(np.array(flmat(m["C"][n])).reshape(l, n), C[n]) <= 1e-12 for n in range(1, ordmax + 1))
        ok = ok and max_rel_err(flmat(m["Obs"]), Obs) <= 1e-12
        ctx.corr("ssi.SSI_fast", bool(ok), {"H": H.tolist(), "br": br, "ordmax": ordmax}, None, None, ("fast", l, br, ordmax, method))
        # ---- legacy SSI with recorded svd / pinv
        svds, pinvs = [], []
        with record(np.linalg, "svd", svds), record(np.linalg, "pinv", pinvs):
            A2, C2 = ssi.SSI(H, br, ordmax)
        U, SIG, _Vt = svds[0][1]
        P = [np.asarray(o) for (_a, o) in pinvs]
        m = ctx.model(
            "ssi_legacy", U=Rmat(U[:, :ordmax]), sq=[R(v) for v in np.sqrt(SIG[:ordmax])],
            pinv=[Rmat(x) if x.size else [] for x in P], l=l, ordmax=ordmax,
        )
        ok = all(max_rel_err(np.array(flmat(m["A"][n])).reshape(n, n), A2[n]) <= tolA(P[n], n, A2[n]) for n in range(1, ordmax + 1))
        ok = ok and all(max_rel_err(np.array(flmat(m["C"][n])).reshape(l, n), C2[n]) <= 1e-12 for n in range(1, ordmax + 1))
        ctx.corr("ssi.SSI", bool(ok), {"H": H.tolist(), "br": br, "ordmax": ordmax}, None, None, ("legacy", l, br, ordmax, method))
        # ---- ac2mp with recorded eig
        n = ordmax
        eigs = []
        with record(scipy.linalg, "eig", eigs):
            fn, xi, phi, lam_c, *_ = ssi.ac2mp(A[n], C[n], S.dt)
        lam_d, _lv, rv = eigs[0][1]
        lamc = (np.log(lam_d)) * (1 / S.dt)
        if np.all(np.isfinite(lamc)) and np.all(np.abs(lamc) > 0):
            mm = ctx.model("ac2mp", C=Cmat(C[n]), V=Cmat(rv), lam=[Cx(z) for z in lamc], abs=[R(v) for v in np.abs(lamc)], twopi=R(2 * np.pi))
            okm = max_rel_err([fl(v) for v in mm["fn"]], fn) <= 1e-12 and max_rel_err([fl(v) for v in mm["xi"]], xi) <= 1e-12
            PH = np.array([[cfl(z) for z in row] for row in mm["phi"]])
            raw = C[n] @ rv  # un-normalised shapes: a column that is tiny by cancellation carries a large relative rounding error
            for j in range(raw.shape[1]):
                cancel = (np.abs(C[n]) @ np.abs(rv[:, j])).max() / max(np.abs(raw[:, j]).max(), 1e-300)
                okm = okm and PH.shape == np.asarray(phi).shape and max_rel_err(PH[j], np.asarray(phi)[j]) <= 1e-12 + 4e-16 * cancel * raw.shape[0]
            ctx.corr("ssi.ac2mp", bool(okm), {"A": A[n].tolist(), "C": C[n].tolist(), "dt": S.dt}, None, None, ("ac2mp", l, n))
        # ---- SSI_poles table pattern
        Fn, Xi, Phi, Lam, *_ = ssi.SSI_poles(Obs, A, C, ordmax, S.dt)
        pat = ctx.model("poles_table", ordmax=ordmax, lens=list(range(ordmax + 1)))
        impl_pat = (~np.isnan(Fn)).tolist()
        # a computed pole may itself be NaN only if log/eig produced one; pattern must be a subset and equal in shape
        okp = np.array(pat).shape == Fn.shape and all(
            (not impl_pat[r][c]) or pat[r][c] for r in range(Fn.shape[0]) for c in range(Fn.shape[1])
        ) and (np.array(pat) == np.array(impl_pat)).mean() > 0.99
        okp = okp and (np.isnan(Fn) == np.isnan(Xi)).all() and (np.isnan(Fn) == np.isnan(Phi[:, :, 0])).all()
        ctx.corr("ssi.SSI_poles[table]", bool(okp), {"ordmax": ordmax}, pat, impl_pat, ("table", ordmax))
        # ---- SSI_poles as ONE model function: table VALUES, column placement, Lambdas, eig arguments
        _poles_case(ctx, ssi, "ssi.SSI_poles[values]", Obs, A, C, ordmax, S.dt, 1, ("values", l, ordmax))
        # ---- the step parameter as coded (lists of SSI_fast(step=s1) fed to SSI_poles(step=s2)): mostly IndexError
        s1, s2 = rng.choice([(1, 2), (1, 3), (2, 2), (3, 3), (2, 1), (1, 2)])
        om2 = rng.randint(1, ordmax)
        svds, qrs, invs = [], [], []
        with record(np.linalg, "svd", svds), record(np.linalg, "qr", qrs), record(np.linalg, "inv", invs):
            Obs_s, A_s, C_s, *_ = ssi.SSI_fast(H, br, om2, s1)
        if len(invs) == len(A_s):
            U_s, SIG_s, _ = svds[0][1]
            ml = ctx.model("ssi_fast_lists", U=Rmat(U_s[:, :om2]), sq=[R(v) for v in np.sqrt(SIG_s[:om2])], Q=Rmat(qrs[0][1][0]),
                           Rinv=[Rmat(np.asarray(o)) if np.asarray(o).size else [] for (_a, o) in invs], l=l, ordmax=om2, step=s1)
            okl = len(ml["A"]) == len(A_s) and len(ml["C"]) == len(C_s)
            for kk in range(len(A_s)):
                if not okl:
                    break
                n_ = A_s[kk].shape[0]
                okl = n_ == kk * s1 and np.array(flmat(ml["A"][kk])).reshape(n_, n_).shape == A_s[kk].shape
                if n_ > 0:
                    okl = okl and max_rel_err(np.array(flmat(ml["A"][kk])).reshape(n_, n_), A_s[kk]) <= tolA(np.asarray(invs[kk][1]), n_, A_s[kk])
                    okl = okl and max_rel_err(np.array(flmat(ml["C"][kk])).reshape(l, n_), C_s[kk]) <= 1e-12
            ctx.corr("ssi.SSI_fast[lists,step]", bool(okl), {"H": H.tolist(), "br": br, "ordmax": om2, "step": s1}, None, None, ("lists", l, om2, s1))
        _poles_case(ctx, ssi, "ssi.SSI_poles[step]", Obs_s, A_s, C_s, om2, S.dt, s2, ("step", om2, s1, s2))
        # ---- SSI_fast as ONE model function: l derived from H.shape, the arguments of qr / inv formed by the model
        _fast_whole_case(ctx, ssi, H, br, om2, s1, ("fast-whole", l, len(ref), om2, s1))
        _fast_whole_case(ctx, ssi, H, br, ordmax, 1, ("fast-whole", l, len(ref), ordmax, 1))
        if k % 3 == 1:
            # ordmax beyond the recorded factors / beyond the rows of O_p (ValueError of np.dot, LinAlgError of inv), step = 0
            _fast_whole_case(ctx, ssi, H, br, min(H.shape) + rng.randint(-1, 2), rng.choice([1, 2]), ("fast-beyond", H.shape[0] > H.shape[1]))
            _fast_whole_case(ctx, ssi, H, br, om2, 0, ("fast-step0",))
        # ---- the legacy routine as ONE model function (Nch, loop with step, clipping of the slices, recorded pinv)
        _legacy_lists_case(ctx, ssi, H, br, om2, s1, ("legacy-lists", l, om2, s1))
        if k % 3 == 0:
            # ordmax beyond the recorded factors (clipped slices; ValueError for a tall H), step = 0 (ValueError of range)
            _legacy_lists_case(ctx, ssi, H, br, min(H.shape) + rng.randint(0, 2), rng.choice([1, 2]), ("legacy-beyond", H.shape[0] > H.shape[1]))
            _legacy_lists_case(ctx, ssi, H, br, om2, 0, ("legacy-step0",))
        # ---- step >= 2, same step in both calls (what the classes do)
        _step_crash_stream(ctx, ssi, H, Y, ref, br, method, ordmax, S.dt)
        if k == 0:
            ctx.sample({"fn": S.fn.tolist(), "xi": S.xi.tolist(), "channels": l, "ref": ref, "br": br, "method": method, "ordmax": ordmax})
    _poles_unc_stream(ctx, ssi)


def _check_poles(ctx, tag, fn, xi, phi, lam, S, inp, tol=1e-8):
    res = sysgen.match_poles(np.asarray(fn), np.asarray(xi), np.asarray(phi), S, np.asarray(lam) if lam is not None else None)
    for (k, rows, efn, exi, mc) in res:
        if len(rows) < 2:
            ctx.violation(f"{tag}:pair-missing", f"{tag}: mode {k} (f={S.fn[k]:.6g}) has no conjugate pole pair at order 2m", inp, observed=[float(x) for x in np.asarray(fn)])
            return False
        if not (efn <= tol and exi <= tol and 1 - mc <= tol):
            ctx.violation(
                f"{tag}:inaccurate", f"{tag}: mode {k}: rel freq err {efn:.2e}, damping err {exi:.2e}, 1-MAC {1 - mc:.2e}", inp,
                observed={"fn": [float(fn[i]) for i in rows], "xi": [float(xi[i]) for i in rows]}, expected={"fn": float(S.fn[k]), "xi": float(S.xi[k])},
            )
            return False
    return True


def oracle(ctx, scale):
    from pyoma2.algorithms import SSIcov, SSIdat
    from pyoma2.functions import ssi
    from pyoma2.setup import SingleSetup

    rng = ctx.rng
    for k in range(ctx.n(30, 1200) * scale):
        S, ref, br, N, amp, cs = _system_case(ctx, long=(k % 10 in (3, 6)))
        Y = S.response(N, amp)
        m2 = 2 * S.m
        # which premise form of Props/C01Excite covers the case: the generated systems are modal (pairwise distinct non-zero poles,
        # every |amp_k| = 1, every mode visible at a reference), so C01_e2e_*_excited always applies (reference observability with
        # br + 1 block rows is what the generator's observability index guarantees); the purely modal sufficient condition of
        # C01_e2e_*_modal needs n <= br + 1 and n <= averaged samples in addition
        ctx.count("premises_modal_sufficient" if (m2 <= br + 1 and m2 <= N - 2 * br - 2) else "premises_excited_form_only")
        inp = {"fn": S.fn.tolist(), "xi": S.xi.tolist(), "phi": [[str(v) for v in r] for r in S.phi.tolist()], "fs": S.fs,
               "ref": ref, "br": br, "N": N, "amp": [str(a) for a in amp]}
        for method in ("cov_mm", "dat"):
            try:
                H, _ = ssi.build_hank(Y.T, Y.T[ref, :], br, method)
            except np.linalg.LinAlgError:
                ctx.skipped += 1
                continue
            sv = np.linalg.svd(H, compute_uv=False)
            if len(sv) < m2 or sv[m2 - 1] / sv[0] < 1e-7:
                ctx.skipped += 1
                ctx.count("skipped_ill_conditioned")
                continue
            for routine in ("fast", "legacy"):
                if routine == "fast":
                    _Obs, A, C, *_ = ssi.SSI_fast(H, br, m2)
                else:
                    A, C = ssi.SSI(H, br, m2)
                fn, xi, phi, lam, *_ = ssi.ac2mp(A[m2], C[m2], S.dt)
                ctx.oracle_cases += 1
                ctx.nontrivial.add((S.m, Y.shape[1], len(ref), br, method, routine, cs))
                if not _check_poles(ctx, f"{method}/{routine}", fn, xi, phi, lam, S, inp | {"method": method, "routine": routine}):
                    return
        # through the classes: SingleSetup + SSIcov (cov_mm) / SSIdat, neutral hard criteria, mpe at order 2m
        if k % 3 == 0 or getattr(S, "close_pair", False):  # (k % 10 == 6, the long records, is a multiple of 3 for k = 6, 36, ...)
            hc = dict(conj=False, xi_max=1.0, mpc_lim=0.0, mpd_lim=math.pi / 2, cov_max=1e9)
            ss = SingleSetup(Y.copy(), fs=S.fs)
            omax = min((br + 1) * len(ref), br * Y.shape[1])  # the Hankel matrix has no more singular values than that
            algs = [SSIcov(name="cov", br=br, ordmax=min(m2 + rng.randint(0, 3), omax), method="cov_mm", ref_ind=list(ref), hc=hc),
                    SSIdat(name="dat", br=br, ordmax=min(m2 + rng.randint(0, 3), omax), ref_ind=list(ref), hc=hc)]
            ss.add_algorithms(*algs)
            for alg in algs:
                try:
                    ss.run_by_name(alg.name)
                except np.linalg.LinAlgError:
                    ctx.skipped += 1
                    continue
                res = alg.result
                H = res.H
                sv = np.linalg.svd(H, compute_uv=False)
                if sv[m2 - 1] / sv[0] < 1e-7:
                    ctx.skipped += 1
                    continue
                ctx.oracle_cases += 1
                tag = f"class-{alg.name}"
                cinp = inp | {"class": type(alg).__name__, "ordmax": alg.run_params.ordmax}
                if rng.random() < 0.5:
                    # looking at the result (a zoomed stabilisation chart, the cluster chart) between run and extraction is a
                    # read-only operation: what is identified afterwards must not depend on it
                    import matplotlib.pyplot as plt

                    lo_f = float(np.min(S.fn)) * rng.uniform(1.02, 1.2)
                    band = (lo_f, S.fs / 2 * rng.uniform(0.5, 0.9)) if S.m > 1 else (lo_f, S.fs / 2)
                    try:
                        alg.plot_stab(freqlim=band, hide_poles=rng.random() < 0.5)
                        alg.plot_cluster(freqlim=band)
                    finally:
                        plt.close("all")
                    cinp = cinp | {"viewed_before_extraction": list(band)}
                    ctx.count("class_result_viewed_before_extraction")
                if not _check_poles(ctx, tag, res.Fn_poles[:, m2], res.Xi_poles[:, m2], res.Phi_poles[:, m2, :], res.Lambds[:, m2], S, cinp):
                    return
                order = np.argsort(S.fn)
                if rng.random() < 0.5:
                    ss.mpe(alg.name, sel_freq=[float(S.fn[i]) for i in order], order=m2, rtol=1e-3)
                else:  # the default matching tolerance
                    ss.mpe(alg.name, sel_freq=[float(S.fn[i]) for i in order], order=m2)
                r2 = alg.result
                ctx.oracle_cases += 1
                if r2.Fn is None or len(r2.Fn) != S.m:
                    ctx.violation(f"{tag}:mpe-missing", f"{tag}: mpe at order 2m returned {None if r2.Fn is None else len(r2.Fn)} modes, expected {S.m}", cinp)
                    return
                for j, i in enumerate(order):
                    mc = max(sysgen.mac(r2.Phi[:, j], S.phi[:, i]), sysgen.mac(r2.Phi[:, j], np.conj(S.phi[:, i])))
                    if abs(r2.Fn[j] - S.fn[i]) / S.fn[i] > 1e-8 or abs(r2.Xi[j] - S.xi[i]) > 1e-8 or 1 - mc > 1e-8:
                        ctx.violation(f"{tag}:mpe-inaccurate", f"{tag}: extracted mode {j}: f {r2.Fn[j]} vs {S.fn[i]}, xi {r2.Xi[j]} vs {S.xi[i]}, MAC {mc}", cinp)
                        return
                ctx.count(f"class_runs_{alg.name}")
                if rng.random() < 0.5:
                    # the run parameters REPLACED through the public set_run_params by a set that leaves ref_ind and hc out (all
                    # channels as references, default criteria): the next run is the run of exactly these parameters, i.e. what a
                    # fresh object built with them gives on the same data
                    from pyoma2.algorithms.data.run_params import SSIRunParams
                    br2 = br + rng.randint(0, 1)
                    kw2 = dict(br=br2, ordmax=min(m2, br2 * Y.shape[1]), method=("cov_mm" if alg.name == "cov" else "dat"))
                    try:
                        alg.set_run_params(SSIRunParams(**kw2))
                        ss.run_by_name(alg.name)
                        fresh = type(alg)(name="fresh", **kw2)
                        ss2 = SingleSetup(Y.copy(), fs=S.fs)
                        ss2.add_algorithms(fresh)
                        ss2.run_by_name("fresh")
                    except np.linalg.LinAlgError:
                        ctx.skipped += 1
                        continue
                    ctx.oracle_cases += 1
                    ctx.count("class_rerun_after_set_run_params")
                    ra, rb = alg.result, fresh.result
                    same = (np.asarray(ra.H).shape == np.asarray(rb.H).shape and np.allclose(ra.H, rb.H, rtol=1e-10, atol=0)
                            and np.array_equal(np.isnan(ra.Fn_poles), np.isnan(rb.Fn_poles))
                            and np.allclose(np.nan_to_num(ra.Fn_poles), np.nan_to_num(rb.Fn_poles), rtol=1e-7, atol=0)
                            and np.array_equal(ra.Lab, rb.Lab))
                    if not same:
                        ctx.violation(f"{tag}:set_run_params-not-replaced", f"{tag}: after set_run_params({kw2}) the run differs from the run of a fresh "
                                      f"object built with the same parameters (Hankel shape {np.asarray(ra.H).shape} vs {np.asarray(rb.H).shape})", cinp | {"new_params": kw2})
                        return


def replay(rec):
    from pyoma2.functions import ssi

    v = rec["violation"]
    inp = v["input"]
    print("replaying", v["sig"], "-", v["what"])
    phi = np.array([[complex(x) for x in r] for r in inp["phi"]])
    S = sysgen.ModalSystem(inp["fn"], inp["xi"], phi, inp["fs"])
    Y = S.response(inp["N"], np.array([complex(a) for a in inp["amp"]]))
    for method in ("cov_mm", "dat"):
        H, _ = ssi.build_hank(Y.T, Y.T[inp["ref"], :], inp["br"], method)
        _o, A, C, *_ = ssi.SSI_fast(H, inp["br"], 2 * S.m)
        fn, xi, phi_i, lam, *_ = ssi.ac2mp(A[2 * S.m], C[2 * S.m], S.dt)
        print(method, [(k, e1, e2, 1 - mc) for (k, _r, e1, e2, mc) in sysgen.match_poles(fn, xi, phi_i, S, lam)])
    return 0
