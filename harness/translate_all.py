#!/venv/bin/python
"""Run every source translator of the harness (each `translate_<x>.py` next to this file that defines
`write(repo, lean_dir) -> (ok, msg, summary)`): regenerates lean/PyomaVerif/Generated/*.lean from the tested tree
($PYOMA2_REPO, default /repo).  Used by MANIFEST.setup_cmd (`--write`) and by `common.all_pre_build`.
A translator that fails closed makes the whole run fail closed."""
import glob
import importlib
import os
import sys

HERE = os.path.dirname(os.path.abspath(__file__))
SKIP = {"translate_all", "translate_hc_selftest"}


def translators():
    names = sorted(os.path.splitext(os.path.basename(p))[0] for p in glob.glob(os.path.join(HERE, "translate_*.py")))
    return [n for n in names if n not in SKIP]


def write_all(repo, lean_dir):
    """-> (ok, msg, {translator: summary})"""
    if HERE not in sys.path:
        sys.path.insert(0, HERE)
    ok_all, msgs, summ = True, [], {}
    for n in translators():
        mod = importlib.import_module(n)
        if not hasattr(mod, "write"):
            continue
        ok, msg, summary = mod.write(repo, lean_dir)
        ok_all = ok_all and ok
        msgs.append(f"{n}: {msg}")
        summ[n] = summary
    return ok_all, "; ".join(msgs), summ


if __name__ == "__main__":
    repo = os.environ.get("PYOMA2_REPO", "/repo")
    lean = os.path.join(os.path.dirname(HERE), "lean")
    if "--write" in sys.argv:
        ok, msg, s = write_all(repo, lean)
        print(msg)
        sys.exit(0 if ok else 1)
    print("\n".join(translators()))
