"""C06 — FDD picks the dominant line in the band and its singular vector
(fdd.SD_svalsvec, fdd.FDD_mpe; FDD, FDD_MS, first stage of EFDD/FSDD)."""
import numpy as np

from common import R, Rvec, Cx, fl, cfl, ModelError


LEAN_MODULES = ["PyomaVerif.Props.C06", "PyomaVerif.Mutants.C06", "PyomaVerif.Props.WiringMpe", "PyomaVerif.Props.C06C13", "PyomaVerif.Props.C06Faithful", "PyomaVerif.Props.WiringStore", "PyomaVerif.Props.WiringClass", "PyomaVerif.Props.WiringCalls", "PyomaVerif.Props.C06Band", "PyomaVerif.Mutants.C06Band", "PyomaVerif.Props.C07Rect"]
THEOREMS = [
    # call-site wiring of the class layer, regenerated from /repo on every run (translate_wiring.py)
    "PV.WiringMpe.C06_fdd_mpe_wiring",
    "PV.WiringStore.C06_run_result_store",
    "PV.WiringClass.C06_inherited",
    "PV.WiringCalls.C13_fdd_run_calls",
    "PV.WiringCalls.C04_ms_run_calls",
    "PV.WiringCalls.C06_mpe_calls",
    "PV.WiringMpe.C06_mpe_stores_exact",
    "PV.C06.C06_band_limits",
    "PV.C06.pickIdx_spec",
    "PV.C06.C06_pick",
    "PV.C06.C06_pick_in_band",
    "PV.C06.C06_pick_sqrt",
    "PV.C06.C06_empty_band",
    "PV.C06.C06_mode",
    "PV.C06.C06_shape",
    "PV.C06.C06_shape_none",
    "PV.C06.C06_convention",
    "PV.C06.C06_rank_one",
    "PV.C06.C06_faithful_partial",
    "PV.Mutants.C06.pick_from_grid_start_fails",
    "PV.Mutants.C06.last_max_fails",
    "PV.Mutants.C06.no_conj_fails",
    # C06 o C13: the FDD premise derived from the estimator model (rank-one / Phi S Phi^T spectrum, returned shape = a/a[argmax|a|])
    "PV.C06C13.C13_rank_one_per_entry",
    "PV.C06C13.C13_rank_one_cor_entry",
    "PV.C06C13.C13_rank_one_per",
    "PV.C06C13.C13_rank_one_cor",
    "PV.C06C13.C13_superposition_per",
    "PV.C06C13.C13_superposition_cor",
    "PV.C06C13.fdd_shape_of_first_left",
    "PV.C06C13.fdd_shape_of_rank_one",
    "PV.C06C13.fdd_shape_of_rank_one_svd",
    "PV.C06C13.C06C13_shape_per",
    "PV.C06C13.C06C13_shape_cor",
    "PV.C06C13.C06C13_shape_per_svd",
    "PV.C06C13.C06C13_shape_cor_svd",
    "PV.C06C13.unitShape_spec",
    "PV.C06C13.C06C13_mac_one",
    "PV.C06C13.ex_run_per",
    "PV.C06C13.ex_run_cor",
    "PV.C06C13.ex_leading_per",
    "PV.C06C13.ex_leading_cor",
    "PV.C06C13.ex_dec_per",
    # depth round: faithfulness of the stored decomposition, about Efdd.svalsvec (svd and sqrt applied inside the model)
    "PV.C06Faithful.C06_sval_faithful",
    "PV.C06Faithful.C06_svec_faithful",
    "PV.C06Faithful.C06_decomposition",
    "PV.C06Faithful.C06_gram",
    "PV.C06Faithful.C06_diagonalises",
    # depth round 2 (Props/C06Band): non-empty band and no exception from the property's premise, |fn - sel| <= DF + df/2 on the
    # SD_est grid (hmono discharged), FDD_mpe o SD_svalsvec picks the argmax of the ratio of the recorded SINGULAR VALUES
    "PV.C06Band.UniformGrid.mono",
    "PV.C06Band.UniformGrid.lt_of_lt",
    "PV.C06Band.C06_grid_of_sd_per",
    "PV.C06Band.C06_grid_of_sd_cor",
    "PV.C06Band.near_upper",
    "PV.C06Band.near_lower",
    "PV.C06Band.C06_band_nonempty",
    "PV.C06Band.C06_band_edges",
    "PV.C06Band.C06_no_exception",
    "PV.C06Band.C06_no_exception_all",
    "PV.C06Band.C06_fn_interval",
    "PV.C06Band.zeroInBand_false",
    "PV.C06Band.zeroInBand_true",
    "PV.C06Band.C06_pick_singular",
    "PV.C06Band.C06_of_spec_ok_fdd_one",
    "PV.C06Band.C06_of_spec_eq_fdd_one",
    "PV.C06Band.C06_zero_sigma2_outside",
    "PV.C06Band.exLine_contract",
    "PV.C06Band.exLine_sqrt",
    "PV.C06Band.ex_of_spec",
    "PV.Mutants.C06Band.upper_tie_fails",
    "PV.Mutants.C06Band.upper_tie_agrees_off_ties",
    "PV.Mutants.C06Band.narrow_band_empty",
    # clause 15/19: the first stage of EFDD/FSDD on the half spectrum (nr != nc): Efdd.efddMpeR, stream fdd.EFDD_mpe[rect] of c07.py
    "PV.C07Rect.C07_rect_svalsvec_ok",
    "PV.C07Rect.C07_rect_svalsvec_elim",
    "PV.C07Rect.C07_rect_square",
    "PV.C07Rect.C07_mpe_spec_rect",
    "PV.C07Rect.C07_one_spec_rect",
    "PV.C07Rect.C07_rect_fsdd_raises",
    "PV.C07Rect.C07_rect_cm_raises",
    "PV.C07Rect.C07_rect_lt_raises",
]
RULE = (
    "correspondence: fdd.FDD_mpe vs Fdd.fddMpe on random increasing grids (uniform k*df and irregular), random "
    "singular-value tables and complex vector tables sent as exact rationals (band-edge / ratio / magnitude near-ties "
    "within 1e-9 skipped): picked index and frequency exact, shape at 1e-12, exception class on empty band / single "
    "reference / empty grid; fdd.SD_svalsvec vs Fdd.svalPlace/svecPlace with np.linalg.svd wrapped and its recorded output "
    "handed to the model: exact equality. oracle (from the property text, independent of the model): random Hermitian "
    "and half-spectrum sequences with a planted dominant line through SD_svalsvec+FDD_mpe, and narrow-band multi-channel "
    "records through FDD/EFDD/FSDD (SingleSetup, per and cor) and FDD_MS (MultiSetup_PreGER): line = brute-force argmax of "
    "sigma1/sigma2 between the nearest lines to the band edges, MAC with an independently computed dominant vector, "
    "complex amplitudes of the planted response, faithful decomposition. distinct = (path, channels, references, lines, band width). "
    "oracle stream 3 (C06 o C13, end to end on the real code): channels a_i*s(t) (s a multi-sine or band-passed noise; a real with a negative and a "
    "near-zero component) through fdd.SD_est (per and cor) + SD_svalsvec + FDD_mpe and through SingleSetup/FDD.run/mpe: Sy = S(k) a a^T at every line "
    "(1e-11 of the peak), second singular value <= 1e-9 x first at the picked line, MAC(returned shape, a) >= 1-1e-9, shape = a/a[argmax|a|] (1e-9); "
    "a sum of 2-3 such responses gives Sy = Phi S Phi^T (1e-11 of the peak). "
    "depth round (Props/C06Faithful): fdd.SD_svalsvec vs the composed model Efdd.svalsvec, np.linalg.svd and np.sqrt recorded WITH their arguments "
    "and handed over as the library routines (svd looked up by exact match of its argument with SD[:, :, k], sqrt by its argument): exact equality; "
    "every recorded SVD is checked against the contract the theorems assume (U^H U = I, V^H V = I, A = U diag(S) V^H at 1e-12, S sorted non-negative). "
    "depth round 2 (Props/C06Band): stream fdd.FDD_mpe[ties] -- dyadic grid k*2^-e, sel and DF in quarters of a line spacing (band edges exactly midway "
    "between two lines), sigma1/sigma2 from a five-element dyadic set (maximum attained at several lines), Gaussian-integer shape rows with equal-magnitude "
    "components: float arithmetic is exact, NOTHING is skipped, index/frequency exact, shape 1e-12, an exception only for DF < df (C06_band_nonempty), "
    "|fn - sel| <= DF + df/2 (C06_fn_interval); stream fdd.FDD_mpe[of spectrum] -- SD_svalsvec then FDD_mpe on Hermitian / square / rectangular / wide / "
    "one-reference / diag(s,0) sequences vs the ONE composed model Fdd.fddOfSpec with the recorded svd (looked up by argument) and sqrt: frequency exact, "
    "shape 1e-12, exception class, picked line = argmax of the recorded S[0]/S[1]; an exactly zero second singular value is the model's outside-model branch "
    "(the real code must then return without an exception)"
)
EXTRA_TRUSTED = [
    "np.linalg.svd contract (U unitary, S non-negative non-increasing, A = U diag(S) V^H): hypotheses of C06_convention / C06_faithful_partial, validated numerically by the oracle at 1e-9",
    "np.abs of a complex number replaced by its square in the model's argmax (monotone)",
    "C06Faithful: SvdContract / SqrtOn are hypotheses (the theorems derive non-negativity, ordering, unitarity of S_vec and the decompositions from them); "
    "every np.linalg.svd call recorded by the correspondence is checked against SvdContract at 1e-12 (ctx.contract)",
]
ASSUMPTIONS = [
    "near-ties (relative 1e-9) of band-edge distances, singular-value ratios and component magnitudes are not judged",
    "second singular value non-zero on the band (the property's full-rank spectra); len(freq) equals the number of lines of Sval",
    "exact ties ARE judged where the arithmetic is exact (dyadic stream fdd.FDD_mpe[ties]); C06_band_nonempty / C06_no_exception / C06_fn_interval assume the "
    "uniform grid k*df of fdd.SD_est (C06_grid_of_sd_per/_cor), at least two lines, sel between the first and the last line, DF >= df",
]


# measured over ~2000 two-tone cases: 1-MAC <= 6e-6 (periodogram), <= 0.09 (correlogram, boxcar leakage of the other tone)
AMP_TOL = {"per": 1e-3, "cor": 0.3}


def _fdd():
    from pyoma2.functions import fdd

    return fdd


# ----------------------------------------------------------------------------- helpers
def _gap_ok(vals, rel=1e-9):
    """largest value separated from the runner-up"""
    v = np.sort(np.asarray(vals, float))
    if len(v) < 2:
        return True
    return (v[-1] - v[-2]) > rel * max(abs(v[-1]), 1e-300)


def _nearest(freq, x, df):
    d = np.abs(freq - x)
    k = int(np.argmin(d))
    s = np.sort(d)
    if len(s) > 1 and (s[1] - s[0]) <= 1e-9 * df:
        return None
    return k


def _gen_tables(ctx, nf=None):
    rng = ctx.rng
    g = ctx.nprng()
    nch = rng.randint(2, 6)
    nf = nf or rng.randint(6, 60)
    if rng.random() < 0.6:
        df = rng.choice([0.390625, 0.1, 1 / 3, rng.uniform(0.01, 2.0)])
        freq = np.arange(nf) * df
        kind = "uniform"
    else:
        freq = np.cumsum(g.uniform(0.05, 1.0, nf))
        df = float(np.min(np.diff(freq)))
        kind = "irregular"
    s2 = g.uniform(0.1, 1.0, nf)
    s1 = s2 * g.uniform(1.0, 20.0, nf)
    if rng.random() < 0.6:  # the pick is a ratio: exercise absolute levels far from 1 (stored values are square roots)
        lvl = 10.0 ** rng.uniform(-11, 8)
        s1, s2 = s1 * lvl, s2 * lvl
    Sval = g.uniform(0.0, 1.0, (nch, nch, nf))
    Sval[0, 0, :] = s1
    Sval[1, 1, :] = s2
    Svec = g.standard_normal((nch, nch, nf)) + 1j * g.standard_normal((nch, nch, nf))
    if rng.random() < 0.2:
        Svec = Svec.real.astype(complex)
    return nch, nf, freq, df, kind, Sval, Svec


def _model_mpe(ctx, nch, nref, freq, Sval, Svec, sel, DF):
    return ctx.model(
        "fdd_mpe",
        nch=nch,
        nref=nref,
        freq=Rvec(freq),
        s1=Rvec(Sval[0, 0, :]) if Sval.shape[0] > 0 and Sval.shape[1] > 0 else [],
        s2=Rvec(Sval[1, 1, :]) if Sval.shape[0] > 1 and Sval.shape[1] > 1 else [],
        svec0=[[Cx(Svec[0, c, l]) for c in range(Svec.shape[1])] for l in range(Svec.shape[2])],
        sel=Rvec(sel),
        DF=R(DF),
    )


def _exc_class(e):
    return type(e).__name__


# ----------------------------------------------------------------------------- correspondence
# --- default values as regenerated obligations (Generated/Defaults.lean <- harness/translate_defaults.py; stream defaults[...])
import defaults_stream  # noqa: E402
from common import all_pre_build as pre_build  # noqa: E402,F401,F811  (runs EVERY translate_*.py)
LEAN_MODULES += ["PyomaVerif.Props.WiringDefaultsC07"]
THEOREMS += ["PV.WiringDefaults.C06_defaults"]


def correspondence(ctx):
    defaults_stream.correspondence(ctx, props=('C06',))
    fdd = _fdd()
    rng = ctx.rng
    # (1) FDD_mpe, valid stream
    for k in range(ctx.n(150, 1500)):
        nch, nf, freq, df, kind, Sval, Svec = _gen_tables(ctx)
        nsel = rng.randint(1, 3)
        sel = [rng.uniform(freq[0], freq[-1]) for _ in range(nsel)]
        width = rng.uniform(1.0, 8.0)
        DF = width * float(np.max(np.diff(freq))) if kind == "irregular" else width * df
        # near-maximum stream: a line at a LOWER frequency of the band whose ratio is smaller than the band's
        # maximum by a few parts per million only ("largest" is still well defined: 1e-4..1e-8 relative is
        # far above rounding) -- an approximate comparison would pick it
        if rng.random() < 0.35:
            lo0, hi0 = _nearest(freq, sel[0] - DF, df), _nearest(freq, sel[0] + DF, df)
            if lo0 is not None and hi0 is not None and hi0 - lo0 >= 2:
                i0 = rng.randint(lo0, hi0 - 2)
                j0 = rng.randint(i0 + 1, hi0 - 1)
                rmax = 1.5 * float(np.max(Sval[0, 0, lo0:hi0] / Sval[1, 1, lo0:hi0]))
                Sval[0, 0, j0] = Sval[1, 1, j0] * rmax
                Sval[0, 0, i0] = Sval[1, 1, i0] * rmax * (1.0 - 10.0 ** -rng.uniform(3.5, 8.0))
                ctx.count("mpe_near_maximum_runner_up")
        # tie guard
        ok_case = True
        for s in sel:
            lo = _nearest(freq, s - DF, df)
            hi = _nearest(freq, s + DF, df)
            if lo is None or hi is None:
                ok_case = False
                break
            if hi > lo:
                r = Sval[0, 0, lo:hi] / Sval[1, 1, lo:hi]
                if not _gap_ok(r):
                    ok_case = False
                    break
                for kk in range(lo, hi):
                    if not _gap_ok(np.abs(Svec[0, :, kk]) ** 2):
                        ok_case = False
        if not ok_case:
            ctx.skipped += 1
            continue
        inp = {"nch": nch, "freq": freq.tolist(), "sel": sel, "DF": DF, "kind": kind}
        out = _model_mpe(ctx, nch, nch, freq, Sval, Svec, sel, DF)
        try:
            Fn, Phi = fdd.FDD_mpe(Sval, Svec, freq, sel, DF=DF)
            impl = {"Fn": Fn.tolist()}
        except Exception as e:  # empty band
            impl = {"error": _exc_class(e)}
        if "error" in impl or "error" in out:
            ok = "error" in impl and "error" in out and out["error"].startswith(impl["error"])
            ctx.count("mpe_error_branch")
        else:
            ok = len(out["modes"]) == len(sel)
            for i, m in enumerate(out["modes"] if ok else []):
                idx = m["idx"]
                ok = ok and m["lo"] <= idx < m["hi"] and fl(m["fn"]) == Fn[i] and freq[idx] == Fn[i]
                ph = np.array([cfl(z) for z in m["phi"]]) if m["phi"] is not None else None
                ok = ok and ph is not None and Phi[:, i].shape == ph.shape and np.max(np.abs(ph - Phi[:, i])) <= 1e-12
            ctx.count("mpe_valid")
            ctx.count(f"grid_{kind}")
        ctx.corr("fdd.FDD_mpe", bool(ok), inp, out, impl, (kind, nch, nf, round(width)))
        if k == 0:
            ctx.sample({"nch": nch, "nf": nf, "grid": kind, "sel": sel, "DF": DF, "model": out if "error" in out else out["modes"][0]["idx"]})
    # (2) FDD_mpe, malformed stream: empty band (tiny or negative DF), one reference only, empty grid
    for k in range(ctx.n(40, 300)):
        nch, nf, freq, df, kind, Sval, Svec = _gen_tables(ctx)
        what = rng.choice(["tiny_DF", "neg_DF", "one_ref", "empty_grid"])
        sel = [rng.uniform(freq[0], freq[-1])]
        DF = 2.0 * float(np.max(np.diff(freq)))
        nref = nch
        if what == "tiny_DF":
            DF = 1e-3 * df
        elif what == "neg_DF":
            DF = -DF
        elif what == "one_ref":
            Sval = Sval[:, :1, :]
            nref = 1
        else:
            freq = freq[:0]
            Sval = Sval[:, :, :0]
            Svec = Svec[:, :, :0]
        if what in ("tiny_DF", "neg_DF") and (_nearest(freq, sel[0] - DF, df) is None or _nearest(freq, sel[0] + DF, df) is None):
            ctx.skipped += 1
            continue
        out = _model_mpe(ctx, nch, nref, freq, Sval, Svec, sel, DF)
        try:
            Fn, Phi = fdd.FDD_mpe(Sval, Svec, freq, sel, DF=DF)
            impl = {"Fn": Fn.tolist()}
        except Exception as e:
            impl = {"error": _exc_class(e)}
        if "error" in impl:
            ok = "error" in out and out["error"].startswith(impl["error"])
        else:  # tiny DF may still straddle a line boundary: then both must agree on the pick
            ok = "modes" in out and fl(out["modes"][0]["fn"]) == Fn[0]
        ctx.corr("fdd.FDD_mpe[malformed]", bool(ok), {"what": what, "sel": sel, "DF": DF, "nf": len(freq)}, out, impl, (what, "error" in impl))
        ctx.count(f"malformed_{what}")
    # (3) SD_svalsvec given the recorded LAPACK output
    real_svd = np.linalg.svd
    for k in range(ctx.n(30, 300)):
        g = ctx.nprng()
        nc = rng.randint(1, 4)
        nr = nc + rng.choice([0, 0, 1, 2])
        nf = rng.randint(1, 6)
        SD = g.standard_normal((nr, nc, nf)) + 1j * g.standard_normal((nr, nc, nf))
        if nr == nc and rng.random() < 0.5:
            SD = np.einsum("ikf,jkf->ijf", SD, SD.conj())  # Hermitian PSD
        rec = []

        rec_full, rec_sqrt = [], []
        real_sqrt = np.sqrt

        def spy(a, *args, **kw):
            out = real_svd(a, *args, **kw)
            rec.append((np.array(out[0]), np.array(out[1])))
            rec_full.append((np.array(a), args, dict(kw), np.array(out[0]), np.array(out[1]), np.array(out[2])))
            return out

        def spy_sqrt(x, *args, **kw):
            out = real_sqrt(x, *args, **kw)
            if not args and not kw and np.isrealobj(x):
                rec_sqrt.extend(zip(np.ravel(np.asarray(x, float)).tolist(), np.ravel(np.asarray(out, float)).tolist()))
            return out

        np.linalg.svd = spy
        np.sqrt = spy_sqrt
        try:
            Sval, Svec = fdd.SD_svalsvec(SD)
        finally:
            np.linalg.svd = real_svd
            np.sqrt = real_sqrt
        out = ctx.model(
            "svalsvec_place",
            nr=nr,
            nc=nc,
            sq=[Rvec(np.sqrt(S)) for (_, S) in rec],
            U=[[[Cx(z) for z in row] for row in U] for (U, _) in rec],
        )
        MS = np.array([[[fl(v) for v in r2] for r2 in r1] for r1 in out["Sval"]]).reshape(nc, nc, nf)
        MV = np.array([[[cfl(v) for v in r2] for r2 in r1] for r1 in out["Svec"]]).reshape(nr, nr, nf)
        ok = len(rec) == nf and Sval.shape == MS.shape and Svec.shape == MV.shape and np.array_equal(Sval, MS) and np.array_equal(Svec, MV)
        ctx.corr("fdd.SD_svalsvec", bool(ok), {"SD": [[[str(z) for z in r2] for r2 in r1] for r1 in SD.tolist()]}, None, None, (nr, nc, nf))
        ctx.count("svalsvec_rect" if nr != nc else "svalsvec_square")
        # the composed model Efdd.svalsvec: the library calls are looked up by their ARGUMENTS
        seen, sq_tab = set(), []
        for a_, v_ in rec_sqrt:
            if a_ not in seen:
                seen.add(a_)
                sq_tab.append([R(a_), R(v_)])
        try:
            out2 = ctx.model(
                "svalsvec_all", nr=nr, nc=nc, nf=nf,
                SD=[[[Cx(SD[i, j, l]) for l in range(nf)] for j in range(nc)] for i in range(nr)],
                svd=[{"A": [[Cx(z) for z in row] for row in a_], "U": [[Cx(z) for z in row] for row in U_], "S": Rvec(S_)} for (a_, _, _, U_, S_, _) in rec_full],
                sqrt=sq_tab,
            )
            MS2 = np.array([[[fl(v) for v in r2] for r2 in r1] for r1 in out2["Sval"]]).reshape(nc, nc, nf)
            MV2 = np.array([[[cfl(v) for v in r2] for r2 in r1] for r1 in out2["Svec"]]).reshape(nr, nr, nf)
            ok2 = (len(rec_full) == nf and all(c[1] == () and c[2] == {} for c in rec_full)
                   and Sval.shape == MS2.shape and Svec.shape == MV2.shape and np.array_equal(Sval, MS2) and np.array_equal(Svec, MV2))
            why = None
        except ModelError as e:
            ok2, why = False, str(e)
        ctx.corr("fdd.SD_svalsvec[composed]", bool(ok2), {"SD": [[[str(z) for z in r2] for r2 in r1] for r1 in SD.tolist()]}, why, None, (nr, nc, nf))
        for (a_, _, _, U_, S_, Vh_) in rec_full[:2]:
            sc = max(np.abs(a_).max(), 1e-300)
            ctx.contract("svd_unitary_U", np.abs(U_.conj().T @ U_ - np.eye(len(U_))).max(), 1e-12, "U^H U = I")
            ctx.contract("svd_unitary_V", np.abs(Vh_ @ Vh_.conj().T - np.eye(len(Vh_))).max(), 1e-12, "V^H V = I")
            ctx.contract("svd_decomposition", np.abs((U_[:, : len(S_)] * S_) @ Vh_ - a_).max() / sc, 1e-12, "A = U diag(S) V^H")
            ctx.contract("svd_sorted_nonneg", 0.0 if (np.all(S_ >= 0) and np.all(np.diff(S_) <= 0)) else 1.0, 0.5, "S >= 0, non-increasing")
    # (4) depth round 2: exact ties (nothing skipped) and FDD_mpe o SD_svalsvec as one model
    _corr_ties(ctx, fdd)
    _corr_of_spec(ctx, fdd)


def _corr_ties(ctx, fdd):
    """fdd.FDD_mpe[ties]: everything is dyadic, so the float arithmetic of FDD_mpe is EXACT and a tie is a tie in
    numpy and in the rational model alike: grid k*2^-e, selected frequencies and half-widths in quarters of a line
    spacing (band edges exactly midway between two lines half of the time), ratios sigma1/sigma2 from a five-element
    dyadic set (the maximum of the band is attained at several lines), Gaussian-integer shapes with components of
    equal magnitude. NO case is skipped: the first-minimum / first-maximum rules are what is compared."""
    rng = ctx.rng
    g = ctx.nprng()
    gauss = [1 + 1j, 1 - 1j, -1 + 1j, -1 - 1j, 2, -2, 2j, -2j, 1, -1, 1j, 0, 3 + 4j, 5, 4 - 3j, -5j]
    for k in range(ctx.n(120, 1500)):
        nch = rng.randint(2, 5)
        nf = rng.randint(2, 24)
        df = 2.0 ** -rng.randint(0, 5)
        freq = np.arange(nf) * df
        nsel = rng.randint(1, 3)
        a4 = [rng.randint(0, 4 * (nf - 1)) for _ in range(nsel)]  # sel inside the grid, in quarters of df
        sel = [a * df / 4 for a in a4]
        small = rng.random() < 0.15
        b4 = rng.randint(1, 3) if small else rng.randint(4, 14)  # DF >= df unless `small`
        DF = b4 * df / 4
        s2 = 2.0 ** np.array([rng.randint(-3, 3) for _ in range(nf)])
        ratio = np.array([rng.choice([1.0, 1.5, 2.0, 3.0, 4.0]) for _ in range(nf)])
        s1 = s2 * ratio
        if rng.random() < 0.5:
            lvl = 2.0 ** rng.randint(-30, 30)
            s1, s2 = s1 * lvl, s2 * lvl
        Sval = g.uniform(0.0, 1.0, (nch, nch, nf))
        Sval[0, 0, :] = s1
        Sval[1, 1, :] = s2
        Svec = np.zeros((nch, nch, nf), complex)
        for l in range(nf):
            row = [rng.choice(gauss) for _ in range(nch)]
            if all(z == 0 for z in row):
                row[rng.randrange(nch)] = 1j
            Svec[0, :, l] = np.array(row) * 2.0 ** rng.randint(-2, 2)
        inp = {"nch": nch, "nf": nf, "df": df, "sel_quarters": a4, "DF_quarters": b4,
               "ratio": ratio.tolist(), "svec0": [[str(z) for z in Svec[0, :, l]] for l in range(nf)]}
        out = _model_mpe(ctx, nch, nch, freq, Sval, Svec, sel, DF)
        try:
            Fn, Phi = fdd.FDD_mpe(Sval, Svec, freq, sel, DF=DF)
            impl = {"Fn": Fn.tolist()}
        except Exception as e:
            impl = {"error": _exc_class(e)}
        edge_tie = any((a - b4) % 4 == 2 or (a + b4) % 4 == 2 for a in a4)
        if "error" in impl or "error" in out:
            # Props/C06Band.C06_band_nonempty: sel inside the grid and DF >= df => the band is never empty
            ok = "error" in impl and "error" in out and out["error"].startswith(impl["error"]) and small
            ctx.count("ties_error_branch")
        else:
            ok = len(out["modes"]) == len(sel)
            rtie = mtie = False
            for i, m in enumerate(out["modes"] if ok else []):
                idx = m["idx"]
                ok = ok and m["lo"] <= idx < m["hi"] and fl(m["fn"]) == Fn[i] and freq[idx] == Fn[i]
                ph = np.array([cfl(z) for z in m["phi"]]) if m["phi"] is not None else None
                ok = ok and ph is not None and Phi[:, i].shape == ph.shape and np.max(np.abs(ph - Phi[:, i])) <= 1e-12
                # C06Band.C06_fn_interval on the real output
                ok = ok and abs(Fn[i] - sel[i]) <= DF + df / 2
                r = ratio[m["lo"]: m["hi"]]
                rtie = rtie or int(np.sum(r == r.max())) > 1
                mag = np.abs(Svec[0, :, idx]) ** 2
                mtie = mtie or int(np.sum(mag == mag.max())) > 1
            ctx.count("ties_valid")
            if rtie:
                ctx.count("ties_ratio_max_attained_twice")
            if mtie:
                ctx.count("ties_component_magnitude")
        if edge_tie:
            ctx.count("ties_band_edge_midway")
        ctx.corr("fdd.FDD_mpe[ties]", bool(ok), inp, out, impl, ("ties", nch, nf, b4, edge_tie))


def _record_svalsvec(fdd, SD):
    """fdd.SD_svalsvec(SD) with np.linalg.svd and np.sqrt recorded together with their arguments"""
    real_svd, real_sqrt = np.linalg.svd, np.sqrt
    rec_full, rec_sqrt = [], []

    def spy(a, *args, **kw):
        out = real_svd(a, *args, **kw)
        rec_full.append((np.array(a), args, dict(kw), np.array(out[0]), np.array(out[1]), np.array(out[2])))
        return out

    def spy_sqrt(x, *args, **kw):
        out = real_sqrt(x, *args, **kw)
        if not args and not kw and np.isrealobj(x):
            rec_sqrt.extend(zip(np.ravel(np.asarray(x, float)).tolist(), np.ravel(np.asarray(out, float)).tolist()))
        return out

    np.linalg.svd = spy
    np.sqrt = spy_sqrt
    try:
        res = fdd.SD_svalsvec(SD)
        err = None
    except Exception as e:
        res, err = None, e
    finally:
        np.linalg.svd = real_svd
        np.sqrt = real_sqrt
    seen, sq_tab = set(), []
    for a_, v_ in rec_sqrt:
        if a_ not in seen:
            seen.add(a_)
            sq_tab.append([R(a_), R(v_)])
    return res, err, rec_full, sq_tab


def _corr_of_spec(ctx, fdd):
    """fdd.FDD_mpe[of spectrum]: SD_svalsvec followed by FDD_mpe on a spectral matrix sequence against the ONE composed
    model Fdd.fddOfSpec (Props/C06Band.C06_pick_singular is about it): square Hermitian, square non-Hermitian and
    rectangular (nr > nc) sequences, nr < nc (broadcast ValueError), one reference column (IndexError), and lines
    diag(s, 0) whose second singular value is exactly zero (model: outside-model; numpy: inf/nan ratio, no exception)."""
    rng = ctx.rng
    g = ctx.nprng()
    for k in range(ctx.n(40, 400)):
        what = rng.choice(["herm", "herm", "square", "rect", "rect", "wide", "one_ref", "zero_s2"])
        nc = rng.randint(2, 4)
        nr = nc
        nf = rng.randint(3, 9)
        if what == "rect":
            nr = nc + rng.randint(1, 2)
        elif what == "wide":
            nr, nc = rng.randint(2, 3), rng.randint(4, 5)
        elif what == "one_ref":
            nc = 1
        SD = g.standard_normal((nr, nc, nf)) + 1j * g.standard_normal((nr, nc, nf))
        if what == "herm":
            SD = np.einsum("ikf,jkf->ijf", SD, SD.conj())
        if what == "zero_s2":
            SD = np.zeros((nr, nc, nf), complex)
            for l in range(nf):
                SD[0, 0, l] = float(rng.randint(1, 9))
        SD = SD * 10.0 ** rng.uniform(-8, 6)
        df = 2.0 ** -rng.randint(0, 4)
        freq = np.arange(nf) * df
        sel = [rng.uniform(freq[0], freq[-1]) for _ in range(rng.randint(1, 2))]
        DF = rng.uniform(1.0, 3.0) * df
        res, err, rec_full, sq_tab = _record_svalsvec(fdd, SD)
        impl, Sval = None, None
        if err is not None:
            impl = {"error": _exc_class(err)}
        else:
            Sval, Svec = res
            try:
                with np.errstate(all="ignore"):
                    Fn, Phi = fdd.FDD_mpe(Sval, Svec, freq, sel, DF=DF)
                impl = {"Fn": Fn.tolist()}
            except Exception as e:
                impl = {"error": _exc_class(e)}
        # near-tie guard (floats): band edges, ratios of the STORED values, component magnitudes
        ok_case = True
        if Sval is not None and nc >= 2:
            for s_ in sel:
                lo, hi = _nearest(freq, s_ - DF, df), _nearest(freq, s_ + DF, df)
                if lo is None or hi is None:
                    ok_case = False
                    break
                if hi > lo and what != "zero_s2":
                    if not _gap_ok(Sval[0, 0, lo:hi] / Sval[1, 1, lo:hi]):
                        ok_case = False
                    for kk in range(lo, hi):
                        if not _gap_ok(np.abs(Svec[0, :, kk]) ** 2):
                            ok_case = False
        if not ok_case:
            ctx.skipped += 1
            continue
        inp = {"what": what, "nr": nr, "nc": nc, "nf": nf, "df": df, "sel": sel, "DF": DF,
               "SD": [[[str(z) for z in r2] for r2 in r1] for r1 in SD.tolist()]}
        try:
            out = ctx.model(
                "fdd_of_spec", nr=nr, nc=nc, nf=nf,
                Sy=[[[Cx(SD[i, j, l]) for l in range(nf)] for j in range(nc)] for i in range(nr)],
                freq=Rvec(freq), sel=Rvec(sel), DF=R(DF),
                svd=[{"A": [[Cx(z) for z in row] for row in a_], "U": [[Cx(z) for z in row] for row in U_], "S": Rvec(S_)} for (a_, _, _, U_, S_, _) in rec_full],
                sqrt=sq_tab,
            )
        except ModelError as e:
            out = {"error": "model-error: " + str(e)}
        if "error" in out and out["error"].startswith("outside-model"):
            # the model declines: the real code must have gone on without an exception, on a band holding an exact zero
            ok = what == "zero_s2" and "error" not in impl and bool(np.any(Sval[1, 1, :] == 0))
            ctx.count("of_spec_outside_model_zero_sigma2")
        elif "error" in impl or "error" in out:
            ok = "error" in impl and "error" in out and out["error"].startswith(impl["error"])
            ctx.count("of_spec_error_" + (impl.get("error") or "model-only"))
        else:
            ok = len(out["modes"]) == len(sel) and all(c[1] == () and c[2] == {} for c in rec_full) and len(rec_full) == nf
            for i, m in enumerate(out["modes"] if ok else []):
                idx = m["idx"]
                ok = ok and m["lo"] <= idx < m["hi"] and fl(m["fn"]) == Fn[i] and freq[idx] == Fn[i]
                ph = np.array([cfl(z) for z in m["phi"]]) if m["phi"] is not None else None
                ok = ok and ph is not None and Phi[:, i].shape == ph.shape and np.max(np.abs(ph - Phi[:, i])) <= 1e-12
                # C06_pick_singular on the recorded singular values: argmax of S[0]/S[1] over the band (well separated)
                rS = np.array([c[4][0] / c[4][1] for c in rec_full[m["lo"]: m["hi"]]])
                if _gap_ok(rS, 1e-6):
                    ok = ok and m["lo"] + int(np.argmax(rS)) == idx
                    ctx.count("of_spec_argmax_of_recorded_singular_values")
            ctx.count("of_spec_valid_" + what)
            for (a_, _, _, U_, S_, Vh_) in rec_full[:2]:
                sc = max(np.abs(a_).max(), 1e-300)
                ctx.contract("svd_unitary_U", np.abs(U_.conj().T @ U_ - np.eye(len(U_))).max(), 1e-12, "U^H U = I")
                ctx.contract("svd_decomposition", np.abs((U_[:, : len(S_)] * S_) @ Vh_ - a_).max() / sc, 1e-12, "A = U diag(S) V^H")
        ctx.corr("fdd.FDD_mpe[of spectrum]", bool(ok), inp, out, impl, (what, nr, nc, nf))


# ----------------------------------------------------------------------------- oracle
def _planted_sequence(ctx, nr, nc, nf, k0, strength):
    """spectral matrices conj(x) y^T summed over a few random 'segments' (full rank floor), plus a
    dominant rank-one line at k0: sigma * conj(a) a[:nc]^T"""
    g = ctx.nprng()
    a = g.standard_normal(nr) + 1j * g.standard_normal(nr)
    Sy = np.zeros((nr, nc, nf), complex)
    # "half spectrum": all x reference columns (nc < nr) or a square but non-Hermitian sequence (positive-lag
    # correlogram estimate): conj(X) Y^T with Y != X
    nonherm = ctx.rng.random() < 0.4
    for f in range(nf):
        X = g.standard_normal((nr, nr + 2)) + 1j * g.standard_normal((nr, nr + 2))
        Y = X + 0.7 * (g.standard_normal(X.shape) + 1j * g.standard_normal(X.shape)) if nonherm else X
        Sy[:, :, f] = (X.conj() @ Y[:nc, :].T) / (nr + 2)
    enorm = float(np.linalg.norm(Sy[:, :, k0], 2))
    Sy[:, :, k0] += strength * np.outer(a.conj(), a[:nc])
    if ctx.rng.random() < 0.5:  # a neighbouring line with a larger first but an equally large second singular value
        k1 = k0 + ctx.rng.choice([-1, 1, 2, -2])
        if 0 <= k1 < nf:
            b = g.standard_normal(nr) + 1j * g.standard_normal(nr)
            c = g.standard_normal(nr) + 1j * g.standard_normal(nr)
            Sy[:, :, k1] += 30 * strength * (np.outer(b.conj(), b[:nc]) + np.outer(c.conj(), c[:nc]))
    sp = strength * float(np.linalg.norm(a) * np.linalg.norm(a[:nc]))
    # Wedin: sin(angle between dominant left vector and conj(a)) <= |E| / (sigma_planted - 2|E|)
    tol = 4.0 * (enorm / sp) ** 2 + 1e-12 if sp > 50 * enorm else None
    return Sy, a, tol


def _svals(M):
    """singular values by an independent route: eigenvalues of M^H M"""
    w = np.linalg.eigvalsh(M.conj().T @ M)
    return np.sqrt(np.clip(w[::-1], 0, None))


def _dominant_left(M):
    w, V = np.linalg.eigh(M @ M.conj().T)
    return V[:, -1]


def _mac(x, y):
    return abs(np.vdot(x, y)) ** 2 / (np.vdot(x, x).real * np.vdot(y, y).real)


def _judge_pick(ctx, path, Sy, freq, sel, DF, Fn, Phi, inp, amp=None, amp_tol=None):
    """the property's first sentence for one selected frequency"""
    nf = len(freq)
    df = float(np.min(np.diff(freq)))
    lo = _nearest(freq, sel - DF, df)
    hi = _nearest(freq, sel + DF, df)
    if lo is None or hi is None or hi <= lo:
        ctx.skipped += 1
        return
    ratios = []
    for k in range(lo, hi):
        s = _svals(Sy[:, :, k])
        ratios.append(s[0] / s[1] if s[1] > 0 else np.inf)
    ratios = np.array(ratios)
    if not np.all(np.isfinite(ratios)) or not _gap_ok(ratios, 1e-6):
        ctx.skipped += 1
        return
    ctx.oracle_cases += 1
    ctx.nontrivial.add(("oracle", path, Sy.shape[0], Sy.shape[1], nf, hi - lo))
    kbest = lo + int(np.argmax(ratios))
    hits = np.where(freq == Fn)[0]
    if len(hits) != 1:
        ctx.violation("fn-off-grid", f"{path}: returned frequency {Fn} is not a grid line", inp, observed=float(Fn))
        return
    k = int(hits[0])
    if not (lo <= k < hi):
        ctx.violation("line-outside-band", f"{path}: picked line {k} outside [{lo},{hi})", inp, observed=k, expected=[lo, hi])
        return
    if k != kbest:
        ctx.violation(
            "line-not-argmax", f"{path}: picked line {k}, but sigma1/sigma2 is largest at line {kbest} of [{lo},{hi})", inp,
            observed={"k": k, "ratio": float(ratios[k - lo])}, expected={"k": kbest, "ratio": float(ratios[kbest - lo])},
        )
        return
    u = _dominant_left(Sy[:, :, k])
    m = _mac(Phi, u.conj())
    if not m >= 1 - 1e-9:
        ctx.violation("shape-not-dominant-vector", f"{path}: MAC with conj of dominant left singular vector = {m}", inp, observed=float(m), expected=1.0)
        return
    j = int(np.argmax(np.abs(Phi)))
    if abs(Phi[j] - 1) > 1e-12 or np.max(np.abs(Phi)) > 1 + 1e-12:
        ctx.violation("shape-not-unity", f"{path}: largest component is {Phi[j]}", inp, observed=str(Phi[j]), expected="1")
        return
    if amp is not None:
        m2 = _mac(Phi, amp)
        if not m2 >= 1 - amp_tol:
            ctx.violation(
                "shape-not-amplitudes", f"{path}: MAC with the planted complex amplitudes = {m2} (conjugate: {_mac(Phi, amp.conj())})",
                inp, observed=float(m2), expected=f">= {1 - amp_tol}",
            )


def _judge_faithful(ctx, path, Sy, Sval, Svec, inp):
    """second sentence: values non-negative, non-increasing, vectors unitary, decomposition of Sy"""
    nr, nc, nf = Sy.shape
    ctx.oracle_cases += 1
    if Sval.shape != (nc, nc, nf) or Svec.shape != (nr, nr, nf):
        ctx.violation("svalsvec-shape", f"{path}: shapes {Sval.shape} {Svec.shape}", inp)
        return
    for k in range(nf):
        d = np.diag(Sval[:, :, k]).copy()
        off = Sval[:, :, k] - np.diag(d)
        sc = max(d.max(), 1e-300)
        if (d < 0).any() or (np.diff(d) > 1e-12 * sc).any() or np.abs(off).max() > 0:
            ctx.violation("sval-order", f"{path}: stored values at line {k} not non-negative/non-increasing/diagonal", inp, observed=d.tolist())
            return
        W = Svec[:, :, k]
        if np.abs(W @ W.conj().T - np.eye(nr)).max() > 1e-10:
            ctx.violation("svec-not-unitary", f"{path}: stored vectors at line {k} not unitary", inp)
            return
        s = _svals(Sy[:, :, k])
        # squares of stored values are the singular values; rows are conj of left singular vectors:
        # W conj?  W = U^H  =>  W Sy Sy^H W^H = diag(S^2) (padded with zeros)
        # the independent route (eigenvalues of M^H M) squares the condition number: its own error is ~sqrt(eps)*s_max
        if np.abs(d**2 - s).max() > 1e-6 * max(s[0], 1e-300):
            ctx.violation("sval-not-sqrt-singular", f"{path}: stored values squared differ from singular values at line {k}", inp, observed=(d**2).tolist(), expected=s.tolist())
            return
        G = W @ Sy[:, :, k] @ Sy[:, :, k].conj().T @ W.conj().T
        E = np.zeros((nr, nr))
        E[:nc, :nc] = np.diag(d**4)
        if np.abs(G - E).max() > 1e-8 * max(s[0] ** 2, 1e-300):
            ctx.violation("svec-not-singular-vectors", f"{path}: stored rows do not diagonalise Sy Sy^H at line {k}", inp)
            return


def oracle(ctx, scale):
    fdd = _fdd()
    rng = ctx.rng
    # (1) function level
    for it in range(ctx.n(80, 1200) * scale):
        nr = rng.randint(2, 8)
        nc = nr if rng.random() < 0.6 else rng.randint(2, nr)
        nf = rng.randint(12, 70)
        if it % 20 == 7:
            # grids as produced by real segment lengths (nxseg 1024 .. 10000): an implementation may treat the lines in blocks
            nf = rng.choice([513, 1025, 2049, 4097, 5001])
            nr = rng.randint(2, 3)
            nc = nr if rng.random() < 0.6 else 2
            ctx.count("oracle_long_grid")
        df = rng.choice([0.390625, 0.05, rng.uniform(0.01, 1.0)])
        freq = np.arange(nf) * df
        k0 = rng.randint(1, nf - 2)
        strength = 10.0 ** rng.uniform(2, 6)
        Sy, a, atol = _planted_sequence(ctx, nr, nc, nf, k0, strength)
        # the property is about ratios and directions: any absolute level of the spectral matrix (units of the data)
        level = 10.0 ** rng.uniform(-22, 14) if rng.random() < 0.75 else 1.0
        Sy = Sy * level
        DF = rng.uniform(1.0, 6.0) * df
        sel = freq[k0] + rng.uniform(-0.45, 0.45) * min(DF, 3 * df)
        inp = {"path": "SD_svalsvec+FDD_mpe", "nr": nr, "nc": nc, "nf": nf, "df": df, "k0": k0, "strength": strength, "sel": sel, "DF": DF, "level": level,
               "Sy_re": Sy.real.tolist(), "Sy_im": Sy.imag.tolist()}
        Sy0 = Sy.copy()
        Sval, Svec = fdd.SD_svalsvec(Sy)
        _judge_faithful(ctx, "SD_svalsvec", Sy, Sval, Svec, inp)
        keep = (Sval.copy(), Svec.copy(), freq.copy())
        Fn, Phi = fdd.FDD_mpe(Sval, Svec, freq, [sel], DF=DF)
        if not (np.array_equal(Sy0, Sy) and np.array_equal(keep[0], Sval) and np.array_equal(keep[1], Svec) and np.array_equal(keep[2], freq)):
            ctx.violation("caller-input-modified", "SD_svalsvec/FDD_mpe modified an array passed by the caller", inp)
        # planted line inside the band -> shape must be the planted amplitudes (rank-one part dominates by `strength`)
        lo, hi = _nearest(freq, sel - DF, df), _nearest(freq, sel + DF, df)
        inside = lo is not None and hi is not None and lo <= k0 < hi and atol is not None and Fn[0] == freq[k0]
        _judge_pick(ctx, "SD_svalsvec+FDD_mpe", Sy, freq, sel, DF, Fn[0], Phi[:, 0], inp,
                    amp=a if inside else None, amp_tol=atol if inside else None)
        ctx.count("oracle_fn_square" if nr == nc else "oracle_fn_half")
        ctx.count("oracle_fn_level_below_1e-12" if level < 1e-12 else "oracle_fn_level_other")
        # the selected frequency as a user writes it: a whole number of Hz as a Python int or an integer array - the pick (a grid
        # line, in general not a whole number) and the shape are those of the same number written as a float
        si = int(round(sel))
        if 1 <= si and si + DF < freq[-1]:
            ctx.oracle_cases += 1
            ctx.count("oracle_fn_selected_frequency_written_as_integer")
            Ff, Pf = fdd.FDD_mpe(Sval, Svec, freq, [float(si)], DF=DF)
            for form, arg in (("list of int", [si]), ("integer array", np.array([si])), ("numpy integer", [np.int64(si)])):
                Fi, Pi = fdd.FDD_mpe(Sval, Svec, freq, arg, DF=DF)
                if not (np.asarray(Fi, dtype=float).shape == np.asarray(Ff, dtype=float).shape and np.array_equal(np.asarray(Fi, dtype=float), np.asarray(Ff, dtype=float))
                        and np.array_equal(np.asarray(Pi), np.asarray(Pf), equal_nan=True)):
                    ctx.violation("pick-depends-on-argument-form", f"FDD_mpe with the selected frequency {si} Hz given as {form} returns {np.asarray(Fi).tolist()} "
                                  f"instead of the grid line {np.asarray(Ff).tolist()} returned for {float(si)}", inp | {"sel": si, "form": form})
                    break
    # (2) through the algorithm classes: two narrow-band responses, selected frequencies in arbitrary order,
    # data in arbitrary units (gain), the same object asked twice
    for it in range(ctx.n(24, 240) * scale):
        which = rng.choice(["FDD", "EFDD", "FSDD", "FDD_MS"])
        nch = rng.randint(4, 6) if which == "FDD_MS" else rng.randint(2, 6)
        fs = rng.choice([50.0, 100.0, 256.0, 1200.0])
        nxseg = rng.choice([64, 128, 256, 101, 255])  # even and odd segment lengths
        df = fs / nxseg
        DF = rng.uniform(1.5, 4.0) * df
        f0 = rng.uniform(0.08, 0.15) * fs
        f1 = f0 + 2 * DF + 4 * df + rng.uniform(0, 0.05) * fs
        sels = [f0 + rng.uniform(-0.4, 0.4) * df, f1 + rng.uniform(-0.4, 0.4) * df]
        if rng.random() < 0.5:
            sels.reverse()
        nref = rng.randint(2, nch - 2) if which == "FDD_MS" else 0  # FDD_mpe needs two singular values
        prm = {"path": which, "nch": nch, "fs": fs, "nxseg": nxseg, "N": nxseg * rng.randint(8, 20), "tones": [f0, f1],
               "method_SD": rng.choice(["per", "cor"]), "DF": DF, "sel": sels, "gain": 10.0 ** rng.uniform(-8, 8) if rng.random() < 0.7 else 1.0,
               "again": rng.random() < 0.5,
               "nref": nref, "cut": rng.randint(1, nch - nref - 1) if which == "FDD_MS" else 0, "data_seed": rng.getrandbits(40)}
        _class_case(ctx, prm)
        ctx.count(f"oracle_class_{which}_{prm['method_SD']}")
        ctx.count("oracle_class_sel_descending" if sels[0] > sels[1] else "oracle_class_sel_ascending")
    # (3) C06 o C13 end to end: proportional channels a_i*s(t) -> SD_est -> SD_svalsvec -> FDD_mpe, functions and class layer
    for it in range(ctx.n(40, 500) * scale):
        nxseg = rng.choice([32, 64, 128, 256, 512])
        fs = rng.choice([50.0, 100.0, 256.0, 1200.0])
        df = fs / nxseg
        prm = {"path": "proportional", "nch": rng.randint(2, 8), "fs": fs, "nxseg": nxseg,
               "N": nxseg * rng.randint(3, 16) + rng.choice([0, 0, rng.randint(1, nxseg - 1)]),
               "kind": rng.choice(["multisine", "filtered"]), "method_SD": rng.choice(["per", "cor"]),
               "pov": rng.choice([0.0, 0.25, 0.5, 0.75]), "sel": rng.uniform(0.06, 0.44) * fs, "DF": rng.uniform(1.5, 6.0) * df,
               "scale_exp": rng.uniform(-3, 3), "tiny_exp": rng.uniform(-12, -6), "nsrc": rng.choice([0, 0, 2, 3]),
               "data_seed": rng.getrandbits(40)}
        for tag in _prop_case(ctx, prm):
            ctx.count(tag)


def _class_case(ctx, prm):
    """one end-to-end case, fully determined by `prm` (replayable)"""
    fdd = _fdd()
    from pyoma2.algorithms import EFDD, FDD, FDD_MS, FSDD
    from pyoma2.setup import MultiSetup_PreGER, SingleSetup

    which, nch, fs, nxseg, N, tones, msd, DF, sels = (prm[k] for k in ("path", "nch", "fs", "nxseg", "N", "tones", "method_SD", "DF", "sel"))
    g = np.random.default_rng(prm["data_seed"])
    t = np.arange(N) / fs
    amps = []
    data = 0.02 * g.standard_normal((N, nch))  # full-rank broadband floor
    for f in tones:  # narrow-band responses with complex channel amplitudes A e^{i th}
        A = g.uniform(0.5, 2.0, nch)
        th = g.uniform(0, 2 * np.pi, nch)
        data = data + np.stack([A[c] * np.cos(2 * np.pi * f * t + th[c]) for c in range(nch)], 1)
        amps.append(A * np.exp(1j * th))
    data = data * prm["gain"]
    df = fs / nxseg
    inp = dict(prm)
    first = []
    real_mpe = fdd.FDD_mpe

    def spy(*a, **k):
        out = real_mpe(*a, **k)
        first.append(out)
        return out

    order = list(range(nch))
    if which == "FDD_MS":
        nref, cut = prm["nref"], prm["cut"]
        mov = list(range(nref, nch))
        groups = [mov[:cut], mov[cut:]]
        datasets = [data[:, list(range(nref)) + gidx].copy() for gidx in groups]
        order = list(range(nref)) + groups[0] + groups[1]
        setup = MultiSetup_PreGER(fs, [list(range(nref))] * 2, datasets)
        alg = FDD_MS(name="a", nxseg=nxseg, method_SD=msd)
    else:
        setup = SingleSetup(data.copy(), fs)
        alg = {"FDD": FDD, "EFDD": EFDD, "FSDD": FSDD}[which](name="a", nxseg=nxseg, method_SD=msd)
    setup.add_algorithms(alg)
    setup.run_by_name("a")
    r = alg.result
    if r is None:
        ctx.skipped += 1
        return
    _judge_faithful(ctx, which, r.Sy, r.S_val, r.S_vec, inp)
    calls = [list(sels)] + ([list(reversed(sels))] if prm.get("again") else [])
    for ncall, sel_list in enumerate(calls):
        given = list(sel_list)
        first.clear()
        if which in ("FDD", "FDD_MS"):
            setup.mpe("a", sel_freq=sel_list, DF=DF)
        else:
            fdd.FDD_mpe = spy
            try:
                # the second-stage band DF2 is (much) wider than the band DF1 of the pick: it reaches the other tone, whose
                # line has the larger ratio when that tone is the stronger one -- the pick must still be the one of sel +- DF1
                setup.mpe("a", sel_freq=sel_list, DF1=DF, DF2=max(DF, 1.0, 1.2 * abs(tones[1] - tones[0]) + 2 * df), npmax=4)
            except (IndexError, ValueError):
                pass  # second stage (C07's business); the first stage was recorded
            finally:
                fdd.FDD_mpe = real_mpe
        if sel_list != given:
            ctx.violation("caller-input-modified", f"{which}.mpe modified the caller's sel_freq list", inp)
        r = alg.result
        # "a line of the spectral frequency grid": the grid of the estimator, one line every fs/nxseg from 0
        fr = np.asarray(r.freq, float)
        if fr.shape != (nxseg // 2 + 1,) or np.abs(fr - np.arange(nxseg // 2 + 1) * fs / nxseg).max() > 1e-12 * fs:
            ctx.violation("class-frequency-grid", f"{which}: result.freq is not the estimator's grid k*fs/nxseg, k = 0..nxseg//2 (fs={fs}, nxseg={nxseg}): "
                          f"spacing {fr[1] - fr[0] if len(fr) > 1 else None}, last line {fr[-1] if len(fr) else None}", inp)
            return
        if which in ("EFDD", "FSDD"):
            if not first:
                ctx.violation("first-stage-missing", f"{which}.mpe did not call FDD_mpe", inp)
                return
            Fn1, Phi1 = first[-1]
            if r.Phi is not None and np.asarray(r.Phi).shape == Phi1.shape and not np.array_equal(np.asarray(r.Phi), Phi1):
                ctx.violation("efdd-shape-not-first-stage", f"{which}: stored Phi differs from the first-stage shape", inp)
            Fns, Phis = Fn1, Phi1
        else:
            Fns, Phis = np.asarray(r.Fn), np.asarray(r.Phi)
        if len(Fns) != len(given) or Phis.shape[1] != len(given):
            ctx.violation("mode-count", f"{which}: {len(given)} selected frequencies, {len(Fns)} results", inp)
            return
        # the i-th result belongs to the i-th selected frequency, in the order given by the caller
        for i, sel in enumerate(given):
            f_true = min(tones, key=lambda f: abs(f - sel))
            amp = amps[tones.index(f_true)][order]
            # the narrow-band amplitudes only bind when the tone's line is the one picked
            _judge_pick(ctx, f"{which}[call {ncall}, sel {i}]" if (ncall or i) else which, r.Sy, r.freq, sel, DF, Fns[i], Phis[:, i],
                        inp, amp=amp if abs(Fns[i] - f_true) <= df else None, amp_tol=AMP_TOL[msd])


PROP_TOL = 1e-9  # 1 - MAC(returned shape, a) (measured over ~3000 cases: <= 6e-16)
PROP_SV_TOL = 1e-9  # second / first singular value of Sy at the picked line (measured: <= 5e-15)
PROP_SHAPE_TOL = 1e-9  # max |returned shape - a/a[argmax|a|]|, judged where |S(k)| >= 1e-6 max|S| (measured there: <= 2e-12)
PROP_ENTRY_TOL = 1e-11  # |Sy - S a a^T| relative to the peak of |S| max|a|^2 (measured: <= 6e-16; superposition <= 3e-15)


def _prop_signal(g, kind, N, fs):
    from scipy import signal

    t = np.arange(N) / fs
    if kind == "multisine":
        return sum(g.uniform(0.2, 2.0) * np.cos(2 * np.pi * g.uniform(0.02, 0.45) * fs * t + g.uniform(0, 2 * np.pi))
                   for _ in range(int(g.integers(1, 5))))
    lo = g.uniform(0.05, 0.5)
    b, a = signal.butter(2, [lo, min(lo + g.uniform(0.1, 0.4), 0.95)], btype="band")
    return signal.lfilter(b, a, g.standard_normal(N))


def _prop_case(ctx, prm):
    """C06 o C13 on the real code, fully determined by `prm` (replayable). Returns distribution tags."""
    import warnings

    fdd = _fdd()
    from pyoma2.algorithms import FDD
    from pyoma2.setup import SingleSetup

    nch, fs, nxseg, N, kind, msd, pov, sel, DF = (prm[k] for k in ("nch", "fs", "nxseg", "N", "kind", "method_SD", "pov", "sel", "DF"))
    g = np.random.default_rng(prm["data_seed"])
    s = _prop_signal(g, kind, N, fs)
    a = g.standard_normal(nch) * 10.0 ** prm["scale_exp"]
    jt = int(g.integers(nch))
    a[jt] *= 10.0 ** prm["tiny_exp"]  # one near-zero component
    jn = int(g.integers(nch))
    a[jn] = -abs(a[jn])  # at least one negative component
    if nch > 1 and (a > 0).sum() == 0:
        a[(jn + 1) % nch] = abs(a[(jn + 1) % nch])
    Y = np.outer(a, s)  # channels x samples
    dt = 1 / fs
    inp = dict(prm)
    tags = [f"prop_{msd}", f"prop_{kind}", f"prop_nch_{nch}", "prop_tiny_below_1e-9" if prm["tiny_exp"] < -9 else "prop_tiny_1e-9_to_1e-6",
            f"prop_negatives_{min(int((a < 0).sum()), 3)}{'+' if (a < 0).sum() > 3 else ''}", f"prop_pov_{pov}" if msd == "per" else "prop_pov_unused"]
    amax = float(np.max(np.abs(a)))
    _, Ss = fdd.SD_est(s[None, :].copy(), s[None, :].copy(), dt, nxseg, method=msd, pov=pov)
    Ss = Ss[0, 0, :]
    peak = float(np.max(np.abs(Ss)))
    if not (peak > 0 and np.isfinite(peak)):
        ctx.skipped += 1
        return tags + ["prop_skipped_zero_spectrum"]

    def judge(layer, freq, Sy, Fn, Phi):
        ctx.oracle_cases += 1
        ctx.nontrivial.add(("oracle", "proportional", layer, nch, msd, kind, nxseg))
        where = f"proportional channels, {layer} layer, method {msd}"
        # statement 1: Sy[:,:,k] = S(k) a a^T at every line
        E = Sy - Ss[None, None, :] * np.outer(a, a)[:, :, None]
        e = float(np.max(np.abs(E)) / (peak * amax**2))
        if not e <= PROP_ENTRY_TOL:
            ctx.violation(f"proportional:{layer}:Sy-not-S-a-aT", f"{where}: max |Sy - S(k) a a^T| = {e} of the peak", inp, observed=e, expected=f"<= {PROP_ENTRY_TOL}")
            return
        hits = np.where(freq == Fn)[0]
        if len(hits) != 1:
            ctx.violation(f"proportional:{layer}:fn-off-grid", f"{where}: returned frequency {Fn} is not a grid line", inp, observed=float(Fn))
            return
        k = int(hits[0])
        df = fs / nxseg
        lo, hi = _nearest(freq, sel - DF, df), _nearest(freq, sel + DF, df)
        if lo is not None and hi is not None and not (lo <= k < hi):
            ctx.violation(f"proportional:{layer}:line-outside-band", f"{where}: picked line {k} outside [{lo},{hi})", inp, observed=k, expected=[lo, hi])
            return
        if not abs(Ss[k]) * amax**2 > 1e-280:  # hypothesis S(k) != 0 (and no underflow)
            ctx.skipped += 1
            tags.append("prop_skipped_S_zero_at_pick")
            return
        dyn = abs(Ss[k]) / peak
        tags.append(f"prop_{layer}_pick_level_" + ("above_1e-3" if dyn > 1e-3 else "1e-8_to_1e-3" if dyn > 1e-8 else "below_1e-8"))
        # in floating point "S(k) != 0" means: above the rounding floor of the transform. Measured over 1.2e5 lines: the returned
        # shape deviates from a/a[argmax|a|] by <= 1.4e-15/sqrt(dyn) (so 1-MAC <= 2e-30/dyn), dyn = |S(k)| / max|S|
        if dyn < 1e-18:
            ctx.skipped += 1
            tags.append("prop_skipped_pick_at_rounding_floor")
            return
        # rank one at the picked line
        sv = np.linalg.svd(Sy[:, :, k], compute_uv=False)
        if not sv[1] <= PROP_SV_TOL * sv[0]:
            ctx.violation(f"proportional:{layer}:Sy-not-rank-one", f"{where}: singular values at the picked line {k}: {sv[:2].tolist()}", inp,
                          observed=float(sv[1] / sv[0]), expected=f"<= {PROP_SV_TOL}")
            return
        if not np.all(np.isfinite(Phi)):
            ctx.violation(f"proportional:{layer}:shape-not-finite", f"{where}: returned shape {Phi}", inp, observed=str(Phi))
            return
        m = _mac(Phi, a.astype(complex))
        if not m >= 1 - PROP_TOL:
            ctx.violation(f"proportional:{layer}:shape-not-a", f"{where}: MAC(returned shape, a) = {m} at line {k}", inp, observed=float(m), expected=f">= {1 - PROP_TOL}")
            return
        # the theorem's exact form: a / a[first argmax |a|] (real, component 1)
        if dyn < 1e-6:
            tags.append(f"prop_{layer}_unit_form_not_judged_low_level")
        elif _gap_ok(np.abs(a)):
            j = int(np.argmax(np.abs(a)))
            d = float(np.max(np.abs(Phi - a / a[j])))
            if not d <= PROP_SHAPE_TOL:
                ctx.violation(f"proportional:{layer}:shape-not-unit-a", f"{where}: returned shape differs from a/a[{j}] by {d}", inp, observed=d, expected=f"<= {PROP_SHAPE_TOL}")
        else:
            tags.append("prop_argmax_a_tie")

    with warnings.catch_warnings(), np.errstate(all="ignore"):
        warnings.simplefilter("ignore")
        # function layer
        Y0 = Y.copy()
        freq, Sy = fdd.SD_est(Y, Y, dt, nxseg, method=msd, pov=pov)
        Sval, Svec = fdd.SD_svalsvec(Sy)
        Fn, Phi = fdd.FDD_mpe(Sval, Svec, freq, [sel], DF=DF)
        if not np.array_equal(Y0, Y):
            ctx.violation("caller-input-modified", "SD_est modified the data passed by the caller", inp)
        tags.append("prop_second_sval_exact_zero_at_some_line" if (Sval[1, 1, :] == 0).any() else "prop_second_sval_nonzero")
        judge("functions", freq, Sy, Fn[0], Phi[:, 0])
        # class layer
        setup = SingleSetup(Y.T.copy(), fs)
        alg = FDD(name="a", nxseg=nxseg, method_SD=msd, pov=pov)
        setup.add_algorithms(alg)
        setup.run_by_name("a")
        setup.mpe("a", sel_freq=[sel], DF=DF)
        r = alg.result
        judge("class", np.asarray(r.freq), np.asarray(r.Sy), np.asarray(r.Fn)[0], np.asarray(r.Phi)[:, 0])
        # statement 2: superposition of nsrc such responses: Sy = Phi S Phi^T at every line
        nsrc = prm.get("nsrc", 0)
        if nsrc:
            Sg = np.stack([_prop_signal(g, kind, N, fs) for _ in range(nsrc)])
            P = g.standard_normal((nch, nsrc))
            P[jt, :] *= 10.0 ** prm["tiny_exp"]
            _, G = fdd.SD_est(P @ Sg, P @ Sg, dt, nxseg, method=msd, pov=pov)
            _, S = fdd.SD_est(Sg, Sg, dt, nxseg, method=msd, pov=pov)
            T = np.einsum("im,mnk,jn->ijk", P, S, P)
            ctx.oracle_cases += 1
            tags.append(f"prop_superposition_{nsrc}_sources")
            e = float(np.max(np.abs(G - T)) / np.max(np.abs(T)))
            if not e <= PROP_ENTRY_TOL:
                ctx.violation("superposition:functions:Sy-not-Phi-S-PhiT", f"sum of {nsrc} proportional responses, method {msd}: max |Sy - Phi S Phi^T| = {e} of the peak",
                              inp, observed=e, expected=f"<= {PROP_ENTRY_TOL}")
    return tags


class _ReplayCtx:
    def __init__(self):
        self.oracle_cases = 0
        self.skipped = 0
        self.nontrivial = set()
        self.vs = []

    def violation(self, sig, what, inp, observed=None, expected=None):
        self.vs.append(sig)
        print("VIOLATION reproduced:", sig, "-", what)


def replay(rec):
    fdd = _fdd()
    v = rec["violation"]
    inp = v["input"]
    print("replaying", v["sig"], "-", v["what"])
    c = _ReplayCtx()
    if "Sy_re" in inp:
        Sy = np.array(inp["Sy_re"]) + 1j * np.array(inp["Sy_im"])
        freq = np.arange(inp["nf"]) * inp["df"]
        Sval, Svec = fdd.SD_svalsvec(Sy)
        _judge_faithful(c, "SD_svalsvec", Sy, Sval, Svec, inp)
        Fn, Phi = fdd.FDD_mpe(Sval, Svec, freq, [inp["sel"]], DF=inp["DF"])
        _judge_pick(c, "SD_svalsvec+FDD_mpe", Sy, freq, inp["sel"], inp["DF"], Fn[0], Phi[:, 0], inp)
    elif inp.get("path") == "proportional":
        _prop_case(c, inp)
    else:
        _class_case(c, inp)
    print("cases judged:", c.oracle_cases, "violations:", c.vs)
    return 1 if c.vs else 0
