"""Python-AST -> Lean translator for the geometry ENTRY POINTS of `GeometryMixin`
(support/geometry/mixin.py): `def_geo1`, `def_geo2`, `def_geo1_by_file`, `def_geo2_by_file`.

Every entry point is evaluated SYMBOLICALLY (a small abstract interpreter over straight-line code, `if` on statically
known tests, calls through `self` / module-level helpers of mixin.py inlined with their arguments), so that the table
says which VALUE reaches which place, whatever the spelling:

 * `fields`  — per entry point and keyword of the `Geometry1(...)` / `Geometry2(...)` object stored on `self.geo1` /
   `self.geo2`: the checker whose result tuple it is taken from, the POSITION in that tuple, what the checker returns
   at that position (`sheet:<key>` when the returned name was last loaded from `file_dict[<key>]`, else `computed`) and
   the method calls applied on the way (`.astype(float)`);
 * `calls`   — per entry point: the parameters of `check_on_geo1/2` and of `read_excel_file` and what they receive
   (positional arguments resolved through the callee's signature in functions/gen.py);
 * `dictRows` — for `def_geo1/2`: per sheet key of the dictionary handed to the checker the arguments of the entry
   point its value is computed from, and whether it is the argument itself;
 * `raises`  — the exception an entry point's own glue raises on the evaluated path; the pseudo entry
   `_def_geo_by_file[other]` is `_def_geo_by_file` with a `geo_type` equal to no literal;
 * `retNames` — length of the checker's result tuple.

Keyword <-> positional spelling, a helper extracted / inlined, a default written out, renamed locals, unpacking the
result tuple into names instead of indexing it: same table.  Anything outside the grammar (loops, try, with, stores
under a test that is not statically decided, starred arguments in front of a checker ...) fails closed.
Output: lean/PyomaVerif/Generated/GeoWiring.lean."""
import ast
import os

ENTRIES = ["def_geo1", "def_geo2", "def_geo1_by_file", "def_geo2_by_file"]
CHECKERS = ("check_on_geo1", "check_on_geo2")
CTORS = ("Geometry1", "Geometry2")
OTHER = "\u0000other"  # a geo_type equal to no literal of the source
MAXDEPTH = 4


class Closed(Exception):
    pass


def lean_str(s):
    return '"' + s.replace("\\", "\\\\").replace('"', '\\"') + '"'


# ----------------------------------------------------------------------------- symbolic values
# ("param", name) | ("const", python value) | ("getattr", "self.<a>", default text) | ("read", call id)
# ("dict", [(key, value)]) | ("check", checker, call id) | ("item", base, i) | ("mcall", base, text)
# ("geom", cls, [(field, value)]) | ("opaque", frozenset(uses)) | ("self",)


def uses(v):
    k = v[0]
    if k == "param":
        return {v[1]}
    if k == "getattr":
        return {v[1]}
    if k in ("item", "mcall"):
        return uses(v[1])
    if k == "opaque":
        return set(v[1])
    if k == "dict":
        return set().union(*[uses(x) for _, x in v[1]]) if v[1] else set()
    if k == "geom":
        return set().union(*[uses(x) for _, x in v[2]]) if v[2] else set()
    if k == "read":
        return {"<read_excel_file>"}
    if k == "check":
        return {f"<{v[1]}>"}
    return set()


def render(v):
    k = v[0]
    if k == "param":
        return f"arg:{v[1]}"
    if k == "const":
        return repr(v[1])
    if k == "getattr":
        return f"getattr({v[1]}, {v[2]})"
    if k == "read":
        return "<read_excel_file>"
    if k == "dict":
        return "<dict>"
    if k == "check":
        return f"<{v[1]}>"
    if k == "item":
        return f"{render(v[1])}[{v[2]}]"
    if k == "mcall":
        return f"{render(v[1])}{v[2]}"
    if k == "geom":
        return f"<{v[1]}>"
    if k == "self":
        return "self"
    return "?(" + ", ".join(sorted(v[1])) + ")"


class Ev:
    """symbolic evaluation of ONE entry point"""

    def __init__(self, entry, cls_methods, mod_funcs, sigs):
        self.entry = entry
        self.methods = cls_methods
        self.funcs = mod_funcs
        self.sigs = sigs
        self.calls = []  # (callee, [(param, rendered)], star)
        self.stores = []  # (attr, value)
        self.raises = []
        self.callvals = {}

    # ---- expressions
    def bind_args(self, params, node, env, what):
        """parameter -> value for a call whose callee has the positional parameters `params`"""
        if any(isinstance(a, ast.Starred) for a in node.args):
            raise Closed(f"{self.entry}: starred positional argument in a call of {what}")
        if len(node.args) > len(params):
            raise Closed(f"{self.entry}: too many positional arguments for {what}")
        b, star = {}, ""
        for p_, a in zip(params, node.args):
            b[p_] = self.expr(a, env)
        for kw in node.keywords:
            if kw.arg is None:
                if isinstance(kw.value, ast.Name) and env.get(kw.value.id, (None,))[0] == "kwargs":
                    sv = env[kw.value.id][1]
                else:
                    sv = render(self.expr(kw.value, env))
                star = (star + "+" if star else "") + sv
                continue
            if kw.arg in b:
                raise Closed(f"{self.entry}: {what} receives {kw.arg} twice")
            b[kw.arg] = self.expr(kw.value, env)
        return b, star

    def inline(self, fn, is_method, node, env, depth):
        a = fn.args
        if a.vararg is not None or a.posonlyargs:
            raise Closed(f"{self.entry}: helper {fn.name} has *args / positional-only parameters")
        params = [x.arg for x in a.args]
        if is_method:
            params = params[1:]
        b, star = self.bind_args(params, node, env, fn.name)
        if star and a.kwarg is None:
            raise Closed(f"{self.entry}: ** passed to {fn.name} which takes no **kwargs")
        pos = a.args[1:] if is_method else a.args
        dflt = dict(zip([x.arg for x in pos[len(pos) - len(a.defaults):]], a.defaults)) if a.defaults else {}
        for x, d in zip(a.kwonlyargs, a.kw_defaults):
            params.append(x.arg)
            if d is not None:
                dflt[x.arg] = d
        env2 = {}
        if is_method:
            env2[fn.args.args[0].arg] = ("self",)
        for p_ in params:
            if p_ in b:
                env2[p_] = b[p_]
            elif p_ in dflt:
                env2[p_] = self.expr(dflt[p_], {})
            else:
                raise Closed(f"{self.entry}: {fn.name} called without {p_}")
        extra = [k for k in b if k not in params]
        if extra and a.kwarg is None:
            raise Closed(f"{self.entry}: {fn.name} has no parameter {extra[0]}")
        if a.kwarg is not None:
            # what travels in **kwargs: the caller's ** value (opaque) — explicit extra keywords are not supported
            if extra:
                raise Closed(f"{self.entry}: extra keyword {extra[0]} into **{a.kwarg.arg} of {fn.name}")
            env2[a.kwarg.arg] = ("kwargs", star)
        return self.body(fn.body, env2, depth + 1)

    def simple_helper(self, fn):
        """may the helper be evaluated statement by statement (else its result is an opaque function of its arguments)"""
        for st in fn.body:
            for n in ast.walk(st):
                if isinstance(n, (ast.For, ast.While, ast.Try, ast.With, ast.Lambda, ast.ListComp, ast.GeneratorExp, ast.DictComp, ast.Yield)):
                    return False
        # a helper that only computes a value from its arguments under data-dependent tests is treated as opaque
        return not any(isinstance(n, ast.If) for st in fn.body for n in ast.walk(st)) or any(
            isinstance(n, ast.Attribute) and isinstance(n.ctx, ast.Store) for st in fn.body for n in ast.walk(st))

    def expr(self, e, env, depth=0):
        if isinstance(e, ast.Constant):
            return ("const", e.value)
        if isinstance(e, ast.Name):
            if e.id in env:
                v = env[e.id]
                if v[0] == "kwargs":
                    return ("opaque", frozenset({"**" + v[1]}))
                return v
            return ("opaque", frozenset())  # a module-level name (pd, np, ...)
        if isinstance(e, ast.Dict):
            rows = []
            for k, v in zip(e.keys, e.values):
                if not (isinstance(k, ast.Constant) and isinstance(k.value, str)):
                    raise Closed(f"{self.entry}: dictionary key that is not a string literal")
                rows.append((k.value, self.expr(v, env, depth)))
            return ("dict", rows)
        if isinstance(e, ast.Subscript):
            base = self.expr(e.value, env, depth)
            if isinstance(e.slice, ast.Constant) and isinstance(e.slice.value, int) and base[0] in ("check", "item", "mcall"):
                return ("item", base, e.slice.value)
            if isinstance(e.slice, ast.Constant) and isinstance(e.slice.value, str) and base[0] == "dict":
                hit = [v for k, v in base[1] if k == e.slice.value]
                if hit:
                    return hit[-1]
            if base[0] in ("check", "item") or (base[0] == "mcall"):
                raise Closed(f"{self.entry}: result of a checker indexed by something that is not an integer literal")
            return ("opaque", frozenset(uses(base) | uses(self.expr(e.slice, env, depth))))
        if isinstance(e, ast.Attribute):
            base = self.expr(e.value, env, depth)
            if base[0] == "self":
                return ("getattr", "self." + e.attr, "<required>")
            if base[0] in ("check", "item", "mcall"):
                return ("mcall", base, "." + e.attr)
            return ("opaque", frozenset(uses(base)))
        if isinstance(e, ast.Call):
            return self.call(e, env, depth)
        if isinstance(e, (ast.Tuple, ast.List)):
            vs = [self.expr(x, env, depth) for x in e.elts]
            return ("opaque", frozenset(set().union(*[uses(v) for v in vs]) if vs else set()))
        if isinstance(e, (ast.BinOp, ast.BoolOp, ast.Compare, ast.UnaryOp, ast.IfExp, ast.JoinedStr, ast.FormattedValue)):
            us = set()
            for ch in ast.iter_child_nodes(e):
                if isinstance(ch, ast.expr):
                    us |= uses(self.expr(ch, env, depth))
            return ("opaque", frozenset(us))
        raise Closed(f"{self.entry}: expression form {type(e).__name__} not supported")

    def call(self, e, env, depth):
        f = e.func
        name = f.id if isinstance(f, ast.Name) else None
        if name == "getattr" and len(e.args) in (2, 3) and not e.keywords and isinstance(e.args[1], ast.Constant):
            base = self.expr(e.args[0], env, depth)
            if base[0] == "self":
                d = ast.unparse(e.args[2]) if len(e.args) == 3 else "<required>"
                return ("getattr", "self." + str(e.args[1].value), d)
        if name in CHECKERS or name == "read_excel_file":
            b, star = self.bind_args(self.sigs[name], e, env, name)
            if star and name in CHECKERS:
                raise Closed(f"{self.entry}: ** passed to {name}")
            cid = len(self.calls)
            self.calls.append((name, [(p_, render(b[p_])) for p_ in self.sigs[name] if p_ in b] +
                               [(p_, render(v)) for p_, v in b.items() if p_ not in self.sigs[name]], star))
            v = ("check", name, cid) if name in CHECKERS else ("read", cid)
            self.callvals[cid] = b
            return v
        if name in CTORS:
            if e.args:
                raise Closed(f"{self.entry}: positional argument of {name}")
            rows = []
            for kw in e.keywords:
                if kw.arg is None:
                    raise Closed(f"{self.entry}: ** passed to {name}")
                rows.append((kw.arg, self.expr(kw.value, env, depth)))
            return ("geom", name, rows)
        # helpers of the module / methods through self
        target = None
        if name is not None and name in self.funcs:
            target, is_m = self.funcs[name], False
        elif isinstance(f, ast.Attribute) and isinstance(f.value, ast.Name) and env.get(f.value.id, (None,))[0] == "self" and f.attr in self.methods:
            target, is_m = self.methods[f.attr], True
        if target is not None:
            if depth >= MAXDEPTH:
                raise Closed(f"{self.entry}: helper nesting deeper than {MAXDEPTH}")
            if self.simple_helper(target):
                r = self.inline(target, is_m, e, env, depth)
                return r if r is not None else ("const", None)
            if is_m:
                raise Closed(f"{self.entry}: method {f.attr} called through self is outside the grammar")
            # opaque function of its arguments
            us = set()
            for a in list(e.args) + [k.value for k in e.keywords]:
                us |= uses(self.expr(a.value if isinstance(a, ast.Starred) else a, env, depth))
            return ("opaque", frozenset(us))
        # a method call on a value
        if isinstance(f, ast.Attribute):
            base = self.expr(f.value, env, depth)
            if base[0] == "self":
                raise Closed(f"{self.entry}: unknown method self.{f.attr}")
            args = ", ".join([ast.unparse(a) for a in e.args] + [f"{k.arg}={ast.unparse(k.value)}" for k in e.keywords])
            if base[0] in ("check", "item", "mcall"):
                return ("mcall", base, f".{f.attr}({args})")
            us = set(uses(base))
            for a in list(e.args) + [k.value for k in e.keywords]:
                us |= uses(self.expr(a.value if isinstance(a, ast.Starred) else a, env, depth))
            return ("opaque", frozenset(us))
        us = set()
        for a in list(e.args) + [k.value for k in e.keywords]:
            us |= uses(self.expr(a.value if isinstance(a, ast.Starred) else a, env, depth))
        return ("opaque", frozenset(us))

    # ---- statements
    def static_test(self, t, env):
        """True / False when the test compares a statically known string with a literal, else None"""
        if isinstance(t, ast.Compare) and len(t.ops) == 1 and isinstance(t.ops[0], (ast.Eq, ast.NotEq)):
            a, b = self.expr(t.left, env), self.expr(t.comparators[0], env)
            if a[0] == "const" and b[0] == "const":
                r = a[1] == b[1]
                return r if isinstance(t.ops[0], ast.Eq) else not r
        if isinstance(t, ast.Compare) and len(t.ops) == 1 and isinstance(t.ops[0], (ast.In, ast.NotIn)) \
                and isinstance(t.comparators[0], (ast.Tuple, ast.List, ast.Set)):
            a = self.expr(t.left, env)
            bs = [self.expr(x, env) for x in t.comparators[0].elts]
            if a[0] == "const" and all(b[0] == "const" for b in bs):
                r = any(a[1] == b[1] for b in bs)
                return r if isinstance(t.ops[0], ast.In) else not r
        return None

    def assign(self, tgt, val, env):
        if isinstance(tgt, ast.Name):
            env[tgt.id] = val
        elif isinstance(tgt, ast.Attribute) and isinstance(tgt.value, ast.Name) and env.get(tgt.value.id, (None,))[0] == "self":
            self.stores.append((tgt.attr, val))
        elif isinstance(tgt, (ast.Tuple, ast.List)):
            if any(isinstance(x, ast.Starred) for x in tgt.elts):
                raise Closed(f"{self.entry}: starred unpacking")
            for i, x in enumerate(tgt.elts):
                if val[0] in ("check", "item", "mcall"):
                    self.assign(x, ("item", val, i), env)
                else:
                    self.assign(x, ("opaque", frozenset(uses(val))), env)
        elif isinstance(tgt, ast.Subscript):
            base = self.expr(tgt.value, env)
            if base[0] == "dict" and isinstance(tgt.slice, ast.Constant) and isinstance(tgt.slice.value, str) and isinstance(tgt.value, ast.Name):
                env[tgt.value.id] = ("dict", [r for r in base[1] if r[0] != tgt.slice.value] + [(tgt.slice.value, val)])
            else:
                raise Closed(f"{self.entry}: item assignment outside the grammar")
        else:
            raise Closed(f"{self.entry}: assignment target {type(tgt).__name__}")

    def body(self, stmts, env, depth=0):
        """-> returned value (or None)"""
        for st in stmts:
            if isinstance(st, ast.Expr) and isinstance(st.value, ast.Constant):
                continue
            if isinstance(st, ast.Pass):
                continue
            if isinstance(st, ast.Assign):
                v = self.expr(st.value, env, depth)
                for t in st.targets:
                    self.assign(t, v, env)
            elif isinstance(st, ast.AnnAssign):
                if st.value is not None:
                    self.assign(st.target, self.expr(st.value, env, depth), env)
            elif isinstance(st, ast.Expr):
                self.expr(st.value, env, depth)
            elif isinstance(st, ast.Return):
                return self.expr(st.value, env, depth) if st.value is not None else ("const", None)
            elif isinstance(st, ast.Raise):
                exc = st.exc.func if isinstance(st.exc, ast.Call) else st.exc
                self.raises.append(ast.unparse(exc) if exc is not None else "<re-raise>")
                return ("const", None)
            elif isinstance(st, ast.If):
                r = self.static_test(st.test, env)
                if r is not None:
                    n0 = len(self.raises)
                    out = self.body(st.body if r else st.orelse, env, depth)
                    if out is not None or len(self.raises) > n0:
                        return out if out is not None else ("const", None)
                    continue
                # data-dependent test: both branches may only compute locals
                snap = (len(self.stores), len(self.calls))
                e1, e2 = dict(env), dict(env)
                n0 = len(self.raises)
                r1 = self.body(st.body, e1, depth)
                r2 = self.body(st.orelse, e2, depth)
                if (len(self.stores), len(self.calls)) != snap:
                    raise Closed(f"{self.entry}: store / checker call under a test that is not statically decided: {ast.unparse(st.test)}")
                if r1 is not None or r2 is not None:
                    raise Closed(f"{self.entry}: return / raise under a test that is not statically decided: {ast.unparse(st.test)}")
                del self.raises[n0:]
                tu = uses(self.expr(st.test, env, depth))
                for name in set(e1) | set(e2):
                    a, b = e1.get(name), e2.get(name)
                    if a is not None and a == b:
                        env[name] = a
                    else:
                        env[name] = ("opaque", frozenset((uses(a) if a else set()) | (uses(b) if b else set()) | tu))
            else:
                raise Closed(f"{self.entry}: statement form {type(st).__name__} not supported")
        return None


# ----------------------------------------------------------------------------- the checkers' result tuples (gen.py)
def checker_returns(gen_tree):
    """checker -> [what is returned at position i]: 'sheet:<key>' when the returned name's LAST top-level assignment is
    `name = file_dict[<key>]`, else 'computed'"""
    out, sigs = {}, {}
    for n in gen_tree.body:
        if isinstance(n, ast.FunctionDef) and n.name in CHECKERS + ("read_excel_file",):
            sigs[n.name] = [x.arg for x in n.args.posonlyargs + n.args.args] + [x.arg for x in n.args.kwonlyargs]
            if n.name not in CHECKERS:
                continue
            rets = [s for s in ast.walk(n) if isinstance(s, ast.Return)]
            if len(rets) != 1 or rets[0] is not n.body[-1] or not isinstance(rets[0].value, ast.Tuple):
                raise Closed(f"{n.name}: not exactly one final `return (...)` of a tuple")
            dname = sigs[n.name][0]
            last = {}
            for st in n.body:
                if isinstance(st, ast.Assign) and len(st.targets) == 1 and isinstance(st.targets[0], ast.Name):
                    v = st.value
                    if isinstance(v, ast.Subscript) and isinstance(v.value, ast.Name) and v.value.id == dname \
                            and isinstance(v.slice, ast.Constant) and isinstance(v.slice.value, str):
                        last[st.targets[0].id] = "sheet:" + v.slice.value
                    else:
                        last[st.targets[0].id] = "computed"
                else:
                    for x in ast.walk(st):
                        if isinstance(x, ast.Name) and isinstance(x.ctx, ast.Store) and x.id in last:
                            last[x.id] = "computed"
            row = []
            for el in rets[0].value.elts:
                if isinstance(el, ast.Name):
                    row.append(last.get(el.id, "computed"))
                elif isinstance(el, ast.Subscript) and isinstance(el.value, ast.Name) and el.value.id == dname \
                        and isinstance(el.slice, ast.Constant) and isinstance(el.slice.value, str):
                    row.append("sheet:" + el.slice.value)
                else:
                    row.append("computed")
            out[n.name] = row
    for c in CHECKERS + ("read_excel_file",):
        if c not in sigs:
            raise Closed(f"functions/gen.py has no {c}")
    return out, sigs


def unwrap(v):
    """value of a Geometry field -> (checker, idx, wrap) or None"""
    wrap = ""
    while v[0] == "mcall":
        wrap = v[2] + wrap
        v = v[1]
    if v[0] == "item" and v[1][0] == "check":
        return v[1][1], v[1][2], v[2], wrap
    return None


def translate(repo):
    src = os.path.join(repo, "src", "pyoma2")
    gen_tree = ast.parse(open(os.path.join(src, "functions", "gen.py")).read())
    rets, sigs = checker_returns(gen_tree)
    tree = ast.parse(open(os.path.join(src, "support", "geometry", "mixin.py")).read())
    funcs = {n.name: n for n in tree.body if isinstance(n, ast.FunctionDef)}
    cls = [n for n in tree.body if isinstance(n, ast.ClassDef) and n.name == "GeometryMixin"]
    if len(cls) != 1:
        raise Closed("mixin.py: class GeometryMixin not found exactly once")
    methods = {n.name: n for n in cls[0].body if isinstance(n, ast.FunctionDef)}
    for n in methods.values():
        if n.decorator_list and n.name in ENTRIES + ["_def_geo_by_file"]:
            raise Closed(f"{n.name} is decorated")
    fields, calls, dict_rows, raises, stores_n = [], [], [], [], []
    todo = [(e, None) for e in ENTRIES]
    if "_def_geo_by_file" in methods:
        todo.append(("_def_geo_by_file[other]", "_def_geo_by_file"))
    for entry, real in todo:
        fn = methods.get(real or entry)
        if fn is None:
            raise Closed(f"GeometryMixin has no {entry}")
        ev = Ev(entry, methods, funcs, sigs)
        a = fn.args
        env = {a.args[0].arg: ("self",)}
        for x in a.args[1:] + a.kwonlyargs:
            env[x.arg] = ("param", x.arg)
        if a.vararg is not None:
            raise Closed(f"{entry}: *args")
        if a.kwarg is not None:
            env[a.kwarg.arg] = ("kwargs", "arg:" + a.kwarg.arg)
        if real is not None:
            if "geo_type" not in env:
                raise Closed("_def_geo_by_file has no parameter geo_type")
            env["geo_type"] = ("const", OTHER)
        ev.body(fn.body, env)
        stores_n.append((entry, len(ev.stores)))
        for attr, v in ev.stores:
            if v[0] != "geom":
                raise Closed(f"{entry}: self.{attr} receives something that is not a Geometry object: {render(v)}")
            if len({f for f, _ in v[2]}) != len(v[2]):
                raise Closed(f"{entry}: a keyword of {v[1]} is given twice")
            for field, fv in sorted(v[2], key=lambda r: r[0]):  # the order keywords are spelled in is immaterial
                u = unwrap(fv)
                if u is None:
                    raise Closed(f"{entry}: {v[1]}.{field} is not an element of a checker's result: {render(fv)}")
                checker, cid, idx, wrap = u
                if idx >= len(rets[checker]) or idx < 0:
                    raise Closed(f"{entry}: index {idx} outside the result tuple of {checker}")
                fields.append((entry, attr, v[1], field, checker, cid, idx, rets[checker][idx], wrap))
        for cid, (callee, bind, star) in enumerate(ev.calls):
            calls.append((entry, callee, cid, bind, star))
            if callee in CHECKERS:
                fd = ev.callvals[cid].get(sigs[callee][0])
                if fd is not None and fd[0] == "dict":
                    for key, v in fd[1]:
                        dict_rows.append((entry, key, v[0] == "param", sorted(uses(v))))
        for r in ev.raises:
            raises.append((entry, r))
    L = ["/-! GENERATED by harness/translate_geo.py from src/pyoma2/support/geometry/mixin.py and functions/gen.py — do not edit. -/",
         "namespace PV.Gen.GeoWiring", "",
         "/-- one keyword of the `Geometry1/2(...)` object an entry point stores on `self.<target>` -/",
         "structure Field where", "  entry : String", "  target : String", "  cls : String", "  field : String",
         "  checker : String", "  call : Nat", "  idx : Nat", "  what : String", "  wrap : String",
         "deriving DecidableEq, Repr", "",
         "/-- a call of `check_on_geo1/2` / `read_excel_file` made by an entry point (`call` = its number there) -/",
         "structure Call where", "  entry : String", "  callee : String", "  call : Nat",
         "  bind : List (String × String)", "  star : String", "deriving DecidableEq, Repr", "",
         "/-- one key of the sheet dictionary an entry point assembles for the checker -/",
         "structure DictRow where", "  entry : String", "  key : String", "  direct : Bool", "  uses : List String",
         "deriving DecidableEq, Repr", ""]

    def pairs(b):
        return "[" + ", ".join(f"({lean_str(k)}, {lean_str(v)})" for k, v in b) + "]"

    L.append("def fields : List Field := [")
    L.append(",\n".join(f"  ⟨{lean_str(e)}, {lean_str(t)}, {lean_str(c)}, {lean_str(f)}, {lean_str(ch)}, {cid}, {i}, {lean_str(w)}, {lean_str(wr)}⟩"
                        for e, t, c, f, ch, cid, i, w, wr in fields))
    L.append("]\n")
    L.append("def calls : List Call := [")
    L.append(",\n".join(f"  ⟨{lean_str(e)}, {lean_str(c)}, {cid}, {pairs(b)}, {lean_str(s)}⟩" for e, c, cid, b, s in calls))
    L.append("]\n")
    L.append("def dictRows : List DictRow := [")
    L.append(",\n".join(f"  ⟨{lean_str(e)}, {lean_str(k)}, {'true' if d else 'false'}, [{', '.join(lean_str(u) for u in us)}]⟩"
                        for e, k, d, us in dict_rows))
    L.append("]\n")
    L.append("/-- exceptions raised by the entry point's own glue on the evaluated path -/")
    L.append("def raises : List (String × String) := " + pairs(raises) + "\n")
    L.append("/-- number of `self.<attr> = …` stores on the evaluated path -/")
    L.append("def storeCount : List (String × Nat) := [" + ", ".join(f"({lean_str(e)}, {n})" for e, n in stores_n) + "]\n")
    L.append("/-- length of the checkers' result tuples -/")
    L.append("def retLen : List (String × Nat) := [" + ", ".join(f"({lean_str(c)}, {len(rets[c])})" for c in CHECKERS) + "]\n")
    L.append("end PV.Gen.GeoWiring\n")
    summary = {"fields": len(fields), "calls": len(calls), "dictRows": len(dict_rows), "raises": len(raises)}
    return "\n".join(L), summary


def write(repo, lean_dir):
    path = os.path.join(lean_dir, "PyomaVerif", "Generated", "GeoWiring.lean")
    try:
        text, summary = translate(repo)
    except (Closed, SyntaxError, OSError, IndexError, KeyError, AttributeError, TypeError, ValueError) as e:
        return False, f"geometry translator failed closed: {e}", {}
    old = open(path).read() if os.path.exists(path) else None
    if old != text:
        open(path, "w").write(text)
    return True, "ok", summary


if __name__ == "__main__":
    import sys

    here = os.path.dirname(os.path.dirname(os.path.abspath(__file__)))
    repo = os.environ.get("PYOMA2_REPO", "/repo")
    if "--write" in sys.argv:
        ok, msg, s = write(repo, os.path.join(here, "lean"))
        print(msg, s)
        sys.exit(0 if ok else 1)
    print(translate(repo)[0])
