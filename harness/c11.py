"""C11 — modal parameter extraction returns the requested pole, whole and only if close
(ssi.SSI_mpe, plscf.pLSCF_mpe, SSI*.mpe, pLSCF.mpe)."""
import math
from fractions import Fraction

import numpy as np

from c10 import omat, ophi
from common import R, fl


LEAN_MODULES = ["PyomaVerif.Props.C11", "PyomaVerif.Mutants.C11", "PyomaVerif.Props.WiringMpe", "PyomaVerif.Props.C11Plscf", "PyomaVerif.Props.C11Stored", "PyomaVerif.Props.WiringClass", "PyomaVerif.Props.WiringCalls", "PyomaVerif.Props.C11Py", "PyomaVerif.Mutants.C11Py"]
THEOREMS = [
    # call-site wiring of the class layer, regenerated from /repo on every run (translate_wiring.py)
    "PV.WiringMpe.C11_ssi_mpe_args",
    "PV.WiringMpe.C11_ssi_mpe_stores",
    "PV.WiringMpe.C11_plscf_mpe_args",
    "PV.WiringMpe.C11_plscf_mpe_stores",
    "PV.WiringClass.C11_mpe_inherited",
    "PV.WiringCalls.C11_mpe_calls",
    "PV.WiringMpe.C11_mpe_stores_exact",
    "PV.C11.C11_whole",
    "PV.C11.C11_nearest",
    "PV.C11.C11_only_if_close",
    "PV.C11.Extracted.unique",
    "PV.C11.C11_order_out_echo",
    "PV.C11.C11_error_iff",
    "PV.C11.C11_plscf_whole_nearest_close",
    "PV.C11.C11_plscf_order_out_echo",
    "PV.C11.C11_find_min_least",
    "PV.C11.C11_find_min_none",
    "PV.C11.C11_find_min_from_order",
    "PV.C11.C11_find_min_qual_iff",
    "PV.C11.C11_plscf_find_min_never_finds_partial",
    "PV.C11.Mutants.any_close_mutant_returns_far_pole",
    "PV.C11.Mutants.any_close_mutant_output",
    "PV.C11.Mutants.any_close_mutant_only_partial",
    "PV.C11.Mutants.plscf_label7_finds_nothing",
    "PV.C11.Mutants.plscf_label1_would_find",
    # pLSCF find_min as coded, for any label value (the pinned 7 and the repair 1), and where the repair still deviates
    "PV.C11.C11_plscf_find_min_found",
    "PV.C11.C11_plscf_find_min_not_found",
    "PV.C11.C11_plscf_find_min_char",
    "PV.C11.C11_plscf_find_min_degenerate",
    "PV.C11.C11_plscf_relabel",
    "PV.C11.plscfColTest_iff",
    "PV.C11.onePerBand_passes",
    "PV.C11.C11_plscf_find_min_premises",
    "PV.C11.C11_plscf_find_min_order_iff",
    "PV.C11.Mutants.plscf_lab1_last_column_mixes",
    "PV.C11.Mutants.plscf_lab1_single_column_minus_one",
    "PV.C11.Mutants.plscf_lab1_any_accepts_far_pole",
    "PV.C11.Mutants.plscf_lab1_counts_total_not_per_band",
    "PV.C11.Mutants.plscf_lab1_returns_without_order",
    "PV.C11.Mutants.plscf_lab1_duplicate_counts_once",
    "PV.C11.Mutants.plscf_lab1_agrees_on_example",
    # SSI find_min: "one distinct stable value", not "one stable pole"
    "PV.C11.C11_find_min_value_set_only",
    "PV.C11.C11_find_min_from_order_first",
    "PV.C11.C11_find_min_qual_iff_poles",
    "PV.C11.Mutants.ssi_find_min_counts_values_not_poles",
    # depth round (audit C11 gap 4): extraction from the STORED tables (one mask, C09) returns whole retained poles with their unfiltered values
    "PV.C11Stored.C11_stored_whole",
    "PV.C11Stored.C11_run_extract",
    # depth round 2 (gap 9): every Python value of `order` (ssiMpePy/plscfMpePy are what the ops run), raw output shapes
    "PV.C11.C11_py_eq",
    "PV.C11.C11_plscf_py_eq",
    "PV.C11.C11_int_order_eq",
    "PV.C11.C11_neg_order_eq",
    "PV.C11.C11_int_order_out_of_range",
    "PV.C11.C11_list_order_eq",
    "PV.C11.C11_plscf_int_order_eq",
    "PV.C11.C11_plscf_list_order_eq",
    "PV.C11.C11_other_order_raises",
    "PV.C11.C11_plscf_other_order_raises",
    "PV.C11.C11_plscf_other_order_empty",
    "PV.C11.C11_bool_order_not_ok",
    "PV.C11.C11_py_whole",
    "PV.C11.C11_py_error_iff",
    "PV.C11.C11_plscf_py_whole",
    "PV.C11.C11_plscf_error_iff",
    "PV.C11.C11_shapes",
    "PV.C11.C11_plscf_shapes",
    "PV.C11.C11_plscf_shapes_all",
    "PV.C11.Mutants.no_reshape_find_min_2d",
    "PV.C11.Mutants.no_reshape_explicit_same",
    "PV.C11.Mutants.no_raise_mutant_returns",
]
RULE = (
    "correspondence: ssi.SSI_mpe / plscf.pLSCF_mpe vs Mpe.ssiMpe / Mpe.plscfMpe on random pole tables (<= 10x10, values on a "
    "2^-10 grid, NaN patterns, spurious poles, missing modes, labels 0/1 plus a stream with labels 7 and others, covariances "
    "present/absent) for order = int, list, 'find_min', plus a malformed stream (all-NaN column, order out of range, short "
    "order list, empty request list, Lab=None): returned Fn/Xi/Phi/covariances, order_out and exception class identical; "
    "the stored result fields after SSIcov.mpe / pLSCF.mpe equal the function outputs. Cases with a pole within 1e-9 of a "
    "tolerance edge are skipped and counted. oracle: brute-force restatement of the property (requests ascending, disjoint "
    "bands, orders with a retained pole) on the functions and through the classes after real runs. distinct = distinct "
    "(function, order form, rows, cols, #requests, outcome). find_min in depth: pLSCF_mpe[find_min-lab7] = the same generator with "
    "the stable poles labelled 7 (the label the pinned routine selects; 1..4 columns so that the never-tested last column and the "
    "index wrap occur), SSI_mpe/pLSCF_mpe[find_min-dup] = stable poles duplicated at exactly equal frequency in another row, "
    "[find_min-witness] = the kernel-checked witness tables of Mutants/C11.lean run on the real functions. "
    "The ops run ssiMpePy / plscfMpePy (Model/MpePy.lean: the Python object passed as order) and return np.shape of the assembled "
    "arrays (ssiShapes / plscfShapes), compared in every stream with the raw np.shape of what the functions return / the classes "
    "store BEFORE any flattening; [order-kinds] = order in {None, np.int64, True, False, float, tuple, other str, negative int, "
    "int below -cols, lists with negative / out-of-range entries}, 12% empty request lists, 10% all-NaN tables: exception class, "
    "order_out, values, shapes identical (order=True selecting a row block is outside the model: skipped and counted)"
)
EXTRA_TRUSTED = ["float rounding in np.isclose / band edges (poles within 1e-9 of an edge are not judged)"]
ASSUMPTIONS = [
    "numpy nanargmin/isclose/unique/where semantics are mirrored by NanTable (validated by the correspondence)",
    "order=True when numpy's boolean-scalar index lets the call get past its first request returns a (1, cols) row block per request: "
    "not modelled (Model/MpePy.boolFirst marks it, the correspondence skips and counts it); lists whose entries are not Python ints "
    "(bool, np.int64) are not generated",
    "'within tolerance' for find_min = inside the band the routine uses (SSI: [f-rtol, f+rtol]; pLSCF: (f-deltaf, f+deltaf)) and np.isclose(pole, f, rtol)",
    "SSI find_min: 'exactly one stable pole' is proved (and coded) as 'exactly one distinct stable frequency value'; stable poles of exactly "
    "equal frequency count once and the first row is returned (C11_find_min_value_set_only, C11_find_min_from_order_first, "
    "Mutants.ssi_find_min_counts_values_not_poles); the oracle does not judge such tables",
    "pLSCF find_min: characterised as coded for any label value (C11_plscf_find_min_char); even with the label repaired it meets the "
    "property only if the qualifying order is not the last column and no lower column passes the weaker coded test "
    "(C11_plscf_find_min_premises, Mutants.plscf_lab1_*)",
]

GRID = 1024
ATOL = Fraction(1, 10**8)
EPS = Fraction(1, 10**9)


def _fns():
    from pyoma2.functions import plscf, ssi

    return ssi.SSI_mpe, plscf.pLSCF_mpe


# ----------------------------------------------------------------------------- generator
def gen_case(ctx, maxr=10, maxc=10, malformed=False, labels7=False):
    rng = ctx.rng
    rows = rng.randint(1, maxr)
    cols = rng.randint(1, maxc)
    d = rng.randint(1, 3)
    rtol = rng.choice([0.05, 0.01, 0.02, 0.1])
    deltaf = rng.choice([0.05, 0.05, 0.1, 0.02])
    nmodes = rng.randint(1, min(4, rows))
    # true modes, well separated (ratio > 1.5 and gap > 1)
    fs = []
    f = rng.randint(GRID // 2, 3 * GRID)
    for _ in range(nmodes):
        fs.append(f)
        f = int(f * rng.uniform(1.6, 2.5)) + GRID
    Fn = np.full((rows, cols), np.nan)
    Xi = np.full((rows, cols), np.nan)
    Phi = np.full((rows, cols, d), np.nan + 0j, dtype=complex)
    Lab = np.zeros((rows, cols), dtype=int)
    pmiss = rng.choice([0.0, 0.2, 0.5])
    pstab = rng.choice([0.3, 0.7, 1.0])
    for o in range(cols):
        slots = list(range(rows))
        rng.shuffle(slots)
        placed = []
        for m in range(nmodes):
            if not slots or rng.random() < pmiss:
                continue
            u = rng.random()
            if u < 0.55:  # well inside every tolerance
                df = rng.randint(-4, 4)
            elif u < 0.8:  # inside the relative tolerance, maybe outside the absolute band
                df = int(rng.uniform(-0.9, 0.9) * rtol * fs[m])
            else:  # outside
                df = int(rng.choice([-1, 1]) * rng.uniform(1.2, 4.0) * rtol * fs[m]) + rng.choice([-3, 3])
            placed.append((slots.pop(), max(1, fs[m] + df), rng.random() < pstab))
            if slots and rng.random() < 0.15:  # a second pole of the same mode (split / duplicate)
                placed.append((slots.pop(), max(1, fs[m] + (0 if rng.random() < 0.3 else rng.randint(-6, 6))), rng.random() < pstab))
        for i in slots:
            if rng.random() < 0.3:
                placed.append((i, rng.randint(1, 40 * GRID), rng.random() < 0.3))
        for (i, fv, st) in placed:
            Fn[i, o] = fv / GRID
            Xi[i, o] = rng.randint(1, 400) / 4096
            Phi[i, o, :] = [complex(rng.randint(-8, 8) / 8, rng.randint(-8, 8) / 8) for _ in range(d)]
            Lab[i, o] = 1 if st else 0
    if labels7:
        for _ in range(rng.randint(1, rows * cols)):
            Lab[rng.randrange(rows), rng.randrange(cols)] = rng.choice([7, 7, 7, 3, -1])
    # requests: the true modes (ascending), some shifted, some dropped
    freq = []
    for m in range(nmodes):
        if rng.random() < 0.15 and nmodes > 1:
            continue
        u = rng.random()
        if u < 0.6:
            freq.append((fs[m] + rng.randint(-2, 2)) / GRID)
        elif u < 0.85:
            freq.append((fs[m] + int(rng.uniform(-0.5, 0.5) * rtol * fs[m])) / GRID)
        else:
            freq.append((fs[m] + int(rng.choice([-1, 1]) * rng.uniform(1.5, 3.0) * rtol * fs[m])) / GRID)
    if not freq:
        freq = [fs[0] / GRID]
    cov = None
    if rng.random() < 0.4:
        cov = {
            "fn": np.where(np.isnan(Fn), np.nan, np.array([[rng.randint(1, 99) / 8192 for _ in range(cols)] for _ in range(rows)])),
            "xi": np.where(np.isnan(Fn), np.nan, np.array([[rng.randint(1, 99) / 8192 for _ in range(cols)] for _ in range(rows)])),
            "phi": np.where(np.isnan(Phi.real), np.nan, np.array([[[rng.randint(1, 99) / 8192 for _ in range(d)] for _ in range(cols)] for _ in range(rows)])),
        }
    kind = rng.choice(["int", "list", "find_min"])
    if kind == "int":
        order = rng.randrange(cols)
    elif kind == "list":
        order = [rng.randrange(cols) for _ in freq]
    else:
        order = "find_min"
    lab = Lab
    if malformed:
        k = rng.randrange(6)
        if k == 0:
            Fn[:, rng.randrange(cols)] = np.nan
        elif k == 1:
            if kind == "int":
                order = cols + rng.randint(0, 2)
            elif kind == "list":
                order[rng.randrange(len(order))] = cols + rng.randint(0, 2)
        elif k == 2 and kind == "list":
            order = order[:-1]
        elif k == 3:
            freq = []
            if kind == "list":
                order = []
        elif k == 4:
            lab = None
        elif k == 5 and kind == "list":
            order = order + [rng.randrange(cols)]
    return {"freq": freq, "Fn": Fn, "Xi": Xi, "Phi": Phi, "Lab": lab, "order": order, "rtol": rtol, "deltaf": deltaf, "cov": cov, "kind": kind}


def bands_ok(freq, w, rtol):
    """requests ascending, the tolerance regions (band of half-width w, isclose region) pairwise disjoint"""
    fr = [Fraction(f) for f in freq]
    tol = [max(Fraction(w), ATOL + Fraction(rtol) * abs(f)) + EPS for f in fr]
    return all(fr[k] + tol[k] < fr[k + 1] - tol[k + 1] for k in range(len(fr) - 1)) and all(f > 0 for f in fr)


def near_edge(case, w):
    """some non-NaN pole within 1e-9 of an isclose threshold or of a band edge of some request"""
    rt = Fraction(case["rtol"])
    w = Fraction(w)
    vals = {Fraction(float(v)) for v in case["Fn"].ravel() if not math.isnan(v)}
    for f in case["freq"]:
        f = Fraction(f)
        thr = ATOL + rt * abs(f)
        for v in vals:
            dd = abs(v - f)
            if abs(dd - thr) < EPS or abs(dd - w) < EPS:
                return True
    return False


# ----------------------------------------------------------------------------- calling the real code
def _phi_modes(P):
    P = np.asarray(P)
    if P.size == 0:
        return []
    return [list(col) for col in P.T]  # one shape per returned mode


def norm_out(res, with_cov):
    Fn, Xi, Phi, order_out = res[:4]
    if order_out is None:
        oo = None
    elif isinstance(order_out, np.ndarray):
        oo = {"arr": [int(v) for v in order_out.tolist()]}
    else:
        oo = int(order_out)
    # np.shape of the arrays exactly as returned / stored, taken BEFORE the flattening below (compared with the model's
    # ssiShapes / plscfShapes in same_out)
    shapes = {"fn": list(np.shape(Fn)), "xi": list(np.shape(Xi)), "phi": list(np.shape(Phi))}
    if with_cov and res[4] is not None:
        shapes.update({"fn_cov": list(np.shape(res[4])), "xi_cov": list(np.shape(res[5])), "phi_cov": list(np.shape(res[6]))})
    out = {
        "shapes": shapes,
        "fn": [float(v) for v in np.asarray(Fn).reshape(-1)],
        "xi": [float(v) for v in np.asarray(Xi).reshape(-1)],
        "phi": [[complex(z) for z in m] for m in _phi_modes(Phi)],
        "order_out": oo,
        "fn_cov": [], "xi_cov": [], "phi_cov": [],
    }
    if with_cov and res[4] is not None:
        out["fn_cov"] = [float(v) for v in np.asarray(res[4]).reshape(-1)]
        out["xi_cov"] = [float(v) for v in np.asarray(res[5]).reshape(-1)]
        out["phi_cov"] = [[float(z) for z in m] for m in _phi_modes(res[6])]
    return out


def call_ssi(case):
    ssi_mpe, _ = _fns()
    cov = case["cov"]
    try:
        with np.errstate(all="ignore"):
            res = ssi_mpe(list(case["freq"]), case["Fn"].copy(), case["Xi"].copy(), case["Phi"].copy(), case["order"],
                          Lab=None if case["Lab"] is None else case["Lab"].copy(), rtol=case["rtol"],
                          Fn_cov=None if cov is None else cov["fn"].copy(), Xi_cov=None if cov is None else cov["xi"].copy(),
                          Phi_cov=None if cov is None else cov["phi"].copy())
        return norm_out(res, True)
    except Exception as e:  # noqa: BLE001
        return {"exc": type(e).__name__}


def call_plscf(case):
    _, plscf_mpe = _fns()
    try:
        with np.errstate(all="ignore"):
            res = plscf_mpe(list(case["freq"]), case["Fn"].copy(), case["Xi"].copy(), case["Phi"].copy(), case["order"],
                            Lab=None if case["Lab"] is None else case["Lab"].copy(), deltaf=case["deltaf"], rtol=case["rtol"])
        return norm_out(res, False)
    except Exception as e:  # noqa: BLE001
        return {"exc": type(e).__name__}


def order_json(order):
    """the Python object passed as `order`, for the driver: "find_min" / another str, bool, int, list of int stay themselves;
    anything else (None, np.int64, float, tuple, ...) travels as {"other": <type name>} (PyOrder.other)"""
    if isinstance(order, (str, bool)):
        return order
    if type(order) is int:
        return order
    if type(order) is list and all(type(o) is int for o in order):
        return list(order)
    return {"other": type(order).__name__}


def model_inp(case, which):
    Phi = case["Phi"]
    inp = {
        "freq": [R(float(f)) for f in case["freq"]], "Fn": omat(case["Fn"]), "Xi": omat(case["Xi"]), "Phi": ophi(Phi), "d": int(Phi.shape[2]),
        "order": order_json(case["order"]), "Lab": None if case["Lab"] is None else case["Lab"].tolist(), "rtol": R(case["rtol"]),
    }
    if which == "plscf":
        inp["deltaf"] = R(case["deltaf"])
    else:
        cov = case["cov"]
        inp["cov"] = None if cov is None else {"fn": omat(cov["fn"]), "xi": omat(cov["xi"]), "d": int(Phi.shape[2]),
                                                "phi": [[[None if math.isnan(v) else R(float(v)) for v in vec] for vec in row] for row in cov["phi"].tolist()]}
    return inp


def _feq(a, b):
    a, b = float(a), float(b)
    return (math.isnan(a) and math.isnan(b)) or a == b


def _ceq(a, b):
    a, b = complex(a), complex(b)
    return _feq(a.real, b.real) and _feq(a.imag, b.imag)


def same_out(model, impl):
    if "exc" in model or "exc" in impl:
        return model.get("exc") == impl.get("exc")
    if model["order_out"] != impl["order_out"]:
        return False
    if "shapes" in model and "shapes" in impl and model["shapes"] != impl["shapes"]:
        return False
    for k in ("fn", "xi", "fn_cov", "xi_cov"):
        if len(model[k]) != len(impl[k]) or not all(_feq(fl(a), b) for a, b in zip(model[k], impl[k])):
            return False
    if len(model["phi"]) != len(impl["phi"]):
        return False
    for ma, mb in zip(model["phi"], impl["phi"]):
        if len(ma) != len(mb):
            return False
        for a, b in zip(ma, mb):
            za = complex(float("nan"), float("nan")) if a is None else complex(fl(a[0]), fl(a[1]))
            if not _ceq(za, b):
                return False
    if len(model["phi_cov"]) != len(impl["phi_cov"]):
        return False
    for ma, mb in zip(model["phi_cov"], impl["phi_cov"]):
        if len(ma) != len(mb) or not all(_feq(fl(a), b) for a, b in zip(ma, mb)):
            return False
    return True


def outcome(o):
    if "exc" in o:
        return o["exc"]
    return f"n{len(o['fn'])}-{'none' if o['order_out'] is None else 'ord'}"



# ----------------------------------------------------------------------------- find_min in depth
def gen_find_min_case(ctx, lab7=False, dup=False):
    """a find_min call on a structured table; lab7: the stable poles carry the label 7 (what the pinned pLSCF_mpe selects),
    few columns so that 'qualifying column is the last one' and the single-column wrap occur; dup: some stable poles are
    duplicated at exactly the same frequency in a free row of the same column (own damping and shape)"""
    rng = ctx.rng
    case = gen_case(ctx, maxc=rng.choice([1, 2, 2, 3, 3, 4, 6, 10]) if lab7 else 10)
    case["order"] = "find_min"
    case["kind"] = "find_min"
    Fn, Xi, Phi, Lab = case["Fn"], case["Xi"], case["Phi"], case["Lab"]
    rows, cols = Fn.shape
    ndup = 0
    if dup:
        for o in range(cols):
            if rng.random() < 0.6:
                src = [r for r in range(rows) if Lab[r, o] == 1 and not math.isnan(Fn[r, o])]
                free = [r for r in range(rows) if math.isnan(Fn[r, o])]
                if src and free:
                    r0, r1 = rng.choice(src), rng.choice(free)
                    Fn[r1, o] = Fn[r0, o]
                    Xi[r1, o] = rng.randint(1, 400) / 4096
                    Phi[r1, o, :] = [complex(rng.randint(-8, 8) / 8, rng.randint(-8, 8) / 8) for _ in range(Phi.shape[2])]
                    Lab[r1, o] = 1
                    if case["cov"] is not None:
                        for k in ("fn", "xi"):
                            case["cov"][k][r1, o] = rng.randint(1, 99) / 8192
                        case["cov"]["phi"][r1, o, :] = [rng.randint(1, 99) / 8192 for _ in range(Phi.shape[2])]
                    ndup += 1
    if lab7:
        case["Lab"] = np.where(Lab == 1, 7, Lab)
    case["ndup"] = ndup
    return case


def _tbl(x):
    return np.array([[float("nan") if v is None else v for v in row] for row in x], dtype=float)


def witness_cases():
    """the witness tables of Mutants/C11.lean (labels 0/1; for pLSCF_mpe the 1 is written as 7)"""
    W = [
        ("last_column", [[2.03, 2.01], [None, 5.01]], [[1, 1], [0, 1]], 0.05, 0.01),
        ("single_column", [[2.01], [5.01]], [[1], [1]], 0.05, 0.01),
        ("any_close", [[2.005, 2.005, 2.005], [5.04, 5.01, 5.01]], [[1, 1, 1], [1, 1, 1]], 0.05, 0.005),
        ("total_count", [[2.0, 2.0, 2.0], [2.03, 5.0, 5.0]], [[1, 1, 1], [1, 1, 1]], 0.05, 0.01),
        ("no_order", [[None, None, 2.01], [None, 5.01, None]], [[0, 0, 1], [0, 1, 0]], 0.05, 0.01),
        ("duplicate", [[2.01, 2.01], [2.01, None], [5.01, 5.01]], [[1, 1], [1, 0], [1, 1]], 0.05, 0.01),
    ]
    for name, fn, lab, w, rtol in W:
        Fn = _tbl(fn)
        rows, cols = Fn.shape
        Xi = np.array([[(i + 1) / 128 + o / 1024 for o in range(cols)] for i in range(rows)])
        Phi = np.array([[[complex(i, o)] for o in range(cols)] for i in range(rows)])
        yield name, {"freq": [2.0, 5.0], "Fn": Fn, "Xi": Xi, "Phi": Phi, "Lab": np.array(lab), "order": "find_min", "rtol": rtol,
                     "deltaf": w, "cov": None, "kind": "find_min"}


def corr_find_min_depth(ctx):
    def one(case, which, tag):
        rows, cols, d = case["Phi"].shape
        call, op, w = (call_ssi, "ssi_mpe", case["rtol"]) if which == "ssi" else (call_plscf, "plscf_mpe", case["deltaf"])
        if near_edge(case, w):
            ctx.skipped += 1
            ctx.count("corr_skipped_near_edge")
            return None
        inp = model_inp(case, which)
        impl = call(case)
        model = ctx.model(op, **inp)
        fn = f"{'SSI_mpe' if which == 'ssi' else 'pLSCF_mpe'}[find_min-{tag}]"
        ctx.corr(fn, same_out(model, impl), inp, model, impl, (rows, cols, len(case["freq"]), outcome(impl), repr(impl.get("order_out"))))
        return impl

    for _ in range(ctx.n(500, 5000)):
        case = gen_find_min_case(ctx, lab7=True, dup=ctx.rng.random() < 0.3)
        impl = one(case, "plscf", "lab7")
        if impl is not None and "exc" not in impl:
            cols = case["Fn"].shape[1]
            oo = impl["order_out"]
            # order_out == cols-2 is the `break` outcome or a pass of the last-but-one column; below it a column passed
            ctx.count("corr_plscf_lab7_" + ("wrap_minus1" if oo == -1 else "order_cols-2" if oo == cols - 2 else "lower_order")
                      + ("_params" if impl["xi"] else "_noparams") + ("_fn" if impl["fn"] else "_nofn"))
    for _ in range(ctx.n(300, 3000)):
        case = gen_find_min_case(ctx, dup=True)
        for which in ("ssi", "plscf"):
            impl = one(case, which, "dup")
            if which == "ssi" and impl is not None and "exc" not in impl:
                ctx.count(f"corr_ssi_dup_{'found' if impl['fn'] else 'nothing'}_{min(case['ndup'], 3)}dups")
    for name, case in witness_cases():
        one(dict(case, rtol=0.05), "ssi", "witness")  # SSI's band is [f - rtol, f + rtol]
        c7 = dict(case)
        c7["Lab"] = case["Lab"] * 7
        one(c7, "plscf", "witness")
        ctx.count("corr_witness_" + name)


# ----------------------------------------------------------------------------- every Python value of `order`
def odd_order(rng, cols, nreq):
    """(tag, order): values of `order` outside int >= 0 / list of them / 'find_min'"""
    k = rng.randrange(12)
    if k == 0:
        return "None", None
    if k == 1:
        return "np.int64", np.int64(rng.randrange(cols))
    if k == 2:
        return "True", True
    if k == 3:
        return "False", False
    if k in (4, 5):
        return "neg-int", -rng.randint(1, cols)
    if k == 6:
        return "neg-int-out-of-range", -cols - rng.randint(1, 2)
    if k == 7:
        return "float", float(rng.randrange(cols))
    if k == 8:
        return "tuple", tuple(rng.randrange(cols) for _ in range(nreq))
    if k == 9:
        return "str", rng.choice(["findmin", "find_min ", "min", ""])
    if k == 10:
        return "neg-list", [rng.randint(-cols, cols - 1) for _ in range(nreq)]
    o = [rng.randint(-cols, cols - 1) for _ in range(nreq)]
    if o:
        o[rng.randrange(len(o))] = -cols - rng.randint(1, 2)
    return "neg-list-out-of-range", o


def corr_order_kinds(ctx):
    """SSI_mpe / pLSCF_mpe vs ssiMpePy / plscfMpePy on every kind of Python object passed as `order`:
    exception class, order_out, values and raw shapes"""
    for _ in range(ctx.n(500, 5000)):
        case = gen_case(ctx, maxr=6, maxc=6)
        rows, cols, d = case["Phi"].shape
        if ctx.rng.random() < 0.12:
            case["freq"] = []
        if ctx.rng.random() < 0.1:
            case["Fn"][:, :] = np.nan      # order=True then meets an all-NaN table
        tag, order = odd_order(ctx.rng, cols, len(case["freq"]))
        case["order"] = order
        case["kind"] = tag
        for which, call, op, w in (("ssi", call_ssi, "ssi_mpe", case["rtol"]), ("plscf", call_plscf, "plscf_mpe", case["deltaf"])):
            if near_edge(case, w):
                ctx.skipped += 1
                ctx.count("corr_skipped_near_edge")
                continue
            inp = model_inp(case, which)
            impl = call(case)
            model = ctx.model(op, **inp)
            if str(model.get("exc", "")).startswith("unmodelled"):
                ctx.skipped += 1
                ctx.count(f"corr_{which}_order_{tag}_unmodelled_row_block")
                continue
            fn = f"{'SSI_mpe' if which == 'ssi' else 'pLSCF_mpe'}[order-kinds]"
            ctx.corr(fn, same_out(model, impl), inp, model, impl, (tag, rows, cols, len(case["freq"]), outcome(impl)))
            ctx.count(f"corr_{which}_order_{tag}_{outcome(impl) if 'exc' in impl else ('found' if impl['fn'] else 'nothing')}")


# ----------------------------------------------------------------------------- class level
_RUNS = {}


def _sim(rng, g, N, fs, nch, freqs):
    """noise + a few lightly damped modes with random real shapes over nch channels"""
    t = np.arange(N) / fs
    y = 0.02 * g.standard_normal((N, nch))
    for f, xi, shape in freqs:
        w = 2 * np.pi * f
        h = np.exp(-xi * w * t) * np.sin(w * np.sqrt(1 - xi**2) * t)
        y += np.outer(np.convolve(g.standard_normal(N), h)[:N], shape)
    return y


RUN_KINDS = ["SSIcov", "pLSCF", "SSIcov_unc", "SSIcov_MS", "pLSCF_MS", "SSIdat_MS"]


def real_runs(ctx, n):
    """a few real identifications (cached per process): list of (kind, alg, setup); single-setup classes on SingleSetup, the
    _MS classes (which inherit mpe) on MultiSetup_PreGER with 2-3 setups sharing their reference channels"""
    from pyoma2.algorithms import SSIcov, pLSCF
    from pyoma2.algorithms.plscf import pLSCF_MS
    from pyoma2.algorithms.ssi import SSIcov_MS, SSIdat_MS
    from pyoma2.setup.multi import MultiSetup_PreGER
    from pyoma2.setup.single import SingleSetup

    key = (ctx.seed, n)
    if key in _RUNS:
        return _RUNS[key]
    rng = ctx.rng
    g = ctx.nprng()
    out = []
    for k in range(n):
        fs = 50.0
        N = 2500
        kind = RUN_KINDS[k % len(RUN_KINDS)]
        ordmax = rng.randint(8, 14)
        modes = [(f, rng.uniform(0.005, 0.02)) for f in sorted(rng.sample([1.5, 3.2, 5.0, 7.7, 11.0], rng.randint(1, 3)))]
        hc = {"conj": True, "xi_max": 0.2, "mpc_lim": 0.3, "mpd_lim": 0.9}
        try:
            if kind.endswith("_MS"):
                nref = rng.randint(1, 2)
                nmov = [rng.randint(1, 2) for _ in range(rng.randint(2, 3))]
                ntot = nref + sum(nmov)
                shapes = [g.standard_normal(ntot) for _ in modes]
                datasets = []
                pos = nref
                for m in nmov:
                    chans = list(range(nref)) + list(range(pos, pos + m))
                    pos += m
                    datasets.append(_sim(rng, g, N, fs, len(chans), [(f, xi, sh[chans]) for (f, xi), sh in zip(modes, shapes)]))
                ss = MultiSetup_PreGER(fs=fs, ref_ind=[list(range(nref)) for _ in nmov], datasets=datasets)
                nch = ntot
                if kind == "pLSCF_MS":
                    alg = pLSCF_MS(name="x", ordmax=ordmax, nxseg=256, hc=hc)
                elif kind == "SSIcov_MS":
                    alg = SSIcov_MS(name="x", br=ordmax // nref + 3, ordmax=ordmax, step=1)
                else:
                    alg = SSIdat_MS(name="x", br=ordmax // nref + 3, ordmax=ordmax, step=1)
            else:
                nch = rng.randint(2, 4)
                y = _sim(rng, g, N, fs, nch, [(f, xi, g.standard_normal(nch)) for (f, xi) in modes])
                ss = SingleSetup(y, fs)
                if kind == "pLSCF":
                    alg = pLSCF(name="x", ordmax=ordmax, nxseg=256, hc=hc)
                elif kind == "SSIcov":
                    alg = SSIcov(name="x", br=ordmax // nch + 3, ordmax=ordmax, step=1)
                else:
                    alg = SSIcov(name="x", br=ordmax // nch + 3, ordmax=ordmax, step=1, calc_unc=True, nb=20)
            ss.add_algorithms(alg)
            with np.errstate(all="ignore"):
                ss.run_by_name("x")
            out.append((kind, alg, ss))
            ctx.count("real_run_ok_" + kind)
        except Exception as e:  # noqa: BLE001
            ctx.skipped += 1
            ctx.count("real_run_failed_" + kind + "_" + type(e).__name__)
    _RUNS[key] = out
    return out


def class_case(ctx, kind, alg):
    """a request built from the real pole tables of a run"""
    rng = ctx.rng
    res = alg.result
    Fn = np.asarray(res.Fn_poles, dtype=float)
    rows, cols = Fn.shape
    okcols = [o for o in range(cols) if not np.all(np.isnan(Fn[:, o]))]
    if not okcols:
        return None
    rtol = rng.choice([0.05, 0.01, 0.02, 0.002, 0.1])
    form = rng.choice(["int", "list", "find_min"])
    o0 = rng.choice(okcols)
    poles = sorted({float(v) for v in Fn[:, o0] if not math.isnan(v) and v > 0.2})
    picks = []
    for p in poles:
        if not picks or p > picks[-1] * 1.5 + 0.5:
            picks.append(p)
    picks = picks[: rng.randint(1, 3)] if picks else [1.0]
    freq = []
    for p in picks:
        # distances on both sides of the tolerance actually requested (0.3..0.9 rtol inside, 1.2..2.5 rtol outside), so that
        # a tolerance other than the user's (a default, a mis-routed argument) changes the outcome
        frac = rng.choice([0.3, 0.6, 0.9, 0.9, 1.2, 1.2, 2.5]) * rng.uniform(0.97, 1.03)
        freq.append(p / (1 + rng.choice([-1, 1]) * frac * rtol))
    if form == "int":
        order = o0
    elif form == "list":
        order = [rng.choice(okcols) for _ in freq]
    else:
        order = "find_min"
    if form != "find_min" and rng.random() < 0.25:  # the same columns counted from the end (Python ints)
        order = order - cols if form == "int" else [o - cols if rng.random() < 0.6 else o for o in order]
    return {"freq": freq, "order": order, "rtol": rtol, "kind": form}


def run_class(kind, alg, ss, cc):
    """alg.mpe through the setup; returns the stored result fields in the normal form"""
    try:
        with np.errstate(all="ignore"):
            ss.mpe("x", sel_freq=list(cc["freq"]), order=cc["order"], rtol=cc["rtol"])
        r = alg.result
        if kind.startswith("pLSCF"):
            return norm_out((r.Fn, r.Xi, r.Phi, r.order_out), False)
        return norm_out((r.Fn, r.Xi, r.Phi, r.order_out, r.Fn_cov, r.Xi_cov, r.Phi_cov), True)
    except Exception as e:  # noqa: BLE001
        return {"exc": type(e).__name__}


def _class_deltaf():
    """the classes never pass `deltaf` (C11_defaults_plscf): an extraction through them uses the routine's default, read from the tested tree"""
    import translate_defaults
    from common import REPO

    return translate_defaults.func_default(REPO, "plscf.pLSCF_mpe", "deltaf")


def case_of_result(kind, alg, cc):
    r = alg.result
    cov = None
    if not kind.startswith("pLSCF") and r.Fn_poles_cov is not None:
        cov = {"fn": np.asarray(r.Fn_poles_cov, float), "xi": np.asarray(r.Xi_poles_cov, float), "phi": np.asarray(r.Phi_poles_cov, float)}
    return {"freq": cc["freq"], "Fn": np.asarray(r.Fn_poles, float), "Xi": np.asarray(r.Xi_poles, float), "Phi": np.asarray(r.Phi_poles, complex),
            "Lab": np.asarray(r.Lab), "order": cc["order"], "rtol": cc["rtol"], "deltaf": _class_deltaf(), "cov": cov, "kind": cc["kind"]}


# ----------------------------------------------------------------------------- correspondence
# --- default values as regenerated obligations (Generated/Defaults.lean <- harness/translate_defaults.py; stream defaults[...])
import defaults_stream  # noqa: E402
from common import all_pre_build as pre_build  # noqa: E402,F401,F811  (runs EVERY translate_*.py)
LEAN_MODULES += ["PyomaVerif.Props.WiringDefaultsC11", "PyomaVerif.Props.WiringDefaultsLab"]
THEOREMS += ["PV.WiringDefaults.C11_defaults_ssi", "PV.WiringDefaults.C11_defaults_plscf", "PV.WiringDefaults.C11_label_literals", "PV.WiringDefaults.C11_label_literals_model", "PV.WiringDefaults.C11_label_literals_model_ssi"]


def correspondence(ctx):
    defaults_stream.correspondence(ctx, props=('C11',))
    n = ctx.n(1200, 10000)
    for k in range(n):
        malformed = ctx.rng.random() < 0.2
        labels7 = ctx.rng.random() < 0.35
        case = gen_case(ctx, malformed=malformed, labels7=labels7)
        rows, cols, d = case["Phi"].shape
        for which, call, op, w in (("ssi", call_ssi, "ssi_mpe", case["rtol"]), ("plscf", call_plscf, "plscf_mpe", case["deltaf"])):
            if near_edge(case, w):
                ctx.skipped += 1
                ctx.count("corr_skipped_near_edge")
                continue
            inp = model_inp(case, which)
            impl = call(case)
            model = ctx.model(op, **inp)
            ok = same_out(model, impl)
            fn = f"{'SSI_mpe' if which == 'ssi' else 'pLSCF_mpe'}[{case['kind']}]"
            ctx.corr(fn, ok, inp, model, impl, (rows, cols, len(case["freq"]), outcome(impl)))
            ctx.count(f"corr_{which}_{case['kind']}_{outcome(impl) if 'exc' in impl else ('found' if impl['fn'] else 'nothing')}")
            if "exc" not in impl:
                ctx.count(f"corr_shape_{which}_{case['kind']}_fn{len(impl['shapes']['fn'])}d_phi{len(impl['shapes']['phi'])}d" + ("_cov" if "fn_cov" in impl["shapes"] else ""))
        if k == 0:
            ctx.sample({"freq": case["freq"], "order": case["order"], "rtol": case["rtol"], "rows": rows, "cols": cols,
                        "Fn_col0": case["Fn"][:, 0].tolist()})
    corr_find_min_depth(ctx)
    corr_order_kinds(ctx)
    # through the classes: stored fields == function outputs == model
    for (kind, alg, ss) in real_runs(ctx, ctx.n(6, 18)):
        for _ in range(ctx.n(15, 60)):
            cc = class_case(ctx, kind, alg)
            if cc is None:
                ctx.skipped += 1
                continue
            stored = run_class(kind, alg, ss, cc)
            case = case_of_result(kind, alg, cc)
            which = "plscf" if kind.startswith("pLSCF") else "ssi"
            direct = call_plscf(case) if which == "plscf" else call_ssi(case)
            same_fields = stored == direct or (repr(stored) == repr(direct))
            if near_edge(case, case["rtol"] if which == "ssi" else 0.05):
                ctx.skipped += 1
                continue
            model = ctx.model("plscf_mpe" if which == "plscf" else "ssi_mpe", **model_inp(case, which))
            ok = same_fields and same_out(model, stored)
            ctx.corr(f"{kind[:-4] if kind.endswith('_unc') else kind}.mpe[{cc['kind']}]", ok, {"kind": kind, "freq": cc["freq"], "order": cc["order"], "rtol": cc["rtol"]},
                     model, {"stored": repr(stored)[:1500], "direct": repr(direct)[:1500]}, (kind, cc["kind"], outcome(stored)))
            ctx.count(f"corr_class_{kind}_{cc['kind']}")


# ----------------------------------------------------------------------------- the property, restated
def first_nearest(col, f):
    """first row of the column closest in frequency to f among the retained (non-NaN) poles"""
    best = None
    for r, v in enumerate(col):
        if v is None:
            continue
        dd = abs(v - f)
        if best is None or dd < best[0]:
            best = (dd, r)
    return None if best is None else best[1]


def is_close(v, f, rtol):
    return abs(v - f) <= ATOL + rtol * abs(f)


def spec_explicit(F, freq, orders, rtol):
    """expected list of cells (row, order) for explicit orders; None if outside the domain"""
    cells = []
    for f, o in zip(freq, orders):
        col = [F[r][o] for r in range(len(F))]
        r = first_nearest(col, f)
        if r is None:
            return None  # order without retained pole: outside the domain
        if is_close(col[r], f, rtol):
            cells.append((r, o))
    return cells


def spec_find_min(F, Lab, freq, w, closed, rtol):
    """(order, cells) of the lowest column where every request has exactly one stable pole within
    tolerance; (None, []) if there is none; 'ambiguous' if duplicate values make 'exactly one' unclear"""
    rows = len(F)
    cols = len(F[0]) if rows else 0
    for o in range(cols):
        cells = []
        good = True
        for f in freq:
            inband = [r for r in range(rows) if Lab[r][o] == 1 and F[r][o] is not None and F[r][o] != 0
                      and ((f - w <= F[r][o] <= f + w) if closed else (f - w < F[r][o] < f + w))]
            vals = {F[r][o] for r in inband}
            if len(inband) != len(vals):
                return "ambiguous", None
            if len(inband) != 1 or not is_close(F[inband[0]][o], f, rtol):
                good = False
                break
            cells.append((inband[0], o))
        if good:
            return o, cells
    return None, []


def expected_fields(case, cells, with_cov):
    Fn, Xi, Phi, cov = case["Fn"], case["Xi"], case["Phi"], case["cov"]
    e = {"fn": [float(Fn[r, o]) for r, o in cells], "xi": [float(Xi[r, o]) for r, o in cells],
         "phi": [[complex(z) for z in Phi[r, o, :]] for r, o in cells], "fn_cov": [], "xi_cov": [], "phi_cov": []}
    if with_cov and cov is not None:
        e["fn_cov"] = [float(cov["fn"][r, o]) for r, o in cells]
        e["xi_cov"] = [float(cov["xi"][r, o]) for r, o in cells]
        e["phi_cov"] = [[float(z) for z in cov["phi"][r, o, :]] for r, o in cells]
    return e


def fields_equal(a, b, keys):
    for k in keys:
        if len(a[k]) != len(b[k]):
            return False
        for x, y in zip(a[k], b[k]):
            if isinstance(x, list):
                if len(x) != len(y) or not all(_ceq(p, q) for p, q in zip(x, y)):
                    return False
            elif not _feq(x, y):
                return False
    return True


def judge(ctx, name, case, got, with_cov, w, closed):
    """compare one real outcome with the property; records at most one violation"""
    from c10 import fr_mat

    F = fr_mat(case["Fn"])
    freq = [Fraction(float(f)) for f in case["freq"]]
    rtol = Fraction(case["rtol"])
    kind = case["kind"]
    inp = {"fn": name, "freq": list(case["freq"]), "order": case["order"], "rtol": case["rtol"], "deltaf": case["deltaf"],
           "Fn": case["Fn"].tolist(), "Xi": case["Xi"].tolist(), "Phi_re": case["Phi"].real.tolist(), "Phi_im": case["Phi"].imag.tolist(),
           "Lab": None if case["Lab"] is None else np.asarray(case["Lab"]).tolist(),
           "cov": None if case["cov"] is None else {k: v.tolist() for k, v in case["cov"].items()}}
    if not bands_ok(case["freq"], w if kind == "find_min" else 0, case["rtol"]) or near_edge(case, w):
        ctx.skipped += 1
        ctx.count("oracle_skipped_bands_or_edge")
        return
    keys_all = ("fn", "xi", "phi") + (("fn_cov", "xi_cov", "phi_cov") if with_cov else ())
    if kind in ("int", "list"):
        orders = [case["order"]] * len(freq) if kind == "int" else list(case["order"])
        cells = spec_explicit(F, freq, orders, rtol)
        if cells is None:
            ctx.skipped += 1
            ctx.count("oracle_skipped_empty_order")
            return
        ctx.oracle_cases += 1
        ctx.count(f"oracle_{kind}_{'some' if cells else 'none'}_expected")
        if "exc" in got:
            ctx.violation(f"{name}-{kind}-raises", f"{name}: raised {got['exc']} although every requested order holds a retained pole", inp, got["exc"])
            return
        exp = expected_fields(case, cells, with_cov)
        if not fields_equal(exp, got, ("fn",)):
            if len(got["fn"]) > len(exp["fn"]):
                sig, what = "not-close-pole-returned", "a pole is returned for a requested frequency it is not close to"
            elif len(got["fn"]) < len(exp["fn"]):
                sig, what = "close-pole-not-returned", "the closest pole is within tolerance of its requested frequency but is not returned"
            else:
                sig, what = "wrong-pole-returned", "a pole other than the closest one of the requested order is returned"
            ctx.violation(f"{name}-{kind}-{sig}", f"{name} (order={kind}): {what}; returned Fn {got['fn']}, expected {exp['fn']}", inp, got["fn"], exp["fn"])
            return
        if not fields_equal(exp, got, keys_all):
            ctx.violation(f"{name}-{kind}-mixed-pole", f"{name} (order={kind}): damping/shape/covariance not taken from the pole whose frequency is returned",
                          inp, {k: repr(got[k]) for k in keys_all}, {k: repr(exp[k]) for k in keys_all})
            return
        eo = case["order"] if kind == "int" else {"arr": [int(v) for v in case["order"]]}
        if got["order_out"] != eo:
            ctx.violation(f"{name}-{kind}-order_out", f"{name}: order_out {got['order_out']} for requested {case['order']}", inp, got["order_out"], eo)
        return
    # find_min
    Lab = np.asarray(case["Lab"]).tolist()
    eo, cells = spec_find_min(F, Lab, freq, Fraction(w), closed, rtol)
    if eo == "ambiguous":
        ctx.skipped += 1
        ctx.count("oracle_skipped_duplicate_stable_poles")
        return
    ctx.oracle_cases += 1
    ctx.count(f"oracle_find_min_{'none' if eo is None else 'order'}_expected")
    if "exc" in got:
        ctx.violation(f"{name}-find_min-raises", f"{name}: find_min raised {got['exc']}", inp, got["exc"])
        return
    returned = len(got["fn"]) > 0 or len(got["xi"]) > 0
    if eo is None:
        if returned:
            ctx.violation(f"{name}-find_min-returns-without-qualifying-order",
                          f"{name}: find_min returns modes (order_out {got['order_out']}) although no order has exactly one stable pole within tolerance of every request",
                          inp, got["order_out"], None)
        return
    if not returned:
        ctx.violation(f"{name}-find_min-nothing-returned",
                      f"{name}: find_min returns no mode (order_out {got['order_out']}) although order {eo} has exactly one stable pole within tolerance of every requested frequency",
                      inp, got["order_out"], eo)
        return
    if got["order_out"] != eo:
        sig = "not-lowest-order" if isinstance(got["order_out"], int) and got["order_out"] > eo else "order-does-not-qualify"
        ctx.violation(f"{name}-find_min-{sig}", f"{name}: find_min reports order {got['order_out']}, the lowest qualifying order is {eo}", inp, got["order_out"], eo)
        return
    exp = expected_fields(case, cells, with_cov)
    if not fields_equal(exp, got, keys_all):
        ctx.violation(f"{name}-find_min-params-not-from-order", f"{name}: find_min order {eo}: returned parameters are not those of the stable poles of that order",
                      inp, {k: repr(got[k]) for k in keys_all}, {k: repr(exp[k]) for k in keys_all})


def oracle(ctx, scale):
    for _ in range(ctx.n(1500, 12000) * scale):
        case = gen_case(ctx)
        rows, cols, d = case["Phi"].shape
        g_ssi = call_ssi(case)
        judge(ctx, "SSI_mpe", case, g_ssi, True, case["rtol"], True)
        g_pl = call_plscf(case)
        judge(ctx, "pLSCF_mpe", case, g_pl, False, case["deltaf"], False)
        ctx.nontrivial.add(("oracle", case["kind"], rows, cols, len(case["freq"]), outcome(g_ssi), outcome(g_pl)))
    # explicit orders given as negative Python ints (-1 = the highest order): the same statement, columns counted from the end
    for _ in range(ctx.n(300, 3000) * scale):
        case = gen_case(ctx)
        if case["kind"] == "find_min":
            continue
        cols = case["Fn"].shape[1]
        if case["kind"] == "int":
            case["order"] = case["order"] - cols
        else:
            case["order"] = [o - cols if ctx.rng.random() < 0.7 else o for o in case["order"]]
        judge(ctx, "SSI_mpe", case, call_ssi(case), True, case["rtol"], True)
        judge(ctx, "pLSCF_mpe", case, call_plscf(case), False, case["deltaf"], False)
        ctx.count(f"oracle_negative_order_{case['kind']}")
    if scale == 1:
        for (kind, alg, ss) in real_runs(ctx, ctx.n(6, 18)):
            for _ in range(ctx.n(20, 80)):
                cc = class_case(ctx, kind, alg)
                if cc is None:
                    ctx.skipped += 1
                    continue
                stored = run_class(kind, alg, ss, cc)
                case = case_of_result(kind, alg, cc)
                # the _MS classes inherit mpe (C11_mpe_inherited): judged under the name of the class that defines it
                nm = "pLSCF.mpe" if kind.startswith("pLSCF") else "SSIcov.mpe"
                if kind.startswith("pLSCF"):
                    judge(ctx, nm, case, stored, False, 0.05, False)
                else:
                    judge(ctx, nm, case, stored, True, cc["rtol"], True)
                ctx.count(f"oracle_class_{kind}_{cc['kind']}")
                ctx.nontrivial.add(("class", kind, cc["kind"], outcome(stored)))


def replay(rec):
    v = rec["violation"]
    inp = v["input"]
    print("replaying", v["sig"], "-", v["what"])

    def arr(x, dt=float):
        return np.array(x, dtype=object).astype(str).astype(dt) if False else np.array(
            [[float("nan") if c == "nan" else c for c in row] for row in x], dtype=dt)

    def arr3(x):
        return np.array([[[float("nan") if c == "nan" else c for c in vec] for vec in row] for row in x], dtype=float)

    case = {"freq": inp["freq"], "order": inp["order"], "rtol": inp["rtol"], "deltaf": inp["deltaf"], "Fn": arr(inp["Fn"]), "Xi": arr(inp["Xi"]),
            "Phi": arr3(inp["Phi_re"]) + 1j * arr3(inp["Phi_im"]), "Lab": None if inp["Lab"] is None else np.array(inp["Lab"]),
            "cov": None if inp["cov"] is None else {"fn": arr(inp["cov"]["fn"]), "xi": arr(inp["cov"]["xi"]), "phi": arr3(inp["cov"]["phi"])},
            "kind": "find_min" if inp["order"] == "find_min" else ("int" if isinstance(inp["order"], int) else "list")}

    class C:
        oracle_cases = 0
        skipped = 0
        vs = []

        def count(self, *a, **k):
            pass

        def violation(self, sig, what, *a, **k):
            self.vs.append(sig)
            print("VIOLATION reproduced:", sig, "-", what)

    c = C()
    if inp["fn"].startswith("pLSCF"):
        judge(c, inp["fn"], case, call_plscf(case), False, case["deltaf"], False)
    else:
        judge(c, inp["fn"], case, call_ssi(case), True, case["rtol"], True)
    return 1 if c.vs else 0
