"""C03 — PreGER multi-setup SSI identifies the global system exactly on noise-free data."""
import itertools
import math

import numpy as np

import msgather
import sysgen
from c01 import record
from common import ModelError, R, Rmat, flmat, max_rel_err

from common import wiring_pre_build as pre_build  # noqa: E402,F401

LEAN_MODULES = ["PyomaVerif.Props.C03", "PyomaVerif.Props.C01", "PyomaVerif.Props.WiringRun", "PyomaVerif.Props.C03C11", "PyomaVerif.Props.C03E2E", "PyomaVerif.Props.C03Stored", "PyomaVerif.Props.WiringClass", "PyomaVerif.Props.WiringCalls", "PyomaVerif.Props.C03Split", "PyomaVerif.Mutants.MsGather", "PyomaVerif.Props.C03Excite", "PyomaVerif.Props.C01Excite", "PyomaVerif.Props.C03Table", "PyomaVerif.Props.C03Whole", "PyomaVerif.Props.WiringMs", "PyomaVerif.Props.C03StoredTable"]
THEOREMS = [
    # the split composed with the identification: user's datasets + ref_ind -> pre_multisetup -> what SSI_multi_setup hands to
    # build_hank -> C03_e2e_* (Props/C03Split.lean, Lemmas/MsGather.lean, Model/MsGather.lean); "after every preprocessing step"
    # through PV.C14.C14_invariant_multi
    "PV.C03Split.C03_split_models_agree",
    "PV.C03Split.C03_split_every_step",
    "PV.C03Split.C03_data_every_step",
    "PV.C03Split.C03_handover",
    "PV.C03Split.C03_e2e_cov_split",
    "PV.C03Split.C03_e2e_dat_split",
    "PV.C03Split.CovRec.ok",
    "PV.C03Split.DatRec.ok",
    "PV.C03Split.Ex.recovered",
    "PV.C03Split.ExD.recovered",
    "PV.Mutants.MsGather.none_ok",
    "PV.Mutants.MsGather.firstRefs_fails",
    "PV.Mutants.MsGather.sortedRefs_fails",
    "PV.Mutants.MsGather.firstCols_fails",
    "PV.Mutants.MsGather.movFirst_fails",
    "PV.MsGather.preMultisetupRec_ok",
    "PV.MsGather.vstack_gather",
    "PV.MsGather.preSplit_eq_foldl",
    "PV.C14.C14_invariant_multi",
    # end to end: per-setup records -> Hankel -> per-setup factor -> re-basing -> Obs_all -> realisation -> extraction
    # (Props/C03E2E.lean, Lemmas/MsFreeVib.lean)
    "PV.MsFreeVib.rebase_deficient",
    "PV.MsFreeVib.setup_parts",
    "PV.MsFreeVib.ms_obs_all",
    "PV.MsFreeVib.ms_realised",
    "PV.C03E2E.C03_e2e_core",
    "PV.C03E2E.CovSetup.ok",
    "PV.C03E2E.DatSetup.ok",
    "PV.C03E2E.C03_e2e_cov",
    "PV.C03E2E.C03_e2e_dat",
    # the per-setup rank condition (CovSetup.gam / DatSetup.gam) derived from the property's premises
    "PV.C03Excite.C03_setup_gam_of_premises",
    "PV.C03Excite.C03_setup_gam_of_modal",
    "PV.C03Excite.CovSetup.of_modal",
    "PV.C01Excite.C01_excited_of_modal",
    "PV.C01Excite.C01_observable_of_modal",
    "PV.C01Excite.C01_invertible_of_modal",
    "PV.C03E2E.Ex.cov0",
    "PV.C03E2E.Ex.cov1",
    "PV.C03E2E.Ex.hqr",
    "PV.C03E2E.Ex.recovered",
    "PV.C03E2E.ExD.dat0",
    "PV.C03E2E.ExD.dat1",
    "PV.C03E2E.ExD.hqr",
    "PV.C03E2E.ExD.recovered",
    # C03 o C11: multi-setup identification => extraction (Props/C03C11.lean)
    "PV.C03C11.C03C11_obs_all",
    "PV.C03C11.C03C11_identified",
    "PV.C03C11.C03C11_shape",
    "PV.C03C11.C03C11_cells",
    "PV.C03C11.C03C11_extract",
    "PV.C03C11.C03C11_global",
    "PV.C03C11.ex_identified",
    "PV.C03C11.ex_filled",
    "PV.C03C11.ex_near",
    # call-site wiring of the class layer, regenerated from /repo on every run (translate_wiring.py)
    "PV.WiringRun.C03_run_multi",
    "PV.WiringClass.C03_ms_inherited",
    "PV.WiringCalls.C03_ssidat_ms_run_calls",
    "PV.C03.C03_split",
    "PV.C03.C03_split_reject",
    "PV.C03.removeAll_spec",
    "PV.C03.C03_rows",
    "PV.C03.C03_rebase",
    "PV.C03.rebase_toMx",
    "PV.C03.C03_interleave",
    "PV.C03.movBlocks_get",
    "PV.C03.C03_assembled",
    "PV.C03.C03_identify",
    "PV.Multi.roving_cover",
    "PV.Multi.flatMap_blocks_get",
    "PV.C01.C01_realisation_fast",
    "PV.realisation_similar",
    # depth round (audit C03 gap 3): the multi-setup conclusion composed with the hard criteria -> the STORED tables
    "PV.C03Stored.C03_stored",
    # multi-setup pole table (ssiPoles on the lists of SSI_multi_setup) joined with the stored tables; no OrderFilled hypothesis
    "PV.C03Table.C03_e2e_table",
    "PV.C03Table.C03_columnFilled",
    "PV.C03StoredTable.C03_stored_table",
    "PV.C03StoredTable.C03_e2e_cov_stored_table",
    "PV.C03StoredTable.C03_e2e_dat_stored_table",
    "PV.C03Stored.Ex.stored",
    # depth round 2 (delta audit gap 4): ssi.SSI_multi_setup as ONE executed function (Model/MultiSetup.lean, op
    # ssi_multi_setup, stream ssi.SSI_multi_setup[whole]) and the class literals
    "PV.C03Whole.msObs_ok_iff",
    "PV.C03Whole.msSetupLoop_ok_iff",
    "PV.C03Whole.ssiMultiSetup_eq",
    "PV.C03Whole.ssiMultiSetup_returns",
    "PV.C03Whole.ssiMultiSetup_empty",
    "PV.C03Whole.ssiMultiSetup_step_zero",
    "PV.C03Whole.ssiMultiSetup_clip",
    "PV.C03Whole.C03_e2e_whole",
    "PV.C03Whole.Ex.returns",
    "PV.C03Whole.Ex.whole",
    "PV.WiringMs.C03_run_multi_literals",
    "PV.WiringMs.C03_run_multi_sites",
    # the multi-setup conclusion on the tables SSI_poles returns (Props/C03Table.lean)
    "PV.C03Table.Ex.table",
]
RULE = (
    "correspondence: record level (op ms_gather on symbolic datasets, every entry compared): gen.pre_multisetup with several "
    "setups per call incl. a malformed stream, MultiSetup_PreGER.data after construction and after preprocessing steps, and the "
    "arrays build_hank / svd receive in every pass of SSI_multi_setup (classes and function, dict keys in either order); "
    "gen.pre_multisetup (all ordered reference subsets incl. duplicates/out-of-range: accepted/rejected and the "
    "split, exact) and ssi.SSI_multi_setup with the per-setup svd/pinv and the final qr/inv recorded in the harness (row "
    "selection, re-basing, interleaving, A[n], C[n] vs the Lean model); ssi.SSI_multi_setup[whole]: the function as ONE model "
    "call (op ssi_multi_setup) on noise records and noise-free systems, 1..4 setups, 1..4 roving sensors, step 1..3, ordmax "
    "below / at / above 2m, cov_mm / cov_R / dat: head, build_hank arguments (exact), pinv / qr / inv ARGUMENTS, Obs_all, the "
    "lists A, C (lengths, shapes, values) and the exception class of empty Y, unequal sample counts, ordmax above the singular "
    "values, step 0, orders above the rows of O_p; oracle: global systems (1..5 modes), 2..4 setups, "
    "1..3 references and 1..4 roving sensors at any positions, per-setup gains over four decades, cov_mm and dat, through "
    "MultiSetup_PreGER + SSIcov_MS/SSIdat_MS; the split exhaustively for <= 4 (quick) / <= 6 (thorough) channels. "
    "distinct = (modes, setups, refs, roving counts, method)"
)
EXTRA_TRUSTED = ["contracts of np.linalg.svd / pinv / qr / inv, scipy.linalg.eig (as C01)"]
ASSUMPTIONS = ["reference indices are non-negative (a negative index makes list.remove raise like any index that is not a channel; the record-level model works with naturals)", "setups without any roving sensor are outside the property (pre_multisetup cannot reshape an empty block)", "cases whose per-setup Hankel singular-value gap is below 1e-7 are skipped and counted"]


def _split_cases(ctx, nmax):
    for n in range(2, nmax + 1):
        for k in range(1, n):  # proper subsets: a setup without roving sensors is outside the property (and the code)
            for ref in itertools.permutations(range(n), k):
                yield n, list(ref)


def _impl_split(n, ref):
    from pyoma2.functions import gen

    data = np.arange(n * 3, dtype=float).reshape(3, n) + 0.5  # 3 samples x n channels, each sample identifies its channel
    out = gen.pre_multisetup([data], [list(ref)])
    r, m = out[0]["ref"], out[0]["mov"]
    # recover which channel each row is, and that the samples are intact
    chan = {tuple(data[:, c]): c for c in range(n)}
    return [chan[tuple(row)] for row in r], [chan[tuple(row)] for row in m]


def correspondence(ctx):
    from pyoma2.functions import gen, ssi

    rng = ctx.rng
    # ---- the split, exhaustive over ordered subsets + a malformed stream
    nmax = ctx.n(4, 6)
    for n, ref in _split_cases(ctx, nmax):
        impl = _impl_split(n, ref)
        m = ctx.model("pre_split", n=n, ref=ref)
        ctx.corr("gen.pre_multisetup", (m["ref"], m["mov"]) == (impl[0], impl[1]), {"n": n, "ref": ref}, m, impl, ("split", n, tuple(ref)))
    for _ in range(ctx.n(30, 300)):
        n = rng.randint(1, 6)
        ref = [rng.randint(0, n + 1) for _ in range(rng.randint(1, 4))]
        try:
            impl = _impl_split(n, ref)
            impl_out = ("ok", impl)
        except (ValueError, IndexError) as e:
            impl_out = ("rejected", type(e).__name__)
        try:
            m = ctx.model("pre_split", n=n, ref=ref)
            mod_out = ("ok", (m["ref"], m["mov"]))
            if not m["mov"]:
                ctx.skipped += 1
                continue
        except ModelError:
            mod_out = ("rejected", None)
        ok = impl_out[0] == mod_out[0] and (impl_out[0] == "rejected" or tuple(map(list, impl_out[1])) == tuple(map(list, mod_out[1])))
        ctx.corr("gen.pre_multisetup[malformed]", ok, {"n": n, "ref": ref}, mod_out, impl_out, ("splitbad", n, tuple(ref)))
        ctx.count("split_" + impl_out[0])
    _records_streams(ctx)
    # ---- SSI_multi_setup with recorded LAPACK results
    for k in range(ctx.n(8, 150)):
        case = _ms_case(ctx, small=True)
        if case is None:
            continue
        S, layout, datasets, ref_ind, br, ordmax, method, gains = case
        Y = gen.pre_multisetup(datasets, ref_ind)
        if ctx.rng.random() < 0.5:
            # the per-setup records are a dict with the keys 'ref' and 'mov': their insertion order carries no meaning
            Y = [{"mov": y["mov"], "ref": y["ref"]} for y in Y]
            ctx.count("setup_dict_mov_first")
        svds, pinvs, qrs, invs = [], [], [], []
        Y_in = [{k_: np.array(v_, copy=True) for k_, v_ in y.items()} for y in Y]
        try:
            with record(np.linalg, "svd", svds), record(np.linalg, "pinv", pinvs), record(np.linalg, "qr", qrs), record(np.linalg, "inv", invs):
                Obs_all, A, C = ssi.SSI_multi_setup(Y, S.fs, br, ordmax, method_hank=method)
        except (ValueError, np.linalg.LinAlgError):
            ctx.skipped += 1
            continue
        # the split handed in belongs to the caller (MultiSetup_PreGER.data, shared by every algorithm of the setup)
        ctx.corr("ssi.SSI_multi_setup[inputs kept]", all(np.array_equal(y[k_], yi[k_]) for y, yi in zip(Y, Y_in) for k_ in ("ref", "mov")),
                 {"br": br, "method": method}, "unchanged", "modified", None)
        nref = len(ref_ind[0])
        nmov = [d.shape[1] - nref for d in datasets]
        rows_src = ctx.model("multi_all_rows", br=br, nref=nref, nmov=nmov)
        O_movs = []
        O1_ref = None
        for i in range(len(datasets)):
            U, SIG, _Vt = svds[i][1]
            Hs = np.asarray(svds[i][0][0])
            ks = len(SIG)
            ctx.contract("svd", max(np.abs((U[:, :ks] * SIG) @ _Vt[:ks, :] - Hs).max() / max(np.abs(Hs).max(), 1e-300), np.abs(U.T @ U - np.eye(U.shape[1])).max()),
                         1e-10, "H = U diag(S) V^T, U^T U = I (per setup)")
            Obs = U[:, :ordmax] * np.sqrt(SIG[:ordmax])[None, :]
            idx = ctx.model("multi_rows", br=br, nref=nref, nmov=nmov[i])
            O_ref, O_mov = Obs[idx["ref_rows"], :], Obs[idx["mov_rows"], :]
            if i == 0:
                O1_ref = O_ref
            P = pinvs[i][1]
            if nmov[i] > 0:
                mm = ctx.model("multi_rebase", Omov=Rmat(O_mov), pinv=Rmat(P), O1ref=Rmat(O1_ref))
                O_movs.append(np.array(flmat(mm)).reshape(O_mov.shape[0], O1_ref.shape[1]))
            else:
                O_movs.append(np.zeros((0, O1_ref.shape[1])))
        model_all = np.array([O1_ref[s[1]] if s[0] == "ref" else O_movs[s[1]][s[2]] for s in rows_src])
        scale = max(np.abs(p[1]).max() for p in pinvs) * np.abs(O1_ref).max() * max(np.abs(o).max() if o.size else 0 for o in O_movs + [O1_ref])
        tol = 1e-12 + 1e-13 * ordmax * scale / max(np.abs(Obs_all).max(), 1e-300)
        ok = model_all.shape == Obs_all.shape and max_rel_err(model_all, Obs_all) <= tol
        ctx.corr("ssi.SSI_multi_setup[Obs_all]", bool(ok), {"br": br, "nref": nref, "nmov": nmov, "ordmax": ordmax, "method": method}, None, None,
                 ("ms", len(datasets), nref, tuple(nmov), br, method))
        Q, _Rm = qrs[-1][1]
        Rinv = [np.asarray(o) for (_a, o) in invs]
        if len(Rinv) != ordmax + 1:
            # inv(R[:n,:n]) no longer formed explicitly by the code (e.g. np.linalg.solve): float inverse of the recorded factor
            Rinv = [np.linalg.inv(_Rm[:n, :n]) for n in range(ordmax + 1)]
            ctx.count("fast_inverse_not_recorded")
        ndof = nref + sum(nmov)
        mm = ctx.model("fast_from_obs", Obs=Rmat(Obs_all), Q=Rmat(Q), Rinv=[Rmat(x) if x.size else [] for x in Rinv], l=ndof, ordmax=ordmax)

        def tolA(n):
            return 1e-12 + 1e-13 * n * np.abs(Rinv[n]).max() * np.abs(Obs_all).max() * Obs_all.shape[0] / max(np.abs(A[n]).max(), 1e-300)

        ok = all(max_rel_err(np.array(flmat(mm["A"][n])).reshape(n, n), A[n]) <= tolA(n) for n in range(1, ordmax + 1))
        ok = ok and all(max_rel_err(np.array(flmat(mm["C"][n])).reshape(ndof, n), C[n]) <= 1e-12 for n in range(1, ordmax + 1))
        ctx.corr("ssi.SSI_multi_setup[A,C]", bool(ok), {"br": br, "nref": nref, "nmov": nmov, "ordmax": ordmax}, None, None, ("msAC", ndof, ordmax))
        if k == 0:
            ctx.sample({"setups": len(datasets), "ref_ind": ref_ind, "nmov": nmov, "br": br, "ordmax": ordmax, "method": method, "gains": gains})
    _whole_stream(ctx)


# ---- ssi.SSI_multi_setup as ONE function (Model/MultiSetup.lean `ssiMultiSetup`, op `ssi_multi_setup`)
_WL = 100000


def _whole_realise(mat, Y):
    """the array a label matrix of op ssi_multi_setup stands for (label = ((2*kk + part)*1000 + row)*100000 + col)"""
    if len(mat) == 0:
        return np.zeros((0, 0))
    Lb = np.array(mat, dtype=np.int64).reshape(len(mat), -1)
    col, q = Lb % _WL, Lb // _WL
    row, q = q % 1000, q // 1000
    out = np.empty(Lb.shape)
    for i in range(Lb.shape[0]):
        for j in range(Lb.shape[1]):
            out[i, j] = Y[int(q[i, j]) // 2]["ref" if q[i, j] % 2 == 0 else "mov"][row[i, j], col[i, j]]
    return out


def _whole_arr(m, shape=None):
    a = np.array(flmat(m), dtype=float)
    if shape is not None:
        a = a.reshape(shape)
    elif a.ndim == 1:
        a = a.reshape(len(m), 0)
    return a


def _whole_run(ctx, Y, br, ordmax, step, method):
    """run the real function with every LAPACK call recorded, then the model on what was recorded"""
    from pyoma2.functions import ssi

    hanks, svds, sqrts, pinvs, qrs, invs = [], [], [], [], [], []
    try:
        with record(ssi, "build_hank", hanks), record(np.linalg, "svd", svds), record(np, "sqrt", sqrts), \
                record(np.linalg, "pinv", pinvs), record(np.linalg, "qr", qrs), record(np.linalg, "inv", invs):
            impl = ("ok", ssi.SSI_multi_setup(Y, 100.0, br, ordmax, method_hank=method, step=step))
    except (ValueError, IndexError, np.linalg.LinAlgError) as e:
        impl = ("raise", type(e).__name__)
    sq = []
    msq = [o for (a, o) in sqrts if np.ndim(o) == 2 and o.shape[0] == o.shape[1]]
    for kk, (a, o) in enumerate(svds):
        if kk < len(msq) and msq[kk].shape[0] == len(o[1]):
            sq.append(np.diag(msq[kk]))
        else:
            sq.append(np.sqrt(o[1]))
            ctx.count("whole_sqrt_not_recorded")
    empty = []
    rec = dict(U=[Rmat(o[0]) for (a, o) in svds], sq=[[R(v) for v in x] for x in sq],
               P=[Rmat(o) for (a, o) in pinvs],
               Q=Rmat(qrs[-1][1][0]) if qrs else empty, R=Rmat(qrs[-1][1][1]) if qrs else empty,
               Rshape=list(np.shape(qrs[-1][1][1])) if qrs else [0, 0],
               Rinv=[Rmat(o) if np.size(o) else empty for (a, o) in invs])
    shapes = [{"ref": list(np.shape(y["ref"])), "mov": list(np.shape(y["mov"]))} for y in Y]
    m = ctx.model("ssi_multi_setup", Y=shapes, br=br, ordmax=ordmax, step=step, **rec)
    return impl, m, dict(hanks=hanks, svds=svds, pinvs=pinvs, qrs=qrs, invs=invs)


def _whole_noise_case(ctx):
    rng, g = ctx.rng, ctx.nprng()
    nset = rng.randint(1, ctx.n(3, 4))
    nref = rng.randint(1, ctx.n(2, 3))
    nmov = [rng.randint(1, 4) for _ in range(nset)]
    br = rng.randint(1, 3)
    N = rng.randint(60, 140)
    Y = []
    for nm in nmov:
        gain = 10 ** rng.uniform(-1, 1)
        d = {"ref": g.standard_normal((nref, N)) * gain, "mov": g.standard_normal((nm, N)) * gain}
        if rng.random() < 0.5:
            d = {"mov": d["mov"], "ref": d["ref"]}
        Y.append(d)
    ordmax = rng.randint(1, nref * (br + 1))
    return Y, nref, nmov, br, ordmax, rng.choice(["cov_mm", "cov_R", "dat"]), "noise"


def _whole_system_case(ctx):
    from pyoma2.functions import gen

    case = _ms_case(ctx, small=True)
    if case is None:
        return None
    S, layout, datasets, ref_ind, br, ordmax, method, gains = case
    Y = gen.pre_multisetup(datasets, ref_ind)
    nref = len(ref_ind[0])
    nmov = [d.shape[1] - nref for d in datasets]
    # fewer, as many and more orders than the 2m the noise-free records support
    n = ordmax
    ordmax = ctx.rng.choice([max(1, n - 1), n, n, min(n + ctx.rng.randint(1, 2), nref * (br + 1))])
    return Y, nref, nmov, br, ordmax, method, "system_ordmax_" + ("lt" if ordmax < n else "eq" if ordmax == n else "gt") + "_2m"


def _whole_stream(ctx):
    rng = ctx.rng
    for k in range(ctx.n(30, 400)):
        case = _whole_system_case(ctx) if k % 3 == 2 else _whole_noise_case(ctx)
        if case is None:
            ctx.skipped += 1
            continue
        Y, nref, nmov, br, ordmax, method, kind = case
        step = rng.choice([1, 1, 2, 3])
        impl, m, rec = _whole_run(ctx, Y, br, ordmax, step, method)
        inp = {"kind": kind, "nref": nref, "nmov": nmov, "br": br, "ordmax": ordmax, "step": step, "method": method}
        key = ("whole", kind, len(Y), nref, tuple(nmov), br, ordmax, step, method)
        if "raises" in m and m["raises"].startswith("unmodelled"):
            ctx.skipped += 1
            ctx.count("whole_unmodelled")
            continue
        if impl[0] == "raise" and impl[1] == "LinAlgError" and "raises" not in m:
            # a numerically singular R[:i, :i] (noise-free records, orders above 2m): the inverse is outside the model
            ctx.skipped += 1
            ctx.count("whole_singular_R")
            continue
        if impl[0] == "raise" or "raises" in m:
            # e.g. an order above the rows of O_p (inv of a clipped, non-square block): same exception class on both sides
            ok = impl[0] == "raise" and m.get("raises") == impl[1]
            ctx.corr("ssi.SSI_multi_setup[whole]", ok, inp, m.get("raises", "returns"), impl[1] if impl[0] == "raise" else "returns", key)
            ctx.count("whole_raise_" + str(impl[1] if impl[0] == "raise" else "model_only"))
            continue
        Obs_all, A, C = impl[1]
        ndof = nref + sum(nmov)
        why = []
        h = m["head"]
        if (h["n_setup"], h["n_ref"], h["n_mov"], h["n_DOF"]) != (len(Y), nref, nmov, ndof):
            why.append("head")
        # build_hank arguments: entry by entry the rows of the caller's records
        if len(rec["hanks"]) != len(Y) or len(m["hank"]) != len(Y):
            why.append("hank-count")
        else:
            for kk, (a, _o) in enumerate(rec["hanks"]):
                kw = {}
                if not (msgather.same(a[0], _whole_realise(m["hank"][kk]["Y_all"], Y))
                        and msgather.same(a[1], _whole_realise(m["hank"][kk]["Y_ref"], Y)) and a[2] == br):
                    why.append(f"hank-args[{kk}]")
        # pinv arguments (one rounding per entry: U[i, j] * sqrt(S)[j])
        if len(rec["pinvs"]) != len(Y):
            why.append("pinv-count")
        else:
            for kk, (a, _o) in enumerate(rec["pinvs"]):
                want = _whole_arr(m["pinvargs"][kk])
                if want.shape != np.shape(a[0]) or max_rel_err(want, a[0]) > 1e-15:
                    why.append(f"pinv-arg[{kk}]")
        # Obs_all, qr argument
        pm = max(np.abs(o).max() for (_a, o) in rec["pinvs"])
        om = max(np.abs(a[0]).max() for (a, _o) in rec["pinvs"])
        amax = max(np.abs(Obs_all).max(), 1e-300)
        tol = 1e-12 + 1e-13 * ordmax * pm * om * om * br * max(nref, 1) / amax
        mo = _whole_arr(m["Obs_all"], tuple(m["obs_shape"]))
        if mo.shape != Obs_all.shape or max_rel_err(mo, Obs_all) > tol:
            why.append("Obs_all")
        qa = np.asarray(rec["qrs"][-1][0][0])
        mq = _whole_arr(m["qrarg"], (mo.shape[0] - ndof, ordmax))
        if len(rec["qrs"]) != 1 + (len(Y) if method == "dat" else 0) or mq.shape != qa.shape or np.abs(mq - qa).max(initial=0.0) > tol * amax:
            why.append("qr-arg")
        # inv arguments: leading blocks of the recorded R, exactly, one per visited order
        orders = list(range(0, ordmax + 1, step))
        if len(rec["invs"]) != len(orders) or len(m["invargs"]) != len(orders):
            why.append("inv-count")
        else:
            for n, (a, _o), mi in zip(orders, rec["invs"], m["invargs"]):
                if not np.array_equal(_whole_arr(mi, (n, n)), np.asarray(a[0])):
                    why.append(f"inv-arg[{n}]")
        # the lists
        if len(A) != len(orders) or len(C) != len(orders) or len(m["A"]) != len(orders) or len(m["C"]) != len(orders):
            why.append("list-lengths")
        else:
            for pos, n in enumerate(orders):
                Ri = np.asarray(rec["invs"][pos][1])
                tA = 1e-12 + 1e-13 * max(n, 1) * (np.abs(Ri).max() if Ri.size else 0.0) * amax * Obs_all.shape[0] * (1 + tol) / max(np.abs(A[pos]).max() if A[pos].size else 1.0, 1e-300)
                if np.shape(A[pos]) != (n, n) or max_rel_err(_whole_arr(m["A"][pos], (n, n)), A[pos]) > tA:
                    why.append(f"A[{pos}]")
                if tuple(m["Cshapes"][pos]) != np.shape(C[pos]) or np.shape(C[pos]) != (ndof, n) or \
                        np.abs(_whole_arr(m["C"][pos], (ndof, n)) - C[pos]).max(initial=0.0) > tol * amax:
                    why.append(f"C[{pos}]")
        ctx.corr("ssi.SSI_multi_setup[whole]", not why, inp, why, "returns", key)
        ctx.count("whole_" + kind)
        ctx.count(f"whole_step{step}")
        ctx.count(f"whole_nmov{max(nmov)}")
    # exception branches, first in program order
    g = ctx.nprng()
    for k in range(ctx.n(8, 40)):
        kind = ["empty", "samples", "clip", "step0", "rows"][k % 5]
        nref, br, N = rng.randint(1, 2), rng.randint(1, 3), rng.randint(40, 80)
        nmov = [rng.randint(1, 3) for _ in range(rng.randint(1, 3))]
        Y = [{"ref": g.standard_normal((nref, N)), "mov": g.standard_normal((nm, N))} for nm in nmov]
        ordmax, step = rng.randint(1, nref * (br + 1)), rng.choice([1, 2])
        if kind == "empty":
            Y = []
        elif kind == "samples":
            j = rng.randrange(len(Y))
            Y[j]["mov"] = Y[j]["mov"][:, :-1]
        elif kind == "clip":
            ordmax = nref * (br + 1) + rng.randint(1, 3)
        elif kind == "step0":
            step = 0
        elif kind == "rows":
            # more orders than O_p has rows: inv of a clipped block
            nref, br, nmov = 2, 2, [1]
            Y = [{"ref": g.standard_normal((nref, N)), "mov": g.standard_normal((1, N))}]
            ordmax, step = 4, 1
        impl, m, _rec = _whole_run(ctx, Y, br, ordmax, step, "cov_mm")
        ok = impl[0] == "raise" and m.get("raises") == impl[1]
        ctx.corr("ssi.SSI_multi_setup[whole exceptions]", ok, {"kind": kind, "nref": nref, "nmov": nmov, "br": br, "ordmax": ordmax, "step": step},
                 m.get("raises", "returns"), impl[1] if impl[0] == "raise" else "returns", ("wholeexc", kind))
        ctx.count("whole_exc_" + kind)


def _records_streams(ctx):
    """record level (Model/MsGather.lean, op ms_gather): several setups at once through gen.pre_multisetup, through the
    MultiSetup_PreGER object (also after a preprocessing step) and on to what SSI_multi_setup hands to build_hank / svd"""
    from pyoma2.algorithms.ssi import SSIcov_MS, SSIdat_MS
    from pyoma2.functions import gen, ssi
    from pyoma2.setup import MultiSetup_PreGER

    rng = ctx.rng
    g = ctx.nprng()
    # (a) the function, all setups in one call (cross-setup mix-ups are visible only here), plus a malformed stream
    for k in range(ctx.n(60, 900)):
        kind = "valid" if k % 3 else msgather.MALFORMED[(k // 3) % len(msgather.MALFORMED)]
        shapes, ref_ind = msgather.split_case(rng, kind)
        datasets = [msgather.label_array(i, *sh) for i, sh in enumerate(shapes)]
        m = ctx.model("ms_gather", shapes=shapes, ref_ind=ref_ind)
        try:
            impl = ("ok", gen.pre_multisetup([d.copy() for d in datasets], [list(r) for r in ref_ind]))
        except (ValueError, IndexError) as e:
            impl = ("raise", type(e).__name__)
        ctx.corr("gen.pre_multisetup[records]", msgather.split_agrees(m, impl, datasets), {"shapes": shapes, "ref_ind": ref_ind},
                 m.get("raise", "split"), impl[0] if impl[0] == "ok" else impl[1],
                 ("rec", kind, len(shapes), tuple(len(r) for r in ref_ind)))
        ctx.count("records_" + ("raise" if "raise" in m else "ok"))
    # (b) the object: data after construction and after a preprocessing step is the split of the CURRENT datasets by the
    #     constructor's ref_ind (C03_split_every_step / C03_data_every_step)
    for k in range(ctx.n(24, 300)):
        shapes, ref_ind = msgather.split_case(rng, "valid", nmin=40, nmax=90)
        datasets = [g.standard_normal(tuple(sh)) for sh in shapes]
        fs = rng.choice([10.0, 100.0, 64.0])
        ms = MultiSetup_PreGER(fs=fs, ref_ind=[list(r) for r in ref_ind], datasets=[d.copy() for d in datasets])
        steps = rng.choice([[], ["rollback"], ["detrend"], ["decimate"], ["filter"], ["detrend", "decimate"], ["decimate", "filter"],
                            ["filter", "rollback"]])
        for st in steps:
            if st == "rollback":
                ms.rollback()
            elif st == "detrend":
                ms.detrend_data()
            elif st == "decimate":
                ms.decimate_data(q=2)
            else:
                ms.filter_data(Wn=ms.fs / 8, order=2)
        cur = [np.asarray(d) for d in ms.datasets]
        m = ctx.model("ms_gather", shapes=[list(d.shape) for d in cur], ref_ind=ref_ind)
        ok = msgather.split_agrees(m, ("ok", ms.data), cur)
        ctx.corr("MultiSetup_PreGER.data[records]", ok, {"shapes": shapes, "ref_ind": ref_ind, "steps": steps}, None, None,
                 ("obj", tuple(steps), len(shapes)))
        ctx.count("object_after_" + ("+".join(steps) or "init"))
    # (c) the hand-over: what build_hank (and then the svd) receives in every pass of SSI_multi_setup, through the classes
    #     and through the function with per-setup dicts built 'mov' first
    for k in range(ctx.n(16, 200)):
        shapes, ref_ind = msgather.split_case(rng, "valid", nmin=50, nmax=90, same_nref=True)
        if len(shapes) < 2:
            shapes, ref_ind = shapes * 2, ref_ind * 2
        datasets = [g.standard_normal(tuple(sh)) for sh in shapes]
        nref = len(ref_ind[0])
        br = rng.randint(2, 3)
        ordmax = rng.randint(1, (br + 1) * nref)
        method = rng.choice(["cov_mm", "dat"])
        m = ctx.model("ms_gather", shapes=shapes, ref_ind=ref_ind)
        hanks, svds = [], []
        via = "class" if k % 2 == 0 else "function"
        shape_all = None
        with record(ssi, "build_hank", hanks), record(np.linalg, "svd", svds):
            try:
                if via == "class":
                    ms = MultiSetup_PreGER(fs=100.0, ref_ind=[list(r) for r in ref_ind], datasets=[d.copy() for d in datasets])
                    alg = (SSIcov_MS(name="a", br=br, ordmax=ordmax, method="cov_mm") if method == "cov_mm"
                           else SSIdat_MS(name="a", br=br, ordmax=ordmax))
                    ms.add_algorithms(alg)
                    ms.run_by_name("a")
                else:
                    Y = gen.pre_multisetup([d.copy() for d in datasets], [list(r) for r in ref_ind])
                    Y = [{"mov": y["mov"], "ref": y["ref"]} for y in Y]
                    shape_all = ssi.SSI_multi_setup(Y, 100.0, br, ordmax, method_hank=method)[0].shape
            except (ValueError, np.linalg.LinAlgError):
                ctx.count("handover_tail_raised")
        ok = "raise" not in m and len(hanks) == len(shapes) == len(svds[: len(shapes)])
        if ok:
            for kk, (a, out) in enumerate(hanks):
                want_all = msgather.realise(m["hank"][kk]["Y_all"], datasets)
                want_ref = msgather.realise(m["hank"][kk]["Y_ref"], datasets)
                ok = ok and msgather.same(a[0], want_all) and msgather.same(a[1], want_ref) and a[2] == br
                # ... and the svd of that pass received the Hankel matrix of exactly these two arrays
                H = ssi.build_hank(want_all, want_ref, br, method=method, calc_unc=False)[0]
                ok = ok and msgather.same(svds[kk][0][0], np.asarray(H))
            if shape_all is not None:
                ok = ok and tuple(shape_all) == (m["head"]["n_DOF"] * br, ordmax) and m["head"]["n_ref"] == nref
        ctx.corr("ssi.SSI_multi_setup[hand-over]", bool(ok), {"shapes": shapes, "ref_ind": ref_ind, "br": br, "method": method, "via": via},
                 None, None, ("handover", via, method, len(shapes), nref))
        ctx.count("handover_" + via)


def _ms_case(ctx, small=False):
    """one global system seen by several setups (shared references), per-setup gain and initial condition"""
    rng = ctx.rng
    g = ctx.nprng()
    for _ in range(50):
        m = rng.randint(1, 2 if small else 5)
        nset = rng.randint(2, 3 if small else 4)
        nref = rng.randint(1, 2 if small else 3)
        nmov = [rng.randint(1, 2 if small else 4) for _ in range(nset)]
        if not small and rng.random() < 0.25:
            # as many modes as sensors in total: the merged mode-shape matrix is square
            nset, nref = 2, rng.randint(1, 2)
            nmov = [1, rng.randint(1, 2)]
            m = nref + sum(nmov)
        nglob = nref + sum(nmov)
        fs = rng.choice([10.0, 100.0, 50.0])
        cs = rng.random() < 0.4
        S = sysgen.random_system(rng, g, m, nglob, fs, cs)
        if not small and m >= 2 and rng.random() < 0.25:
            # two distinct modes 0.8 % .. 4 % apart in frequency (closer than the default matching tolerance of the extraction
            # step): still distinct frequencies, identified exactly from noise-free data and extracted as two modes
            j = rng.randrange(m - 1)
            f2 = S.fn[j] * (1.0 + rng.uniform(0.008, 0.04))
            if f2 < (S.fn[j + 2] - 0.02 * fs if j + 2 < m else 0.45 * fs):
                fn = S.fn.copy()
                fn[j + 1] = f2
                S = sysgen.ModalSystem(fn, S.xi, S.phi, fs)
                ctx.count("system_close_mode_pair")
        if np.min(np.abs(S.phi[:nref, :]).max(axis=0)) < 0.3:
            continue
        # stress stream: one mode only weakly visible at the references (still visible: the property's premise holds);
        # the re-basing pseudo-inverse is then ill-conditioned (1e3..1e6) but the identification stays accurate
        S.weak = None
        if not small and rng.random() < 0.4:
            S.weak = 10 ** -rng.uniform(2, 4.5)
            S.phi[:nref, rng.randrange(m)] *= S.weak
        idx = sysgen.observability_index(S, range(nref), tol=(1e-9 if S.weak else 1e-6))
        if idx is None or (small and idx > 4):
            continue
        br = idx + 1 + rng.randint(0, 2)
        ordmax = 2 * m
        N = rng.randint(400, 1000)
        datasets, ref_ind, gains = [], [], []
        layout = []
        off = nref
        for i in range(nset):
            rov = list(range(off, off + nmov[i]))
            off += nmov[i]
            n = nref + nmov[i]
            pos = rng.sample(range(n), nref)
            chan = [None] * n
            for p, r in zip(pos, range(nref)):
                chan[p] = r
            it = iter(rov)
            for c in range(n):
                if chan[c] is None:
                    chan[c] = next(it)
            amp = g.standard_normal(m) + 1j * g.standard_normal(m)
            amp /= np.abs(amp)
            gain = 10 ** rng.uniform(-2, 2)
            y = S.response(N, amp)[:, chan] * gain
            datasets.append(y)
            ref_ind.append(pos)
            gains.append(gain)
            layout.append(chan)
        method = rng.choice(["cov_mm", "dat"])
        return S, layout, datasets, ref_ind, br, ordmax, method, gains
    return None


def oracle(ctx, scale):
    from pyoma2.algorithms.ssi import SSIcov_MS, SSIdat_MS
    from pyoma2.functions import gen, ssi
    from pyoma2.setup import MultiSetup_PreGER

    # the split through the object that builds it
    nmax = ctx.n(4, 6)
    for n, ref in _split_cases(ctx, nmax):
        r, m = _impl_split(n, ref)
        ctx.oracle_cases += 1
        want_m = [c for c in range(n) if c not in ref]
        if r != list(ref) or m != want_m:
            ctx.violation("split", f"pre_multisetup: channels {n}, references {ref}: reference rows {r}, roving rows {m}", {"n": n, "ref": ref},
                          observed=[r, m], expected=[list(ref), want_m])
            return
    for k in range(ctx.n(20, 500) * scale):
        case = _ms_case(ctx)
        if case is None:
            continue
        S, layout, datasets, ref_ind, br, ordmax, method, gains = case
        nref = len(ref_ind[0])
        m2 = 2 * S.m
        inp = {"fn": S.fn.tolist(), "xi": S.xi.tolist(), "phi": [[str(v) for v in r] for r in S.phi.tolist()], "fs": S.fs, "layout": layout,
               "ref_ind": ref_ind, "br": br, "method": method, "gains": gains, "N": datasets[0].shape[0], "case": f"seed{ctx.seed}#{k}"}
        ms = MultiSetup_PreGER(fs=S.fs, ref_ind=[list(r) for r in ref_ind], datasets=[d.copy() for d in datasets])
        # split inside the object: every channel's samples intact
        for i, d in enumerate(datasets):
            rr, mm = ms.data[i]["ref"], ms.data[i]["mov"]
            want_ref = d[:, ref_ind[i]].T
            want_mov = d[:, [c for c in range(d.shape[1]) if c not in ref_ind[i]]].T
            ctx.oracle_cases += 1
            if not (np.array_equal(rr, want_ref) and np.array_equal(mm, want_mov)):
                ctx.violation("split-object", "MultiSetup_PreGER.data: reference rows not in listed order / roving rows not ascending / samples altered", inp | {"setup": i})
                return
        # ... and after a preprocessing step (on a second object, so that the identification below sees the raw data)
        if k % 2 == 0:
            from scipy import signal as sps

            ms2 = MultiSetup_PreGER(fs=S.fs, ref_ind=[list(r) for r in ref_ind], datasets=[d.copy() for d in datasets])
            step = ctx.rng.choice(["detrend", "decimate", "detrend+decimate", "decimate+rollback"])
            if step == "detrend":
                ms2.detrend_data()
                proc = [sps.detrend(d, axis=0) for d in datasets]
            elif step == "decimate":
                ms2.decimate_data(q=2)
                proc = [sps.decimate(d, 2, axis=0) for d in datasets]
            elif step == "detrend+decimate":
                ms2.detrend_data()
                ms2.decimate_data(q=2)
                proc = [sps.decimate(sps.detrend(d, axis=0), 2, axis=0) for d in datasets]
            else:
                ms2.decimate_data(q=2)
                ms2.rollback()
                proc = [d for d in datasets]
                ctx.oracle_cases += 1
                if ms2.fs != S.fs or abs(ms2.dt - 1 / S.fs) > 1e-15:
                    ctx.violation("rollback-sampling", f"MultiSetup_PreGER.rollback after decimate_data: fs={ms2.fs}, dt={ms2.dt}, expected {S.fs}, {1 / S.fs}", inp | {"step": step})
                    return
            for i, d in enumerate(proc):
                want_ref = d[:, ref_ind[i]].T
                want_mov = d[:, [c for c in range(d.shape[1]) if c not in ref_ind[i]]].T
                ctx.oracle_cases += 1
                rr, mm = ms2.data[i]["ref"], ms2.data[i]["mov"]
                if rr.shape != want_ref.shape or mm.shape != want_mov.shape or not (np.allclose(rr, want_ref, rtol=1e-10, atol=1e-12) and np.allclose(mm, want_mov, rtol=1e-10, atol=1e-12)):
                    ctx.violation("split-after-preprocessing", f"MultiSetup_PreGER.data after {step}_data: reference rows not in the listed order / roving rows not ascending / samples altered",
                                  inp | {"setup": i, "step": step})
                    return
            ctx.count(f"split_after_{step}")
        hc = dict(conj=False, xi_max=1.0, mpc_lim=0.0, mpd_lim=math.pi / 2, cov_max=1e9)
        cls = SSIcov_MS if method == "cov_mm" else SSIdat_MS
        kw = dict(name="a", br=br, ordmax=ordmax, hc=hc)
        if method == "cov_mm":
            kw["method"] = "cov_mm"
        alg = cls(**kw)
        ms.add_algorithms(alg)
        # conditioning guard on every setup's Hankel matrix
        bad = False
        gap = 1.0  # smallest relative size of the 2m-th singular value over the setups: what "up to conditioning" means here
        Y = gen.pre_multisetup([d.copy() for d in datasets], [list(r) for r in ref_ind])
        for y in Y:
            H, _ = ssi.build_hank(np.vstack((y["ref"], y["mov"])), y["ref"], br, method)
            sv = np.linalg.svd(H, compute_uv=False)
            if len(sv) < m2 or sv[m2 - 1] / sv[0] < (1e-5 if getattr(S, "weak", None) else 1e-7):
                bad = True
            else:
                gap = min(gap, float(sv[m2 - 1] / sv[0]))
        # accuracy promised: 1e-7, or what the conditioning allows (rounding eps amplified by 1/gap, with a measured factor
        # of up to ~50 on the pinned tree; 2e3 leaves a margin) when that is more -- at most 4.4e-6 at the guard's edge
        TOL = max(1e-7, 2e3 * np.finfo(float).eps / gap)
        if bad:
            ctx.skipped += 1
            ctx.count("skipped_ill_conditioned")
            continue
        try:
            ms.run_by_name("a")
        except np.linalg.LinAlgError:
            ctx.skipped += 1
            continue
        res = alg.result
        ctx.oracle_cases += 1
        ctx.nontrivial.add((S.m, len(datasets), nref, tuple(d.shape[1] - nref for d in datasets), method))
        # truth over all sensors in the order references, then roving by setup = global rows 0..nglob-1 by construction
        fn, xi, phi, lam = res.Fn_poles[:, m2], res.Xi_poles[:, m2], res.Phi_poles[:, m2, :], res.Lambds[:, m2]
        for (kk, rows, efn, exi, mc) in sysgen.match_poles(fn, xi, phi, S, lam):
            if len(rows) < 2:
                ctx.violation("ms:pair-missing", f"{cls.__name__}: mode {kk} has no conjugate pole pair at order 2m", inp, observed=[float(x) for x in fn])
                return
            if not (efn <= TOL and exi <= TOL and 1 - mc <= TOL):
                ctx.violation("ms:inaccurate", f"{cls.__name__}: mode {kk}: rel freq err {efn:.2e}, damping err {exi:.2e}, 1-MAC {1 - mc:.2e} (global shape over all sensors)", inp)
                return
        ctx.count(f"runs_{cls.__name__}" + ("_weakref" if getattr(S, "weak", None) else ""))
        if ctx.rng.random() < 0.4:
            # the function itself, handed per-setup dicts whose keys were inserted 'mov' first (the order of the keys of a dict
            # carries no meaning): same identification
            Yd = [{"mov": y["mov"], "ref": y["ref"]} for y in Y]
            try:
                _Oa, Af, Cf = ssi.SSI_multi_setup(Yd, S.fs, br, ordmax, method_hank=method)
                f2, x2, p2, l2, *_ = ssi.ac2mp(Af[m2], Cf[m2], S.dt)
            except np.linalg.LinAlgError:
                f2 = None
            if f2 is not None:
                ctx.oracle_cases += 1
                ctx.count("function_level_mov_first_dicts")
                for (kk, rows, efn, exi, mc) in sysgen.match_poles(np.asarray(f2), np.asarray(x2), np.asarray(p2), S, np.asarray(l2)):
                    if len(rows) < 2 or not (efn <= TOL and exi <= TOL and 1 - mc <= TOL):
                        ctx.violation("ms:function-dict-order", f"ssi.SSI_multi_setup with per-setup dicts built as {{'mov': .., 'ref': ..}}: mode {kk}: rel freq err {efn:.2e}, "
                                      f"damping err {exi:.2e}, 1-MAC {1 - mc:.2e}", inp)
                        return
        # extraction at order 2m through the setup: the global shapes over all sensors (references, then roving by setup)
        order = np.argsort(S.fn)
        try:
            if ctx.rng.random() < 0.5:
                ms.mpe("a", sel_freq=[float(S.fn[i]) for i in order], order=m2, rtol=1e-3)
            else:  # the default matching tolerance
                ms.mpe("a", sel_freq=[float(S.fn[i]) for i in order], order=m2)
        except Exception as e:  # noqa: BLE001
            ctx.violation(f"ms:mpe-raises-{type(e).__name__}", f"{cls.__name__}.mpe at order 2m raises {type(e).__name__}: {str(e)[:100]}", inp)
            return
        r2 = alg.result
        ctx.oracle_cases += 1
        if r2.Fn is None or len(r2.Fn) != S.m or np.shape(r2.Phi) != (S.phi.shape[0], S.m):
            ctx.violation("ms:mpe-shape", f"{cls.__name__}.mpe: {None if r2.Fn is None else len(r2.Fn)} modes, Phi shape {np.shape(r2.Phi)}; expected {S.m} modes over {S.phi.shape[0]} sensors", inp)
            return
        for j, i in enumerate(order):
            mc = max(sysgen.mac(r2.Phi[:, j], S.phi[:, i]), sysgen.mac(r2.Phi[:, j], np.conj(S.phi[:, i])))
            if abs(r2.Fn[j] - S.fn[i]) / S.fn[i] > TOL or abs(r2.Xi[j] - S.xi[i]) > TOL or 1 - mc > TOL:
                ctx.violation("ms:mpe-inaccurate", f"{cls.__name__}.mpe: extracted mode {j}: f {r2.Fn[j]} vs {S.fn[i]}, xi {r2.Xi[j]} vs {S.xi[i]}, MAC {mc} (global shape)", inp)
                return
        ctx.count("mpe_square_shape_matrix" if S.phi.shape[0] == S.m else "mpe_rectangular_shape_matrix")
        if ctx.rng.random() < 0.5:
            # a second identification on the same setup object (the other method): the first one left the data alone
            cls2 = SSIdat_MS if cls is SSIcov_MS else SSIcov_MS
            kw2 = dict(name="b", br=br, ordmax=ordmax, hc=hc)
            if cls2 is SSIcov_MS:
                kw2["method"] = "cov_mm"
            alg2 = cls2(**kw2)
            ms.add_algorithms(alg2)
            try:
                ms.run_by_name("b")
            except np.linalg.LinAlgError:
                alg2 = None
            if alg2 is not None:
                r2b = alg2.result
                sv_ok = True
                for y in gen.pre_multisetup([d.copy() for d in datasets], [list(r) for r in ref_ind]):
                    Hh, _ = ssi.build_hank(np.vstack((y["ref"], y["mov"])), y["ref"], br, "dat" if cls2 is SSIdat_MS else "cov_mm")
                    svh = np.linalg.svd(Hh, compute_uv=False)
                    sv_ok = sv_ok and len(svh) >= m2 and svh[m2 - 1] / svh[0] >= (1e-5 if getattr(S, "weak", None) else 1e-7)
                if sv_ok:
                    ctx.oracle_cases += 1
                    ctx.count("second_algorithm_same_setup")
                    for (kk, rows, efn, exi, mc) in sysgen.match_poles(r2b.Fn_poles[:, m2], r2b.Xi_poles[:, m2], r2b.Phi_poles[:, m2, :], S, r2b.Lambds[:, m2]):
                        if len(rows) < 2 or not (efn <= TOL and exi <= TOL and 1 - mc <= TOL):
                            ctx.violation("ms:second-algorithm-same-setup", f"{cls2.__name__} run after {cls.__name__} on the same MultiSetup_PreGER object: mode {kk}: "
                                          f"rel freq err {efn:.2e}, damping err {exi:.2e}, 1-MAC {1 - mc:.2e}", inp)
                            return


def replay(rec):
    v = rec["violation"]
    print("replaying", v["sig"], "-", v["what"])
    inp = v["input"]
    if "n" in inp and "ref" in inp:
        print(_impl_split(inp["n"], inp["ref"]))
        return 0
    print("re-run: VERIF_SEED=%d ./check C03 --tier %s  (case %s)" % (rec["seed"], rec["tier"], inp.get("case")))
    return 0
