"""Self-test of the fail-closed rule of harness/translate_hc.py on the CURRENT sources.

For every class whose run() is translated, statements that write / mutate / alias a protected variable in a form the
grammar does not model are inserted (in memory, one at a time) into the run() body -- right after the pole computation,
right before the return, or at the top -- and the translator must refuse each of them (`Fail`).  Read-only statements
(shape queries, `is None` tests, logging of a shape) and a consistent renaming of the locals must leave the translation
intact.  Names are taken from the source itself (targets of the pole call, keywords of the result constructor), so the
test follows renamings of the locals.

`cases(srcs)` yields (label, must_fail, new_srcs); `run(srcs)` returns [(label, ok, detail)].
"""
import ast
import re

import translate_hc as T

# {X}, {Y}: two different tracked tables.  position: A = after the pole computation, R = before the return, T = top of run()
MUST_FAIL = [
    ("bool-subscript-blank", "AR", "{X}[{Y} > 0.5] = np.nan"),
    ("bool-subscript-own", "AR", "{X}[~np.isnan({X})] = 0.0"),
    ("slice-write", "AR", "{X}[:, :1] = np.nan"),
    ("ellipsis-write", "AR", "{X}[...] = 0.0"),
    ("aug-name", "AR", "{X} *= 2.0"),
    ("aug-subscript", "AR", "{X}[{Y} > 0.5] *= 0.0"),
    ("aug-ellipsis", "AR", "{X}[...] *= 0.5"),
    ("rebinding-where", "AR", "{X} = np.where({Y} > 0, {X}, np.nan)"),
    ("loop-rows", "AR", "for _i in range({X}.shape[0]):\n    {X}[_i] = np.nan"),
    ("loop-over-tables", "AR", "for _t in ({X}, {Y}):\n    _t[_t > 1] = np.nan"),
    ("loop-target", "AR", "for {X} in range(2):\n    pass"),
    ("while-write", "AR", "while False:\n    {X}[0] = np.nan"),
    ("if-write", "AR", "if True:\n    {X}[0] = np.nan"),
    ("if-else-write", "AR", "if True:\n    pass\nelse:\n    {X}[0] = np.nan"),
    ("method-fill", "AR", "{X}.fill(np.nan)"),
    ("method-sort", "AR", "{X}.sort()"),
    ("method-setitem", "AR", "{X}.__setitem__(0, np.nan)"),
    ("method-itemset", "AR", "{X}.put([0], np.nan)"),
    ("putmask", "AR", "np.putmask({X}, {Y} > 1, np.nan)"),
    ("place", "AR", "np.place({X}, {Y} > 1, np.nan)"),
    ("copyto", "AR", "np.copyto({X}, np.nan)"),
    ("copyto-where", "AR", "np.copyto({X}, np.nan, where=np.isnan({Y}))"),
    ("ufunc-out", "AR", "np.multiply({Y}, 0.0, out={X})"),
    ("ufunc-out-positional", "AR", "np.isnan({Y}, {X})"),
    ("nan-to-num-inplace", "AR", "np.nan_to_num({X}, copy=False)"),
    ("flat-write", "AR", "{X}.flat[0] = np.nan"),
    ("attr-write", "AR", "{X}.shape = (-1,)"),
    ("real-write", "AR", "{X}.real[...] = 0.0"),
    ("del-name", "R", "del {X}"),
    ("del-item", "AR", "del {X}[0]"),
    ("walrus", "AR", "print(({X} := {Y}) is None)"),
    ("walrus-in-test", "AR", "if ({X} := None) is None:\n    pass"),
    ("tuple-unpack", "AR", "{X}, _z = divmod(7, 2)"),
    ("starred-unpack", "AR", "_z, *{X} = [1, 2, 3]"),
    ("multi-target", "AR", "_z = {X} = None"),
    ("annotated", "AR", "{X}: object = None"),
    ("alias-then-write", "AR", "_v = {X}\n_v[0] = np.nan"),
    ("view-then-write", "AR", "_v = {X}[:, :1]\n_v[...] = np.nan"),
    ("transpose-view", "AR", "_v = {X}.T\n_v[0] = np.nan"),
    ("asarray-view", "AR", "_v = np.asarray({X})\n_v[0] = np.nan"),
    ("list-alias", "AR", "_v = [{X}, 0]\n_v[0][0] = np.nan"),
    ("tuple-alias", "AR", "_v = ({X}, {Y})\n_v[0][0] = np.nan"),
    ("dict-alias", "AR", "_v = dict(a={X})\n_v['a'][0] = np.nan"),
    ("unknown-call", "AR", "_cleanup({X})"),
    ("unknown-method", "AR", "self._cleanup({X}, {Y})"),
    ("comprehension-call", "AR", "[{X}.fill(0.0) for _ in range(1)]"),
    ("comprehension-target", "AR", "[0 for {X} in range(1)]"),
    ("with-target", "AR", "with open('/dev/null') as {X}:\n    pass"),
    ("except-target", "AR", "try:\n    pass\nexcept Exception as {X}:\n    pass"),
    ("try-write", "AR", "try:\n    {X}[0] = np.nan\nexcept Exception:\n    pass"),
    ("import-as", "AR", "import math as {X}"),
    ("nested-def-name", "AR", "def {X}():\n    pass"),
    ("closure-late-write", "T", "def _late():\n    nonlocal {X}\n    {X} = None"),
    ("closure-late-mutation", "T", "_late = lambda: {X}.fill(0.0)"),
    ("global-decl", "T", "global {X}"),
    ("exec", "AR", "exec('pass')"),
    ("locals", "AR", "locals()['x'] = 1"),
    ("fstring-leak", "AR", "_cleanup(f'{{{X}}}')"),
    ("return-early", "A", "if {X} is not None:\n    return None\n{X}[0] = np.nan"),
    ("rebind-gen", "T", "gen = None"),
    ("early-return", "TA", "if self.run_params is None:\n    return None"),
    ("generator", "T", "if self.run_params is None:\n    yield None"),
]
# {H}: the criteria dictionary, {TH}: a threshold variable read from it (only where the source has them)
MUST_FAIL_HC = [
    ("hc-item-write", "R", "{H}['xi_max'] = 1.0"),
    ("hc-update", "R", "{H}.update(xi_max=1.0)"),
    ("hc-alias", "R", "_h = {H}\n_h['xi_max'] = 1.0"),
    ("hc-rebinding", "R", "{H} = dict({H})"),
    ("hc-passed-on", "R", "_cleanup({H})"),
    ("hc-attribute-write", "R", "self.run_params.hc['xi_max'] = 1.0"),
    ("hc-attribute-read", "R", "_h = self.run_params.hc"),
]
MUST_FAIL_THR = [
    ("thr-rebinding", "R", "{TH} = 0.5"),
    ("thr-aug", "R", "{TH} *= 2"),
    ("thr-item-write", "R", "{TH}[0] = 0.5"),
    ("thr-walrus", "R", "print(({TH} := 0.5))"),
]
MUST_PASS = [
    ("read-shape", "AR", "_n = {X}.shape[0]"),
    ("read-shape-tuple", "AR", "_n, _m = {X}.shape[0], {Y}.ndim"),
    ("read-len", "AR", "_n = len({X})"),
    ("read-is-none", "AR", "if {X} is None:\n    pass"),
    ("log-shape", "AR", "logger.debug('poles %s', {X}.shape)"),
    ("unrelated-loop", "AR", "for _i in range(3):\n    _z = _i * 2"),
    ("unrelated-write", "AR", "_z = [0, 1]\n_z[0] = 5"),
]
MUST_PASS_NP = [("count-nan", "AR", "_k = int(np.isnan({X}).sum())"), ("nansum", "AR", "_k = np.nansum({X}, axis=0)")]
MUST_PASS_THR = [("thr-read", "R", "_z = 2 * {TH}"), ("hc-read", "R", "_z = {H}['xi_max']")]


def _run_sites(src, mod):
    """[(class that defines run(), FunctionDef)] of the translated classes of module `mod`"""
    tree = ast.parse(src)
    trees = {mod: tree}
    seen, out = set(), []
    for m, cls in T.CLASSES:
        if m != mod:
            continue
        fn, owner = T.find_run(trees, mod, cls)
        if owner not in seen:
            seen.add(owner)
            out.append((owner, fn))
    return out


def _sites(fn, mod):
    """pole statement, return statement, first statement of run(); table names; hc / threshold names"""
    pole = ret = None
    hcname, thr = None, None
    for st in fn.body:
        if isinstance(st, ast.Assign) and any(T._is_call(st.value, m, f) for (m, f) in T.POLE_FUNCS):
            pole = st
        if isinstance(st, ast.Return):
            ret = st
        if isinstance(st, ast.Assign) and isinstance(st.value, ast.Attribute) and st.value.attr == "hc" and isinstance(st.targets[0], ast.Name):
            hcname = st.targets[0].id
        if (
            isinstance(st, ast.Assign)
            and isinstance(st.targets[0], ast.Name)
            and isinstance(st.value, ast.Subscript)
            and isinstance(st.value.value, ast.Name)
            and st.value.value.id == hcname
            and isinstance(st.value.slice, ast.Constant)
            and st.value.slice.value in T.THR
        ):
            thr = st.targets[0].id
    first = next(s for s in fn.body if not (isinstance(s, ast.Expr) and isinstance(s.value, ast.Constant)))
    return pole, ret, first, hcname, thr


def _insert(src, line_index, indent, text):
    lines = src.split("\n")
    new = [indent + l for l in text.split("\n")]
    return "\n".join(lines[:line_index] + new + lines[line_index:])


def _with_np(src):
    """the inserted statements spell numpy as `np`: make the module import it (after the __future__ import) if it does not"""
    if re.search(r"^import numpy as np$", src, re.M):
        return src, 0
    lines = src.split("\n")
    k = max((i for i, l in enumerate(lines) if l.startswith("from __future__")), default=-1) + 1
    return "\n".join(lines[:k] + ["import numpy as np"] + lines[k:]), 1


def cases(srcs):
    for mod in ("ssi", "plscf"):
        src, _ = _with_np(srcs[mod])
        for owner, fn in _run_sites(src, mod):
            pole, ret, first, hcname, thr = _sites(fn, mod)
            if pole is None or ret is None:
                continue
            after = _names_of(pole.targets[0])
            kw = {k.arg: k.value.id for k in ret.value.keywords if isinstance(k.value, ast.Name)} if isinstance(ret.value, ast.Call) else {}
            before = [kw[f] for f in ("Fn_poles", "Xi_poles", "Phi_poles") if f in kw]
            indent = " " * first.col_offset
            pos = {"A": (pole.end_lineno, after), "R": (ret.lineno - 1, before), "T": (first.lineno - 1, after)}

            def gen(templates, must_fail, extra):
                for label, where, text in templates:
                    for w in where:
                        line, names = pos[w]
                        if len(names) < 2:
                            continue
                        # the second table of the pair varies with the template so that every table is exercised
                        i = sum(map(ord, label)) % len(names)
                        j = (i + 1 + sum(map(ord, label)) % (len(names) - 1)) % len(names)
                        try:
                            t = text.format(X=names[i], Y=names[j], **extra)
                        except KeyError:
                            continue
                        new = dict(srcs)
                        new[mod] = _insert(src, line, indent, t)
                        yield (f"{owner}.run/{label}@{w}", must_fail, new, t, (mod, owner))

            extra = {}
            if hcname:
                extra["H"] = hcname
            if thr:
                extra["TH"] = thr
            yield from gen(MUST_FAIL, True, extra)
            yield from gen(MUST_FAIL_HC, True, extra)
            yield from gen(MUST_FAIL_THR, True, extra)
            yield from gen(MUST_PASS, False, extra)
            yield from gen(MUST_PASS_NP, False, extra)
            yield from gen(MUST_PASS_THR, False, extra)
            # consistent renaming of the locals of run() (Name nodes only: the keywords of the result constructor stay)
            tree = ast.parse(src)
            names = set(after + before)
            for node in ast.walk(tree):
                if isinstance(node, ast.FunctionDef) and node.name == "run" and node.lineno == fn.lineno:
                    for n in ast.walk(node):
                        if isinstance(n, ast.Name) and n.id in names:
                            n.id = n.id + "_rn"
            new = dict(srcs)
            new[mod] = ast.unparse(tree)
            yield (f"{owner}.run/renamed-locals", False, new, "locals renamed", (mod, owner))


def _names_of(t):
    return [e.id for e in t.elts] if isinstance(t, (ast.Tuple, ast.List)) else [t.id]


def run(srcs):
    """[(label, ok, detail)]; empty when the unmodified sources do not translate (then there is nothing to self-test)"""
    try:
        base, _ = T.translate_sources(srcs)
    except (T.Fail, SyntaxError, IndexError, ValueError):
        return []
    out = []
    bases = {}
    for label, must_fail, new, text, (mod, owner) in cases(srcs):
        # only the classes whose run() is the modified one are re-translated (the others read the same text as before)
        cl = [(m, c) for (m, c) in T.CLASSES if m == mod and T.find_run({mod: T._parse(srcs[mod])}, mod, c)[1] == owner]
        if (mod, owner) not in bases:
            bases[(mod, owner)] = T.translate_sources(srcs, cl)[0]
        base = bases[(mod, owner)]
        try:
            ast.parse(new[mod])
        except SyntaxError as e:  # a template that does not fit this source: not a verdict
            out.append((label, None, f"template does not parse here: {e}"))
            continue
        try:
            got, _ = T.translate_sources(new, cl)
            failed, why = False, ""
        except (T.Fail, IndexError, ValueError) as e:
            failed, why = True, str(e)
        if must_fail:
            out.append((label, failed, why if failed else f"ACCEPTED: {text!r}"))
        elif label.endswith("renamed-locals"):
            out.append((label, not failed and got.replace("_rn", "") == base, why or "translated"))
        else:
            out.append((label, not failed and got == base, why or "translated"))
    return out


if __name__ == "__main__":
    import os
    import sys

    res = run(T.read_sources(os.environ.get("PYOMA2_REPO", "/repo")))
    bad = [r for r in res if r[1] is False]
    for r in res:
        if r[1] is not True or "-v" in sys.argv:
            print(r)
    print(f"{len(res)} cases, {len(bad)} wrong, {sum(r[1] is None for r in res)} not applicable")
    sys.exit(1 if bad or not res else 0)
