"""Shared by c03.py / c04.py: the record-level reference/roving split (gen.pre_multisetup) and its hand-over to
ssi.SSI_multi_setup / fdd.SD_PreGER, against the Lean model `Model/MsGather.lean` (driver op `ms_gather`).

The model works on SYMBOLIC datasets: sample t of channel c of dataset i is the label (i*T + t)*C + c.  `realise` turns a
label matrix of the model into the array it stands for, given the arrays the real code was handed (any values), so every
entry of every array the real code builds is compared exactly with the entry of the user's dataset it must be."""
import numpy as np

T, C = 100000, 1000

MALFORMED = ["dup", "range", "noref", "allref", "short", "long", "nosamples"]


def label_array(i, n0, nch):
    t = np.arange(n0, dtype=np.int64)[:, None]
    c = np.arange(nch, dtype=np.int64)[None, :]
    return ((i * T + t) * C + c).astype(float)


def realise(mat, datasets):
    """the array a label matrix of the model stands for"""
    if len(mat) == 0:
        return np.zeros((0, 0))
    L = np.array(mat, dtype=np.int64).reshape(len(mat), -1)
    c, q = L % C, L // C
    i, t = q // T, q % T
    out = np.empty(L.shape)
    for ii in np.unique(i):
        m = i == ii
        out[m] = np.asarray(datasets[int(ii)], dtype=float)[t[m], c[m]]
    return out


def same(a, b):
    a = np.asarray(a)
    return a.shape == b.shape and np.array_equal(a, b)


def split_case(rng, kind="valid", nmin=1, nmax=7, same_nref=False):
    """shapes [[n0, nch], ...] and ref_ind; `kind` one of "valid" or MALFORMED"""
    nset = rng.randint(1, 4)
    shapes = [[rng.randint(nmin, nmax), rng.randint(2, 6)] for _ in range(nset)]
    nref0 = rng.randint(1, min(s[1] for s in shapes) - 1)
    ref_ind = [rng.sample(range(nch), nref0 if same_nref else rng.randint(1, nch - 1)) for (_, nch) in shapes]
    i = rng.randrange(nset)
    if kind == "dup":
        ref_ind[i].insert(rng.randint(0, len(ref_ind[i])), rng.choice(ref_ind[i]))
    elif kind == "range":
        ref_ind[i][rng.randrange(len(ref_ind[i]))] = shapes[i][1] + rng.randint(0, 1)
    elif kind == "noref":
        ref_ind[i] = []
    elif kind == "allref":
        ref_ind[i] = rng.sample(range(shapes[i][1]), shapes[i][1])
    elif kind == "short":
        ref_ind = ref_ind[:-1]
    elif kind == "long":
        ref_ind.append([0])
    elif kind == "nosamples":
        shapes[i][0] = 0
    return shapes, ref_ind


def split_agrees(m, impl, datasets):
    """model output of ms_gather vs ('ok', Y) / ('raise', exception class name) of gen.pre_multisetup"""
    if "raise" in m:
        return impl[0] == "raise" and m["raise"].startswith(impl[1])
    if impl[0] != "ok" or len(impl[1]) != len(m["split"]):
        return False
    return all(same(o["ref"], realise(s["ref"], datasets)) and same(o["mov"], realise(s["mov"], datasets))
               for o, s in zip(impl[1], m["split"]))
