"""C14 — preprocessing (decimate / detrend / filter / rollback / add_algorithms) of SingleSetup and
MultiSetup_PreGER composes, metadata stays truthful, rollback restores the start."""
import hashlib
import itertools
import json
import os

import numpy as np

from common import R, fl, relclose
from common import all_pre_build as pre_build  # noqa: E402,F401  (regenerates Generated/*.lean — here Generated/Setup.lean — from the tested tree)

LEAN_MODULES = ["PyomaVerif.Props.C14", "PyomaVerif.Mutants.C14", "PyomaVerif.Props.C03Split", "PyomaVerif.Props.C14Algs",
                "PyomaVerif.Mutants.C14Algs", "PyomaVerif.Props.C14Own", "PyomaVerif.Mutants.C14Own", "PyomaVerif.Props.WiringSetup"]
THEOREMS = [
    # setup layer read off the source (translate_setup.py -> Generated/Setup.lean), regenerated on every run
    "PV.WiringSetup.C14_single_stores_from_source",
    "PV.WiringSetup.C14_multi_stores_from_source",
    "PV.WiringSetup.C14_stores_after_last_call",
    "PV.WiringSetup.C14_initial_copy_from_source",
    "PV.WiringSetup.C14_writers_from_source",
    "PV.WiringSetup.C14_variant_from_source",
    "PV.WiringSetup.C14_multiRepaired_from_source",
    "PV.WiringSetup.C14_invariant_multi_from_source",
    "PV.WiringSetup.C14_bound_rollback_multi_from_source",
    "PV.WiringSetup.C14_set_data_from_source",
    "PV.WiringSetup.C14_add_binds_model",
    "PV.WiringSetup.C14_single_decimate_model",
    "PV.C14.C14_invariant_single",
    "PV.C14.C14_invariant_multi",
    "PV.C14.C14_duration_single_law",
    "PV.C14.C14_duration_single_partial",
    "PV.C14.C14_duration_single_full_false",
    "PV.C14.C14_duration_single_repaired",
    "PV.C14.C14_split",
    # "with the reference/roving split re-applied": the symbolic split of `data` is the split C03 proves things about
    # (Multi.preSplit: listed order, roving ascending, permutation) after EVERY history, and evaluates to the record-level
    # gen.pre_multisetup of the processed datasets (Props/C03Split.lean)
    "PV.C03Split.C03_split_models_agree",
    "PV.C03Split.C03_split_every_step",
    "PV.C03Split.C03_data_every_step",
    "PV.C14.C14_len_dec",
    "PV.C14.C14_filter_fs_single",
    "PV.C14.C14_filter_fs_multi",
    "PV.C14.C14_bound_single",
    "PV.C14.C14_bound_multi",
    "PV.C14.C14_rollback_single",
    "PV.C14.C14_rollback_multi",
    "PV.C14.C14_kw_single",
    "PV.C14.C14_kw_multi",
    "PV.C14.C14_outcome_single",
    "PV.C14.C14_outcome_multi",
    # the decimation factor itself: q = 0 (ZeroDivisionError), q = 1 (FIR: ValueError; IIR: accepted) - side conditions
    # of Op.accepted / activeQs, mirrored from scipy.signal.decimate and compared with it in the malformed-rich enumeration
    "PV.C14.C14_decimate_q_single",
    "PV.C14.C14_decimate_q_multi",
    "PV.C14.C14_decimate_q0_single",
    "PV.C14.C14_decimate_bad_q_noop",
    # malformed ref_ind: which lists the constructor accepts; on those the total split of the model is the constructor's
    "PV.C14.C14_refs_valid_iff",
    "PV.C14.C14_ctor_split_eq",
    "PV.C14.C14_ctor_split_errors",
    # add_algorithms by NAME (Model/PrepAlgs.lean): the dict name -> object, several objects per call, what every object holds
    "PV.C14.C14_named_base_single",
    "PV.C14.C14_named_base_multi",
    "PV.C14.C14_alg_holds_single",
    "PV.C14.C14_alg_holds_multi",
    "PV.C14.C14_alg_never_added",
    "PV.C14.C14_algorithms_dict_single",
    "PV.C14.C14_algorithms_dict_multi",
    "PV.C14.C14_algorithms_rollback_single",
    "PV.C14.C14_algorithms_rollback_multi",
    "PV.C14.Mutants.named_current_ok",
    "PV.C14.Mutants.rebindAll_breaks_alg_holds",
    "PV.C14.Mutants.setdefault_breaks_dict",
    "PV.C14.Mutants.runWith_real",
    "PV.C14.Mutants.pinned_single_duration",
    "PV.C14.Mutants.helperTM_multi_duration",
    "PV.C14.Mutants.staleDt_multi_dt",
    "PV.C14.Mutants.forgetDatasets_multi_term",
    "PV.C14.Mutants.dupKw_multi_rejects_documented",
    "PV.C14.Mutants.dupKw_rejects_every_key",
    "PV.C14.Mutants.pinned_all",
    "PV.C14.Mutants.current_ok",
    # "no call ever modifies the arrays the user passed in or the stored initial copy": buffer identities (Model/PrepOwn.lean,
    # ops prep_{single,multi}_own, stream own:*)
    "PV.C14.C14_own_values_single",
    "PV.C14.C14_own_values_multi",
    "PV.C14.C14_init_never_written_single",
    "PV.C14.C14_init_never_written_multi",
    "PV.C14.C14_no_write_to_user_or_init_single",
    "PV.C14.C14_no_write_to_user_or_init_multi",
    "PV.C14.C14_no_write_repaired_single",
    "PV.C14.C14_no_write_repaired_multi",
    "PV.C14.C14_overwrite_hits_user_single",
    "PV.C14.C14_overwrite_hits_user_multi",
    "PV.C14.C14_data_owner_single_examples",
    "PV.C14.Mutants.noDeepcopy_init_written",
    "PV.C14.Mutants.noDeepcopy_data_is_init",
    "PV.C14.Mutants.noDeepcopy_multi_init_written",
    "PV.C14.Mutants.current_keeps_init_apart",
    "PV.C14.Mutants.forwardOverwrite_hits_user",
]
RULE = (
    "correspondence: every operation sequence over a randomly drawn alphabet of ~9 concrete calls (2-3 decimations with "
    "documented keyword subsets, 2 detrends, 2 filters, rollback, add_algorithms) up to length 3 (quick) / 4 (thorough), "
    "plus sampled sequences of length 4-6 including a malformed stream (unknown keyword, bad ftype/type, cut-off outside "
    "(0, fs/2), wrong Wn arity, breakpoint beyond the length), replayed on real SingleSetup / MultiSetup_PreGER objects "
    "(1..3 datasets, 2..5 channels, sorted / unsorted / trailing reference layouts) and on the Lean state machine; after "
    "every call: outcome class, fs, dt, counts, durations (1e-12), number of algorithms, and the model's symbolic terms "
    "(data, datasets, stored initial copy, what the new algorithm was bound to) evaluated with scipy on the constructor "
    "arrays vs the object's arrays (1e-10 of the data scale; measured <= 1e-13). oracle: same enumeration, expectation "
    "from the statement (scipy applied in sequence to copies of the constructor arrays, fs divided by every factor) and "
    "byte-hash monitors of the user's arrays and of the stored initial copy around every call. distinct = distinct "
    "(class, layout, operation-label prefix). spec stream (every sequence above, after every call): the Lean SPEC fold "
    "(prep_spec: specStep terms, fs, Op.accepted, activeQs) against the real object directly - terms evaluated with scipy "
    "vs data/datasets and the split by ref_ind, accepted vs whether the real call raised, activeQs vs the factors of the "
    "decimations the real object accepted, fs vs fs0/their product; plus an exhaustively enumerated alphabet (length 3 / 4) "
    "in which most calls are ones scipy must reject, several only in some states (breakpoint equal to / one beyond the "
    "length after the alphabet's decimation, cut-off legal for fs0 but not fs0/q, unknown keyword, bad ftype/type, wrong Wn "
    "arity, q = 0, q = 1 FIR/IIR). named stream: 5 algorithm objects over 3 names added 1-3 per call at different times "
    "(same object again, new object under a present name) on real objects vs prep_*_named: after every call what EVERY "
    "object holds (data/fs/dt or nothing) and self.algorithms (order, which object under which name). own stream (every "
    "sequence of the first two streams, after every call; the detrend letters carry overwrite_data=True/False): the Lean "
    "buffer-identity machine (prep_{single,multi}_own) against the real object - np.shares_memory of data / datasets[i] / "
    "_initial_* / the user's arrays / the buffers held before the call / a freshly bound algorithm's data vs the model's "
    "owner tags (user, init, fresh) and same-buffer flags, and byte hashes of the user's arrays, of the initial copies and "
    "of the previously held buffers vs the buffers the model says the call wrote; plus PreGER detrend calls that raise on "
    "a later, shorter record after having written an earlier one"
)
EXTRA_TRUSTED = [
    "scipy.signal.decimate / detrend / butter / sosfiltfilt are uninterpreted constructors of the model's terms; only their "
    "calling contract (which keyword sets raise which exception class; output length ceil(len/q)) is modelled, and that "
    "contract is re-checked against scipy on every correspondence run",
    "which scipy calls return a new array and which write into their argument (detrend, linear branch, overwrite_data truthy, "
    "float input) is a calling contract of Model/PrepOwn.lean, re-checked against the real objects by the own stream",
]
ASSUMPTIONS = [
    "decimation axis is always 0 (the only value of `axis` the harness passes explicitly)",
    "reference lists are duplicate-free, in range, of the same length as the dataset list, and leave at least one roving channel "
    "(the constructor fails otherwise: modelled by preMultisetupChecked and compared with the real constructor; a ref_ind LONGER "
    "than the dataset list is accepted by the code, with Nsetup = len(ref_ind) - outside the theorems)",
    "arrays stay longer than scipy's filtfilt pad length (sequences that would go below 40 samples are skipped and counted)",
]

MINLEN = 40
# which statements the Lean state machine mirrors: "current" (the tree after proposed_fixes/fix_1..4; SingleSetup.T
# keeps the helper's value - known finding), "pinned" (F7-F10 all kept) or "fixed" (none kept).  The check runs
# "current"; the other two are only for diagnosing a tree with a different set of repairs.
VARIANT = os.environ.get("C14_MODEL_VARIANT", "current")
DATA_TOL = 1e-10
# which statements the buffer-identity machine mirrors: "current" (BaseSetup._detrend_data forwards overwrite_data to scipy:
# today's tree) or "repaired" (after proposed_fixes/fix_g11.diff: accepted, not forwarded)
OWN = os.environ.get("C14_OWN_VARIANT", "repaired")  # "current" = the tree before fix bea574c (overwrite_data reached scipy)
OW_SIG = "mutated-user-array:detrend(overwrite_data=True)"


# ----------------------------------------------------------------------------- real objects
def _classes():
    from pyoma2.algorithms import FDD, FDD_MS
    from pyoma2.setup import MultiSetup_PreGER, SingleSetup

    return SingleSetup, MultiSetup_PreGER, FDD, FDD_MS


class Cfg:
    """constructor arguments of one object under test"""

    def __init__(self, cls, fs0, arrays, ref_ind=None, layout=""):
        self.cls = cls  # "single" | "preger"
        self.fs0 = float(fs0)
        self.arrays = arrays  # the user's arrays (never copied by the harness after creation)
        self.ref_ind = ref_ind
        self.layout = layout

    def make(self):
        SingleSetup, PreGER, _, _ = _classes()
        if self.cls == "single":
            return SingleSetup(self.arrays[0], fs=self.fs0)
        return PreGER(fs=self.fs0, ref_ind=self.ref_ind, datasets=self.arrays)

    def model_args(self):
        if self.cls == "single":
            return dict(n0=int(self.arrays[0].shape[0]), nch=int(self.arrays[0].shape[1]), fs0=R(self.fs0))
        return dict(
            n0=[int(a.shape[0]) for a in self.arrays],
            nch=[int(a.shape[1]) for a in self.arrays],
            fs0=R(self.fs0),
            ref_ind=[list(map(int, r)) for r in self.ref_ind],
        )

    def describe(self):
        return {
            "cls": self.cls,
            "fs0": self.fs0,
            "shapes": [list(a.shape) for a in self.arrays],
            "ref_ind": self.ref_ind,
            "layout": self.layout,
        }


def gen_cfg(ctx, cls, n_lo, n_hi, nsets=None, force_unsorted=False):
    rng = ctx.rng
    g = ctx.nprng()
    fs0 = rng.choice([3600.0, 1440.0, 2400.0, 100.0, 51.2, 1000.0, 960.0])

    def arr(n, c):
        t = np.arange(n)[:, None] / n
        a = g.standard_normal((n, c)) + rng.uniform(-2, 2) * t + rng.uniform(-1, 1)
        if rng.random() < 0.4:  # a channel with a static offset larger than its fluctuation (DC-coupled sensor)
            a[:, rng.randrange(c)] += rng.choice([-1, 1]) * rng.choice([3.0, 25.0])
        return a

    if cls == "single":
        return Cfg(cls, fs0, [arr(rng.randint(n_lo, n_hi), rng.randint(2, 5))], layout="single")
    k = nsets or rng.randint(1, 3)
    nchs = [rng.randint(3 if force_unsorted else 2, 5) for _ in range(k)]
    nref = rng.randint(2 if force_unsorted else 1, min(nchs) - 1)
    layout = "unsorted" if force_unsorted else rng.choice(["sorted", "unsorted", "trailing", "leading"])
    refs = []
    for c in nchs:
        if layout == "leading":
            r = list(range(nref))
        elif layout == "trailing":
            r = list(range(c - nref, c))
        else:
            r = sorted(rng.sample(range(c), nref))
            if layout == "unsorted":
                rng.shuffle(r)
                if nref > 1 and r == sorted(r):
                    r.reverse()
        refs.append(r)
    arrays = [arr(rng.randint(n_lo, n_hi), c) for c in nchs]
    return Cfg(cls, fs0, arrays, refs, layout=f"{layout}/{k}sets/{nref}ref")


# ----------------------------------------------------------------------------- operations
def op_label(op):
    k = op["k"]
    if k == "decimate":
        return "dec%d%s" % (op["q"], "".join(sorted(x[0] for x in op.get("kw", {}))))
    if k == "detrend":
        return "det" + "".join(sorted(x[0] for x in op.get("kw", {}))) + ("!" if op.get("kw", {}).get("overwrite_data") else "")
    if k == "filter":
        return "filt-" + op["btype"][:5] + ("" if op.get("order") is not None else "-dflt")
    return k


def op_to_model(op):
    k = op["k"]
    if k == "decimate":
        return {"k": k, "q": op["q"], "kw": dict(op.get("kw", {}))}
    if k == "detrend":
        return {"k": k, "kw": dict(op.get("kw", {}))}
    if k == "filter":
        return {
            "k": k,
            "Wn": [R(w) for w in op["Wn"]],
            "order": 8 if op.get("order") is None else op["order"],
            "btype": "lowpass" if op.get("btype_default") else op["btype"],
        }
    return {"k": k}


def apply_real(obj, cfg, op, serial):
    """call the real method; returns (outcome class, algorithm or None)"""
    _, _, FDD, FDD_MS = _classes()
    k = op["k"]
    alg = None
    try:
        if k == "decimate":
            obj.decimate_data(q=op["q"], **op.get("kw", {}))
        elif k == "detrend":
            obj.detrend_data(**op.get("kw", {}))
        elif k == "filter":
            wn = op["Wn"][0] if len(op["Wn"]) == 1 else tuple(op["Wn"])
            kw = {}
            if op.get("order") is not None:
                kw["order"] = op["order"]
            if not op.get("btype_default"):
                kw["btype"] = op["btype"]
            obj.filter_data(Wn=wn, **kw)
        elif k == "rollback":
            obj.rollback()
        elif k == "add":
            alg = (FDD if cfg.cls == "single" else FDD_MS)(name=f"alg{serial}")
            obj.add_algorithms(alg)
        return "ok", alg
    except (TypeError, ValueError, ZeroDivisionError) as e:
        return type(e).__name__, None


def gen_alphabet(ctx, cfg, qmax_total, overwrite=True):
    """a small set of concrete in-domain calls; exhaustive enumeration is over this alphabet"""
    rng = ctx.rng
    fs0 = cfg.fs0
    qs = rng.sample([2, 3, 4, 5], 3)
    decs = [{"k": "decimate", "q": qs[0]}]
    kw = {}
    ft = rng.choice(["fir", "iir"])
    kw["ftype"] = ft
    if rng.random() < 0.7:
        kw["n"] = rng.randint(8, 30) if ft == "fir" else rng.randint(2, 8)
    if rng.random() < 0.5:
        kw["zero_phase"] = rng.random() < 0.5
    decs.append({"k": "decimate", "q": qs[1], "kw": kw})
    kw2 = rng.choice([{"zero_phase": False}, {"n": None}, {"axis": 0}, {"n": rng.randint(2, 6)}, {"ftype": "iir", "axis": 0}])
    decs.append({"k": "decimate", "q": qs[2], "kw": kw2})
    nmin = min(a.shape[0] for a in cfg.arrays)
    dets = [
        {"k": "detrend"},
        rng.choice(
            [
                {"k": "detrend", "kw": {"type": "constant"}},
                {"k": "detrend", "kw": {"bp": [rng.randint(20, max(21, nmin // 4))]}},
                {"k": "detrend", "kw": {"type": "linear", "bp": rng.randint(10, 60), "axis": 0}},
                {"k": "detrend", "kw": {"type": "constant", "bp": [5, 7]}},
            ]
        ),
    ]
    if overwrite:  # scipy's documented `overwrite_data` (forwarded by _detrend_data(**kwargs)): decides WHERE the result goes
        for d in dets:
            r = rng.random()
            if r < 0.6:
                d["kw"] = dict(d.get("kw", {}), overwrite_data=(r < 0.45))
    u = rng.uniform(0.015, 0.22)
    lo = rng.uniform(0.01, 0.08)
    hi = lo + rng.uniform(0.03, 0.12)
    filts = [
        {"k": "filter", "Wn": [fs0 * u], "order": rng.choice([None, 2, 3, 4, 5, 6]), "btype": rng.choice(["lowpass", "highpass"])},
        {"k": "filter", "Wn": [fs0 * lo, fs0 * hi], "order": rng.randint(1, 4), "btype": rng.choice(["bandpass", "bandstop"])},
    ]
    if filts[0]["btype"] == "lowpass" and rng.random() < 0.5:
        filts[0]["btype_default"] = True
    return decs + dets + filts + [{"k": "rollback"}, {"k": "add"}]


def gen_malformed(ctx, cfg):
    rng = ctx.rng
    fs0 = cfg.fs0
    return rng.choice(
        [
            {"k": "decimate", "q": rng.randint(2, 5), "kw": {"bogus": 1}},
            {"k": "decimate", "q": rng.randint(2, 5), "kw": {"ftype": "cheby", "n": 4}},
            {"k": "decimate", "q": rng.randint(2, 5), "kw": {"ftype": "fir", "bogus": 1, "axis": 0}},
            {"k": "detrend", "kw": {"bogus": 1}},
            {"k": "detrend", "kw": {"type": "quadratic"}},
            {"k": "detrend", "kw": {"type": "quadratic", "bogus": 1}},
            {"k": "detrend", "kw": {"bp": [10 ** 7]}},
            {"k": "detrend", "kw": {"type": "constant", "bp": [10 ** 7]}},
            {"k": "filter", "Wn": [fs0 * 0.77], "order": 3, "btype": "lowpass"},
            {"k": "filter", "Wn": [fs0 * 0.1, fs0 * 0.2], "order": 3, "btype": "lowpass"},
            {"k": "filter", "Wn": [fs0 * 0.1], "order": 3, "btype": "bandpass"},
            {"k": "filter", "Wn": [-1.0], "order": 2, "btype": "highpass"},
            {"k": "filter", "Wn": [fs0 * 0.05, fs0 * 0.9], "order": 2, "btype": "bandstop"},
        ]
    )


def gen_alphabet_malformed(ctx, cfg):
    """an alphabet for EXHAUSTIVE enumeration in which half of the calls are ones scipy must reject, several of them only
    in some states: a breakpoint equal to / one beyond the length the shortest record has after the alphabet's decimation
    (accepted before it; the second rejected after it), a cut-off that is legal for fs0 but not for fs0/q, unknown keywords,
    bad ftype / type, wrong Wn arity"""
    rng = ctx.rng
    fs0 = cfg.fs0
    q = rng.choice([2, 3, 4, 5])
    nq = -(-min(a.shape[0] for a in cfg.arrays) // q)
    dec_ok = {"k": "decimate", "q": q, "kw": rng.choice([{}, {"ftype": "fir"}, {"n": 4, "zero_phase": False}, {"axis": 0}])}
    dec_bad = {
        "k": "decimate",
        "q": rng.randint(2, 5),
        "kw": rng.choice([{"bogus": 1}, {"ftype": "cheby", "n": 4}, {"ftype": "fir", "bogus": 1, "axis": 0}, {"ftype": "cheby", "bogus": 1}]),
    }
    # the factor itself: scipy divides by q (ZeroDivisionError at 0), q = 1 is an illegal FIR cut-off (ValueError) but a
    # legal IIR call (Chebyshev at 0.8 Nyquist, same length, fs/1); error precedence against unknown keyword / bad ftype
    dec_q = rng.choice(
        [
            {"k": "decimate", "q": 0},
            {"k": "decimate", "q": 0, "kw": {"ftype": "fir", "n": 12}},
            {"k": "decimate", "q": 0, "kw": {"ftype": "cheby"}},
            {"k": "decimate", "q": 0, "kw": {"bogus": 1}},
            {"k": "decimate", "q": 1, "kw": {"ftype": "fir"}},
            {"k": "decimate", "q": 1, "kw": {"ftype": "fir", "n": 10, "zero_phase": False}},
            {"k": "decimate", "q": 1},
            {"k": "decimate", "q": 1, "kw": {"n": 4, "zero_phase": False}},
            {"k": "decimate", "q": 1, "kw": {"ftype": "cheby"}},
        ]
    )
    det_eq = {"k": "detrend", "kw": {"bp": [nq]}}
    det_over = {"k": "detrend", "kw": rng.choice([{"bp": [nq + 1]}, {"bp": [7, nq + 1], "type": "linear"}, {"bp": nq + 1, "axis": 0}])}
    det_bad = {
        "k": "detrend",
        "kw": rng.choice(
            [{"bogus": 1}, {"type": "quadratic"}, {"type": "quadratic", "bogus": 1}, {"bp": [10 ** 7]}, {"type": "constant", "bp": [10 ** 7]},
             {"type": "constant", "bp": [nq + 1]}, {"type": "quadratic", "bp": [10 ** 7]}]
        ),
    }
    # legal for fs0, illegal for fs0/q:  fs0/(2q) < w < fs0/2  (kept 8 % away from both ends)
    w = fs0 * rng.uniform(0.5 / q * 1.08, 0.5 * 0.92)
    filt_edge = {"k": "filter", "Wn": [w], "order": rng.choice([None, 2, 3, 4]), "btype": rng.choice(["lowpass", "highpass"])}
    filt_bad = rng.choice(
        [
            {"k": "filter", "Wn": [fs0 * 0.77], "order": 3, "btype": "lowpass"},
            {"k": "filter", "Wn": [fs0 * 0.1, fs0 * 0.2], "order": 3, "btype": "lowpass"},
            {"k": "filter", "Wn": [fs0 * 0.1], "order": 3, "btype": "bandpass"},
            {"k": "filter", "Wn": [-1.0], "order": 2, "btype": "highpass"},
            {"k": "filter", "Wn": [fs0 * 0.05, fs0 * 0.9], "order": 2, "btype": "bandstop"},
        ]
    )
    if cfg.cls == "single":  # a failing SingleSetup call writes nothing; PreGER: see corr_own_partial
        for d in (det_eq, det_over, det_bad):
            if rng.random() < 0.6:
                d["kw"] = dict(d["kw"], overwrite_data=rng.random() < 0.8)
    return [dec_ok, dec_bad, dec_q, det_eq, det_over, det_bad, filt_edge, filt_bad, {"k": "rollback"}]


def seq_min_len(cfg, seq):
    """smallest array length any call of the sequence would see (statement-level bookkeeping)"""
    n = min(a.shape[0] for a in cfg.arrays)
    n0 = n
    m = n
    for op in seq:
        if op["k"] in ("decimate", "filter"):
            m = min(m, n)
        if op["k"] == "decimate" and not ({"bogus"} & set(op.get("kw", {}))) and op.get("kw", {}).get("ftype", "iir") in ("iir", "fir") and op["q"] >= 1:
            n = -(-n // op["q"])
        elif op["k"] == "rollback":
            n = n0
    return m


def tie_free(cfg, seq):
    """no filter cut-off within 1e-6 (relative) of fs/2 for any reachable fs (the property excludes ties)"""
    fs = cfg.fs0
    for op in seq:
        if op["k"] == "decimate":
            if op["q"] >= 1:
                fs = fs / op["q"]
        elif op["k"] == "rollback":
            fs = cfg.fs0
        elif op["k"] == "filter":
            for w in op["Wn"]:
                if abs(w - fs / 2) <= 1e-6 * fs:
                    return False
    return True


# ----------------------------------------------------------------------------- observation
def _h(a):
    a = np.ascontiguousarray(a)
    return hashlib.blake2b(a.tobytes(), digest_size=12).hexdigest() + str(a.shape) + str(a.dtype)


def init_copy_hash(obj, cfg):
    if cfg.cls == "single":
        return [_h(obj._initial_data)], float(obj._initial_fs), None
    return [_h(a) for a in obj._initial_datasets], float(obj._initial_fs), json.dumps(obj._initial_ref_ind)


def observe(obj, cfg):
    if cfg.cls == "single":
        return {
            "fs": float(obj.fs),
            "dt": float(obj.dt),
            "counts": [int(obj.Ndat)],
            "durs": [float(obj.T)],
            "nalgs": len(obj.algorithms),
        }
    return {
        "fs": float(obj.fs),
        "dt": float(obj.dt),
        "counts": [int(x) for x in obj.Ndats],
        "durs": [float(x) for x in obj.Ts],
        "nalgs": len(obj.algorithms),
    }


def close(a, b, tol=DATA_TOL):
    a = np.asarray(a)
    b = np.asarray(b)
    if a.shape != b.shape:
        return False, float("inf")
    if a.size == 0:
        return True, 0.0
    d = float(np.abs(a - b).max())
    sc = max(1.0, float(np.abs(b).max()))
    return d <= tol * sc, d / sc


class TermEval:
    """scipy evaluation of the model's symbolic terms on the constructor arrays, with a memo
    that keeps what the previous sequence used (lexicographic enumeration shares prefixes)"""

    def __init__(self, inits):
        self.inits = inits
        self.prev = {}
        self.cur = {}

    def next_sequence(self):
        self.prev = self.cur
        self.cur = {}

    def ev(self, t):
        from scipy import signal

        if t["k"] == "init":
            return self.inits[t["i"]]
        key = json.dumps(t, sort_keys=True)
        if key in self.cur:
            return self.cur[key]
        if key in self.prev:
            self.cur[key] = self.prev[key]
            return self.cur[key]
        x = self.ev(t["t"])
        if t["k"] == "dec":
            y = signal.decimate(x, t["q"], n=t["n"], ftype=t["ftype"], axis=0, zero_phase=t["zero_phase"])
        elif t["k"] == "det":
            y = signal.detrend(x, axis=0, type=t["type"], bp=t["bp"])
        elif t["k"] == "filt":
            wn = [fl(w) for w in t["Wn"]]
            sos = signal.butter(t["order"], wn[0] if len(wn) == 1 else wn, btype=t["btype"], output="sos", fs=fl(t["fs"]))
            y = signal.sosfiltfilt(sos, x, axis=0)
        else:
            raise ValueError(t["k"])
        self.cur[key] = y
        return y


def split_eval(te, sp):
    y = te.ev(sp["y"])
    return y[:, sp["ref"]].T, y[:, sp["mov"]].T


# ----------------------------------------------------------------------------- correspondence
def corr_sequence(ctx, cfg, seq, te, frozen):
    """replay `seq` on a fresh real object and on the model; compare after every call"""
    margs = cfg.model_args()
    mops = [op_to_model(o) for o in seq]
    recs = ctx.model("prep_single" if cfg.cls == "single" else "prep_multi", ops=mops, variant=VARIANT, **margs)
    # the SPECIFICATION fold of the invariant theorems (right-hand side), for every prefix
    srecs = ctx.model("prep_spec", n0=[int(a.shape[0]) for a in cfg.arrays], fs0=R(cfg.fs0), ops=mops)
    orecs = ctx.model("prep_single_own" if cfg.cls == "single" else "prep_multi_own", ops=mops, variant=VARIANT, own=OWN, **margs)
    py_qs = []  # Python-side bookkeeping: factors of the decimations the REAL object accepted since the start / last rollback
    obj = cfg.make()
    te.next_sequence()
    labels = []
    worst = 0.0
    for step in range(len(seq) + 1):
        alg = None
        snap = own_snapshot(obj, cfg)
        if step == 0:
            outcome, fn = "ok", "__init__"
        else:
            op = seq[step - 1]
            outcome, alg = apply_real(obj, cfg, op, step)
            labels.append(op_label(op))
            fn = {"decimate": "decimate_data", "detrend": "detrend_data", "filter": "filter_data", "rollback": "rollback", "add": "add_algorithms"}[op["k"]]
        fn = ("SingleSetup." if cfg.cls == "single" else "MultiSetup_PreGER.") + fn
        m = recs[step]
        o = observe(obj, cfg)
        bad = []
        if outcome != m["outcome"]:
            bad.append(("outcome", outcome, m["outcome"]))
        if not relclose(o["fs"], fl(m["fs"])):
            bad.append(("fs", o["fs"], m["fs"]))
        if not relclose(o["dt"], fl(m["dt"])):
            bad.append(("dt", o["dt"], m["dt"]))
        if o["nalgs"] != m["nalgs"]:
            bad.append(("nalgs", o["nalgs"], m["nalgs"]))
        if cfg.cls == "single":
            mc, md = [m["Ndat"]], [m["T"]]
        else:
            mc, md = m["Ndats"], m["Ts"]
        if o["counts"] != mc:
            bad.append(("counts", o["counts"], mc))
        if len(o["durs"]) != len(md) or not all(relclose(a, fl(b)) for a, b in zip(o["durs"], md)):
            bad.append(("durations", o["durs"], md))
        # arrays: the model's terms evaluated with scipy on the constructor arrays
        if cfg.cls == "single":
            pairs = [("data", obj.data, te.ev(m["data"])), ("_initial_data", obj._initial_data, te.ev(m["initData"]))]
            if alg is not None and m["bound"] is not None:
                pairs.append(("bound.data", alg.data, te.ev(m["bound"]["data"])))
        else:
            pairs = []
            if len(obj.data) != len(m["data"]) or len(obj.datasets) != len(m["datasets"]):
                bad.append(("nsetup", len(obj.data), len(m["data"])))
            else:
                for i, sp in enumerate(m["data"]):
                    r, mv = split_eval(te, sp)
                    pairs.append((f"data[{i}].ref", obj.data[i]["ref"], r))
                    pairs.append((f"data[{i}].mov", obj.data[i]["mov"], mv))
                for i, t in enumerate(m["datasets"]):
                    pairs.append((f"datasets[{i}]", obj.datasets[i], te.ev(t)))
                for i, t in enumerate(m["initDatasets"]):
                    pairs.append((f"_initial_datasets[{i}]", obj._initial_datasets[i], te.ev(t)))
                if alg is not None and m["bound"] is not None:
                    for i, sp in enumerate(m["bound"]["data"]):
                        r, mv = split_eval(te, sp)
                        pairs.append((f"bound.data[{i}].ref", alg.data[i]["ref"], r))
                        pairs.append((f"bound.data[{i}].mov", alg.data[i]["mov"], mv))
                if [list(map(int, r)) for r in obj.ref_ind] != m["ref_ind"]:
                    bad.append(("ref_ind", obj.ref_ind, m["ref_ind"]))
        for name, real, mod in pairs:
            ok, d = close(real, mod)
            worst = max(worst, d if d != float("inf") else 0.0)
            if not ok:
                bad.append((name, f"rel diff {d:.3e} shape {np.shape(real)}", f"shape {np.shape(mod)}"))
        if alg is not None:
            if m["bound"] is None:
                bad.append(("bound", "bound", None))
            else:
                if not relclose(float(alg.fs), fl(m["bound"]["fs"])):
                    bad.append(("bound.fs", float(alg.fs), m["bound"]["fs"]))
                if not relclose(float(alg.dt), fl(m["bound"]["dt"])):
                    bad.append(("bound.dt", float(alg.dt), m["bound"]["dt"]))
        if not relclose(float(obj._initial_fs), fl(m["initFs"])):
            bad.append(("_initial_fs", float(obj._initial_fs), m["initFs"]))
        ctx.corr(
            fn,
            not bad,
            {"cfg": cfg.describe(), "ops": seq[:step]},
            [(b[0], b[2]) for b in bad],
            [(b[0], b[1]) for b in bad],
            (cfg.cls, cfg.layout, tuple(labels)),
        )
        ctx.count(f"corr_outcome_{outcome}")
        if step:
            ctx.count(f"corr_op_{seq[step - 1]['k']}")
        sbad, py_qs = spec_compare(ctx, cfg, obj, te, srecs[step], seq[step - 1] if step else None, outcome, py_qs)
        ctx.corr(
            "spec:" + fn,
            not sbad,
            {"cfg": cfg.describe(), "ops": seq[:step]},
            [(b[0], b[2]) for b in sbad],
            [(b[0], b[1]) for b in sbad],
            (cfg.cls, cfg.layout, tuple(labels)),
        )
        obad = own_compare(ctx, cfg, obj, snap, orecs[step], outcome, alg, seq[:step])
        ctx.corr(
            "own:" + fn,
            not obad,
            {"cfg": cfg.describe(), "ops": seq[:step]},
            [(b[0], b[2]) for b in obad],
            [(b[0], b[1]) for b in obad],
            (cfg.cls, cfg.layout, tuple(labels)),
        )
        if bad or sbad or obad:
            break  # states have diverged; later comparisons of this sequence carry no information
    ctx.dist["corr_worst_array_rel_diff"] = max(ctx.dist.get("corr_worst_array_rel_diff", 0.0), worst)


def spec_compare(ctx, cfg, obj, te, sp, op, outcome, py_qs):
    """the Lean SPEC fold (`specStep`, `Op.accepted`, `activeQs` - the right-hand side of C14_invariant_*) against the real
    object directly: its terms evaluated with scipy vs the object's arrays, `Op.accepted` vs whether the real call raised,
    `activeQs` vs the factors of the decimations the real object accepted, fs vs fs0 / their product"""
    bad = []
    if op is not None:
        if sp["accepted"] != (outcome == "ok"):
            bad.append(("accepted", outcome, sp["accepted"]))
        ctx.count("spec_accepted" if sp["accepted"] else "spec_rejected_" + op["k"])
        if op["k"] == "rollback" and outcome == "ok":
            py_qs = []
        elif op["k"] == "decimate" and outcome == "ok":
            py_qs = py_qs + [op["q"]]
        if sp["qs"] != py_qs:
            bad.append(("activeQs", py_qs, sp["qs"]))
    prod = 1
    for q in py_qs:
        prod *= q
    if not relclose(float(obj.fs), fl(sp["fs"])):
        bad.append(("fs", float(obj.fs), sp["fs"]))
    if prod and not relclose(float(obj.fs), cfg.fs0 / prod):
        bad.append(("fs=fs0/prod(qs)", float(obj.fs), cfg.fs0 / prod))
    if not relclose(float(obj.dt), 1 / fl(sp["fs"])):
        bad.append(("dt", float(obj.dt), "1/" + str(sp["fs"])))
    real = [obj.data] if cfg.cls == "single" else list(obj.datasets)
    if len(real) != len(sp["terms"]):
        bad.append(("nterms", len(real), len(sp["terms"])))
        return bad, py_qs
    counts = [int(obj.Ndat)] if cfg.cls == "single" else [int(x) for x in obj.Ndats]
    for i, t in enumerate(sp["terms"]):
        y = te.ev(t)
        ok, d = close(real[i], y)
        if not ok:
            bad.append((f"terms[{i}]", f"rel diff {d:.3e} shape {np.shape(real[i])}", f"shape {np.shape(y)}"))
        if counts[i] != y.shape[0]:
            bad.append((f"count[{i}]", counts[i], y.shape[0]))
        if cfg.cls == "preger":  # data = pre_multisetup(spec terms, the constructor's ref_ind): split restated here
            ref = list(cfg.ref_ind[i])
            mov = [j for j in range(y.shape[1]) if j not in ref]
            for key, cols in (("ref", ref), ("mov", mov)):
                ok, d = close(obj.data[i][key], y[:, cols].T)
                if not ok:
                    bad.append((f"split[{i}].{key}", f"rel diff {d:.3e}", "spec term split by ref_ind"))
    return bad, py_qs


# ----------------------------------------------------------------------------- buffer identities (own stream)
def own_snapshot(obj, cfg):
    """references to (not copies of) the buffers the object holds before a call, with their byte hashes"""
    if cfg.cls == "single":
        ds, ini = [obj.data], [obj._initial_data]
    else:
        ds, ini = list(obj.datasets), list(obj._initial_datasets)
    return {"ds": ds, "ini": ini, "h_ds": [_h(a) for a in ds], "h_ini": [_h(a) for a in ini], "h_user": [_h(a) for a in cfg.arrays]}


def _owner(a, users, inits):
    for j, u in enumerate(users):
        if np.shares_memory(a, u):
            return "user", j
    for i in inits:
        if np.shares_memory(a, i):
            return "init", None
    return "fresh", None


def own_compare(ctx, cfg, obj, snap, m, outcome, alg, prefix):
    """the real object's buffers (np.shares_memory, byte hashes around the call) vs the model's identities"""
    bad = []

    def cmp(name, real, mod):
        if real != mod:
            bad.append((name, real, mod))

    def cmp_wrote(name, real, mod):
        # bytes changed => the model must say "written"; the converse fails only when the in-place result equals the input
        # bit for bit (detrending an already detrended record): counted, and the same-buffer flags are still compared
        if real != mod:
            redet = any(o["k"] == "detrend" for o in prefix[:-1])
            if isinstance(real, list):
                soft = redet and all((not r) or w for r, w in zip(real, mod)) and len(real) == len(mod)
            else:
                soft = redet and mod and not real
            if soft:
                ctx.count("own_write_invisible_bitwise_noop")
            else:
                bad.append((name, real, mod))

    cmp("outcome", outcome, m["outcome"])
    users = cfg.arrays
    wrote_user = [_h(a) != h for a, h in zip(users, snap["h_user"])]
    wrote_prev = [_h(a) != h for a, h in zip(snap["ds"], snap["h_ds"])]
    wrote_init = any(_h(a) != h for a, h in zip(snap["ini"], snap["h_ini"]))
    if cfg.cls == "single":
        ini = obj._initial_data
        own, _ = _owner(obj.data, users, [ini])
        cmp("data_owner", own, m["data_owner"])
        cmp("data_shares_user", bool(np.shares_memory(obj.data, users[0])), m["data_shares_user"])
        cmp("data_shares_init", bool(np.shares_memory(obj.data, ini)), m["data_shares_init"])
        cmp("init_shares_user", bool(np.shares_memory(ini, users[0])), m["init_shares_user"])
        cmp("data_same_buffer", bool(np.shares_memory(obj.data, snap["ds"][0])), m["data_same_buffer"])
        cmp("init_same_buffer", bool(np.shares_memory(ini, snap["ini"][0])), m["init_same_buffer"])
        cmp("data_is_prev_init", bool(np.shares_memory(obj.data, snap["ini"][0])), m["data_is_prev_init"])
        cmp_wrote("wrote_prev_data", wrote_prev[0], m["wrote_prev_data"])
        cmp_wrote("wrote_user", wrote_user[0], m["wrote_user"])
        cmp("wrote_init", wrote_init, m["wrote_init"])
        if alg is not None:
            cmp("bound_is_data", alg.data is obj.data, m["bound_is_data"])
            cmp("bound_owner", _owner(alg.data, users, [ini])[0], m["bound_owner"])
            ctx.count("own_bound_" + str(m["bound_owner"]))
        ctx.count("own_data_" + str(m["data_owner"]))
        if m["wrote_user"]:
            ctx.count("own_wrote_user")
        elif m["wrote_prev_data"]:
            ctx.count("own_wrote_private_buffer")
    else:
        inis = list(obj._initial_datasets)
        own = [_owner(a, users, inis) for a in obj.datasets]
        cmp("ds_owner", [o[0] for o in own], m["ds_owner"])
        cmp("ds_user_index", [o[1] for o in own], m["ds_user_index"])
        cmp("ds_same_buffer", [bool(np.shares_memory(a, b)) for a, b in zip(obj.datasets, snap["ds"])], m["ds_same_buffer"])
        cmp("ds_is_prev_init", [bool(np.shares_memory(a, b)) for a, b in zip(obj.datasets, snap["ini"])], m["ds_is_prev_init"])
        cmp("init_same_buffer", [bool(np.shares_memory(a, b)) for a, b in zip(inis, snap["ini"])], m["init_same_buffer"])
        cmp("init_owner", [_owner(a, users, [a])[0] for a in inis], m["init_owner"])
        cmp_wrote("wrote_prev_ds", wrote_prev, m["wrote_prev_ds"])
        cmp_wrote("wrote_user", wrote_user, m["wrote_user"])
        cmp("wrote_init", wrote_init, m["wrote_init"])
        # the split handed to algorithms is built with fancy indexing: new buffers every time
        for i, sp in enumerate(obj.data):
            for key in ("ref", "mov"):
                if _owner(sp[key], users, inis + list(obj.datasets))[0] != "fresh":
                    bad.append((f"data[{i}].{key}", "shares memory with a user array / initial copy / datasets", "fresh"))
        for t in set(m["ds_owner"]):
            ctx.count("own_ds_" + t)
        if any(m["wrote_user"]):
            ctx.count("own_wrote_user")
        elif any(m["wrote_prev_ds"]):
            ctx.count("own_wrote_private_buffer")
    return bad


def corr_own_partial(ctx):
    """MultiSetup_PreGER.detrend_data(overwrite_data=True, bp=[b]) with b beyond the length of a LATER record only: the call
    raises ValueError and has already detrended the earlier records in place (the value model cannot say so: own layer only)"""
    g = ctx.nprng()
    rng = ctx.rng
    for _ in range(ctx.n(6, 30)):
        k = rng.randint(2, 3)
        lens = [rng.randint(150, 400) for _ in range(k)]
        short = rng.randrange(1, k)  # the first record that is too short for the breakpoint
        lens[short] = rng.randint(60, 100)
        for i in range(short):
            lens[i] = max(lens[i], 150)
        b = rng.randint(lens[short] + 1, 149)
        nchs = [rng.randint(2, 4) for _ in range(k)]
        arrays = [g.standard_normal((n, c)) + rng.uniform(1, 3) * np.arange(n)[:, None] / n for n, c in zip(lens, nchs)]
        cfg = Cfg("preger", rng.choice([100.0, 960.0]), arrays, [[rng.randrange(c)] for c in nchs], layout=f"partial/{k}sets")
        pre = rng.choice([[], [{"k": "rollback"}], [{"k": "detrend", "kw": {"type": "constant", "overwrite_data": True}}]])
        seq = pre + [{"k": "detrend", "kw": {"overwrite_data": True, "bp": [b]}}]
        orecs = ctx.model("prep_multi_own", ops=[op_to_model(o) for o in seq], variant=VARIANT, own=OWN, **cfg.model_args())
        obj = cfg.make()
        labels = []
        for step in range(len(seq) + 1):
            snap = own_snapshot(obj, cfg)
            outcome = "ok"
            if step:
                outcome, _ = apply_real(obj, cfg, seq[step - 1], step)
                labels.append(op_label(seq[step - 1]))
            obad = own_compare(ctx, cfg, obj, snap, orecs[step], outcome, None, seq[:step])
            ctx.corr(
                "own:MultiSetup_PreGER.detrend_data[raises-after-writing]",
                not obad,
                {"cfg": cfg.describe(), "ops": seq[:step]},
                [(x[0], x[2]) for x in obad],
                [(x[0], x[1]) for x in obad],
                ("preger-partial", k, short, tuple(labels)),
            )
            if obad:
                break
        ctx.count("own_partial_" + ("after-" + pre[0]["k"] if pre else "first-call"))


# ----------------------------------------------------------------------------- add_algorithms by name
def gen_named_sequence(ctx, cfg):
    """preprocessing calls interleaved with add_algorithms(*algs) over a pool of 5 algorithm objects carrying 3 names:
    several objects per call, the same object re-added later, a NEW object under a name already present"""
    rng = ctx.rng
    # no overwrite_data here: this stream compares what EVERY earlier-bound object holds after every call with the model's
    # TERM, and an in-place call changes the array an earlier object shares (identity is the business of the own stream)
    alpha = [o for o in gen_alphabet(ctx, cfg, 30, overwrite=False) if o["k"] != "add"]
    pool = [[oid, rng.randrange(3)] for oid in range(5)]
    for _ in range(50):
        L = rng.randint(5, 8)
        seq = []
        for _i in range(L):
            if rng.random() < 0.45:
                seq.append({"k": "add", "algs": [list(rng.choice(pool)) for _ in range(rng.choice([1, 1, 2, 3]))]})
            else:
                seq.append(rng.choice(alpha))
        adds = [i for i, o in enumerate(seq) if o["k"] == "add"]
        # at least two additions with an accepted data-changing call in between
        if len(adds) >= 2 and any(o["k"] in ("decimate", "detrend", "filter") for o in seq[adds[0] : adds[-1]]):
            if seq_min_len(cfg, seq) >= MINLEN and tie_free(cfg, seq):
                return seq, pool
    return None, pool


def corr_named(ctx, cfg, seq, pool):
    """real setup with named algorithm objects vs `prep_*_named`: after EVERY call, for EVERY object of the pool what it
    holds (data = the model's term evaluated with scipy, fs, dt - or nothing), and `self.algorithms` (names in dict order,
    and WHICH object sits under each name)"""
    _, _, FDD, FDD_MS = _classes()
    single = cfg.cls == "single"
    te = TermEval(cfg.arrays)
    mops = [o if o["k"] == "add" else op_to_model(o) for o in seq]
    recs = ctx.model("prep_single_named" if single else "prep_multi_named", ops=mops, variant=VARIANT, **cfg.model_args())
    obj = cfg.make()
    algobjs = {oid: (FDD if single else FDD_MS)(name=f"n{name}") for oid, name in pool}
    oid_of = {id(a): oid for oid, a in algobjs.items()}
    fnp = "SingleSetup." if single else "MultiSetup_PreGER."
    labels = []
    for step in range(len(seq) + 1):
        fn = "__init__"
        outcome = "ok"
        if step:
            op = seq[step - 1]
            if op["k"] == "add":
                fn = "add_algorithms"
                labels.append("add" + "".join(f"{o}n{n}" for o, n in op["algs"]))
                obj.add_algorithms(*[algobjs[o] for o, _ in op["algs"]])
                ctx.count(f"named_add_{len(op['algs'])}algs")
            else:
                fn = {"decimate": "decimate_data", "detrend": "detrend_data", "filter": "filter_data", "rollback": "rollback"}[op["k"]]
                labels.append(op_label(op))
                outcome, _ = apply_real(obj, cfg, op, step)
        m = recs[step]
        bad = []
        if outcome != m["base"]["outcome"]:
            bad.append(("outcome", outcome, m["base"]["outcome"]))
        if not relclose(float(obj.fs), fl(m["base"]["fs"])):
            bad.append(("fs", float(obj.fs), m["base"]["fs"]))
        real_dict = [[int(name[1:]), oid_of.get(id(a), -1)] for name, a in obj.algorithms.items()]
        if real_dict != m["algorithms"]:
            bad.append(("algorithms", real_dict, m["algorithms"]))
        held = {o: b for o, b in m["held"]}
        for oid, a in algobjs.items():
            data = getattr(a, "data", None)
            if oid not in held:
                if data is not None:
                    bad.append((f"alg{oid}.data", "bound", None))
                continue
            ctx.count("named_held_compared")
            b = held[oid]
            if data is None:
                bad.append((f"alg{oid}.data", None, "bound"))
                continue
            if single:
                pairs = [(f"alg{oid}.data", data, te.ev(b["data"]))]
            else:
                pairs = []
                if len(data) != len(b["data"]):
                    bad.append((f"alg{oid}.nsetup", len(data), len(b["data"])))
                else:
                    for i, sp in enumerate(b["data"]):
                        r, mv = split_eval(te, sp)
                        pairs.append((f"alg{oid}.data[{i}].ref", data[i]["ref"], r))
                        pairs.append((f"alg{oid}.data[{i}].mov", data[i]["mov"], mv))
            for name, real, mod in pairs:
                ok, d = close(real, mod)
                if not ok:
                    bad.append((name, f"rel diff {d:.3e} shape {np.shape(real)}", f"shape {np.shape(mod)}"))
            if not relclose(float(a.fs), fl(b["fs"])):
                bad.append((f"alg{oid}.fs", float(a.fs), b["fs"]))
            if not relclose(float(a.dt), fl(b["dt"])):
                bad.append((f"alg{oid}.dt", float(a.dt), b["dt"]))
        ctx.corr(
            fnp + fn + "[named]",
            not bad,
            {"cfg": cfg.describe(), "pool": pool, "ops": seq[:step]},
            [(x[0], x[2]) for x in bad],
            [(x[0], x[1]) for x in bad],
            (cfg.cls, cfg.layout, tuple(labels)),
        )
        if bad:
            break


def correspondence_ctor(ctx):
    """MultiSetup_PreGER.__init__ on valid and malformed ref_ind (duplicates, out of range, too few / too many lists, empty,
    every channel a reference) vs `preMultisetupChecked`: exception class, and the split when it returns"""
    _, PreGER, _, _ = _classes()
    rng = ctx.rng
    g = ctx.nprng()
    for _ in range(ctx.n(40, 400)):
        k = rng.randint(1, 3)
        nchs = [rng.randint(2, 5) for _ in range(k)]
        arrays = [g.standard_normal((60, c)) for c in nchs]
        refs = [rng.sample(range(c), rng.randint(1, c - 1)) for c in nchs]
        kind = rng.choice(["valid", "valid", "dup", "range", "short", "long", "empty", "all", "unequal"])
        i = rng.randrange(k)
        if kind == "dup":
            refs[i] = refs[i] + [rng.choice(refs[i])]
            rng.shuffle(refs[i])
        elif kind == "range":
            refs[i] = refs[i] + [nchs[i] + rng.randint(0, 2)]
            rng.shuffle(refs[i])
        elif kind == "short":
            refs = refs[:-1]
        elif kind == "long":
            refs = refs + [[0]]
        elif kind == "empty":
            refs[i] = []
        elif kind == "all":
            refs[i] = rng.sample(range(nchs[i]), nchs[i])
        m = ctx.model("pre_multisetup_checked", nch=nchs, ref_ind=refs)
        try:
            obj = PreGER(fs=100.0, ref_ind=[list(r) for r in refs], datasets=arrays)
            outcome = "ok"
        except (TypeError, ValueError, IndexError) as e:
            obj = None
            outcome = type(e).__name__
        bad = []
        if outcome != m["outcome"]:
            bad.append(("outcome", outcome, m["outcome"]))
        elif obj is not None:
            if len(obj.data) != len(m["splits"]):
                bad.append(("nsetup", len(obj.data), len(m["splits"])))
            else:
                for j, sp in enumerate(m["splits"]):
                    if not (np.array_equal(obj.data[j]["ref"], arrays[j][:, sp["ref"]].T) and np.array_equal(obj.data[j]["mov"], arrays[j][:, sp["mov"]].T)):
                        bad.append((f"split[{j}]", "differs", sp))
        ctx.corr("MultiSetup_PreGER.__init__[ref_ind]", not bad, {"nch": nchs, "ref_ind": refs, "kind": kind}, [(b[0], b[2]) for b in bad], [(b[0], b[1]) for b in bad], (kind, outcome, k))
        ctx.count(f"ctor_{kind}_{outcome}")


def correspondence_named(ctx):
    for cls in ("single", "preger"):
        for _ in range(ctx.n(8, 60)):
            cfg = gen_cfg(ctx, cls, 1200, 2500)
            seq, pool = gen_named_sequence(ctx, cfg)
            if seq is None:
                ctx.skipped += 1
                continue
            corr_named(ctx, cfg, seq, pool)
            ctx.count("corr_sequences_named")


def enumerate_sequences(alphabet, L):
    return itertools.product(alphabet, repeat=L)


def plan(ctx, which):
    """(cfg, iterator of sequences, tag) work list shared by correspondence and oracle"""
    out = []
    L = 4 if ctx.thorough else 3
    for cls in ("single", "preger"):
        # exhaustive: sequences of length L contain every shorter one as a prefix, and every prefix is compared
        n_lo = MINLEN * 5 ** (L - 1) + 40
        reps = ctx.n(1, 1)
        for _ in range(reps):
            # the exhaustively enumerated PreGER object always lists >= 2 references out of ascending order
            cfg = gen_cfg(ctx, cls, n_lo, n_lo + 400, nsets=(2 if ctx.thorough else None), force_unsorted=(cls == "preger"))
            alpha = gen_alphabet(ctx, cfg, 5 ** (L - 1))
            out.append((cfg, alpha, L, "exhaustive"))
        if which == "corr":  # half of the alphabet are calls scipy must reject (some only in some states)
            cfg = gen_cfg(ctx, cls, n_lo, n_lo + 400, force_unsorted=(cls == "preger"))
            out.append((cfg, gen_alphabet_malformed(ctx, cfg), L, "exhaustive-malformed"))
        if ctx.thorough:  # more layouts, exhaustive at length 3
            for _ in range(4):
                cfg = gen_cfg(ctx, cls, MINLEN * 25 + 40, MINLEN * 25 + 600)
                alpha = gen_alphabet(ctx, cfg, 25)
                out.append((cfg, alpha, 3, "exhaustive"))
        for _ in range(ctx.n(3, 12)):
            cfg = gen_cfg(ctx, cls, 2500, 5000)
            out.append((cfg, None, 0, "sampled"))
    return out


def sampled_sequences(ctx, cfg, count, malformed):
    rng = ctx.rng
    seqs = []
    tries = 0
    while len(seqs) < count and tries < 50 * count:
        tries += 1
        alpha = gen_alphabet(ctx, cfg, 30)
        L = rng.randint(4, 6) if ctx.thorough else rng.randint(4, 5)
        seq = [rng.choice(alpha) for _ in range(L)]
        if malformed:
            for _ in range(rng.randint(0, 2)):
                seq[rng.randrange(L)] = gen_malformed(ctx, cfg)
        if seq_min_len(cfg, seq) < MINLEN or not tie_free(cfg, seq):
            ctx.skipped += 1
            continue
        seqs.append(seq)
    return seqs


def correspondence(ctx):
    for cfg, alpha, L, tag in plan(ctx, "corr"):
        frozen = [a.copy() for a in cfg.arrays]
        te = TermEval(frozen)  # private copies: an in-place call of the real object must not reach the reference evaluation
        if tag.startswith("exhaustive"):
            seqs = enumerate_sequences(alpha, L)
            ctx.count(f"corr_{tag}_L{L}_{cfg.cls}")
            ctx.sample({"cfg": cfg.describe(), "alphabet": alpha, "L": L})
        else:
            seqs = sampled_sequences(ctx, cfg, ctx.n(6, 40), malformed=True)
        for seq in seqs:
            seq = list(seq)
            if tag.startswith("exhaustive") and (seq_min_len(cfg, seq) < MINLEN or not tie_free(cfg, seq)):
                ctx.skipped += 1
                continue
            try:
                corr_sequence(ctx, cfg, seq, te, frozen)
            finally:  # detrend_data(overwrite_data=True) writes the user's arrays: every sequence starts from the same bytes
                for a, f in zip(cfg.arrays, frozen):
                    np.copyto(a, f)
            ctx.count(f"corr_sequences_{tag}")
    correspondence_named(ctx)
    correspondence_ctor(ctx)
    corr_own_partial(ctx)


# ----------------------------------------------------------------------------- oracle (from the statement)
class Expect:
    """what the statement says: scipy applied in sequence to the initial data, fs divided by every factor"""

    def __init__(self, cfg):
        self.cfg = cfg
        self.init = [a.copy() for a in cfg.arrays]
        self.arrays = [a for a in self.init]
        self.fs = cfg.fs0
        # classification of a data mismatch only: what the object would hold if detrend/filter results
        # were not carried forward (decimations only), and the last call applied to that
        self.stale = [a for a in self.init]
        self.stale_last = self.stale
        self.last_q = None  # factor of the most recent decimation since the start / last rollback (classification only)

    def apply(self, op):
        """returns the exception class name scipy itself raises on the expected arrays, or 'ok'"""
        from scipy import signal

        k = op["k"]
        try:
            if k == "decimate":
                new = [signal.decimate(a, op["q"], axis=0, **{x: v for x, v in op.get("kw", {}).items() if x != "axis"}) for a in self.arrays]
                self.stale = [signal.decimate(a, op["q"], axis=0, **{x: v for x, v in op.get("kw", {}).items() if x != "axis"}) for a in self.stale]
                self.stale_last = self.stale
                self.arrays = new
                self.fs = self.fs / op["q"]
                self.last_q = op["q"]
            elif k == "detrend":
                # the statement is about VALUES: the reference never detrends in place (its arrays may be its own initial copies);
                # scipy only tests the truth value of overwrite_data, so dropping it cannot change which calls raise
                kw = {x: v for x, v in op.get("kw", {}).items() if x not in ("axis", "overwrite_data")}
                new = [signal.detrend(a, axis=0, **kw) for a in self.arrays]
                self.stale_last = [signal.detrend(a, axis=0, **kw) for a in self.stale]
                self.arrays = new
            elif k == "filter":
                wn = op["Wn"][0] if len(op["Wn"]) == 1 else list(op["Wn"])
                order = 8 if op.get("order") is None else op["order"]
                sos = signal.butter(order, wn, btype=op["btype"], output="sos", fs=self.fs)
                self.stale_last = [signal.sosfiltfilt(sos, a, axis=0) for a in self.stale]
                self.arrays = [signal.sosfiltfilt(sos, a, axis=0) for a in self.arrays]
            elif k == "rollback":
                self.arrays = [a for a in self.init]
                self.stale = [a for a in self.init]
                self.stale_last = self.stale
                self.last_q = None
                self.fs = self.cfg.fs0
            return "ok"
        except (TypeError, ValueError, ZeroDivisionError) as e:
            return type(e).__name__

    def handed(self, arrays=None):
        """what an algorithm must receive"""
        arrays = self.arrays if arrays is None else arrays
        if self.cfg.cls == "single":
            return arrays[0]
        out = []
        for a, ref in zip(arrays, self.cfg.ref_ind):
            mov = [j for j in range(a.shape[1]) if j not in ref]
            out.append({"ref": a[:, ref].T, "mov": a[:, mov].T})
        return out


def _cmp_handed(cfg, got, want):
    """(ok, worst rel diff)"""
    if cfg.cls == "single":
        return close(got, want, 1e-12)
    if len(got) != len(want):
        return False, float("inf")
    worst = 0.0
    allok = True
    for g, w in zip(got, want):
        for key in ("ref", "mov"):
            ok, d = close(g[key], w[key], 1e-12)
            allok &= ok
            worst = max(worst, d)
    return allok, worst


def oracle_sequence(ctx, cfg, seq, sigcount):
    pristine = [a.copy() for a in cfg.arrays]
    try:
        _oracle_sequence(ctx, cfg, seq, sigcount, pristine)
    finally:  # a call that wrote the user's arrays must not leak into the next sequence on the same configuration
        for a, f in zip(cfg.arrays, pristine):
            np.copyto(a, f)


def _oracle_sequence(ctx, cfg, seq, sigcount, pristine):
    def viol(sig, what, step, observed=None, expected=None):
        sigcount[sig] = sigcount.get(sig, 0) + 1
        if sigcount[sig] <= 2:
            ctx.violation(sig, what, {"cfg": cfg.describe(), "ops": seq[:step], "arrays": [a.tolist() for a in pristine] if sum(a.size for a in pristine) < 4000 else None}, observed, expected)

    cname = cfg.cls
    user_h = [_h(a) for a in cfg.arrays]
    ref_json = json.dumps(cfg.ref_ind)
    obj = cfg.make()
    exp = Expect(cfg)
    init_h = init_copy_hash(obj, cfg)
    if init_h[0] != user_h:
        viol(f"{cname}:initial-copy-differs", "stored initial copy differs from the constructor arrays", 0)
        return
    for step in range(len(seq) + 1):
        failed = False
        alg = None
        kind = "init"
        if step:
            op = seq[step - 1]
            kind = op["k"]
            want = exp.apply(op)
            got, alg = apply_real(obj, cfg, op, step)
            ctx.oracle_cases += 1
            ctx.nontrivial.add(("oracle", cname, cfg.layout, tuple(op_label(o) for o in seq[:step])))
            if got != want:
                if want == "ok":
                    viol(f"{cname}:{kind}:raises-{got}", f"{kind} with documented arguments {op.get('kw', '')} raises {got}; scipy accepts the same call", step, got, want)
                else:
                    viol(f"{cname}:{kind}:accepts-what-scipy-rejects", f"{kind}: scipy raises {want}, the method returned {got}", step, got, want)
                return
            # monitors: user arrays and stored initial copy
            if [_h(a) for a in cfg.arrays] != user_h or (cfg.ref_ind is not None and json.dumps(cfg.ref_ind) != ref_json):
                if kind == "detrend" and op.get("kw", {}).get("overwrite_data") and json.dumps(cfg.ref_ind) == ref_json:
                    # the caller asked scipy for in-place work and the object still held the caller's own array: the values
                    # of the object are as stated, so record and keep following the history (from the new bytes)
                    worst = max(float(np.abs(a - f).max()) for a, f in zip(cfg.arrays, pristine))
                    viol(
                        f"{cname}:{OW_SIG}",
                        f"detrend_data(**{op['kw']}) detrended the array(s) the user passed to the constructor in place "
                        f"(max change {worst:.3g}); the property says no call modifies them",
                        step, "user array modified", "user array untouched",
                    )
                    user_h = [_h(a) for a in cfg.arrays]
                else:
                    viol(f"{cname}:mutated-user-array:{kind}", f"{kind} modified an array (or ref_ind) passed in by the user", step)
                    failed = True
            if init_copy_hash(obj, cfg) != init_h:
                viol(f"{cname}:mutated-initial-copy:{kind}", f"{kind} changed the stored initial copy (_initial_*)", step)
                failed = True
        o = observe(obj, cfg)
        tag = "rollback-restores" if kind == "rollback" else "after"
        lens = [a.shape[0] for a in exp.arrays]
        if not relclose(o["fs"], exp.fs):
            viol(f"{cname}:fs:{tag}-{kind}", f"fs = {o['fs']} but fs0 divided by every decimation factor = {exp.fs}", step, o["fs"], exp.fs)
            failed = True
        if not relclose(o["dt"], 1 / exp.fs):
            viol(f"{cname}:dt:{tag}-{kind}", f"dt = {o['dt']} but 1/fs = {1 / exp.fs}", step, o["dt"], 1 / exp.fs)
            failed = True
        if o["counts"] != lens:
            viol(f"{cname}:count:{tag}-{kind}", f"sample counts {o['counts']} but array lengths {lens}", step, o["counts"], lens)
            failed = True
        wantd = [n * (1 / exp.fs) for n in lens]
        if len(o["durs"]) != len(wantd) or not all(relclose(a, b) for a, b in zip(o["durs"], wantd)):
            if exp.last_q and len(o["durs"]) == len(wantd) and all(relclose(a * exp.last_q, b) for a, b in zip(o["durs"], wantd)):
                # the duration is a derived attribute no later call reads: record and keep following the history
                viol(
                    f"{cname}:duration=samples*dt/q-since-decimate",
                    f"duration {o['durs']} is samples x dt / q (q = {exp.last_q}, the last decimation factor); samples x dt = {wantd}",
                    step, o["durs"], wantd,
                )
            else:
                viol(f"{cname}:duration:{tag}-{kind}", f"duration {o['durs']} but samples x dt = {wantd}", step, o["durs"], wantd)
                failed = True
        ok, d = _cmp_handed(cfg, obj.data, exp.handed())
        ctx.dist["oracle_worst_array_rel_diff"] = max(ctx.dist.get("oracle_worst_array_rel_diff", 0.0), d if ok else 0.0)
        if not ok:
            ok2, _ = _cmp_handed(cfg, obj.data, exp.handed(exp.stale_last)) if cname == "preger" else (False, 0)
            if ok2:
                viol(f"{cname}:data:earlier-detrend/filter-forgotten", f"data after {kind} equal the scipy sequence with the earlier detrend/filter calls dropped", step)
            else:
                viol(f"{cname}:data:{tag}-{kind}", f"data differ from the scipy operations applied in sequence (rel diff {d:.2e})", step)
            failed = True
        if alg is not None:
            ok, d = _cmp_handed(cfg, alg.data, exp.handed())
            if not ok:
                viol(f"{cname}:bound-data", "a freshly added algorithm received data that differ from the scipy sequence", step)
                failed = True
            if not relclose(float(alg.fs), exp.fs) or not relclose(float(alg.dt), 1 / exp.fs):
                viol(f"{cname}:bound-fs", f"a freshly added algorithm received fs={alg.fs}, dt={alg.dt}; expected {exp.fs}, {1 / exp.fs}", step)
                failed = True
        if failed:
            return


def oracle(ctx, scale):
    sigcount = {}
    for cfg, alpha, L, tag in plan(ctx, "oracle"):
        if tag == "exhaustive":
            seqs = enumerate_sequences(alpha, L)
            ctx.count(f"oracle_exhaustive_L{L}_{cfg.cls}")
        else:
            seqs = sampled_sequences(ctx, cfg, ctx.n(6, 40) * scale, malformed=False)
        for seq in seqs:
            seq = list(seq)
            if seq_min_len(cfg, seq) < MINLEN or not tie_free(cfg, seq):
                ctx.skipped += 1
                continue
            oracle_sequence(ctx, cfg, seq, sigcount)
            ctx.count(f"oracle_sequences_{tag}")
    for s, k in sigcount.items():
        ctx.dist[f"violations[{s}]"] = k


# ----------------------------------------------------------------------------- replay
def replay(rec):
    v = rec["violation"]
    inp = v["input"]
    print("replaying", v["sig"], "-", v["what"])
    d = inp["cfg"]
    g = np.random.default_rng(0)
    if inp.get("arrays"):
        arrays = [np.array(a, float) for a in inp["arrays"]]
    else:  # the defect classes of this property do not depend on the sample values
        arrays = [g.standard_normal(tuple(s)) for s in d["shapes"]]
    cfg = Cfg(d["cls"], d["fs0"], arrays, d["ref_ind"], d["layout"])

    class C:
        oracle_cases = 0
        nontrivial = set()
        dist = {}

        def violation(self, sig, what, *a, **k):
            print("VIOLATION reproduced:", sig, "-", what)

    oracle_sequence(C(), cfg, inp["ops"], {})
    return 0
