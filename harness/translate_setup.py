"""Python-AST -> Lean translator for the SETUP LAYER and the ALGORITHM PROTOCOL.

Walks setup/{base,single,multi}.py (classes BaseSetup, SingleSetup, MultiSetup_PreGER) and algorithms/base.py
(BaseAlgorithm) of the tested tree and writes lean/PyomaVerif/Generated/Setup.lean (namespace PV.Gen.Setup; the
structures and queries are in Model/SetupTbl.lean, the obligations in Props/WiringSetup.lean).

Per method, in execution order (positions number stores, call sites and raises of one method; private helpers
`self._x(...)` / `super()._x(...)` of the walked classes are inlined in place):
 * stores : every assignment to an attribute of `self` and the VALUE it receives, in terms of the state at method entry and
            the parameters: local aliases substituted; the names a helper's result is unpacked into replaced by the
            helper's return expressions; a read of `self.x` after `self.x = v` replaced by `v`; a list that a `for` loop
            fills with `append` reads as the comprehension it computes; the result of any other call is the symbol
            `<callee>[k]` (k-th call of that callee in the method), `#i` its i-th component;
 * sites  : every call with the expression each parameter receives (positional arguments resolved through the signature
            for methods of the walked classes, functions of pyoma2.functions.gen and of scipy.signal (installed version),
            `#i` otherwise, `**` for a dict);
 * raises : every `raise` with the branch conditions it sits under (a branch that ends in raise/return puts the negated
            test on the path of what follows);
 * methods: parameters, decorators, attributes of self written, objects modified in place, returned expression;
 * classes: bases, names bound in the class body, class-level values.
FAIL CLOSED: a statement or expression form outside this grammar (try / with / while / lambda / walrus / nested def /
`for ... else` / a store into another object's attribute in a walked method ...) makes `write` return (False, msg, {}).
"""
import ast
import copy
import os

MAXLEN = 220
FILES = [("setup/base.py", "setup.base"), ("setup/single.py", "setup.single"), ("setup/multi.py", "setup.multi"),
         ("algorithms/base.py", "algorithms.base")]
CLASSES = ("BaseSetup", "SingleSetup", "MultiSetup_PreGER", "BaseAlgorithm")
MUTATORS = {"append", "pop", "clear", "extend", "insert", "remove", "sort", "reverse", "update", "add", "discard", "setdefault",
            "popitem", "fill", "resize", "put", "itemset", "setflags", "partition", "__setitem__", "__delitem__", "byteswap"}
QUIET = {"logger"}  # calls through these names are not recorded (logging)


class Refuse(Exception):
    pass


def lean_str(s):
    return '"' + s.replace("\\", "\\\\").replace('"', '\\"') + '"'


def text(e):
    s = ast.unparse(e).replace("\n", " ")
    return s if len(s) <= MAXLEN else s[:MAXLEN] + "..."


def is_self(e):
    return isinstance(e, ast.Name) and e.id == "self"


def self_attr(e):
    return isinstance(e, ast.Attribute) and is_self(e.value)


def sym(name):
    return ast.Name(id=name, ctx=ast.Load())


class Sub(ast.NodeTransformer):
    """substitute local names and stored `self.x` by their values; names bound by a comprehension shadow the environment"""

    def __init__(self, env):
        self.env = env

    def visit_Name(self, node):
        if isinstance(node.ctx, ast.Load) and node.id in self.env:
            return copy.deepcopy(self.env[node.id])
        return node

    def visit_Attribute(self, node):
        if self_attr(node) and isinstance(node.ctx, ast.Load) and ("self." + node.attr) in self.env:
            return copy.deepcopy(self.env["self." + node.attr])
        return self.generic_visit(node)

    def _comp(self, node):
        bound = {n.id for g in node.generators for n in ast.walk(g.target) if isinstance(n, ast.Name)}
        inner = Sub({k: v for k, v in self.env.items() if k not in bound})
        node.generators[0].iter = self.visit(node.generators[0].iter)
        for i, g in enumerate(node.generators):
            if i > 0:
                g.iter = inner.visit(g.iter)
            g.ifs = [inner.visit(x) for x in g.ifs]
        if isinstance(node, ast.DictComp):
            node.key, node.value = inner.visit(node.key), inner.visit(node.value)
        else:
            node.elt = inner.visit(node.elt)
        return node

    visit_ListComp = visit_SetComp = visit_DictComp = visit_GeneratorExp = _comp

    def visit_Lambda(self, node):
        raise Refuse("lambda")

    def visit_NamedExpr(self, node):
        raise Refuse("walrus")

    def visit_Await(self, node):
        raise Refuse("await")

    def visit_Yield(self, node):
        raise Refuse("yield")

    visit_YieldFrom = visit_Yield


def neg(test_text, test):
    if isinstance(test, ast.UnaryOp) and isinstance(test.op, ast.Not):
        return text(test.operand)
    return f"not ({test_text})"


class World:
    """the parsed tree: walked classes, their methods, signatures"""

    def __init__(self, repo):
        self.cls = {}  # name -> (ClassDef, module)
        self.gen_imports = {}  # module -> {local name: "gen.<name>"}
        self.gen_sigs = {}
        base = os.path.join(repo, "src", "pyoma2")
        gen = ast.parse(open(os.path.join(base, "functions", "gen.py")).read())
        for n in gen.body:
            if isinstance(n, ast.FunctionDef):
                a = n.args
                self.gen_sigs["gen." + n.name] = [x.arg for x in a.posonlyargs + a.args]
        for rel, mod in FILES:
            tree = ast.parse(open(os.path.join(base, rel)).read())
            imp = {}
            for st in tree.body:
                if isinstance(st, ast.ImportFrom) and st.module == "pyoma2.functions.gen":
                    for al in st.names:
                        imp[al.asname or al.name] = "gen." + al.name
                if isinstance(st, ast.ImportFrom) and st.module == "scipy.signal":
                    # parameter names of the installed scipy function (so that `decimate(x, q)` and `decimate(x, q=q)` read the same)
                    for al in st.names:
                        imp[al.asname or al.name] = "signal." + al.name
                        try:
                            import importlib
                            import inspect

                            ps = inspect.signature(getattr(importlib.import_module("scipy.signal"), al.name)).parameters
                            self.gen_sigs["signal." + al.name] = [k for k, v in ps.items() if v.kind in (v.POSITIONAL_ONLY, v.POSITIONAL_OR_KEYWORD)]
                        except Exception:  # noqa: BLE001  (no signature: positional arguments stay `#i`)
                            pass
                if isinstance(st, ast.ClassDef) and st.name in CLASSES:
                    if st.name in self.cls:
                        raise Refuse(f"class {st.name} defined twice")
                    self.cls[st.name] = (st, mod)
                # module-level patches of a walked class: not understood
                if not isinstance(st, (ast.ClassDef, ast.FunctionDef, ast.Import, ast.ImportFrom)):
                    for n in ast.walk(st):
                        if isinstance(n, ast.Attribute) and isinstance(n.ctx, (ast.Store, ast.Del)) and isinstance(n.value, ast.Name) and n.value.id in CLASSES:
                            raise Refuse(f"module-level patch of {n.value.id}.{n.attr}")
                        if isinstance(n, ast.Call) and isinstance(n.func, ast.Name) and n.func.id in ("setattr", "delattr"):
                            raise Refuse("module-level setattr")
            self.gen_imports[mod] = imp
        missing = [c for c in CLASSES if c not in self.cls]
        if missing:
            raise Refuse(f"classes not found: {missing}")

    def methods(self, c):
        return {m.name: m for m in self.cls[c][0].body if isinstance(m, (ast.FunctionDef, ast.AsyncFunctionDef))}

    def bases(self, c):
        out = []
        for b in self.cls[c][0].bases:
            if isinstance(b, ast.Subscript):
                b = b.value
            out.append(b.id if isinstance(b, ast.Name) else ast.unparse(b))
        return out

    def find(self, start, m):
        """class defining m, depth first over the listed start classes; None when an unknown base comes first / nobody binds it"""
        stack = list(start)
        while stack:
            c = stack.pop(0)
            if c not in self.cls:
                return None
            if m in self.methods(c):
                return c
            stack = self.bases(c) + stack
        return None

    def params(self, c, m):
        fn = self.methods(c)[m]
        a = fn.args
        ps = [x.arg for x in a.posonlyargs + a.args]
        static = any(isinstance(d, ast.Name) and d.id == "staticmethod" for d in fn.decorator_list)
        return ps if static else ps[1:]

    def unique_sig(self, m):
        """signature of the method named m when every walked class defining it agrees"""
        sigs = [self.params(c, m) for c in self.cls if m in self.methods(c)]
        if sigs and all(s == sigs[0] for s in sigs):
            return sigs[0]
        return None


class Walker:
    def __init__(self, world, cls, mod, fn):
        self.w, self.cls, self.mod, self.fn = world, cls, mod, fn
        self.pos = 0
        self.stores, self.sites, self.raises = [], [], []
        self.counter = {}
        self.inplace, self.writes = [], []
        self.returns = []
        self.depth = 0
        self.loop = 0
        a = fn.args
        self.params = {x.arg for x in a.posonlyargs + a.args + a.kwonlyargs if x.arg != "self"}
        self.fresh = {a.vararg.arg if a.vararg else None, a.kwarg.arg if a.kwarg else None}

    def row(self):
        self.pos += 1
        return self.pos

    # ------------------------------------------------------------------ expressions
    def ev(self, expr, env, path):
        """substitute, then replace every call (innermost first) by its result symbol / the inlined helper's result"""
        if expr is None:
            return None
        e = Sub(env).visit(copy.deepcopy(expr))
        return self._calls(e, env, path)

    def _calls(self, e, env, path):
        me = self

        class Ev(ast.NodeTransformer):
            def _comp(self, node):
                node.generators[0].iter = self.visit(node.generators[0].iter)
                me.loop += 1
                try:
                    for i, g in enumerate(node.generators):
                        if i > 0:
                            g.iter = self.visit(g.iter)
                        g.ifs = [self.visit(x) for x in g.ifs]
                    if isinstance(node, ast.DictComp):
                        node.key, node.value = self.visit(node.key), self.visit(node.value)
                    else:
                        node.elt = self.visit(node.elt)
                finally:
                    me.loop -= 1
                return node

            visit_ListComp = visit_SetComp = visit_DictComp = visit_GeneratorExp = _comp

            def visit_Call(self, node):
                node.args = [self.visit(a) for a in node.args]
                for k in node.keywords:
                    k.value = self.visit(k.value)
                f = node.func
                if isinstance(f, ast.Attribute):
                    if not (isinstance(f.value, ast.Call) and isinstance(f.value.func, ast.Name) and f.value.func.id == "super"):
                        f.value = self.visit(f.value)
                elif not isinstance(f, ast.Name):
                    node.func = self.visit(f)
                return me.call(node, env, path)

        return Ev().visit(e)

    def call(self, node, env, path):
        """node: a Call whose arguments are already evaluated.  Returns the expression standing for its result."""
        f = node.func
        root = f
        while isinstance(root, (ast.Attribute, ast.Subscript, ast.Call)):
            root = root.value if not isinstance(root, ast.Call) else root.func
        if isinstance(root, ast.Name) and root.id in QUIET:
            return ast.Constant(value=None)
        sig, target, callee = None, None, None
        if isinstance(f, ast.Attribute) and isinstance(f.value, ast.Call) and isinstance(f.value.func, ast.Name) and f.value.func.id == "super":
            if f.value.args or f.value.keywords:
                raise Refuse("super() with arguments")
            d = self.w.find(self.w.bases(self.cls), f.attr)
            callee = "super()." + f.attr
            if d is not None:
                sig, target = self.w.params(d, f.attr), (d, f.attr)
        elif isinstance(f, ast.Attribute) and is_self(f.value):
            d = self.w.find([self.cls], f.attr)
            callee = "self." + f.attr
            if d is not None:
                sig, target = self.w.params(d, f.attr), (d, f.attr)
            if f.attr in MUTATORS:
                raise Refuse("mutator called on self")
        elif isinstance(f, ast.Attribute):
            callee = text(f)
            sig = self.w.unique_sig(f.attr)
            if f.attr in MUTATORS:
                self.mutated(f.value)
        elif isinstance(f, ast.Name):
            callee = self.w.gen_imports.get(self.mod, {}).get(f.id, f.id)
            sig = self.w.gen_sigs.get(callee)
            if f.id in ("setattr", "delattr", "exec", "eval", "vars", "locals", "globals"):
                raise Refuse(f"{f.id}() in a walked method")
            if f.id == "super":
                return node
        else:
            callee = text(f)
        # inline private helpers of the walked classes
        if target is not None and target[1].startswith("_") and not (target[1].startswith("__") and target[1].endswith("__")):
            out = self.inline(target, node, env, path)
            if out is not None:
                return out
        bind = []
        for i, a in enumerate(node.args):
            if isinstance(a, ast.Starred):
                bind.append((f"*{i}", text(a.value)))
            else:
                bind.append((sig[i] if sig is not None and i < len(sig) else f"#{i}", text(a)))
        for kw in node.keywords:
            bind.append((kw.arg if kw.arg is not None else "**", text(kw.value)))
        k = self.counter.get(callee, 0)
        self.counter[callee] = k + 1
        self.sites.append((self.row(), callee, k, bind, list(path), self.loop > 0))
        return sym(f"{callee}[{k}]")

    def mutated(self, obj):
        """a mutator method / in-place statement on obj: record it when obj is (an alias of) a parameter or an attribute of self"""
        root = obj
        while isinstance(root, (ast.Attribute, ast.Subscript)) and not self_attr(root):
            root = root.value
        if self_attr(root):
            self.writes.append(root.attr)
            self.inplace.append("self." + root.attr)
        elif isinstance(root, ast.Name) and root.id in self.params and root.id not in self.fresh:
            self.inplace.append(root.id)

    def inline(self, target, node, env, path):
        d, m = target
        fn = self.w.methods(d)[m]
        if self.depth >= 3 or any(isinstance(a, ast.Starred) for a in node.args):
            return None
        rets = [n for n in ast.walk(fn) if isinstance(n, ast.Return)]
        if len(rets) > 1 or (rets and fn.body[-1] is not rets[0]):
            return None
        a = fn.args
        if a.vararg or a.kwonlyargs or a.posonlyargs:
            return None
        params = self.w.params(d, m)
        defaults = dict(zip(params[len(params) - len(a.defaults):], a.defaults)) if a.defaults else {}
        if len(node.args) > len(params):
            return None
        env2 = {k: v for k, v in env.items() if k.startswith("self.")}
        extra_keys, extra_vals = [], []
        for name, arg in zip(params, node.args):
            env2[name] = arg
        for kw in node.keywords:
            if kw.arg is None:
                extra_keys.append(None)
                extra_vals.append(kw.value)
            elif kw.arg in params:
                if kw.arg in env2:
                    return None
                env2[kw.arg] = kw.value
            else:
                extra_keys.append(ast.Constant(value=kw.arg))
                extra_vals.append(kw.value)
        for name in params:
            if name not in env2:
                if name not in defaults:
                    return None
                env2[name] = copy.deepcopy(defaults[name])
        if a.kwarg:
            if len(extra_keys) == 1 and extra_keys[0] is None:
                env2[a.kwarg.arg] = extra_vals[0]
            else:
                env2[a.kwarg.arg] = ast.Dict(keys=extra_keys, values=extra_vals)
        elif extra_keys:
            return None
        saved_cls, saved_ret, saved_mod = self.cls, self.returns, self.mod
        self.cls, self.returns, self.mod = d, [], self.w.cls[d][1]
        self.depth += 1
        try:
            env3, _, _ = self.block(fn.body, env2, path)
            out = self.returns
        finally:
            self.depth -= 1
            self.cls, self.returns, self.mod = saved_cls, saved_ret, saved_mod
        for k_ in list(env):
            if k_.startswith("self."):
                del env[k_]
        for k_, v in env3.items():
            if k_.startswith("self."):
                env[k_] = v
        return out[0] if out else ast.Constant(value=None)

    # ------------------------------------------------------------------ statements
    def assign(self, tgt, val, env, path):
        if isinstance(tgt, (ast.Tuple, ast.List)):
            if any(isinstance(x, ast.Starred) for x in tgt.elts):
                raise Refuse("starred assignment target")
            if isinstance(val, (ast.Tuple, ast.List)) and len(val.elts) == len(tgt.elts) and not any(isinstance(x, ast.Starred) for x in val.elts):
                parts = list(val.elts)
            else:
                base = text(val)
                parts = [sym(f"{base}#{i}" if isinstance(val, ast.Name) else f"({base})#{i}") for i in range(len(tgt.elts))]
            for e, v in zip(tgt.elts, parts):
                self.assign(e, v, env, path)
            return
        if isinstance(tgt, ast.Name):
            env[tgt.id] = val
            return
        if self_attr(tgt):
            self.stores.append((self.row(), "self." + tgt.attr, text(val), list(path), self.loop > 0))
            self.writes.append(tgt.attr)
            env["self." + tgt.attr] = val
            return
        if isinstance(tgt, (ast.Subscript, ast.Attribute)):
            obj = Sub(env).visit(copy.deepcopy(tgt.value))
            root = obj
            while isinstance(root, (ast.Attribute, ast.Subscript)) and not self_attr(root):
                root = root.value
            if self_attr(root) or (isinstance(root, ast.Name) and root.id in self.params and root.id not in self.fresh):
                self.mutated(obj)
                return
            if isinstance(root, ast.Name) and ("[" in root.id or root.id.startswith("<")):
                return  # an element of a fresh call result (a local container being filled)
            if isinstance(tgt.value, ast.Name) and isinstance(env.get(tgt.value.id), (ast.Dict, ast.List, ast.Set, ast.Call)):
                return
            raise Refuse(f"store into {text(tgt)}")
        raise Refuse(f"assignment target {type(tgt).__name__}")

    def block(self, stmts, env, path):
        """-> (env, terminated, path at the end)"""
        env = dict(env)
        path = list(path)
        for st in stmts:
            if isinstance(st, ast.Expr) and isinstance(st.value, ast.Constant):
                continue
            if isinstance(st, ast.Pass):
                continue
            if isinstance(st, ast.Expr):
                self.ev(st.value, env, path)
                continue
            if isinstance(st, ast.Assign):
                v = self.ev(st.value, env, path)
                for tgt in st.targets:
                    self.assign(tgt, v, env, path)
                continue
            if isinstance(st, ast.AnnAssign):
                if st.value is not None:
                    self.assign(st.target, self.ev(st.value, env, path), env, path)
                continue
            if isinstance(st, ast.AugAssign):
                v = self.ev(st.value, env, path)
                cur = Sub(env).visit(copy.deepcopy(st.target))
                for n in ast.walk(cur):
                    if hasattr(n, "ctx"):
                        n.ctx = ast.Load()
                self.mutated(cur)
                if isinstance(st.target, ast.Name) or self_attr(st.target):
                    self.assign(st.target, ast.BinOp(left=cur, op=st.op, right=v), env, path)
                continue
            if isinstance(st, ast.Return):
                v = self.ev(st.value, env, path) if st.value is not None else None
                if v is not None:
                    self.returns.append(v)
                return env, True, path
            if isinstance(st, ast.Raise):
                exc = st.exc
                name = exc.func if isinstance(exc, ast.Call) else exc
                self.raises.append((self.row(), text(name) if name is not None else "<reraise>", list(path)))
                return env, True, path
            if isinstance(st, ast.If):
                t = self.ev(st.test, env, path)
                tt = text(t)
                nt = neg(tt, t)
                e1, term1, _ = self.block(st.body, env, path + [tt])
                e2, term2, _ = self.block(st.orelse, env, path + [nt]) if st.orelse else (dict(env), False, path)
                if term1 and term2:
                    return env, True, path
                if term1:
                    env, path = e2, path + [nt]
                    continue
                if term2:
                    env, path = e1, path + [tt]
                    continue
                out = {}
                for name in set(e1) | set(e2):
                    a_, b_ = e1.get(name), e2.get(name)
                    if a_ is None or b_ is None:
                        if name.startswith("self."):
                            orig = ast.Attribute(value=sym("self"), attr=name[5:], ctx=ast.Load())
                            a_, b_ = a_ or orig, b_ or orig
                        else:
                            a_, b_ = a_ or sym("<unbound>"), b_ or sym("<unbound>")
                    sa, sb = ast.unparse(a_), ast.unparse(b_)
                    out[name] = a_ if sa == sb else sym(f"if({tt}){{{sa}}}else{{{sb}}}"[:MAXLEN])
                env = out
                continue
            if isinstance(st, ast.For):
                if st.orelse:
                    raise Refuse("for ... else")
                it = self.ev(st.iter, env, path)
                tnames = [n.id for n in ast.walk(st.target) if isinstance(n, ast.Name)]
                if not all(isinstance(n, (ast.Name, ast.Tuple, ast.List)) for n in ast.walk(st.target) if not isinstance(n, ast.expr_context)):
                    raise Refuse("loop target")
                benv = {k: v for k, v in env.items() if k not in tnames}
                appended = {}
                body = []
                for s2 in st.body:
                    c = s2.value if isinstance(s2, ast.Expr) else None
                    if isinstance(c, ast.Call) and isinstance(c.func, ast.Attribute) and c.func.attr == "append" and isinstance(c.func.value, ast.Name) \
                            and isinstance(env.get(c.func.value.id), ast.List) and not env[c.func.value.id].elts and len(c.args) == 1 and not c.keywords:
                        body.append(("append", c.func.value.id, c.args[0]))
                    else:
                        body.append(("stmt", s2, None))
                self.loop += 1
                try:
                    for kind, x, y in body:
                        if kind == "append":
                            v = self.ev(y, benv, path)
                            appended[x] = None if x in appended else v
                        else:
                            benv, term, _ = self.block([x], benv, path)
                            if term:
                                raise Refuse("return / raise inside a loop")
                finally:
                    self.loop -= 1
                for name, v in benv.items():
                    if name in tnames:
                        continue
                    if name not in env or ast.unparse(env[name]) != ast.unparse(v):
                        env[name] = v if name.startswith("self.") else sym(f"<loop:{name}>")
                for name in tnames:
                    env[name] = sym(f"<loop:{name}>")
                for x, v in appended.items():
                    if v is None:
                        env[x] = sym(f"<loop:{x}>")
                    else:
                        env[x] = ast.ListComp(elt=v, generators=[ast.comprehension(target=copy.deepcopy(st.target), iter=it, ifs=[], is_async=0)])
                continue
            raise Refuse(f"{type(st).__name__} statement in {self.cls}.{self.fn.name}")
        return env, False, path


def summary_writes(fn):
    """attributes of self assigned / deleted / modified in place anywhere in the body (no inlining)"""
    out = []
    for n in ast.walk(fn):
        if self_attr(n) and isinstance(n.ctx, (ast.Store, ast.Del)):
            out.append(n.attr)
        if isinstance(n, (ast.Subscript, ast.Attribute)) and isinstance(n.ctx, (ast.Store, ast.Del)) and not self_attr(n):
            b = n.value
            while isinstance(b, (ast.Subscript, ast.Attribute)) and not self_attr(b):
                b = b.value
            if self_attr(b):
                out.append(b.attr)
        if isinstance(n, ast.AugAssign):
            b = n.target
            while isinstance(b, (ast.Subscript, ast.Attribute)) and not self_attr(b):
                b = b.value
            if self_attr(b):
                out.append(b.attr)
        if isinstance(n, ast.Call) and isinstance(n.func, ast.Attribute) and n.func.attr in MUTATORS:
            b = n.func.value
            while isinstance(b, (ast.Subscript, ast.Attribute)) and not self_attr(b):
                b = b.value
            if self_attr(b):
                out.append(b.attr)
        if isinstance(n, ast.Call) and isinstance(n.func, ast.Name) and n.func.id in ("setattr", "delattr") and n.args and is_self(n.args[0]):
            a1 = n.args[1] if len(n.args) > 1 else None
            out.append(a1.value if isinstance(a1, ast.Constant) and isinstance(a1.value, str) else "<setattr>")
        if isinstance(n, ast.Attribute) and n.attr == "__dict__" and is_self(n.value):
            out.append("<__dict__>")
    return out


def walked(name):
    """methods whose body is walked statement by statement; the others (plots, class hooks) get the summary only"""
    return not name.startswith("plot") and name not in ("__class_getitem__", "__init_subclass__")


def bound_names(c):
    out = []
    for m in c.body:
        if isinstance(m, (ast.FunctionDef, ast.AsyncFunctionDef, ast.ClassDef)):
            out.append(m.name)
        elif isinstance(m, ast.Assign):
            out += [n.id for t in m.targets for n in ast.walk(t) if isinstance(n, ast.Name)]
        elif isinstance(m, ast.AnnAssign):
            if m.value is not None and isinstance(m.target, ast.Name):
                out.append(m.target.id)
        elif isinstance(m, ast.AugAssign) and isinstance(m.target, ast.Name):
            out.append(m.target.id)
        elif isinstance(m, (ast.Import, ast.ImportFrom)):
            out += [(a.asname or a.name).split(".")[0] for a in m.names]
        elif not (isinstance(m, ast.Expr) and isinstance(m.value, ast.Constant)) and not isinstance(m, ast.Pass):
            raise Refuse(f"{type(m).__name__} in the body of class {c.name}")
    return out


def translate(repo):
    w = World(repo)
    stores, sites, raises, methods, classes = [], [], [], [], []
    uniq = lambda xs: [x for i, x in enumerate(xs) if x not in xs[:i]]  # noqa: E731
    for cname in CLASSES:
        c, mod = w.cls[cname]
        attrs = []
        for m in c.body:
            if isinstance(m, ast.Assign) and len(m.targets) == 1 and isinstance(m.targets[0], ast.Name):
                attrs.append((m.targets[0].id, text(m.value)))
            elif isinstance(m, ast.AnnAssign) and m.value is not None and isinstance(m.target, ast.Name):
                attrs.append((m.target.id, text(m.value)))
        classes.append((cname, mod, w.bases(cname), bound_names(c), attrs,
                        [text(d) for d in c.decorator_list] + [f"{k.arg}={text(k.value)}" for k in c.keywords]))
        for m in c.body:
            if isinstance(m, ast.AsyncFunctionDef):
                raise Refuse("async method")
            if not isinstance(m, ast.FunctionDef):
                continue
            a = m.args
            static = any(isinstance(d, ast.Name) and d.id == "staticmethod" for d in m.decorator_list)
            ps = [x.arg for x in a.posonlyargs + a.args]
            ps = (ps if static else ps[1:]) + (["*" + a.vararg.arg] if a.vararg else []) + [x.arg for x in a.kwonlyargs] + (["**" + a.kwarg.arg] if a.kwarg else [])
            wr, inpl, ret = summary_writes(m), [], ""
            if walked(m.name):
                k = Walker(w, cname, mod, m)
                k.block(m.body, {}, [])
                stores += [(cname, m.name) + r for r in k.stores]
                sites += [(cname, m.name) + r for r in k.sites]
                raises += [(cname, m.name) + r for r in k.raises]
                wr = wr + k.writes
                inpl = k.inplace
                ret = "" if not k.returns else (text(k.returns[0]) if len(k.returns) == 1 else "<several>")
            # private helpers called through self (walked or not): their writes count for the caller
            called = [n.func.attr for n in ast.walk(m) if isinstance(n, ast.Call) and isinstance(n.func, ast.Attribute)
                      and (is_self(n.func.value) or (isinstance(n.func.value, ast.Call) and isinstance(n.func.value.func, ast.Name) and n.func.value.func.id == "super"))]
            methods.append([cname, m.name, ps, [text(d) for d in m.decorator_list], sorted(set(wr)), uniq(inpl), ret,
                            (not m.name.startswith("_")) or m.name == "__init__", called])
    # close `writes` under calls of methods of the walked classes through self / super() (fixed point)
    changed = True
    while changed:
        changed = False
        for r in methods:
            for callee in r[8]:
                d = w.find([r[0]], callee)
                if d is None:
                    continue
                for r2 in methods:
                    if r2[0] == d and r2[1] == callee:
                        new = sorted(set(r[4]) | set(r2[4]))
                        if new != r[4]:
                            r[4] = new
                            changed = True
    methods = [tuple(r[:8]) for r in methods]
    ls = lambda xs: "[" + ", ".join(lean_str(x) for x in xs) + "]"  # noqa: E731
    lp = lambda xs: "[" + ", ".join(f"({lean_str(a)}, {lean_str(b)})" for a, b in xs) + "]"  # noqa: E731
    lb = lambda b: "true" if b else "false"  # noqa: E731
    out = ["import PyomaVerif.Model.SetupTbl",
           "/-! GENERATED by harness/translate_setup.py from /repo/src/pyoma2/{setup/base,setup/single,setup/multi,algorithms/base}.py — do not edit. -/",
           "namespace PV.Gen.Setup", "open PV.SetupTbl", "",
           "def stores : List SStore := ["]
    out.append(",\n".join(
        f"  {{ cls := {lean_str(c)}, method := {lean_str(m)}, pos := {p}, target := {lean_str(t)},\n    value := {lean_str(v)}, cond := {ls(cd)}, loop := {lb(lo)} }}"
        for (c, m, p, t, v, cd, lo) in stores) + "]")
    out += ["", "def sites : List SSite := ["]
    out.append(",\n".join(
        f"  {{ cls := {lean_str(c)}, method := {lean_str(m)}, pos := {p}, callee := {lean_str(f)}, idx := {k},\n    bind := {lp(b)}, cond := {ls(cd)}, loop := {lb(lo)} }}"
        for (c, m, p, f, k, b, cd, lo) in sites) + "]")
    out += ["", "def raises : List SRaise := ["]
    out.append(",\n".join(f"  {{ cls := {lean_str(c)}, method := {lean_str(m)}, pos := {p}, exc := {lean_str(e)}, cond := {ls(cd)} }}"
                          for (c, m, p, e, cd) in raises) + "]")
    out += ["", "def methods : List SMethod := ["]
    out.append(",\n".join(
        f"  {{ cls := {lean_str(c)}, name := {lean_str(m)}, params := {ls(ps)}, decorators := {ls(ds)},\n    writes := {ls(wr)}, inplace := {ls(ip)}, ret := {lean_str(r)}, pub := {lb(pb)} }}"
        for (c, m, ps, ds, wr, ip, r, pb) in methods) + "]")
    out += ["", "def classes : List SClass := ["]
    out.append(",\n".join(
        f"  {{ name := {lean_str(n)}, module := {lean_str(mo)}, bases := {ls(bs)},\n    own := {ls(ow)},\n    attrs := {lp(at)}, extras := {ls(ex)} }}"
        for (n, mo, bs, ow, at, ex) in classes) + "]")
    out += ["", "def tbl : Tbl := ⟨stores, sites, raises, methods, classes⟩", "", "end PV.Gen.Setup"]
    return "\n".join(out) + "\n", {"stores": len(stores), "sites": len(sites), "raises": len(raises), "methods": len(methods), "classes": len(classes)}


def write(repo, lean_dir):
    path = os.path.join(lean_dir, "PyomaVerif", "Generated", "Setup.lean")
    try:
        txt, summary = translate(repo)
    except Refuse as e:
        return False, f"setup translator refused: {e}", {}
    except (SyntaxError, OSError, IndexError, KeyError, AttributeError, TypeError, ValueError) as e:
        return False, f"setup translator failed closed: {type(e).__name__}: {e}", {}
    old = open(path).read() if os.path.exists(path) else None
    if old != txt:
        open(path, "w").write(txt)
    return True, "ok", summary


if __name__ == "__main__":
    import sys

    here = os.path.dirname(os.path.dirname(os.path.abspath(__file__)))
    repo = os.environ.get("PYOMA2_REPO", "/repo")
    if "--write" in sys.argv:
        ok, msg, s = write(repo, os.path.join(here, "lean"))
        print(msg, s)
        sys.exit(0 if ok else 1)
    print(translate(repo)[0])
