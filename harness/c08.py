"""C08 — identification is covariant under gain, channel order and time unit."""
import math

import numpy as np

import sysgen
from c09 import _signal
from common import Cmat, Cx, R, cfl, fl, max_rel_err

LEAN_MODULES = ["PyomaVerif.Props.C08", "PyomaVerif.Props.C08Pipe", "PyomaVerif.Props.C08Unity", "PyomaVerif.Props.C08Ms", "PyomaVerif.Props.C08Perm",
                "PyomaVerif.Props.C08PermPlscf",
                "PyomaVerif.Props.C08MixBell", "PyomaVerif.Props.C08MixPlscf"]
THEOREMS = [
    "PV.C08.C08_gain_hank_mm",
    "PV.C08.C08_gain_hank_R",
    "PV.C08.C08_perm_hank_mm",
    "PV.C08.C08_time_unit_pole",
    "PV.C08.C08_time_unit_modal",
    "PV.C08.C08_window_correction_covariant",
    "PV.C08.C08_window_correction_old_not_covariant",
    "PV.C08.C08_unity",
    "PV.C08.C08_similarity_invariant",
    "PV.C08.C08_ratio_gain_invariant",
    # pipeline-level covariance of the executable models (Props/C08Pipe.lean)
    "PV.C08.C08_gain_hankel",
    "PV.C08.C08_gain_dat",
    "PV.C08.C08_gain_realisation_fast",
    "PV.C08.C08_gain_realisation_legacy",
    "PV.C08.C08_gain_shapes",
    "PV.C08.C08_gain_ssi",
    "PV.C08.C08_gain_ssi_R",
    "PV.C08.C08_gain_ssi_dat",
    "PV.C08.C08_mix_hankel",
    "PV.C08.C08_mix_realisation_fast",
    "PV.C08.C08_mix_realisation_legacy",
    "PV.C08.C08_mix_ssi",
    "PV.C08.C08_perm_ssi",
    "PV.C08.C08_perm_shapes",
    "PV.C08.C08_mix_ssi_R",
    "PV.C08.C08_perm_ssi_R",
    "PV.C08.C08_mix_dat_gram",
    "PV.C08.C08_gain_fdd_spec",
    "PV.C08.C08_gain_fdd_per",
    "PV.C08.C08_gain_fdd_cor",
    "PV.C08.C08_gain_efdd_per",
    "PV.C08.C08_gain_efdd_cor",
    "PV.C08.C08_mix_sd",
    "PV.C08.C08_mix_fdd",
    "PV.C08.C08_perm_sd",
    "PV.C08.C08_perm_fdd",
    "PV.C08.C08_gain_plscf_cert",
    "PV.C08.C08_gain_plscf_order",
    "PV.C08.C08_gain_plscf",
    "PV.C08.C08_time_unit_ssi_model",
    "PV.C08.C08_time_unit_ssi",
    "PV.C08.C08_time_unit_plscf",
    "PV.C08.C08_time_unit_plscf_run",
    "PV.C08.C08_time_unit_fdd_per",
    "PV.C08.C08_time_unit_fdd_cor",
    "PV.C08.C08_time_unit_efdd_per",
    "PV.C08.C08_time_unit_efdd_cor",
    "PV.C08.C08_time_unit_efdd_fn",
    # unity of the three normalisers, reported shape under mixing (Props/C08Unity.lean)
    "PV.C08.C08_unity_ssi",
    "PV.C08.C08_unity_shapes",
    "PV.C08.C08_unity_plscf",
    "PV.C08.C08_unity_plscf_column",
    "PV.C08.C08_unity_fdd",
    "PV.C08.C08_unity_fdd_mpe",
    "PV.C08.C08_mix_shapes",
    "PV.C08.C08_time_unit_lamC",
    "PV.C08.C08_time_unit_ac2mp",
    # multi-setup pipelines under gains (Props/C08Ms.lean)
    "PV.C08.msObsAll_smul",
    "PV.C08.C08_ms_gain_ssi",
    "PV.C08.C08_ms_gain_ssi_dat",
    "PV.C08.C08_ms_gain_preger",
    "PV.C08.C08_ms_gain_sd",
    "PV.C08.C08_ms_gain_fdd_ms",
    "PV.C08.OrderCert.congr",
    "PV.C08.C08_gain_plscf_range",
    "PV.C08.C08_ms_gain_plscf_ms",
    "PV.C08.C08_ms_gain_efdd_ms",
    # FDD under a channel permutation, composed to the result of FDD_mpe (Props/C08Perm.lean)
    "PV.C08.fddOne_perm",
    "PV.C08.C08_perm_fdd_mpe",
    "PV.C08.C08_perm_fdd_data",
    # pLSCF under a channel permutation: normal equations, certificate, rmfd2ac, eigen-record, column (Props/C08PermPlscf.lean)
    "PV.C08.C08_perm_plscf_normal",
    "PV.C08.C08_perm_plscf_cert",
    "PV.C08.C08_perm_plscf_order",
    "PV.C08.C08_perm_plscf_rmfd",
    "PV.C08.C08_perm_plscf_column",
    "PV.C08.C08_perm_plscf",
    "PV.C08.C08_perm_plscf_poles",
    "PV.C08.C08_perm_plscf_square",
    # EFDD / FSDD under orthogonal mixing and channel permutation, end to end through the composed model efddMpe (Props/C08MixBell.lean)
    "PV.C08MixBell.C08_mix_bell_admissible",
    "PV.C08MixBell.C08_mix_svalsvec",
    "PV.C08MixBell.C08_mix_first_stage",
    "PV.C08MixBell.C08_mix_bell_lines",
    "PV.C08MixBell.C08_mix_bell_one",
    "PV.C08MixBell.C08_mix_bell",
    "PV.C08MixBell.C08_mix_bell_estimates",
    "PV.C08MixBell.C08_perm_is_mix",
    "PV.C08MixBell.C08_perm_bell",
    # pLSCF under an orthogonal mixing of the channels: normal equations, certificate, two runs, rmfd2ac, poles (Props/C08MixPlscf.lean)
    "PV.C08.C08_mix_plscf_normal",
    "PV.C08.C08_mix_plscf_cert",
    "PV.C08.C08_mix_plscf_order",
    "PV.C08.C08_mix_plscf_rmfd",
    "PV.C08.C08_mix_plscf_poles",
]
RULE = (
    "metamorphic oracle on the real code: every algorithm class (FDD, EFDD, FSDD, SSIcov[cov_mm, cov_R], SSIdat, pLSCF[per, cor] and "
    "FDD_MS, EFDD_MS, SSIcov_MS, SSIdat_MS, pLSCF_MS) is run on noisy random-response data and on the transformed data "
    "(gain in [1e-6, 1e6] incl. powers of two, channel permutation with reference indices mapped, orthogonal mixing, time "
    "unit k in [0.01, 100]); whole pole tables are compared (poles matched per order column within 1e-6, shapes by MAC), "
    "extracted modes for the FDD family; every reported shape must have its largest-magnitude component equal to 1. "
    "distinct = (class, transformation kind, method); correspondence: ssi.ac2mp at dt and dt/k against the model ac2mpSsi "
    "(the log(lam_d)*(1/dt) step inside the model, scipy's eig recorded; fn, xi, lam, phi to 1e-12) and the two model outputs "
    "related as C08_time_unit_ac2mp says; the unity normalisers of ssi.ac2mp, plscf.ac2mp_poly, fdd.FDD_mpe against "
    "normalise / phiCell / Fdd.normalise (index picked identical incl. exact ties, values to 1e-12, NaN pattern for zero vectors); "
    "plscf.pLSCF itself on Sy and on R Sy Q^T (Q orthogonal: Haar, rational rotation, signed permutation; R = Q or an independent orthogonal R on "
    "fewer reference rows; constraints LO and HI): Ad' = Q Ad Q^T, Bn' = R Bn Q^T to 1e-10 relative, orders whose coefficients move by more than "
    "1e-12 under a rounding-level perturbation of Sy skipped; the same relation exactly in rationals between two runs of the model plscfOrder"
)
EXTRA_TRUSTED = [
    "that LAPACK/FFT return a valid factorisation for the transformed input too (the theorems quantify over all valid factorisations)",
]
ASSUMPTIONS = [
    "hard criteria are neutralised in the metamorphic runs (rounding may move a pole across a threshold); poles with |xi| < 1e-6 or xi within 1e-6 of 1 are not judged",
    "poles with damping above 50 % or frequency beyond Nyquist (computational poles) are not judged",
    "orthogonal mixing is applied to single-setup data with all channels as references; multi-setup data are permuted within each setup",
]

SINGLE = ["FDD", "EFDD", "FSDD", "SSIcov", "SSIcovR", "SSIdat", "pLSCF", "pLSCFcor"]
MULTI = ["FDD_MS", "EFDD_MS", "SSIcov_MS", "SSIdat_MS", "pLSCF_MS"]
HC = dict(conj=False, xi_max=1.0, mpc_lim=0.0, mpd_lim=math.pi / 2, cov_max=1e9)


def _make_alg(kind, p):
    from pyoma2.algorithms import EFDD, FDD, FSDD, SSIcov, SSIdat, pLSCF
    from pyoma2.algorithms.fdd import EFDD_MS, FDD_MS
    from pyoma2.algorithms.plscf import pLSCF_MS
    from pyoma2.algorithms.ssi import SSIcov_MS, SSIdat_MS

    nx = p["nxseg"]
    if kind in ("FDD", "FDD_MS"):
        return (FDD if kind == "FDD" else FDD_MS)(name="a", nxseg=nx, method_SD=p["sd"], pov=p["pov"])
    if kind in ("EFDD", "EFDD_MS"):
        return (EFDD if kind == "EFDD" else EFDD_MS)(name="a", nxseg=nx, method_SD=p["sd"], pov=p["pov"])
    if kind == "FSDD":
        return FSDD(name="a", nxseg=nx, method_SD=p["sd"], pov=p["pov"])
    if kind in ("SSIcov", "SSIcovR", "SSIcov_MS"):
        cls = SSIcov_MS if kind.endswith("_MS") else SSIcov
        kw = dict(name="a", br=p["br"], ordmax=p["ordmax"], method="cov_R" if kind == "SSIcovR" else "cov_mm", hc=dict(HC))
        if not kind.endswith("_MS") and p.get("ref") is not None:
            kw["ref_ind"] = list(p["ref"])
        return cls(**kw)
    if kind in ("SSIdat", "SSIdat_MS"):
        cls = SSIdat_MS if kind.endswith("_MS") else SSIdat
        kw = dict(name="a", br=p["br"], ordmax=p["ordmax"], hc=dict(HC))
        if not kind.endswith("_MS") and p.get("ref") is not None:
            kw["ref_ind"] = list(p["ref"])
        return cls(**kw)
    if kind in ("pLSCF", "pLSCFcor", "pLSCF_MS"):
        cls = pLSCF_MS if kind.endswith("_MS") else pLSCF
        hc = {k: v for k, v in HC.items() if k != "cov_max"}
        return cls(name="a", ordmax=p["pl_ord"], nxseg=nx, method_SD="cor" if kind == "pLSCFcor" else p["sd"], pov=p["pov"], hc=hc)
    raise ValueError(kind)


def _run(kind, data, fs, p, sel, ref_ind=None, view=False):
    """returns dict(tables=(Fn, Xi, Phi) or None, modes=(Fn, Xi or None, Phi) or None)
    view: the data are looked at first (time histories, channel statistics) -- read-only operations"""
    from pyoma2.setup import MultiSetup_PreGER, SingleSetup

    if kind.endswith("_MS"):
        setup = MultiSetup_PreGER(fs=fs, ref_ind=[list(r) for r in ref_ind], datasets=[d.copy() for d in data])
    else:
        setup = SingleSetup(data.copy(), fs=fs)
        if view:
            import matplotlib.pyplot as plt

            try:
                setup.plot_data()
                setup.plot_ch_info(nxseg=min(256, data.shape[0] // 4))
            finally:
                plt.close("all")
    alg = _make_alg(kind, p)
    setup.add_algorithms(alg)
    setup.run_by_name("a")
    res = alg.result
    out = {"tables": None, "modes": None}
    if hasattr(res, "Fn_poles") and res.Fn_poles is not None:
        out["tables"] = (np.array(res.Fn_poles), np.array(res.Xi_poles), np.array(res.Phi_poles))
    else:
        df = fs / p["nxseg"]
        # band half-widths that are NOT whole numbers of lines: the requests sit on grid lines, so with whole numbers the
        # band edges would coincide with lines exactly and the line at the edge would be in or out by one rounding (a tie the
        # properties exclude; it showed as a false alarm under the time-unit transformation, seeds 213/221 of a sweep)
        if kind.startswith("FDD"):
            setup.mpe("a", sel_freq=list(sel), DF=3.4 * df)
            out["modes"] = (np.array(alg.result.Fn), None, np.array(alg.result.Phi))
        else:
            setup.mpe("a", sel_freq=list(sel), DF1=3.4 * df, DF2=12.4 * df, npmax=8, sppk=2)
            out["modes"] = (np.array(alg.result.Fn), np.array(alg.result.Xi), np.array(alg.result.Phi))
    return out


def _unity(phi):
    """largest-magnitude component equals 1"""
    phi = np.asarray(phi)
    if np.any(np.isnan(phi)):
        return True
    k = np.argmax(np.abs(phi))
    return abs(phi[k] - 1) <= 1e-9


def _cmp_tables(ctx, base, new, kf, rowmap, tag, inp, fs_new, tol=1e-6):
    """poles of every order column matched one-to-one; kf = expected frequency factor; rowmap maps base shape -> expected new shape"""
    Fn0, Xi0, Ph0 = base
    Fn1, Xi1, Ph1 = new
    if Fn0.shape != Fn1.shape:
        ctx.violation(f"{tag}:table-shape", f"{tag}: pole table shape {Fn0.shape} vs {Fn1.shape}", inp)
        return False
    for c in range(Fn0.shape[1]):
        i0 = [r for r in range(Fn0.shape[0]) if not np.isnan(Fn0[r, c])]
        i1 = [r for r in range(Fn1.shape[0]) if not np.isnan(Fn1[r, c])]
        used = set()
        for r in i0:
            f, x = Fn0[r, c] * kf, Xi0[r, c]
            if abs(x) < 1e-6 or abs(x - 1) < 1e-6 or f <= 0 or x > 0.5 or f > 0.5 * fs_new:
                # computational poles (damping above 50 % or beyond the Nyquist frequency) are ill-conditioned: their
                # sensitivity to the rounding differences between the two runs is unbounded; not judged, counted
                ctx.skipped += 1
                continue
            want = rowmap(Ph0[r, c, :])
            best = None
            for q in i1:
                if q in used:
                    continue
                if abs(Fn1[q, c] - f) <= tol * f and abs(Xi1[q, c] - x) <= 10 * tol:
                    mc = sysgen.mac(Ph1[q, c, :], want)
                    if mc >= 1 - 10 * tol:
                        best = q
                        break
            ctx.oracle_cases += 1
            if best is None:
                near = min(i1, key=lambda q: abs(Fn1[q, c] - f)) if i1 else None
                ctx.violation(
                    f"{tag}:pole-not-covariant", f"{tag}: order column {c}: pole f={Fn0[r, c]:.6g} (expected {f:.6g} after transformation), xi={x:.4g} has no counterpart",
                    inp, observed=None if near is None else {"nearest_f": float(Fn1[near, c]), "xi": float(Xi1[near, c]), "mac": float(sysgen.mac(Ph1[near, c, :], want))},
                )
                return False
            used.add(best)
            if not (_unity(Ph0[r, c, :]) and _unity(Ph1[best, c, :])):
                ctx.violation(f"{tag}:not-unity", f"{tag}: reported mode shape is not normalised to a unit largest component", inp)
                return False
    return True


def _cmp_modes(ctx, base, new, kf, rowmap, tag, inp, tolf=1e-9, tolx=1e-6):
    Fn0, Xi0, Ph0 = base
    Fn1, Xi1, Ph1 = new
    ctx.oracle_cases += 1
    if Fn0.shape != Fn1.shape or not np.allclose(Fn1, Fn0 * kf, rtol=tolf, atol=0):
        ctx.violation(f"{tag}:freq-not-covariant", f"{tag}: extracted frequencies {Fn1.tolist()} vs expected {(Fn0 * kf).tolist()}", inp)
        return False
    if Xi0 is not None and not np.allclose(Xi1, Xi0, rtol=tolx, atol=1e-9):
        ctx.violation(f"{tag}:damping-not-invariant", f"{tag}: damping {Xi1.tolist()} vs {Xi0.tolist()}", inp)
        return False
    for j in range(Ph0.shape[1]):
        if sysgen.mac(Ph1[:, j], rowmap(Ph0[:, j])) < 1 - 1e-8:
            ctx.violation(f"{tag}:shape-not-covariant", f"{tag}: mode {j}: MAC {sysgen.mac(Ph1[:, j], rowmap(Ph0[:, j])):.6f} with the transformed shape", inp)
            return False
        if not (_unity(Ph0[:, j]) and _unity(Ph1[:, j])):
            ctx.violation(f"{tag}:not-unity", f"{tag}: reported mode shape is not normalised to a unit largest component", inp)
            return False
    return True


def _single_case(ctx, kind):
    rng = ctx.rng
    g = ctx.nprng()
    nch = rng.randint(2, 5)
    fs = rng.choice([20.0, 50.0, 128.0])
    n = rng.randint(2000, 4000)
    y = _signal(ctx, nch, n, fs, nmodes=rng.randint(1, 3))
    if rng.random() < 0.4:
        # a static offset on some channels (accelerometers with a DC bias, strain gauges): part of the record; every
        # transformation of the property acts on it like on the rest of the signal
        for j in rng.sample(range(nch), rng.randint(1, max(1, nch - 1))):
            y[:, j] = y[:, j] + rng.choice([-1, 1]) * rng.choice([2.0, 10.0, 100.0]) * float(np.std(y[:, j]))
        ctx.count("single_record_with_static_offset")
    p = dict(nxseg=rng.choice([128, 256]), sd=rng.choice(["per", "cor"]), pov=rng.choice([0.0, 0.5, 0.75]), br=rng.randint(5, 9),
             ordmax=rng.randint(6, 10), pl_ord=rng.randint(4, 8), ref=None)
    if kind in ("SSIcov", "SSIcovR", "SSIdat") and rng.random() < 0.5:
        p["ref"] = sorted(rng.sample(range(nch), rng.randint(1, nch)))
    p["ordmax"] = min(p["ordmax"], (p["br"] + 1) * (len(p["ref"]) if p["ref"] is not None else nch), p["br"] * nch)
    # frequencies to pick for the FDD family: the strongest spectral peaks
    from scipy import signal as sps

    f, P = sps.welch(y[:, 0], fs=fs, nperseg=p["nxseg"])
    pk = np.argsort(P[3:-3])[::-1][:1] + 3
    # the request is placed one to two lines off the peak, so that the band half-width (3 lines) decides which line is picked
    sel = sorted(float(f[i]) + rng.choice([-2, -1, 1, 2]) * fs / p["nxseg"] for i in pk)
    ctx._c08_n = getattr(ctx, "_c08_n", 0) + 1
    tr = ["gain", "gain2", "perm", "orth", "time"][(ctx._c08_n + SINGLE.index(kind)) % 5]
    if tr == "orth" and p["ref"] is not None:
        p["ref"] = None
    if tr in ("gain", "gain2") and rng.random() < 0.3:
        # the record as raw 24-bit ADC counts in an integer array; the transformed record is the calibrated (float) one
        y = np.rint(y / np.abs(y).max() * 8_000_000).astype(np.int32)
        ctx.count("single_integer_counts_record")
    if tr == "perm" and kind in ("SSIcov", "SSIcovR", "SSIdat") and rng.random() < 0.6:
        # a single reference channel, at position 0 before or after the permutation ("reference indices mapped
        # consistently" includes index 0, which is falsy)
        p["ref"] = [0] if rng.random() < 0.5 else [rng.randrange(nch)]
        p["ordmax"] = min(p["ordmax"], p["br"] + 1)
        ctx.count("perm_single_reference")
    return y, fs, p, sel, tr


def _transform_single(ctx, y, fs, p, sel, tr):
    rng = ctx.rng
    g = ctx.nprng()
    nch = y.shape[1]
    p2 = dict(p)
    ident = lambda v: v  # noqa: E731
    if tr == "gain":
        c = rng.choice([1e-6, 1e6, 10 ** rng.uniform(-6, 6)]) * rng.choice([-1, 1])  # the ends of the stated range are always candidates
        return y * c, fs, p2, sel, 1.0, ident, {"gain": c}
    if tr == "gain2":
        c = 2.0 ** rng.randint(-20, 20)
        return y * c, fs, p2, sel, 1.0, ident, {"gain": c}
    if tr == "perm":
        perm = list(range(nch))
        rng.shuffle(perm)  # new channel j = old channel perm[j]
        if p["ref"] is not None and len(p["ref"]) == 1:
            r = p["ref"][0]
            if r == 0 and perm[0] == 0 and nch > 1:  # move the reference away from position 0
                j = rng.randrange(1, nch)
                perm[0], perm[j] = perm[j], perm[0]
            elif r != 0 and rng.random() < 0.6:  # ... or onto position 0
                j = perm.index(r)
                perm[0], perm[j] = perm[j], perm[0]
        if p["ref"] is not None:
            p2["ref"] = [perm.index(r) for r in p["ref"]]
        return y[:, perm], fs, p2, sel, 1.0, (lambda v: np.asarray(v)[perm]), {"perm": perm}
    if tr == "orth":
        Q, _ = np.linalg.qr(g.standard_normal((nch, nch)))
        return y @ Q.T, fs, p2, sel, 1.0, (lambda v: Q @ np.asarray(v)), {"Q": Q.tolist()}
    if tr == "time":
        k = rng.choice([0.01, 0.1, 0.5, 2.0, 10.0, 100.0, 10 ** rng.uniform(-2, 2)])
        return y, fs * k, p2, [s * k for s in sel], k, ident, {"k": k}
    raise ValueError(tr)


def _multi_case(ctx):
    rng = ctx.rng
    nset = rng.randint(2, 3)
    nref = rng.randint(1, 2)
    nmov = [rng.randint(1, 3) for _ in range(nset)]
    if rng.random() < 0.4:
        nmov.sort(reverse=True)  # the first setup has the most roving sensors
    fs = rng.choice([20.0, 50.0])
    n = rng.randint(1500, 2500)
    nglob = nref + sum(nmov)
    full = _signal(ctx, nglob, n * nset, fs, nmodes=rng.randint(1, 2))
    datasets, ref_ind, labels = [], [], []
    off = nref
    for s in range(nset):
        chan = list(range(nref)) + list(range(off, off + nmov[s]))
        off += nmov[s]
        pos = list(range(len(chan)))
        rng.shuffle(pos)
        chan = [chan[i] for i in pos]
        datasets.append(full[s * n : (s + 1) * n][:, chan].copy())
        ref_ind.append([chan.index(r) for r in range(nref)])
        labels.append(chan)
    return datasets, ref_ind, labels, fs, nref


def _global_order(labels, ref_ind):
    order = [labels[0][i] for i in ref_ind[0]]
    for chan, refs in zip(labels, ref_ind):
        order += [c for i, c in enumerate(chan) if i not in refs]
    return order


def _gain_unc_case(ctx, it):
    """covariance-driven SSI WITH uncertainty bounds: the hard criterion on the frequency variance is part of the
    identification, so the reported variances must not depend on the gain either.  If they do, a limit placed between the
    two values gives a pole table that differs between the two runs: that run pair is the reported violation."""
    from pyoma2.algorithms import SSIcov
    from pyoma2.setup import SingleSetup

    rng = ctx.rng
    nch = rng.randint(2, 3)
    fs = rng.choice([20.0, 50.0, 128.0])
    y = _signal(ctx, nch, rng.randint(1500, 2500), fs, nmodes=rng.randint(1, 2))
    c = 2.0 ** rng.choice([-20, -9, -4, 5, 11, 20])
    br, ordmax, nb = rng.randint(4, 7), rng.randint(4, 6), rng.randint(6, 14)

    def run(data, cov_max):
        hc = dict(HC)
        hc["cov_max"] = cov_max
        alg = SSIcov(name="a", br=br, ordmax=ordmax, method="cov_mm", calc_unc=True, nb=nb, hc=hc)
        ss = SingleSetup(data.copy(), fs=fs)
        ss.add_algorithms(alg)
        ss.run_by_name("a")
        return np.array(alg.result.Fn_poles), np.array(alg.result.Fn_poles_cov)

    inp = {"class": "SSIcov(calc_unc=True)", "transformation": "gain2", "fs": fs, "gain": c, "br": br, "ordmax": ordmax, "nb": nb, "case": f"seed{ctx.seed}#unc{it}"}
    try:
        F0, V0 = run(y, 1e300)
        F1, V1 = run(y * c, 1e300)
    except (np.linalg.LinAlgError, ValueError):
        ctx.skipped += 1
        return
    ctx.oracle_cases += 1
    ctx.count("cases_gain_uncertainty")
    ctx.nontrivial.add(("SSIcovUnc", "gain2", nb))
    both = ~np.isnan(V0) & ~np.isnan(V1) & (V0 > 0) & (V1 > 0)
    if F0.shape != F1.shape or not both.any():
        return
    rel = np.where(both, np.abs(V1 - V0) / np.where(both, np.maximum(V0, V1), 1.0), 0.0)
    r, o = np.unravel_index(int(np.argmax(rel)), rel.shape)
    ctx.dist["margin_gain_variance_rel"] = max(ctx.dist.get("margin_gain_variance_rel", 0.0), float(rel[r, o]))
    if rel[r, o] <= 1e-6:
        return
    thr = float(np.sqrt(V0[r, o] * V1[r, o]))
    G0, _ = run(y, thr)
    G1, _ = run(y * c, thr)
    kept0, kept1 = ~np.isnan(G0[r, o]), ~np.isnan(G1[r, o])
    if kept0 != kept1:
        ctx.violation(
            "SSIcovUnc:gain2:pole-set-not-invariant",
            f"SSIcov(calc_unc=True): frequency variance of pole ({r},{o}) is {V0[r, o]:.6g} at gain 1 and {V1[r, o]:.6g} at gain {c:g}; with "
            f"hc['cov_max'] = {thr:.6g} the pole is {'kept' if kept0 else 'removed'} at gain 1 and {'kept' if kept1 else 'removed'} at gain {c:g}",
            inp | {"cov_max": thr, "data_seed": "see case"}, observed=[bool(kept0), bool(kept1)], expected="equal",
        )


def _perm_ref_cases(ctx, scale):
    """Channel permutations with SEVERAL reference channels: "reference indices mapped consistently" produces index lists of
    every order - descending, descending with a constant stride, interleaved - none of which is special to the property.
    Small records, all three single-setup SSI variants."""
    rng = ctx.rng
    kinds = ["SSIcov", "SSIcovR", "SSIdat"]
    for it in range(ctx.n(12, 60) * scale):
        kind = kinds[it % 3]
        nch = rng.randint(3, 6)
        fs = rng.choice([20.0, 50.0])
        y = _signal(ctx, nch, rng.randint(900, 1400), fs, nmodes=rng.randint(1, 2))
        r = rng.randint(2, nch)
        form = ["descending", "descending-stride", "ascending", "random"][(it // 3) % 4]
        # the reference list AFTER the permutation has the chosen form; the list before is any ordered subset
        if form == "descending":
            a = rng.randint(r - 1, nch - 1)
            after = list(range(a, a - r, -1))
        elif form == "descending-stride" and 2 * (r - 1) <= nch - 1:
            a = rng.randint(2 * (r - 1), nch - 1)
            after = list(range(a, a - 2 * r, -2))
        elif form == "ascending":
            after = sorted(rng.sample(range(nch), r))
        else:
            after = rng.sample(range(nch), r)
        before = rng.sample(range(nch), r)
        # perm: new channel j = old channel perm[j]; reference before[k] must land at position after[k]
        rest_old = [c for c in range(nch) if c not in before]
        rng.shuffle(rest_old)
        perm = [None] * nch
        for b, a_ in zip(before, after):
            perm[a_] = b
        it_rest = iter(rest_old)
        perm = [next(it_rest) if v is None else v for v in perm]
        br = rng.randint(4, 7)
        p = dict(nxseg=128, sd="per", pov=0.5, br=br, ordmax=min(rng.randint(4, 8), (br + 1) * r, br * nch), pl_ord=4, ref=list(before))
        p2 = dict(p, ref=[perm.index(b) for b in before])
        assert p2["ref"] == after
        inp = {"class": kind, "transformation": "perm", "fs": fs, "params": dict(p), "t": {"perm": perm, "ref_after": after, "form": form},
               "case": f"seed{ctx.seed}#permref{it}"}
        try:
            base = _run(kind, y, fs, p, [])
        except Exception as e:  # noqa: BLE001
            ctx.skipped += 1
            ctx.count(f"base_failed_{kind}_{type(e).__name__}")
            continue
        try:
            new = _run(kind, y[:, perm], fs, p2, [])
        except Exception as e:  # noqa: BLE001
            ctx.oracle_cases += 1
            ctx.violation(f"{kind}:perm:transformed-run-fails", f"{kind}: run on channel-permuted data with references {after} raises {type(e).__name__}: {str(e)[:100]} while the original run (references {before}) succeeds", inp)
            return
        ctx.count(f"cases_perm_refs_{form}")
        ctx.nontrivial.add((kind, "perm-refs", form, r))
        if not _cmp_tables(ctx, base["tables"], new["tables"], 1.0, (lambda v, perm=perm: np.asarray(v)[perm]), f"{kind}:perm", inp, fs):
            return


def _offset_cases(ctx, scale):
    """Records in which one channel carries a static offset larger than its own fluctuation, under orthogonal mixing and under
    a gain: the transformations act on the offset like on the rest of the record (an implementation that treats channels
    one by one - centring some, not others - is not covariant)."""
    rng = ctx.rng
    kinds = ["SSIcov", "SSIdat", "SSIcovR", "pLSCF"]
    for it in range(ctx.n(8, 48) * scale):
        kind = kinds[it % 4]
        tr = "orth" if it % 8 < 6 else "gain"
        nch = rng.randint(2, 4)
        fs = rng.choice([20.0, 50.0])
        y = _signal(ctx, nch, rng.randint(1200, 2000), fs, nmodes=rng.randint(1, 2))
        j = rng.randrange(nch)
        y[:, j] = y[:, j] + rng.choice([-1, 1]) * rng.choice([1.5, 3.0, 20.0]) * float(np.std(y[:, j]))
        br = rng.randint(5, 8)
        p = dict(nxseg=128, sd=rng.choice(["per", "cor"]), pov=0.5, br=br, ordmax=min(rng.randint(4, 8), br * nch), pl_ord=rng.randint(3, 5), ref=None)
        inp = {"class": kind, "transformation": tr, "fs": fs, "params": dict(p), "offset_channel": j, "case": f"seed{ctx.seed}#offset{it}"}
        try:
            base = _run(kind, y, fs, p, [])
        except Exception as e:  # noqa: BLE001
            ctx.skipped += 1
            ctx.count(f"base_failed_{kind}_{type(e).__name__}")
            continue
        y2, fs2, p2, _sel, kf, rowmap, tinfo = _transform_single(ctx, y, fs, p, [], tr)
        inp["t"] = tinfo
        try:
            new = _run(kind, y2, fs2, p2, [])
        except Exception as e:  # noqa: BLE001
            ctx.oracle_cases += 1
            ctx.violation(f"{kind}:{tr}:transformed-run-fails", f"{kind}: run on {tr}-transformed data raises {type(e).__name__}: {str(e)[:100]} while the original run succeeds", inp)
            return
        ctx.count(f"cases_offset_{tr}")
        ctx.nontrivial.add((kind, "offset", tr))
        if not _cmp_tables(ctx, base["tables"], new["tables"], kf, rowmap, f"{kind}:{tr}", inp, fs2):
            return


def _efdd_mix_cases(ctx, scale):
    """EFDD and FSDD under orthogonal mixing (two cases in three) and channel permutation: Fn and Xi unchanged (what
    C08_mix_bell states for the model: identical bell support, extrema, decrements), the returned shape is the mixed /
    permuted shape up to scale (MAC) and has a unit largest component.  Both estimators of the spectral matrix."""
    n0 = getattr(ctx, "_c08_n", 0)
    for it in range(ctx.n(6, 36) * scale):
        kind = ("EFDD", "FSDD")[it % 2]
        tr = "orth" if it % 3 < 2 else "perm"
        y, fs, p, sel, _ = _single_case(ctx, kind)
        ctx._c08_n = n0  # the cycle of transformations of the main stream is not advanced by this one
        y = np.asarray(y, dtype=float)
        p["sd"] = ("per", "cor")[(it // 2) % 2]
        inp = {"class": kind, "transformation": tr, "fs": fs, "params": dict(p), "sel": sel, "case": f"seed{ctx.seed}#mixbell{it}"}
        try:
            base = _run(kind, y, fs, p, sel)
        except Exception as e:  # noqa: BLE001  (too few extrema for the fit on this record: nothing to compare)
            ctx.skipped += 1
            ctx.count(f"base_failed_{kind}_{type(e).__name__}")
            continue
        y2, fs2, p2, sel2, kf, rowmap, tinfo = _transform_single(ctx, y, fs, p, sel, tr)
        inp["t"] = tinfo
        try:
            new = _run(kind, y2, fs2, p2, sel2)
        except Exception as e:  # noqa: BLE001
            ctx.oracle_cases += 1
            ctx.violation(f"{kind}:{tr}:transformed-run-fails", f"{kind}: run on {tr}-transformed data raises {type(e).__name__}: {str(e)[:100]} while the original run succeeds", inp)
            return
        ctx.nontrivial.add((kind, "mixbell", tr, p["sd"]))
        ctx.count(f"cases_mixbell_{kind}_{tr}")
        if not _cmp_modes(ctx, base["modes"], new["modes"], kf, rowmap, f"{kind}:{tr}", inp):
            return
def _plscf_synth(g, nref, nch, nf, nm, dt):
    """a pLSCF input: `nm` modes' half-spectrum (positive-power form) plus 2 % complex noise, first `nref` rows"""
    fs = 1 / dt
    s = 2j * np.pi * np.linspace(0.0, fs / 2, nf)
    Sy = np.zeros((nch, nch, nf), complex)
    for _ in range(nm):
        fn = g.uniform(0.08, 0.42) * fs
        xi = g.uniform(0.01, 0.04)
        lam = -xi * 2 * np.pi * fn + 2j * np.pi * fn * np.sqrt(1 - xi**2)
        phi = g.standard_normal(nch)
        Rr = np.outer(phi, phi) * (1 + 0.2j * g.standard_normal())
        a = Rr[:, :, None] / (s - lam) + Rr.conj()[:, :, None] / (s - lam.conjugate())
        b = Rr[:, :, None] / (-s - lam) + Rr.conj()[:, :, None] / (-s - lam.conjugate())
        Sy += a + np.swapaxes(b, 0, 1)
    Sy += 0.02 * np.abs(Sy).max() * (g.standard_normal(Sy.shape) + 1j * g.standard_normal(Sy.shape))
    return Sy[:nref]


def _plscf_mix_cases(ctx, scale):
    """`plscf.pLSCF` itself (the numerical core of pLSCF.run) on a spectral array `Sy` and on the mixed array
    `R Sy[:, :, f] Q^T` (Q orthogonal on the channels, R = Q for the square array, an independent orthogonal R on the
    reference rows for a rectangular one): for every order the returned denominator coefficients are conjugated,
    `Ad'[k] = Q Ad[k] Q^T`, and the numerators are `Bn'[k] = R Bn[k] Q^T` (C08_mix_plscf_cert / _order), both constraints.
    Rounding-only tolerance; conditioning is guarded by the response of the same call to a rounding-level perturbation of
    `Sy`.  A second, exact, leg runs the MODEL (`plscf_order`) on a dyadic array and on its mixture by a rational rotation and
    checks the same relation in rationals."""
    from fractions import Fraction

    from pyoma2.functions import plscf

    rng = ctx.rng
    g = ctx.nprng()
    pyth = [(3, 4, 5), (5, 12, 13), (8, 15, 17), (7, 24, 25)]
    for it in range(ctx.n(24, 160) * scale):
        nch = rng.randint(2, 4)
        square = it % 3 != 2
        nref = nch if square else rng.randint(1, nch)
        nf = rng.randint(40, 120)
        dt = rng.choice([0.01, 0.02, 0.005])
        ordmax = rng.randint(2, 5)
        sgn = rng.choice([-1, 1])
        Sy = _plscf_synth(g, nref, nch, nf, rng.randint(1, 2), dt)
        kindq = ["haar", "rotation", "signperm"][it % 3 if nch == 2 else (0 if it % 4 else 2)]
        if kindq == "haar":
            Q = np.linalg.qr(g.standard_normal((nch, nch)))[0]
        elif kindq == "rotation":
            a, b, c = rng.choice(pyth)
            Q = np.array([[a / c, -b / c], [b / c, a / c]])
        else:
            Q = np.eye(nch)[rng.sample(range(nch), nch)] * np.array([rng.choice([-1.0, 1.0]) for _ in range(nch)])
        Rm = Q if square else np.linalg.qr(g.standard_normal((nref, nref)))[0]
        Sy2 = np.einsum("op,pqf,cq->ocf", Rm, Sy, Q)
        Syp = Sy * (1 + 4e-16 * g.standard_normal(Sy.shape))
        inp = {"class": "plscf.pLSCF", "transformation": "orth", "fs": 1 / dt, "params": {"Nch": nch, "Nref": nref, "Nf": nf, "ordmax": ordmax, "sgn_basf": sgn},
               "t": {"Q": Q.tolist(), "R": "Q" if square else Rm.tolist(), "kind": kindq}, "case": f"seed{ctx.seed}#plscfmix{it}"}
        try:
            Ad, Bn = plscf.pLSCF(Sy, dt, ordmax, sgn)
            Adp, Bnp = plscf.pLSCF(Syp, dt, ordmax, sgn)
        except Exception as e:  # noqa: BLE001
            ctx.skipped += 1
            ctx.count(f"base_failed_plscf.pLSCF_{type(e).__name__}")
            continue
        ctx.oracle_cases += 1
        try:
            Ad2, Bn2 = plscf.pLSCF(Sy2, dt, ordmax, sgn)
        except Exception as e:  # noqa: BLE001
            ctx.violation("pLSCF:orth:transformed-run-fails", f"plscf.pLSCF on the mixed spectral array raises {type(e).__name__}: {str(e)[:100]} while the original call succeeds", inp)
            return
        if len(Ad2) != len(Ad) or len(Bn2) != len(Bn):
            ctx.violation("pLSCF:orth:order-count", f"plscf.pLSCF returns {len(Ad2)} orders for the mixed array and {len(Ad)} for the original one", inp, observed=len(Ad2), expected=len(Ad))
            return
        for k in range(len(Ad)):
            sa, sb = np.abs(Ad[k]).max(), np.abs(Bn[k]).max()
            pert = max(np.abs(Adp[k] - Ad[k]).max() / sa, np.abs(Bnp[k] - Bn[k]).max() / sb)
            if not pert <= 1e-12:  # an ill-conditioned order: rounding alone moves the coefficients
                ctx.skipped += 1
                ctx.count("plscf_mix_cond_skipped")
                continue
            if Ad2[k].shape != Ad[k].shape or Bn2[k].shape != Bn[k].shape:
                ctx.violation("pLSCF:orth:coef-shape", f"order {k + 1}: coefficient arrays of shapes {Ad2[k].shape}, {Bn2[k].shape} for the mixed array, {Ad[k].shape}, {Bn[k].shape} for the original", inp)
                return
            ea = np.abs(Ad2[k] - np.einsum("ab,kbc,dc->kad", Q, Ad[k], Q)).max() / sa
            eb = np.abs(Bn2[k] - np.einsum("op,kpb,cb->koc", Rm, Bn[k], Q)).max() / sb
            ctx.count("plscf_mix_orders")
            ctx.nontrivial.add(("plscf.pLSCF", "orth", kindq, "square" if square else "rect", sgn))
            if not ea <= 1e-10:
                ctx.violation("pLSCF:orth:Ad-not-conjugated", f"plscf.pLSCF, order {k + 1}, constraint {'HI' if sgn == 1 else 'LO'}: the denominator coefficients for Q Sy Q^T differ from Q Ad Q^T by {ea:.3g} (relative; a rounding-level perturbation of Sy moves them by {pert:.3g})",
                              inp | {"order": k + 1}, observed=ea, expected="<= 1e-10")
                return
            if not eb <= 1e-10:
                ctx.violation("pLSCF:orth:Bn-not-mixed", f"plscf.pLSCF, order {k + 1}, constraint {'HI' if sgn == 1 else 'LO'}: the numerator coefficients for R Sy Q^T differ from R Bn Q^T by {eb:.3g} (relative; perturbation response {pert:.3g})",
                              inp | {"order": k + 1}, observed=eb, expected="<= 1e-10")
                return
    # the exact leg: the model on a dyadic array and on its mixture by a rational rotation
    for it in range(ctx.n(4, 24) * scale):
        n = rng.randint(1, 2)
        nf = rng.randint(2 * (n + 1) + 3, 2 * (n + 1) + 6)
        sgn = rng.choice([-1, 1])
        a, b, c = rng.choice(pyth[:2])
        Qf = [[Fraction(a, c), Fraction(-b, c)], [Fraction(b, c), Fraction(a, c)]]
        Om = np.round(np.exp(sgn * 1j * np.pi * np.linspace(0.0, 1.0, nf)) * 2**10) / 2**10
        Sy = np.round((g.standard_normal((2, 2, nf)) + 1j * g.standard_normal((2, 2, nf))) * 2**6) / 2**6
        Sf = [[[(Fraction(float(Sy[o, c_, f].real)), Fraction(float(Sy[o, c_, f].imag))) for f in range(nf)] for c_ in range(2)] for o in range(2)]
        S2 = [[[tuple(sum(Qf[o][p] * Qf[c_][q] * Sf[p][q][f][j] for p in range(2) for q in range(2)) for j in range(2)) for f in range(nf)] for c_ in range(2)] for o in range(2)]
        enc = lambda S: [[[[R(z[0]), R(z[1])] for z in row] for row in blk] for blk in S]  # noqa: E731
        m1 = ctx.model("plscf_order", n=n, hi=sgn == 1, Om=[Cx(z) for z in Om], Sy=enc(Sf))
        m2 = ctx.model("plscf_order", n=n, hi=sgn == 1, Om=[Cx(z) for z in Om], Sy=enc(S2))
        if m1 is None or m2 is None:
            ctx.skipped += 1
            ctx.count("plscf_mix_model_singular")
            continue
        al1 = [[Fraction(v) for v in row] for row in m1["alpha"]]
        al2 = [[Fraction(v) for v in row] for row in m2["alpha"]]
        ok = all(
            al2[k * 2 + x][y] == sum(Qf[x][x2] * Qf[y][y2] * al1[k * 2 + x2][y2] for x2 in range(2) for y2 in range(2))
            for k in range(n + 1) for x in range(2) for y in range(2)
        )
        be1 = [[[Fraction(v) for v in row] for row in bb] for bb in m1["beta"]]
        be2 = [[[Fraction(v) for v in row] for row in bb] for bb in m2["beta"]]
        ok = ok and all(
            be2[o][t][y] == sum(Qf[o][p] * Qf[y][y2] * be1[p][t][y2] for p in range(2) for y2 in range(2))
            for o in range(2) for t in range(n + 1) for y in range(2)
        )
        ctx.corr("plscfOrder[orthogonal mixing, model vs model, exact]", bool(ok), {"n": n, "hi": sgn == 1, "Q": [a, b, c], "Nf": nf}, None, None, ("plscf-mix-mm", n, sgn))
        ctx.count("plscf_mix_model_exact")


def oracle(ctx, scale):
    rng = ctx.rng
    for it in range(ctx.n(3, 20) * scale):
        _gain_unc_case(ctx, it)
        if ctx.violations:
            return
    _perm_ref_cases(ctx, scale)
    if ctx.violations:
        return
    _offset_cases(ctx, scale)
    if ctx.violations:
        return
    _plscf_mix_cases(ctx, scale)
    if ctx.violations:
        return
    n = ctx.n(5, 25) * scale
    for it in range(n):
        for kind in SINGLE:
            y, fs, p, sel, tr = _single_case(ctx, kind)
            inp = {"class": kind, "transformation": tr, "fs": fs, "params": {k: v for k, v in p.items()}, "sel": sel, "case": f"seed{ctx.seed}#{it}"}
            try:
                base = _run(kind, y, fs, p, sel)
            except Exception as e:  # the base run itself fails (e.g. too few extrema for the EFDD fit): nothing to compare
                ctx.skipped += 1
                ctx.count(f"base_failed_{kind}_{type(e).__name__}")
                continue
            y2, fs2, p2, sel2, kf, rowmap, tinfo = _transform_single(ctx, y, fs, p, sel, tr)
            inp["t"] = tinfo
            try:
                view = rng.random() < 0.25
                if view:
                    inp["data_viewed_before_second_run"] = True
                    ctx.count("single_data_viewed_first")
                new = _run(kind, y2, fs2, p2, sel2, view=view)
            except Exception as e:
                ctx.oracle_cases += 1
                ctx.violation(f"{kind}:{tr}:transformed-run-fails", f"{kind}: run on {tr}-transformed data raises {type(e).__name__}: {str(e)[:100]} while the original run succeeds", inp)
                return
            tag = f"{kind}:{tr}"
            ctx.nontrivial.add((kind, tr, p["sd"]))
            ctx.count(f"cases_{tr}")
            if base["tables"] is not None:
                if not _cmp_tables(ctx, base["tables"], new["tables"], kf, rowmap, tag, inp, fs2):
                    return
            else:
                if not _cmp_modes(ctx, base["modes"], new["modes"], kf, rowmap, tag, inp):
                    return
        for kind in MULTI:
            datasets, ref_ind, labels, fs, nref = _multi_case(ctx)
            nx = rng.choice([128, 256])
            p = dict(nxseg=nx, sd=rng.choice(["per", "cor"]), pov=0.5, br=rng.randint(5, 8), ordmax=rng.randint(4, 8), pl_ord=rng.randint(4, 6), ref=None)
            p["ordmax"] = min(p["ordmax"], p["br"] * nref)
            from scipy import signal as sps

            f, P = sps.welch(datasets[0][:, ref_ind[0][0]], fs=fs, nperseg=nx)
            sel = [float(f[int(np.argmax(P[3:-3])) + 3]) + rng.choice([-2, -1, 1, 2]) * fs / nx]
            ctx._c08_m = getattr(ctx, "_c08_m", 0) + 1
            tr = ["gain", "perm", "time", "gain", "gain2"][(ctx._c08_m + MULTI.index(kind)) % 5]
            inp = {"class": kind, "transformation": tr, "fs": fs, "params": p, "ref_ind": ref_ind, "labels": labels, "case": f"seed{ctx.seed}#{it}"}
            try:
                base = _run(kind, datasets, fs, p, sel, ref_ind)
            except Exception as e:
                ctx.skipped += 1
                ctx.count(f"base_failed_{kind}_{type(e).__name__}")
                continue
            d2, r2, l2, fs2, sel2, kf = datasets, ref_ind, labels, fs, sel, 1.0
            if tr in ("gain", "gain2"):
                c = rng.choice([1e-6, 1e6, 10 ** rng.uniform(-6, 6)]) if tr == "gain" else 2.0 ** rng.randint(-20, 20)
                d2 = [d * c for d in datasets]
                inp["t"] = {"gain": c}
            elif tr == "perm":
                d2, r2, l2 = [], [], []
                for d, refs, chan in zip(datasets, ref_ind, labels):
                    perm = list(range(d.shape[1]))
                    rng.shuffle(perm)
                    d2.append(d[:, perm])
                    newchan = [chan[j] for j in perm]
                    l2.append(newchan)
                    r2.append([newchan.index(chan[r]) for r in refs])
                inp["t"] = {"labels_after": l2, "ref_ind_after": r2}
            else:
                k = rng.choice([0.1, 0.5, 2.0, 10.0, 10 ** rng.uniform(-2, 2)])
                fs2, sel2, kf = fs * k, [s * k for s in sel], k
                inp["t"] = {"k": k}
            o1, o2 = _global_order(labels, ref_ind), _global_order(l2, r2)
            idx = [o1.index(c) for c in o2]
            rowmap = lambda v: np.asarray(v)[idx]  # noqa: E731
            try:
                new = _run(kind, d2, fs2, p, sel2, r2)
            except Exception as e:
                ctx.oracle_cases += 1
                ctx.violation(f"{kind}:{tr}:transformed-run-fails", f"{kind}: run on {tr}-transformed data raises {type(e).__name__}: {str(e)[:100]}", inp)
                return
            tag = f"{kind}:{tr}"
            ctx.nontrivial.add((kind, tr, p["sd"]))
            ctx.count(f"cases_{tr}")
            if base["tables"] is not None:
                if not _cmp_tables(ctx, base["tables"], new["tables"], kf, rowmap, tag, inp, fs2):
                    return
            else:
                if not _cmp_modes(ctx, base["modes"], new["modes"], kf, rowmap, tag, inp):
                    return
        if it == 0:
            ctx.sample({"classes": SINGLE + MULTI, "example_params": {k: v for k, v in p.items()}})
    if not ctx.violations:
        _efdd_mix_cases(ctx, scale)


def _corr_ac2mp_model(ctx, ssi, A, C, dt, tag, key):
    """ssi.ac2mp(A, C, dt) against the model `ac2mpSsi` (Model/C08.lean: the `log(lam_d) * (1/dt)` step, `xiOf`, `fnOf`,
    `shapesOf`), scipy's eig recorded and handed to the model.  Returns the model output (or None)."""
    import scipy.linalg

    from c01 import record

    eigs = []
    with record(scipy.linalg, "eig", eigs):
        fn, xi, phi, lam_c, *_ = ssi.ac2mp(A, C, dt)
    if len(eigs) != 1:
        ctx.corr(tag, False, {"note": "eig call count", "n": len(eigs)}, None, None, None)
        return None
    lam_d, _lv, rv = eigs[0][1]
    loglam = np.log(lam_d)
    lamc = loglam * (1 / dt)
    if not (np.all(np.isfinite(lamc)) and np.all(np.abs(lamc) > 0)):
        ctx.skipped += 1
        return None
    raw = np.dot(C, rv)
    a = np.sort(np.abs(raw), axis=0)
    if raw.shape[0] > 1 and np.any(a[-1] - a[-2] <= 1e-9 * a[-1]):
        ctx.count("ac2mp_near_tie_skipped")  # the first-index rule is exercised by the exact-tie stream below
        return None
    mm = ctx.model("c08_ac2mp", C=Cmat(C), V=Cmat(rv), loglam=[Cx(z) for z in loglam], invdt=R(1 / dt),
                   abs=[R(v) for v in np.abs(lamc)], twopi=R(2 * np.pi))
    ok = max_rel_err([fl(v) for v in mm["fn"]], fn) <= 1e-12 and max_rel_err([fl(v) for v in mm["xi"]], xi) <= 1e-12
    ok = ok and max_rel_err([cfl(z) for z in mm["lam"]], lam_c) <= 1e-12
    PH = np.array([[cfl(z) for z in row] for row in mm["phi"]])
    ok = ok and PH.shape == np.asarray(phi).shape
    if ok:
        for j in range(raw.shape[1]):
            cancel = (np.abs(C) @ np.abs(rv[:, j])).max() / max(np.abs(raw[:, j]).max(), 1e-300)
            ok = ok and max_rel_err(PH[j], np.asarray(phi)[j]) <= 1e-12 + 4e-16 * cancel * raw.shape[0]
    ctx.corr(tag, bool(ok), {"A": A.tolist(), "C": C.tolist(), "dt": dt}, None, None, key)
    return mm


def _unit_exact(out):
    """the theorem's conclusion checked on the model's exact output: an entry equal to 1 at the first index of largest
    magnitude, nothing larger than 1"""
    from fractions import Fraction

    ns = [Fraction(z[0]) ** 2 + Fraction(z[1]) ** 2 for z in out]
    m = max(ns)
    k = ns.index(m)
    return m == 1 and Fraction(out[k][0]) == 1 and Fraction(out[k][1]) == 0, k


def _corr_normalisers(ctx, ssi, pl, fdd):
    """the three unity normalisers through the real functions and through the model op `c08_normalise`
    (PV.normalise / Plscf.phiCell / Fdd.normalise): same un-normalised vector, same index picked (first of largest
    magnitude, exact ties included), normalised vector equal to rounding, NaN pattern equal."""
    import scipy.linalg

    from c01 import record

    rng = ctx.rng
    g = ctx.nprng()

    def tie_vector(n):
        a = 2.0 ** rng.randint(-3, 3)
        units = [a, -a, 1j * a, -1j * a]
        v = np.array([rng.choice(units) * rng.choice([1.0, 0.5, 0.25]) for _ in range(n)], complex)
        i, j = rng.sample(range(n), 2)
        v[i], v[j] = rng.choice(units), rng.choice(units)  # at least two components of the largest magnitude
        return v

    for it in range(ctx.n(24, 240)):
        kind = ["ssi", "plscf", "fdd"][it % 3]
        mode = ["generic", "tie", "zero"][(it // 3) % 3]
        n = rng.randint(2, 6)
        if kind == "ssi":
            if mode == "zero":
                continue  # 0/0: numpy gives NaN, the rational model 0 - excluded by the hypothesis of C08_unity_ssi
            k = rng.randint(1, 4)
            if mode == "generic":
                A = g.standard_normal((k, k)) * 0.5
                C = g.standard_normal((n, k))
            else:  # exact eigenvectors e_j: the un-normalised shapes are the columns of C
                A = np.diag(rng.sample([0.9, 0.5, -0.7, 0.3, 0.8], k))
                C = np.array([tie_vector(n).real + tie_vector(n).imag for _ in range(k)]).T
                C[C == 0] = 1.0
            eigs = []
            with record(scipy.linalg, "eig", eigs):
                _fn, _xi, phi, *_ = ssi.ac2mp(A, C, 0.01)
            rv = eigs[0][1][2]
            raws, reals = list(np.dot(C, rv).T), list(np.asarray(phi))
        elif kind == "plscf":
            k = rng.randint(1, 4)
            if mode == "generic":
                A = g.standard_normal((k, k)) * 0.5
                C = g.standard_normal((n, k))
            elif mode == "tie":
                A = np.diag(rng.sample([0.9, 0.5, 0.7, 0.3, 0.8], k))
                C = np.array([tie_vector(n).real + tie_vector(n).imag for _ in range(k)]).T
                C[C == 0] = 1.0
            else:
                A = np.diag(rng.sample([0.9, 0.5, 0.7, 0.3, 0.8], k))
                C = np.zeros((n, k))
            eigs = []
            with record(np.linalg, "eig", eigs), np.errstate(all="ignore"):
                _fn, _xi, phi, lam_c = pl.ac2mp_poly(A, C, 0.01, "per", 128)
            lam_d, V = eigs[0][1]
            lambd = np.log(lam_d) * (1 / 0.01)
            keep = [ii for ii in range(len(lam_d)) if np.isfinite(lambd[ii]) and not lambd[ii].real > 0]  # not blanked (C05's stream covers blanking)
            raws = [np.dot(C, V)[:, ii] for ii in keep]
            reals = [np.asarray(phi)[ii] for ii in keep]
        else:
            nf = rng.randint(8, 20)
            freq = np.arange(nf) * 0.5
            Sval = np.zeros((n, n, nf))
            for q in range(nf):
                Sval[np.arange(n), np.arange(n), q] = np.sort(g.uniform(0.5, 5.0, n))[::-1]
            Svec = g.standard_normal((n, n, nf)) + 1j * g.standard_normal((n, n, nf))
            if mode == "tie":
                for q in range(nf):
                    Svec[0, :, q] = tie_vector(n)
            elif mode == "zero":
                Svec[0, :, :] = 0
            sel = [float(freq[rng.randint(3, nf - 4)]) + 0.1]
            with np.errstate(all="ignore"):
                Fn, Phi = fdd.FDD_mpe(Sval, Svec, freq, sel, DF=1.2)
            idx = int(np.argmin(np.abs(freq - Fn[0])))
            raws, reals = [Svec[0, :, idx]], [np.asarray(Phi)[:, 0]]
        for raw, real in zip(raws, reals):
            a = np.sort(np.abs(raw))
            if mode == "generic" and len(a) > 1 and a[-1] - a[-2] <= 1e-9 * a[-1]:
                ctx.count("normaliser_near_tie_skipped")
                continue
            mm = ctx.model("c08_normalise", kind=kind, v=[Cx(z) for z in raw])
            k_real = int(np.argmax(np.abs(raw)))
            if mm["out"] is None:
                ok = bool(np.all(np.isnan(real))) and not np.any(raw)
            else:
                out = np.array([cfl(z) for z in mm["out"]])
                unit, k_out = _unit_exact(mm["out"])
                ok = mm["k"] == k_real and unit and k_out == mm["k"] and max_rel_err(out, real) <= 1e-12
                # the real code's result has the property itself (to rounding)
                ok = ok and abs(real[k_real] - 1) <= 1e-12 and np.abs(real).max() <= 1 + 1e-12
            ctx.corr(f"unity[{kind}]", bool(ok), {"kind": kind, "mode": mode, "v": [str(z) for z in raw]}, mm, [str(z) for z in real], (kind, mode))
            ctx.count(f"unity_{kind}_{mode}")


def correspondence(ctx):
    """C08's own ties (the other model functions its theorems speak about are tied by C01, C03, C05, C06, C07, C12, C13):
    * the time-unit map: `ssi.ac2mp(A, C, dt)` and `ssi.ac2mp(A, C, dt/k)` each against the model `ac2mpSsi` (driver op
      `c08_ac2mp`), which contains the `log(lam_d) * (1/dt)` step `C08_time_unit_ac2mp` speaks about; then the two MODEL
      outputs are related as the theorem says (fn, lam times k; xi, phi equal) - exactly, in rationals, when k is a power
      of two;
    * the three unity normalisers (`ssi.ac2mp`, `plscf.ac2mp_poly`, `fdd.FDD_mpe`) against `c08_normalise`;
    * (kept) the code-vs-code relation of `ssi.ac2mp` under dt -> dt/k."""
    from fractions import Fraction

    from pyoma2.functions import fdd, plscf, ssi

    g = ctx.nprng()
    for it in range(ctx.n(20, 300)):
        n = ctx.rng.randint(2, 6)
        A = g.standard_normal((n, n)) * 0.5
        C = g.standard_normal((3, n))
        dt = 10 ** ctx.rng.uniform(-3, 0)
        k = 10 ** ctx.rng.uniform(-2, 2) if it % 2 else 2.0 ** ctx.rng.randint(-6, 6)
        fn1, xi1, phi1, *_ = ssi.ac2mp(A, C, dt)
        fn2, xi2, phi2, *_ = ssi.ac2mp(A, C, dt / k)
        ok = np.allclose(fn2, fn1 * k, rtol=1e-10, equal_nan=True) and np.allclose(xi2, xi1, rtol=1e-9, atol=1e-12, equal_nan=True) and np.allclose(phi1, phi2, equal_nan=True)
        ctx.corr("ssi.ac2mp[time unit]", bool(ok), {"A": A.tolist(), "dt": dt, "k": k}, None, None, ("ac2mp", n))
        m1 = _corr_ac2mp_model(ctx, ssi, A, C, dt, "ssi.ac2mp[model, dt]", ("ac2mp-model", n))
        m2 = _corr_ac2mp_model(ctx, ssi, A, C, dt / k, "ssi.ac2mp[model, dt/k]", ("ac2mp-model-k", n))
        if m1 is not None and m2 is not None:
            # the theorem's relation between the two model outputs: shapes identical (exactly: same C, same recorded vectors)
            okm = m1["phi"] == m2["phi"]
            if it % 2 == 0 and 1 / (dt / k) == k * (1 / dt):  # power-of-two k: the recorded inputs are related exactly
                kk = Fraction(k)
                okm = okm and [[Fraction(z[0]) * kk, Fraction(z[1]) * kk] for z in m1["lam"]] == [[Fraction(z[0]), Fraction(z[1])] for z in m2["lam"]]
                ctx.count("time_unit_model_exact")
            okm = okm and max_rel_err([fl(v) for v in m2["fn"]], [k * fl(v) for v in m1["fn"]]) <= 1e-12
            okm = okm and max_rel_err([fl(v) for v in m2["xi"]], [fl(v) for v in m1["xi"]]) <= 1e-11
            ctx.corr("ac2mpSsi[time unit, model vs model]", bool(okm), {"A": A.tolist(), "dt": dt, "k": k}, None, None, ("ac2mp-mm", n))
    _corr_normalisers(ctx, ssi, plscf, fdd)


def replay(rec):
    v = rec["violation"]
    print("replaying", v["sig"], "-", v["what"])
    print("re-run: VERIF_SEED=%d ./check C08 --tier %s  (case %s); input summary:" % (rec["seed"], rec["tier"], v["input"].get("case")))
    print({k: v["input"][k] for k in ("class", "transformation", "fs", "params") if k in v["input"]})
    return 0
