#!/venv/bin/python
"""Call sites INSIDE the module-level functions of pyoma2/functions/fdd.py, read from the tested tree with `ast`
(fail closed) -> lean/PyomaVerif/Generated/FnCalls.lean (a plain data table, namespace PV.Gen.FnCalls).

For every function of FUNCS: each call of a TRACKED callee (a function of the same module, scipy.signal.csd,
scipy.signal.windows.exponential) with
  * the branch conditions on the way to it (`if` tests; an `else`/`elif` contributes `not (<test>)`), whether it sits in a loop,
  * the callee PARAMETER every argument is bound to (positional arguments resolved through the callee's signature),
  * the bound expression with local single-assignment names replaced by what they were assigned (so a value that is
    first stored in a helper variable and one written in place give the same row),
  * arguments equal to the callee's literal default dropped (writing a default out is the same call),
  * the names the result is unpacked into.
Also the signature (parameter, literal default) of every function of the module.

Grammar (anything else -> (False, msg, {})): function bodies made of Expr / Assign / AugAssign / AnnAssign / If / For / Return /
Pass / nested FunctionDef (opaque, must not contain a tracked call); tracked calls only as a whole statement value
(`x = f(...)`, `a, b = f(...)`, `f(...)`), never inside a comprehension, lambda, nested def, or another call's arguments;
no *args / **kwargs at a tracked call."""
import ast
import inspect
import json
import os

FUNCS = ["SD_est", "SD_PreGER", "EFDD_mpe"]
EXTERNAL = {"signal.csd": ("scipy.signal", "csd"), "signal.windows.exponential": ("scipy.signal.windows", "exponential")}
REL = os.path.join("src", "pyoma2", "functions", "fdd.py")


class Refuse(Exception):
    pass


def _lit(node):
    return ast.unparse(node)


def _ext_sig(mod, name):
    import importlib

    f = getattr(importlib.import_module(mod), name)
    out = []
    for p in inspect.signature(f).parameters.values():
        if p.kind not in (p.POSITIONAL_OR_KEYWORD, p.KEYWORD_ONLY):
            raise Refuse(f"{mod}.{name}: parameter kind {p.kind}")
        out.append((p.name, None if p.default is p.empty else repr(p.default)))
    return out


def _fn_sig(fd):
    a = fd.args
    if a.vararg or a.kwarg or a.posonlyargs or a.kwonlyargs:
        raise Refuse(f"{fd.name}: signature form")
    names = [x.arg for x in a.args]
    dfl = [None] * (len(names) - len(a.defaults)) + [_lit(d) for d in a.defaults]
    return list(zip(names, dfl))


class Subst(ast.NodeTransformer):
    def __init__(self, env):
        self.env = env

    def visit_Name(self, node):
        if isinstance(node.ctx, ast.Load) and node.id in self.env:
            return ast.copy_location(ast.parse(self.env[node.id], mode="eval").body, node)
        return node

    # names bound inside a comprehension / lambda shadow the environment: leave such expressions alone
    def visit_ListComp(self, node):
        return node

    visit_SetComp = visit_DictComp = visit_GeneratorExp = visit_Lambda = visit_ListComp


def subst(node, env):
    import copy

    return ast.unparse(Subst(env).visit(copy.deepcopy(node)))


def _assigned(stmts):
    out = set()
    for s in stmts:
        for n in ast.walk(s):
            if isinstance(n, ast.Name) and isinstance(n.ctx, (ast.Store, ast.Del)):
                out.add(n.id)
            elif isinstance(n, ast.FunctionDef):
                out.add(n.name)
    return out


def _callee(call):
    try:
        return ast.unparse(call.func)
    except Exception:  # noqa: BLE001
        return None


class Walker:
    def __init__(self, fname, sigs):
        self.fname, self.sigs = fname, sigs
        self.sites, self.count = [], {}

    def tracked(self, node):
        return isinstance(node, ast.Call) and _callee(node) in self.sigs

    def no_tracked_inside(self, node, what):
        for n in ast.walk(node):
            if self.tracked(n):
                raise Refuse(f"{self.fname}: call of {_callee(n)} inside {what} (line {n.lineno})")

    def record(self, call, env, path, loop, ret):
        callee = _callee(call)
        sig = self.sigs[callee]
        names = [p for p, _ in sig]
        if any(isinstance(a, ast.Starred) for a in call.args):
            # `f(*helper(a, b), ...)` where `helper` is a module-level function of the same file whose body is one
            # `return (e1, e2, ...)` of expressions in its own parameters: the same call as `f(e1[a, b], e2[a, b], ...)`
            import copy

            new_args = []
            for a in call.args:
                if not isinstance(a, ast.Starred):
                    new_args.append(a)
                    continue
                h = a.value
                fd = getattr(self, "fdefs", {}).get(_callee(h)) if isinstance(h, ast.Call) else None
                body = [s_ for s_ in (fd.body if fd else []) if not (isinstance(s_, ast.Expr) and isinstance(s_.value, ast.Constant))]
                ok = (fd is not None and not fd.decorator_list and len(body) >= 1 and isinstance(body[-1], ast.Return)
                      and isinstance(body[-1].value, ast.Tuple) and not h.keywords and not fd.args.vararg and not fd.args.kwarg
                      and not fd.args.kwonlyargs and not fd.args.defaults and len(h.args) == len(fd.args.args)
                      and not any(isinstance(x, ast.Starred) for x in h.args)
                      and all(isinstance(s_, ast.Assign) and len(s_.targets) == 1 and isinstance(s_.targets[0], ast.Name)
                              and not any(isinstance(n, ast.Call) and self.tracked(n) for n in ast.walk(s_.value)) for s_ in body[:-1]))
                if not ok:
                    raise Refuse(f"{self.fname}: star arguments at {callee} (line {call.lineno})")
                penv = {p.arg: ast.unparse(v) for p, v in zip(fd.args.args, h.args)}
                for s_ in body[:-1]:  # straight-line locals of the helper, each read after it is bound
                    penv[s_.targets[0].id] = ast.unparse(Subst(penv).visit(copy.deepcopy(s_.value)))
                for e in body[-1].value.elts:
                    if {n.id for n in ast.walk(e) if isinstance(n, ast.Name)} - set(penv) - {"np"}:
                        raise Refuse(f"{self.fname}: star arguments at {callee} (line {call.lineno}): helper reads other names")
                    new_args.append(ast.copy_location(Subst(penv).visit(copy.deepcopy(e)), a))
            call = ast.copy_location(ast.Call(func=call.func, args=new_args, keywords=call.keywords), call)
        if any(k.arg is None for k in call.keywords):
            raise Refuse(f"{self.fname}: star arguments at {callee} (line {call.lineno})")
        if len(call.args) > len(names):
            raise Refuse(f"{self.fname}: too many positional arguments at {callee} (line {call.lineno})")
        bind = []
        for i, a in enumerate(call.args):
            self.no_tracked_inside(a, "an argument")
            bind.append((names[i], a))
        for k in call.keywords:
            if k.arg not in names or k.arg in [b[0] for b in bind]:
                raise Refuse(f"{self.fname}: keyword {k.arg} at {callee} (line {call.lineno})")
            self.no_tracked_inside(k.value, "an argument")
            bind.append((k.arg, k.value))
        dfl = dict(sig)
        rows = []
        for p, v in bind:
            raw = ast.unparse(v)
            if dfl.get(p) is not None and raw == dfl[p]:
                continue  # the literal default written out
            rows.append((p, subst(v, env)))
        rows.sort(key=lambda r: names.index(r[0]))
        idx = self.count.get(callee, 0)
        self.count[callee] = idx + 1
        self.sites.append({"caller": self.fname, "callee": callee, "idx": idx, "path": list(path), "loop": loop, "bind": rows, "ret": ret})

    def block(self, stmts, env, path, loop):
        for s in stmts:
            if isinstance(s, ast.Expr):
                if self.tracked(s.value):
                    self.record(s.value, env, path, loop, [])
                else:
                    self.no_tracked_inside(s, "an expression statement")
            elif isinstance(s, ast.Assign):
                tg = s.targets
                if self.tracked(s.value):
                    if len(tg) != 1:
                        raise Refuse(f"{self.fname}: chained assignment (line {s.lineno})")
                    t = tg[0]
                    if isinstance(t, ast.Name):
                        ret = [t.id]
                    elif isinstance(t, ast.Tuple) and all(isinstance(e, ast.Name) for e in t.elts):
                        ret = [e.id for e in t.elts]
                    else:
                        raise Refuse(f"{self.fname}: target form (line {s.lineno})")
                    self.record(s.value, env, path, loop, ret)
                    for n in ret:
                        env.pop(n, None)
                else:
                    self.no_tracked_inside(s.value, "an expression")
                    if len(tg) == 1 and isinstance(tg[0], ast.Name):
                        val = subst(s.value, env)
                        env[tg[0].id] = val  # re-parsed on substitution: precedence is kept by the AST
                    else:
                        for n in _assigned([s]):
                            env.pop(n, None)
                # a name that was substituted into other entries and is now re-bound: entries keep the OLD value (text)
            elif isinstance(s, ast.AugAssign) and self.tracked(s.value):
                # `x op= f(...)` is `t = f(...); x op= t`: an ordinary call site whose result is consumed at once
                self.record(s.value, env, path, loop, [])
                for n in _assigned([s]):
                    env.pop(n, None)
            elif isinstance(s, (ast.AugAssign, ast.AnnAssign)):
                self.no_tracked_inside(s, "an augmented / annotated assignment")
                for n in _assigned([s]):
                    env.pop(n, None)
            elif isinstance(s, ast.If):
                self.no_tracked_inside(s.test, "a condition")
                t = subst(s.test, env)
                self.block(s.body, dict(env), path + [t], loop)
                self.block(s.orelse, dict(env), path + [f"not ({t})"], loop)
                for n in _assigned(s.body) | _assigned(s.orelse):
                    env.pop(n, None)
            elif isinstance(s, ast.For):
                self.no_tracked_inside(s.iter, "a loop header")
                if s.orelse:
                    raise Refuse(f"{self.fname}: for-else (line {s.lineno})")
                inner = dict(env)
                for n in _assigned([s]):
                    inner.pop(n, None)
                    env.pop(n, None)
                self.block(s.body, inner, path, True)
            elif isinstance(s, ast.Return):
                if s.value is not None:
                    self.no_tracked_inside(s.value, "a return value")
            elif isinstance(s, ast.Pass):
                pass
            elif isinstance(s, ast.FunctionDef):
                self.no_tracked_inside(s, "a nested function")
                env.pop(s.name, None)
            else:
                raise Refuse(f"{self.fname}: statement form {type(s).__name__} (line {s.lineno})")


def translate(repo):
    src = open(os.path.join(repo, REL)).read()
    tree = ast.parse(src)
    fdefs = {n.name: n for n in tree.body if isinstance(n, ast.FunctionDef)}
    for f in FUNCS:
        if f not in fdefs:
            raise Refuse(f"function {f} not found in {REL}")
    # `signal` must be scipy.signal
    ok_imp = any(isinstance(n, ast.ImportFrom) and n.module == "scipy" and any(a.name == "signal" and a.asname is None for a in n.names) for n in tree.body)
    if not ok_imp:
        raise Refuse("`from scipy import signal` not found")
    sigs = {name: _fn_sig(fd) for name, fd in fdefs.items()}
    for k, (m, n) in EXTERNAL.items():
        sigs[k] = _ext_sig(m, n)
    sites = []
    for f in FUNCS:
        fd = fdefs[f]
        if fd.decorator_list:
            raise Refuse(f"{f}: decorated")
        w = Walker(f, sigs)
        w.fdefs = fdefs
        body = fd.body
        if body and isinstance(body[0], ast.Expr) and isinstance(body[0].value, ast.Constant) and isinstance(body[0].value.value, str):
            body = body[1:]
        # parameters re-bound in the body are ordinary locals from then on; nothing to do: env starts empty
        w.block(body, {}, [], False)
        sites += w.sites
    return sites, {k: v for k, v in sigs.items()}


def _s(x):
    return json.dumps(x, ensure_ascii=False)


def _pairs(l):
    return "[" + ", ".join(f"({_s(a)}, {_s(b)})" for a, b in l) + "]"


def render(sites, sigs):
    o = ["import PyomaVerif.Model.FnCallsTbl",
         "/-! GENERATED by harness/translate_fncalls.py from src/pyoma2/functions/fdd.py of the tested tree — do not edit. -/",
         "namespace PV.Gen.FnCalls", "open PV.FnCallsTbl", "", "def sites : List FnSite := ["]
    rows = []
    for s in sites:
        rows.append("  { caller := %s, callee := %s, idx := %d, path := [%s], loop := %s,\n    bind := %s,\n    ret := [%s] }" % (
            _s(s["caller"]), _s(s["callee"]), s["idx"], ", ".join(_s(p) for p in s["path"]), "true" if s["loop"] else "false",
            _pairs(s["bind"]), ", ".join(_s(r) for r in s["ret"])))
    o.append(",\n".join(rows) + "]")
    o += ["", "def sigs : List FnSig := ["]
    rows = []
    for name in sorted(sigs):
        rows.append("  { name := %s, params := [%s], dflt := %s }" % (
            _s(name), ", ".join(_s(p) for p, _ in sigs[name]), _pairs([(p, d) for p, d in sigs[name] if d is not None])))
    o.append(",\n".join(rows) + "]")
    o += ["", "end PV.Gen.FnCalls", ""]
    return "\n".join(o)


def write(repo, lean_dir):
    try:
        sites, sigs = translate(repo)
    except Refuse as e:
        return False, f"fncalls translator refused: {e}", {}
    except (OSError, SyntaxError, ImportError, ValueError, TypeError) as e:
        return False, f"fncalls translator failed: {type(e).__name__}: {e}", {}
    text = render(sites, sigs)
    path = os.path.join(lean_dir, "PyomaVerif", "Generated", "FnCalls.lean")
    old = open(path).read() if os.path.exists(path) else None
    if old != text:
        with open(path, "w") as f:
            f.write(text)
    return True, f"{len(sites)} call sites in {len(FUNCS)} functions", {"sites": len(sites), "changed": old != text}


if __name__ == "__main__":
    import sys

    repo = os.environ.get("PYOMA2_REPO", "/repo")
    here = os.path.dirname(os.path.abspath(__file__))
    if "--write" in sys.argv:
        print(write(repo, os.path.join(os.path.dirname(here), "lean")))
    else:
        s, g = translate(repo)
        for r in s:
            print(r)
