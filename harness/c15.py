"""C15 — runs are gated, deterministic, isolated, persistent; PoSER validates inputs.

Real code under test: BaseSetup.add_algorithms / run_by_name / run_all / mpe, BaseAlgorithm._pre_run and the
mpe methods of FDD, EFDD, FSDD, SSIcov, SSIdat, pLSCF on a real SingleSetup (3 channels, 600 samples),
SingleSetup preprocessing + rollback, MultiSetup_PoSER.__init__/_init_setups, gen.save_to_file/load_from_file.

The Lean model (Model/Orch.lean) leaves `run`, `mpe` and preprocessing uninterpreted: the driver returns *terms*
(`["run", cls, params, data]`, ...) which this harness evaluates stand-alone with the real classes (fresh instance,
same parameters, same data) and compares by hash with what the setup holds.
"""
import copy
import hashlib
import itertools
import json
import os
import shutil
import tempfile

import numpy as np

from common import all_pre_build as pre_build  # noqa: E402,F401  (regenerates Generated/{Wiring,Setup,...}.lean from the tested tree)
import orchx  # noqa: E402  (extended alphabet: re-add, set_run_params, mpe_from_plot - Model/OrchX.lean)

LEAN_MODULES = ["PyomaVerif.Props.C15", "PyomaVerif.Mutants.C15", "PyomaVerif.Props.WiringGuard", "PyomaVerif.Props.WiringSetup"]
THEOREMS = [
    # run protocol of BaseSetup / BaseAlgorithm read off the source (translate_setup.py -> Generated/Setup.lean)
    "PV.WiringSetup.C15_prerun_from_source",
    "PV.WiringSetup.C15_setup_mpe_from_source",
    "PV.WiringSetup.C15_protocol_not_overridden",
    "PV.WiringSetup.C15_fresh_defaults",
    "PV.WiringSetup.C15_mpe_order_from_source",
    "PV.WiringSetup.C14_set_data_from_source",
    # class-layer wiring, regenerated from /repo on every run (translate_wiring.py)
    "PV.WiringGuard.C15_mpe_guarded_from_source",
    "PV.WiringGuard.C15_mpe_from_plot_guarded_from_source",
    "PV.WiringGuard.C15_guard_sites",
    "PV.WiringGuard.C15_AllGuarded_from_source",
    "PV.C15.C15_gating_run_outcome",
    "PV.C15.C15_gating_run",
    "PV.C15.C15_gating_mpe_outcome",
    "PV.C15.C15_gating_mpe",
    "PV.C15.C15_gating_mpe_before_run",
    "PV.C15.C15_gating_runAll",
    "PV.C15.C15_runAll_ok",
    "PV.C15.C15_run_result",
    "PV.C15.C15_mpe_result",
    "PV.C15.C15_isolation_frame",
    "PV.C15.C15_isolation_runAll_frame",
    "PV.C15.C15_isolation_pre_frame",
    "PV.C15.C15_isolation",
    "PV.C15.C15_isolation_from",
    "PV.C15.C15_history_independent",
    "PV.C15.C15_history_independent_new",
    "PV.C15.C15_proj_own",
    "PV.C15.C15_rerun",
    "PV.C15.C15_run_commute",
    "PV.C15.C15_poser_iff",
    "PV.C15.C15_poser_valueError",
    "PV.C15.Mutants.preFix_gating_fails",
    "PV.C15.Mutants.fixed_gating_holds",
    "PV.C15.Mutants.runLate_isolation_fails",
    "PV.C15.Mutants.runShared_frame_fails",
    "PV.C15.Mutants.unordered_poser_fails",
    "PV.C15.Mutants.lt_poser_fails",
    "PV.C15.Mutants.noFn_poser_fails",
] + orchx.THEOREMS
LEAN_MODULES += orchx.LEAN_MODULES
RULE = (
    "orchestration: every call sequence of length 3 for 3 ordered class pairs (quick) / for all 30 ordered pairs of the 6 "
    "classes + length 4 for 3 pairs (thorough) over an 11-letter alphabet {add A, add A without parameters, add B, run A, run B, run unknown, run_all, "
    "mpe A, mpe B, decimate, inject unbound B} plus sampled length-5 sequences over 3 names, 6 classes, 2 parameter "
    "sets, 2 mpe argument sets, 3 preprocessing kinds, rollback; after EVERY call: exception class, dict order, class, "
    "hash(run_params), hash(result), hash(bound data), hash(setup data) vs the model's terms evaluated stand-alone; "
    "two-algorithm sessions (add, add, run_all, mpe, mpe, mpe) for all 36 class pairs with ONE caller-owned sel_freq list "
    "per selection shared by all mpe calls of a sequence (sorted, single and non-ascending selections; SSI with its "
    "default order='find_min'); monitor that the caller's argument lists are unchanged after every call; "
    "history projection (C15_history_independent) replayed on the real code; PoSER: all (type list <= 2 of 3 classes) x "
    "(unrun/run/mpe per algorithm) x (names 0..3) for 0..2 setups exhaustively, 3 setups exhaustive over type lists + "
    "sampled states (thorough: 3 setups exhaustive over 2 classes, 4 setups sampled). distinct = distinct sequences / "
    "PoSER configurations"
) + orchx.RULE
EXTRA_TRUSTED = [
    "pydantic models, pickle, and bitwise determinism of LAPACK/FFT on identical input in one process (checked at runtime by hash, not proved)",
    "sha1 over dtype/shape/bytes of every array field as equality of results",
]
ASSUMPTIONS = [
    "`add` letters hand over fresh instances; re-adding the object that is in the dict is the letter `readd` (orchx.py)",
    "run/mpe/preprocessing are total on the inputs used (a numerical exception that a stand-alone call reproduces is counted and skipped)",
    "dict keys are unique (Python dict) - run_all is modelled as a loop over the entries",
    "the model mirrors the tree AFTER proposed_fixes/fix_F24.diff (EFDD.mpe guarded); Mutants/C15.lean has the pinned variant",
] + orchx.ASSUMPTIONS

FS0 = 50.0
CLASSES5 = ["FDD", "EFDD", "SSIcov", "SSIdat", "pLSCF"]
_HC = dict(conj=True, xi_max=0.9, mpc_lim=0.0, mpd_lim=1.0)
BASE = {  # parameter-set id -> (class, kwargs); small so that a run takes milliseconds
    "FDD": ("FDD", dict(nxseg=64)),
    "FDD_b": ("FDD", dict(nxseg=96, method_SD="cor")),
    "EFDD": ("EFDD", dict(nxseg=256)),
    "EFDD_b": ("EFDD", dict(nxseg=200, pov=0.25)),
    "FSDD": ("FSDD", dict(nxseg=256)),
    "FSDD_b": ("FSDD", dict(nxseg=200, pov=0.25)),
    "SSIcov": ("SSIcov", dict(br=4, ordmax=8)),  # class default method ("cov_mm"), same br as "SSIdat": only the class tells the two runs apart
    "SSIcov_b": ("SSIcov", dict(br=5, ordmax=8, method="cov_R")),
    "SSIdat": ("SSIdat", dict(br=4, ordmax=8)),
    "SSIdat_b": ("SSIdat", dict(br=3, ordmax=6)),
    "pLSCF": ("pLSCF", dict(ordmax=6, nxseg=64, method_SD="cor", hc=_HC)),
    "pLSCF_b": ("pLSCF", dict(ordmax=5, nxseg=96, method_SD="cor", hc=_HC)),
}
_EF = {
    "m1": dict(sel_freq=[2.5, 4.5], DF1=1.0, DF2=2.0, sppk=1, npmax=3),
    "m2": dict(sel_freq=[4.5], DF1=0.8, DF2=1.5, sppk=0, npmax=3),
    "m3": dict(sel_freq=[4.5, 2.5], DF1=1.0, DF2=2.0, sppk=1, npmax=3),  # the user's order, not ascending
}
_SS = {"m1": dict(sel_freq=[2.5, 4.5], order=6), "m2": dict(sel_freq=[4.5], order=5, rtol=0.2),
       "m3": dict(sel_freq=[4.5, 2.5])}  # defaults of the signature: order="find_min", rtol=5e-2
MPE = {
    "FDD": {"m1": dict(sel_freq=[2.5, 4.5], DF=1.0), "m2": dict(sel_freq=[4.5], DF=0.8),
            "m3": dict(sel_freq=[4.5, 2.5], DF=1.0)},
    "EFDD": _EF,
    "FSDD": _EF,
    "SSIcov": _SS,
    "SSIdat": _SS,
    "pLSCF": {"m1": dict(sel_freq=[2.5, 4.5], order=4, rtol=0.5), "m2": dict(sel_freq=[4.5], order=3, rtol=0.5),
              "m3": dict(sel_freq=[4.5, 2.5], order=4, rtol=0.5)},
}
PRE = {
    "dec2": lambda s: s.decimate_data(q=2),
    "detr": lambda s: s.detrend_data(),
    "filt": lambda s: s.filter_data(Wn=5.5, order=4),
}
_MISSING = object()
_LIB = {}


def lib():
    if not _LIB:
        from pyoma2.algorithms.fdd import EFDD, FDD, FSDD
        from pyoma2.algorithms.plscf import pLSCF
        from pyoma2.algorithms.ssi import SSIcov, SSIdat
        from pyoma2.functions import gen
        from pyoma2.setup.multi import MultiSetup_PoSER
        from pyoma2.setup.single import SingleSetup

        _LIB.update(FDD=FDD, EFDD=EFDD, FSDD=FSDD, SSIcov=SSIcov, SSIdat=SSIdat, pLSCF=pLSCF,
                    SingleSetup=SingleSetup, PoSER=MultiSetup_PoSER, gen=gen)
    return _LIB


def mkdata(seed, N=600, fs=FS0):
    """3-channel response of two lightly damped modes (2.5 Hz, 4.5 Hz) to white noise + measurement noise"""
    from scipy import signal

    rng = np.random.default_rng(seed)
    data = np.zeros((N, 3))
    for f, xi, phi in ((2.5, 0.03, [1, 0.8, 0.3]), (4.5, 0.03, [1, -0.5, -0.9])):
        wn = 2 * np.pi * f
        b, a, _ = signal.cont2discrete(([wn**2], [1, 2 * xi * wn, wn**2]), 1 / fs)
        data += np.outer(signal.lfilter(b.ravel(), a, rng.standard_normal(N)), phi)
    return data + 0.05 * np.abs(data).max() * rng.standard_normal(data.shape)


# ----------------------------------------------------------------------------- fingerprints
def fp(x):
    h = hashlib.sha1()

    def go(v):
        if isinstance(v, np.ndarray):
            h.update(b"A" + str(v.dtype).encode() + str(v.shape).encode() + np.ascontiguousarray(v).tobytes())
        elif isinstance(v, dict):
            h.update(b"{")
            for k in sorted(v, key=str):
                h.update(str(k).encode())
                go(v[k])
            h.update(b"}")
        elif isinstance(v, (list, tuple)):
            h.update(b"[")
            for u in v:
                go(u)
            h.update(b"]")
        elif isinstance(v, np.generic):
            h.update(b"S" + repr(v.item()).encode())
        elif hasattr(v, "__dict__") and not isinstance(v, type):
            go(vars(v))
        else:
            h.update(repr(v).encode())

    go(x)
    return h.hexdigest()[:16]


def kview(x):
    """a new array object on the SAME memory layout (decimate/filtfilt return reversed, Fortran-like views; BLAS/FFT
    results depend on the layout in the last bits, so a stand-alone run is bitwise comparable only on the same
    layout).  Nothing may write into these arrays: their hashes are re-checked at the end (`arrays_intact`)."""
    return x.view()


# the names the real objects carry: "A" is a substring of the two others (a lookup must be by the exact name)
REALNAME = {"A": "A", "B": "BA", "C": "CBA"}
LOGICAL = {v: k for k, v in REALNAME.items()}


def rn(n):
    return REALNAME.get(n, n)


def make(cls, name, pid):
    name = rn(name)
    L = lib()
    if pid is None:
        return L[cls](name=name)
    c, kw = BASE[pid]
    return L[cls](name=name, **copy.deepcopy(kw))


def apply_op(ss, op, caller=None):
    """`caller`: the user's own argument objects of this session.  A user writes `sel = [...]` once and passes the
    same list to the mpe of several algorithms; the statement's isolation must hold then too, and nothing the
    caller passes in may be modified."""
    k = op["k"]
    if k == "add":
        ss.add_algorithms(make(op["c"], op["n"], op["p"]))
    elif k == "inject":
        inst = make(op["c"], op["n"], op["p"])
        if op.get("none"):
            inst.fs = None
            inst.data = None
        ss.algorithms[rn(op["n"])] = inst
    elif k == "run":
        ss.run_by_name(rn(op["n"]))
    elif k == "run_all":
        ss.run_all()
    elif k == "mpe":
        alg = ss.algorithms.get(rn(op["n"]))
        kw = MPE[type(alg).__name__][op["a"]] if alg is not None else dict(sel_freq=[1.0])
        kw = copy.deepcopy(kw)
        if caller is not None:
            key = tuple(kw["sel_freq"])
            kw["sel_freq"] = caller.setdefault(key, list(key))  # ONE list object per selection and session
        ss.mpe(rn(op["n"]), **kw)
    elif k == "pre":
        PRE[op["q"]](ss)
    elif k == "rollback":
        ss.rollback()
    else:
        raise RuntimeError(k)


_ARRS = {}  # fingerprint -> copy of a data array seen as setup.data (few distinct ones)


def observe(ss, out, user, caller=None):
    algs = []
    for n, a in ss.algorithms.items():
        d = getattr(a, "data", _MISSING)
        f = getattr(a, "fs", _MISSING)
        if d is _MISSING or f is _MISSING:
            b = "missing"
        elif d is None or f is None:
            b = "unset"
        else:
            b = [fp(d), float(f)]
        algs.append(
            dict(
                n=LOGICAL.get(n, n),
                c=type(a).__name__,
                p=None if a.run_params is None else fp(vars(a.run_params)),
                r=None if a.result is None else fp(vars(a.result)),
                b=b,
            )
        )
    dfp = fp(ss.data)
    if dfp not in _ARRS:
        _ARRS[dfp] = ss.data
    bad = [list(k) for k, v in (caller or {}).items() if type(v) is not list or tuple(v) != k]
    return dict(out=out, data=[dfp, float(ss.fs)], user=fp(user), algs=algs, caller_bad=bad)


def arrays_intact(world):
    """every array that was ever setup.data / handed to a stand-alone run still has the hash it was stored under"""
    bad = [k for k, a in _ARRS.items() if fp(a) != k]
    bad += [k for k, v in world.dc.items() if fp(v[0]) != v[2]]
    return bad


def execute(world, seq):
    """run the call sequence on a new real SingleSetup; observations before the first and after every call"""
    user = world.data0.copy()
    ss = lib()["SingleSetup"](user, FS0)
    caller = {}
    obs = [observe(ss, "init", user, caller)]
    for op in seq:
        try:
            apply_op(ss, op, caller)
            out = "ok"
        except Exception as e:  # noqa: BLE001
            out = type(e).__name__
        obs.append(observe(ss, out, user, caller))
    return obs, ss


# ----------------------------------------------------------------------------- world: data + stand-alone evaluation
class World:
    def __init__(self, seed):
        self.seed = seed
        self.data0 = mkdata(seed)
        self.dc, self.pc, self.rc, self.solo_c, self.traces = {}, {}, {}, {}, {}

    # --- evaluation of the model's terms with the real classes, stand-alone
    def evD(self, t):
        key = json.dumps(t)
        if key not in self.dc:
            if t == "init":
                v = (self.data0.copy(), FS0)
            else:
                d, fs, _ = self.evD(t[2])
                s = lib()["SingleSetup"](kview(d), fs)
                PRE[t[1]](s)
                v = (s.data, float(s.fs))
            self.dc[key] = v + (fp(v[0]),)
        return self.dc[key]

    def evP(self, t):
        key = json.dumps(t)
        if key not in self.pc:
            if t[0] == "base":
                c, kw = BASE[t[1]]
                rp = lib()[c].RunParamCls(**copy.deepcopy(kw))
            else:  # what `cls.mpe(a)` stores in run_params, stated by the harness
                _, cls, p, a = t
                rp = copy.deepcopy(self.evP(p)[0])
                for k_, v_ in stored_by_mpe(cls, MPE[cls][a]).items():
                    setattr(rp, k_, copy.deepcopy(v_))
            self.pc[key] = (rp, fp(vars(rp)))
        return self.pc[key]

    def _inst(self, cls, p, bound):
        inst = lib()[cls](name="solo")
        inst.run_params = copy.deepcopy(self.evP(p)[0])
        if isinstance(bound, list):
            d, fs, _ = self.evD(bound[1])
            inst._set_data(kview(d), fs)
        return inst

    def evR(self, t):
        """-> (result object, fp) or ('exc', ExceptionName)"""
        key = json.dumps(t)
        if key not in self.rc:
            try:
                if t[0] == "run":
                    inst = self._inst(t[1], t[2], ["set", t[3]])
                    inst._pre_run()
                    res = inst.run()
                else:
                    _, cls, p, b, r, a = t
                    prev = self.evR(r)
                    if prev[0] == "exc":
                        raise RuntimeError("inner")
                    inst = self._inst(cls, p, b)
                    inst.result = copy.deepcopy(prev[0])
                    inst.mpe(**copy.deepcopy(MPE[cls][a]))
                    res = inst.result
                self.rc[key] = (res, fp(vars(res)))
            except Exception as e:  # noqa: BLE001
                self.rc[key] = ("exc", type(e).__name__)
        return self.rc[key]

    # --- the oracle's own stand-alone run (no model involved)
    def solo(self, cls, pid, data, fs, mpe):
        key = (cls, pid, fp(data), fs, mpe)
        if key not in self.solo_c:
            try:
                inst = make(cls, "solo", pid)
                inst._set_data(kview(data), fs)
                inst._pre_run()
                inst._set_result(inst.run())
                if mpe is not None:
                    inst.mpe(**copy.deepcopy(MPE[cls][mpe]))
                self.solo_c[key] = dict(r=fp(vars(inst.result)), p=fp(vars(inst.run_params)))
            except Exception as e:  # noqa: BLE001
                self.solo_c[key] = dict(exc=type(e).__name__)
        return self.solo_c[key]

    def trace(self, seq):
        key = json.dumps(seq)
        if key not in self.traces:
            self.traces[key] = execute(self, seq)[0]
        return self.traces[key]


def stored_by_mpe(cls, kw):
    """fields of run_params after `cls.mpe(**kw)` (defaults of the signature filled in)"""
    if cls == "FDD":
        return dict(sel_freq=kw["sel_freq"], DF=kw.get("DF", 0.1))
    if cls in ("EFDD", "FSDD"):
        return dict(sel_freq=kw["sel_freq"], DF1=kw.get("DF1", 0.1), DF2=kw.get("DF2", 1.0), cm=kw.get("cm", 1),
                    MAClim=kw.get("MAClim", 0.85), sppk=kw.get("sppk", 3), npmax=kw.get("npmax", 20))
    return dict(sel_freq=kw["sel_freq"], order_in=kw.get("order", "find_min"), rtol=kw.get("rtol", 5e-2))


# ----------------------------------------------------------------------------- sequences
def alphabet(ca, cb):
    return [
        dict(k="add", n="A", c=ca, p=ca),
        dict(k="add", n="A", c=ca, p=None),
        dict(k="add", n="B", c=cb, p=cb),
        dict(k="run", n="A"),
        dict(k="run", n="B"),
        dict(k="run", n="Z"),
        dict(k="run_all"),
        dict(k="mpe", n="A", a="m1"),
        dict(k="mpe", n="B", a="m1"),
        dict(k="pre", q="dec2"),
        dict(k="inject", n="B", c=cb, p=cb, none=False),
    ]


def universes(ctx):
    """ordered class pairs enumerated exhaustively, with the sequence length"""
    others = ["FDD", "SSIcov", "SSIdat", "pLSCF"]
    s = ctx.seed
    if not ctx.thorough:
        return [(("EFDD", others[s % 4]), 3), ((others[(s + 1) % 4], others[(s + 2) % 4]), 3),
                ((others[(s + 3) % 4], "FSDD"), 3)]
    six = CLASSES5 + ["FSDD"]
    pairs = [((a, b), 3) for a in six for b in six if a != b]
    pairs += [(("EFDD", others[s % 4]), 4), ((others[(s + 1) % 4], others[(s + 2) % 4]), 4),
              ((others[(s + 3) % 4], "FSDD"), 4), (("FDD", "FDD"), 3)]
    return pairs


def sample_seq(rng, L=5):
    """random sequence over the large alphabet, biased towards sequences in which something runs"""
    names = ["A", "B", "C"]
    classes = ["FDD", "EFDD", "FSDD", "SSIcov", "SSIdat", "pLSCF"]
    cls_of = {n: rng.choice(classes) for n in names}
    seq, npre = [], 0
    for j in range(L):
        u = rng.random()
        n = rng.choice(names)
        if j == 0 and u < 0.85 or j == 1 and u < 0.45:
            u = 0.0  # most histories start by adding something, so that runs and extractions do happen
        if u < 0.30:
            c = cls_of[n] if rng.random() < 0.8 else rng.choice(classes)
            p = rng.choice([c, c + "_b", c, None])
            seq.append(dict(k="add", n=n, c=c, p=p))
        elif u < 0.50:
            seq.append(dict(k="run", n=n if rng.random() < 0.9 else "Z"))
        elif u < 0.62:
            seq.append(dict(k="run_all"))
        elif u < 0.84:
            seq.append(dict(k="mpe", n=n if rng.random() < 0.95 else "Z", a=rng.choice(["m1", "m2", "m3", "m3"])))
        elif u < 0.93:
            if npre < 2:
                npre += 1
                seq.append(dict(k="pre", q=rng.choice(list(PRE))))
            else:
                seq.append(dict(k="run_all"))
        elif u < 0.96:
            npre = 0
            seq.append(dict(k="rollback"))
        else:
            c = cls_of[n]
            seq.append(dict(k="inject", n=n, c=c, p=rng.choice([c, None]), none=rng.random() < 0.5))
    return seq


def sessions(ctx):
    """a user's session with two algorithms: add both, run_all, extract from both with the SAME selection (one list
    object, see `apply_op`), extract again from the first - every ordered pair of the 6 classes (incl. twice the
    same class), every argument set (quick: a seed-dependent third of the pairs for m1/m2, all pairs for the
    unsorted selection m3)"""
    six = CLASSES5 + ["FSDD"]
    out = []
    for i, (ca, cb) in enumerate(itertools.product(six, repeat=2)):
        for a in ("m3", "m1", "m2"):
            if not ctx.thorough and a != "m3" and (i + ctx.seed) % 3:
                continue
            out.append([dict(k="add", n="A", c=ca, p=ca), dict(k="add", n="B", c=cb, p=cb + ("_b" if ca == cb else "")),
                        dict(k="run_all"), dict(k="mpe", n="A", a=a), dict(k="mpe", n="B", a=a), dict(k="mpe", n="A", a=a)])
    return out


def seq_sig(seq):
    def one(o):
        k = o["k"]
        if k in ("add", "inject"):
            return f"{k}({o['n']}:{o['c']}:{o['p']}{':None' if o.get('none') else ''})"
        if k == "run":
            return f"run({o['n']})"
        if k == "mpe":
            return f"mpe({o['n']},{o['a']})"
        if k == "pre":
            return o["q"]
        return k

    return " ; ".join(one(o) for o in seq)


# ----------------------------------------------------------------------------- correspondence: model terms vs real state
def compare(world, seq, obs, model):
    """-> (ok, detail, numeric_skip)"""
    for i, mo in enumerate(model):
        ob = obs[i + 1]
        where = f"call {i} {seq_sig([seq[i]])}"
        if mo["out"] != ob["out"]:
            if mo["out"] == "ok" and seq[i]["k"] in ("run", "run_all", "mpe"):
                # a numerical failure inside run()/mpe(): accepted iff the stand-alone evaluation fails alike
                for e in mo["algs"]:
                    if e["r"] is not None and world.evR(e["r"]) == ("exc", ob["out"]):
                        return True, f"{where}: numerical {ob['out']} reproduced stand-alone", True
            return False, f"{where}: outcome model={mo['out']} impl={ob['out']}", False
        d, fs, dfp = world.evD(mo["data"])
        if [dfp, fs] != ob["data"]:
            return False, f"{where}: setup data/fs differ from {mo['data']}", False
        if [e["n"] for e in mo["algs"]] != [a["n"] for a in ob["algs"]]:
            return False, f"{where}: dict keys model={[e['n'] for e in mo['algs']]} impl={[a['n'] for a in ob['algs']]}", False
        for e, a in zip(mo["algs"], ob["algs"]):
            if e["c"] != a["c"]:
                return False, f"{where}: class of {e['n']}", False
            pm = None if e["p"] is None else world.evP(e["p"])[1]
            if pm != a["p"]:
                return False, f"{where}: run_params of {e['n']} differ from {e['p']}", False
            bm = e["b"] if isinstance(e["b"], str) else [world.evD(e["b"][1])[2], world.evD(e["b"][1])[1]]
            if bm != a["b"]:
                return False, f"{where}: bound data of {e['n']} differ from {e['b']}", False
            if e["r"] is None:
                rm = None
            else:
                ev = world.evR(e["r"])
                if ev[0] == "exc":
                    return False, f"{where}: stand-alone evaluation of {e['r']} raised {ev[1]} but the setup holds a result", False
                rm = ev[1]
            if rm != a["r"]:
                return False, f"{where}: result of {e['n']} differs from stand-alone {e['r']}", False
    return True, "", False


_SCAN = {}  # (seed, tier) -> dict(cases, reports): the oracle's judgement of the sequences of this run


def scan(ctx, world, groups, with_model=True):
    """ONE pass over the sequences: the real code is executed once per sequence; the observations are (a) compared
    with the model's trace (correspondence) and (b) judged against the statement by `judge` (oracle; no model)."""
    st = _SCAN.setdefault((ctx.seed, ctx.tier), dict(cases=0, reports=[], sigs={}, model_error=None))
    for fn, seqs, keep in groups:
        for seq in seqs:
            obs = world.trace(seq) if keep else execute(world, seq)[0]
            if with_model and st["model_error"] is None:
                try:
                    model = ctx.model("orch_trace", ops=seq)
                except Exception as e:  # ModelError: remembered, raised at the end of correspondence()
                    st["model_error"] = e
                    model = None
                if model is not None:
                    ok, detail, skip = compare(world, seq, obs, model)
                    if skip:
                        ctx.skipped += 1
                        ctx.count("numeric_exception_skipped_corr")
                    ctx.corr(fn, ok, {"data_seed": world.seed, "seq": seq, "sig": seq_sig(seq)}, detail,
                             [o["out"] for o in obs[1:]], seq_sig(seq))
            for o in obs[1:]:
                ctx.count("outcome_" + o["out"])
            ctx.count("alg_results_compared", sum(1 for o in obs[1:] for a in o["algs"] if a["r"] is not None))

            def report(sig, what, i, observed=None, expected=None, seq=seq):
                st["sigs"][sig] = st["sigs"].get(sig, 0) + 1
                rec = dict(sig=sig, what=what + f" [call {i} of: {seq_sig(seq[: i + 1])}]", call=i,
                           inp={"kind": "sequence", "data_seed": world.seed, "seq": seq[: i + 1], "call": i},
                           observed=observed, expected=expected)
                mine = [r for r in st["reports"] if r["sig"] == sig]
                if len(mine) < 2:
                    st["reports"].append(rec)
                else:  # keep the shortest reproductions
                    worst = max(mine, key=lambda r: r["call"])
                    if worst["call"] > i:
                        st["reports"][st["reports"].index(worst)] = rec

            judge(world, seq, obs, report, ctx.count)
            st["cases"] += 1
    return st


def corr_projection(ctx, world, seqs):
    """C15_history_independent on the real code: the model's projected history, run on a new real setup, leaves
    algorithm n in the same state as the full history"""
    for seq in seqs:
        full = world.trace(seq)[-1]
        for n in sorted({a["n"] for a in full["algs"]}):
            pj = ctx.model("orch_proj", ops=seq, n=n)
            if len(pj) == len(seq):
                continue
            part = world.trace(pj)[-1] if pj else dict(algs=[], data=world.trace([])[-1]["data"])
            a1 = [a for a in full["algs"] if a["n"] == n]
            a2 = [a for a in part["algs"] if a["n"] == n]
            ok = a1 == a2 and full["data"] == part["data"]
            if not ok:
                # a numerical exception in the full history makes the two incomparable
                m = ctx.model("orch_trace", ops=seq)
                if compare(world, seq, world.trace(seq), m)[2]:
                    ctx.skipped += 1
                    continue
            ctx.corr("history_projection", ok, {"data_seed": world.seed, "seq": seq, "n": n, "proj": pj}, a2, a1,
                     ("proj", seq_sig(seq), n))
            ctx.count("projection_dropped_calls", len(seq) - len(pj))


# ----------------------------------------------------------------------------- PoSER
POSER_CLASSES = ["FDD", "EFDD", "SSIcov"]


class PoserWorld:
    def __init__(self, seed):
        self.data = mkdata(seed + 1000)
        self.pool, self.setups = {}, {}

    def inst(self, cls, state, pos):
        key = (cls, state, pos)
        if key not in self.pool:
            ss = lib()["SingleSetup"](self.data.copy(), FS0)
            a = make(cls, f"a{pos}", cls)
            ss.add_algorithms(a)
            if state >= 1:
                ss.run_by_name(a.name)
            if state >= 2:
                ss.mpe(a.name, **copy.deepcopy(MPE[cls]["m1"]))
            self.pool[key] = a
        return self.pool[key]

    def setup(self, spec):
        """spec: tuple of (cls, state)"""
        if spec not in self.setups:
            ss = lib()["SingleSetup"](self.data, FS0)
            for pos, (cls, st) in enumerate(spec):
                a = copy.deepcopy(self.inst(cls, st, pos))
                ss.algorithms[a.name] = a  # keep the prepared state (add_algorithms would only re-bind the data)
            self.setups[spec] = ss
        return self.setups[spec]

    def construct(self, cfg):
        specs, k = cfg
        try:
            # k < 0: |k| names, all equal (the right NUMBER of names; whether they differ is not part of the validation)
            lib()["PoSER"](ref_ind=[[0]] * len(specs), single_setups=[self.setup(s) for s in specs],
                           names=[f"n{i}" for i in range(k)] if k >= 0 else ["g"] * (-k))
            return "ok"
        except Exception as e:  # noqa: BLE001
            return type(e).__name__


def setup_specs(classes, maxlen=2, states=(0, 1, 2)):
    out = [()]
    for L in range(1, maxlen + 1):
        for cl in itertools.product(classes, repeat=L):
            for st in itertools.product(states, repeat=L):
                out.append(tuple(zip(cl, st)))
    return out


def poser_configs(ctx, scale=1):
    rng = ctx.rng
    S3 = setup_specs(POSER_CLASSES)
    cfgs = [((), k) for k in range(4)]
    cfgs += [((a,), k) for a in S3 for k in range(4)]
    cfgs += [((a, b), k) for a in S3 for b in S3 for k in range(4)]
    cfgs += [((a, b), k) for a in S3 for b in S3 for k in (-2, -3) if len(a) >= 2 or len(b) >= 2]  # repeated names
    done = setup_specs(POSER_CLASSES, states=(2,))
    cfgs += [((a, b, c), k) for a in done for b in done for c in done for k in range(4)]
    for _ in range(ctx.n(3000, 20000) * scale):
        base = rng.choice(S3[1:])
        specs = []
        for _ in range(3):
            u = rng.random()
            if u < 0.55:
                specs.append(tuple((c, 2 if rng.random() < 0.8 else rng.choice([0, 1])) for c, _ in base))
            elif u < 0.75:
                specs.append(tuple(reversed(base)))
            else:
                specs.append(rng.choice(S3))
        cfgs.append((tuple(specs), len(base) if rng.random() < 0.8 else rng.randint(0, 3)))
    if ctx.thorough:
        S2 = setup_specs(POSER_CLASSES[:2])
        cfgs += [((a, b, c), k) for a in S2 for b in S2 for c in S2 for k in range(4)]
        for _ in range(20000 * scale):
            base = rng.choice(S3[1:])
            specs = [tuple((c, 2 if rng.random() < 0.9 else rng.choice([0, 1])) for c, _ in base) if rng.random() < 0.85
                     else rng.choice(S3) for _ in range(4)]
            cfgs.append((tuple(specs), len(base) if rng.random() < 0.85 else rng.randint(0, 3)))
    return cfgs


def cfg_json(cfg):
    specs, k = cfg
    return dict(setups=[[dict(c=c, r=st >= 1, f=st >= 2) for c, st in s] for s in specs], names=abs(k))


def poser_expected(cfg):
    """the property statement: accepted iff >= 2 setups, identical type lists in identical order, all run and with
    modes extracted, one name per algorithm (a setup without algorithms has nothing run: rejected)"""
    specs, k = cfg
    k = abs(k)
    if len(specs) < 2:
        return False, "fewer-than-two-setups"
    if any(len(s) == 0 for s in specs):
        return False, "setup-without-algorithms"
    t0 = [c for c, _ in specs[0]]
    for s in specs:
        if [c for c, _ in s] != t0:
            return False, "types-differ-in-order" if sorted(c for c, _ in s) == sorted(t0) else "types-differ"
    if k != len(t0):
        return False, "names-count"
    if any(st < 1 for s in specs for _, st in s):
        return False, "not-run"
    if any(st < 2 for s in specs for _, st in s):
        return False, "no-modes"
    return True, "valid"


_POSER_CACHE = {}


def poser_results(ctx, scale=1):
    key = (ctx.seed, ctx.tier, scale)
    if key not in _POSER_CACHE:
        pw = PoserWorld(ctx.seed)
        cfgs = poser_configs(ctx, scale)
        _POSER_CACHE[key] = [(c, pw.construct(c)) for c in cfgs]
    return _POSER_CACHE[key]


def corr_poser(ctx):
    res = poser_results(ctx)
    for i in range(0, len(res), 2000):
        chunk = res[i : i + 2000]
        model = ctx.model("poser_check", cfgs=[cfg_json(c) for c, _ in chunk])
        for (c, impl), m in zip(chunk, model):
            ctx.corr("PoSER._init_setups", m == impl, cfg_json(c), m, impl, ("poser", c))
            ctx.count(f"poser_{len(c[0])}setups_{impl}")


# ----------------------------------------------------------------------------- entry points
def _world(ctx):
    return World(ctx.seed)


_SEQS = {}


def sequences(ctx):
    key = (ctx.seed, ctx.tier)
    if key not in _SEQS:
        ex = []
        for (ca, cb), L in universes(ctx):
            al = alphabet(ca, cb)
            ex += [list(t) for t in itertools.product(al, repeat=L)]
            ctx.count(f"universe_{ca}_{cb}_len{L}")
        sm = [sample_seq(ctx.rng) for _ in range(ctx.n(250, 4000))]
        sm += sessions(ctx)
        _SEQS[key] = (ex, sm)
    return _SEQS[key]


_WORLDS = {}


def world_of(ctx):
    if ctx.seed not in _WORLDS:
        _WORLDS[ctx.seed] = World(ctx.seed)
    return _WORLDS[ctx.seed]


def correspondence(ctx):
    lib()
    world = world_of(ctx)
    ex, sm = sequences(ctx)
    st = scan(ctx, world, [("orchestration[exhaustive]", ex, False), ("orchestration[sampled len 5]", sm, True)])
    st["done"] = True
    if st["model_error"] is not None:
        raise st["model_error"]
    bad = [d for d in ctx.disagreements if d["fn"].startswith("orchestration")]
    if bad:  # diagnostic: does the tree behave like the pre-fix variant of the model (Mutants/C15.lean, F24)?
        n = 0
        for d in bad:
            seq = d["input"]["seq"]
            m = ctx.model("orch_trace", ops=seq, unguarded=["EFDD", "FSDD", "EFDD_MS"])
            n += compare(world, seq, world.trace(seq), m)[0]
        ctx.notes.append(f"{n}/{len(bad)} recorded orchestration disagreements vanish against the pre-fix model variant "
                         "(EFDD.mpe unguarded, F24)")
    corr_projection(ctx, world, sm[: ctx.n(120, 1500)] + ctx.rng.sample(ex, min(len(ex), ctx.n(150, 1500))))
    orchx.correspondence(ctx, world)
    corr_poser(ctx)
    best = max(sm, key=lambda q: sum(1 for a in world.trace(q)[-1]["algs"] if a["r"] is not None))
    ctx.sample({"data_seed": world.seed, "example_sequence": seq_sig(best),
                "outcomes": [o["out"] for o in world.trace(best)[1:]],
                "final_state": [{k: a[k] for k in ("n", "c", "p", "r")} for a in world.trace(best)[-1]["algs"]]})


# ----------------------------------------------------------------------------- oracle (from the statement; no model)
def _lacking(kind, n, B):
    """does algorithm n lack what the call needs, judged from the observed state before the call"""
    if n not in B:
        return True
    a = B[n]
    if kind == "run":
        return a["p"] is None or isinstance(a["b"], str)
    return a["r"] is None  # mpe needs a prior run


def judge(world, seq, obs, report, stats):
    """walk one executed sequence; `report(sig, what, call_index, observed, expected)` on every departure from the
    statement.  Returns False when the rest of the sequence cannot be judged (numerical exception)."""
    tr = {}  # name -> what the statement says the algorithm depends on: class, parameter id, data bound at add
    for i, op in enumerate(seq):
        before, after = obs[i], obs[i + 1]
        k, out = op["k"], after["out"]
        B = {a["n"]: a for a in before["algs"]}
        Af = {a["n"]: a for a in after["algs"]}
        tgt = op.get("n")
        stats("oracle_calls")

        def same(n, fields="prb"):
            ok = True
            for f, nm in (("p", "run_params"), ("r", "result"), ("b", "bound-data")):
                if f in fields and n in B and n in Af and B[n][f] != Af[n][f]:
                    ok = nm
            return ok

        # ---- the shared data array
        if after["user"] != before["user"]:
            report(f"user-data-mutated:{k}", "the array the user passed to SingleSetup changed", i)
        if after.get("caller_bad") and not before.get("caller_bad"):
            c_ = B[tgt]["c"] if tgt in B else "-"
            report(f"caller-args-mutated:{c_}.{k}",
                   f"{seq_sig([op])} modified the sel_freq list object the caller passed in (and passes to other calls)",
                   i, after["caller_bad"])
        if k not in ("pre", "rollback") and after["data"] != before["data"]:
            report(f"setup-data-changed:{k}", "setup.data / fs changed by a call that is not preprocessing", i)
        if k == "rollback":
            tr = {n: t for n, t in tr.items() if n in Af}
            if B and not Af:
                stats("rollback_cleared_algorithms")
            continue
        if k != "rollback" and k not in ("add", "inject") and list(B) != list(Af):
            report(f"algorithms-changed:{k}", "set/order of algorithms changed", i, list(Af), list(B))
        # ---- calls that must not touch anything but (at most) their target
        for n in B:
            if n != tgt or k == "pre":
                if k == "run_all":
                    continue
                ch = same(n)
                if ch is not True:
                    report(f"crosstalk:{k}:{B[n]['c']}:{ch}", f"{seq_sig([op])} changed {ch} of algorithm {n}", i)
        if k in ("add", "inject"):
            if out != "ok":
                report(f"unexpected-exception:{k}:{out}", "add raised", i)
                return False
            a = Af[tgt]
            bound = None if k == "inject" else (_ARRS[after["data"][0]], after["data"][1])
            tr[tgt] = dict(cls=op["c"], pid=op["p"], bound=bound, ran=False, mpe=None)
            exp_b = ("unset" if op.get("none") else "missing") if k == "inject" else after["data"]
            exp_p = None if op["p"] is None else fp(vars(make(op["c"], "x", op["p"]).run_params))
            if a["r"] is not None or a["b"] != exp_b or a["p"] != exp_p or a["c"] != op["c"]:
                report(f"add-state:{op['c']}", "a freshly added algorithm is not (no result, own parameters, current data)", i, a)
            continue
        if k == "pre":
            continue
        # ---- run / mpe / run_all
        if k == "run_all":
            order = list(B)
            lack = [n for n in order if _lacking("run", n, B)]
            first = order.index(lack[0]) if lack else len(order)
            if lack and out == "ok":
                report(f"gating-no-exception:run_all:{B[lack[0]]['c']}", f"run_all succeeded although {lack[0]} lacks parameters/data", i)
            for j, n in enumerate(order):
                if same(n, "pb") is not True:
                    report(f"run-changed:{B[n]['c']}:{same(n, 'pb')}", "run_all changed parameters or bound data", i)
                changed = B[n]["r"] != Af[n]["r"]
                if j >= first:
                    if changed:
                        report(f"gating-stored:{B[n]['c']}.run_all:{out}:result",
                               f"run_all failed at {lack[0]} but the result of {n} (at or after it) changed", i)
                    continue
                # before the first lacking one: it must have run (unless an earlier numerical exception stopped the loop)
                t = tr[n]
                so = world.solo(t["cls"], t["pid"], *t["bound"], None)
                if "exc" in so:
                    stats("numeric_exception_skipped")
                    return False
                if Af[n]["r"] != so["r"]:
                    report(f"isolation-result:{t['cls']}:run_all", f"result of {n} after run_all differs from a stand-alone run", i,
                           Af[n]["r"], so["r"])
                t["ran"], t["mpe"] = True, None
            if not lack and out != "ok":
                report(f"unexpected-exception:run_all:{out}", "run_all raised although every algorithm has parameters and data", i)
                return False
            continue
        meth = "run_by_name" if k == "run" else "mpe"
        lacking = _lacking(k, tgt, B)
        cls = B[tgt]["c"] if tgt in B else "-"
        if lacking and out == "ok":
            report(f"gating-no-exception:{meth}:{cls}", f"{seq_sig([op])} succeeded although its prerequisite is missing", i)
        if out != "ok":
            if tgt in B:
                ch = same(tgt)
                if ch is not True:
                    report(f"gating-stored:{cls}.{meth}:{out}:{ch}",
                           f"{cls}.{meth} raised {out} but {ch} of the algorithm differs from before the call", i,
                           {"before": B[tgt], "after": Af[tgt]})
            if not lacking:
                t = tr[tgt]
                so = world.solo(t["cls"], t["pid"], *t["bound"], op.get("a") if k == "mpe" else None)
                if so.get("exc") == out:
                    stats("numeric_exception_skipped")
                else:
                    report(f"unexpected-exception:{meth}:{cls}:{out}", "raised although the prerequisites are there and a stand-alone call succeeds", i)
                return False
            continue
        if lacking:
            return False
        t = tr[tgt]
        if k == "run":
            t["ran"], t["mpe"] = True, None
            if same(tgt, "pb") is not True:
                report(f"run-changed:{cls}:{same(tgt, 'pb')}", "run changed parameters or bound data", i)
        else:
            t["mpe"] = op["a"]
            if same(tgt, "b") is not True:
                report(f"mpe-changed:{cls}:bound-data", "mpe changed the bound data", i)
        so = world.solo(t["cls"], t["pid"], *t["bound"], t["mpe"])
        if "exc" in so:
            report(f"isolation-exception:{cls}:{k}", f"stand-alone {k} raises {so['exc']} but the call in the setup succeeded", i)
            return False
        if Af[tgt]["r"] != so["r"]:
            report(f"isolation-result:{cls}:{k}",
                   f"result of {tgt} ({cls}) after {seq_sig([op])} differs from a stand-alone run with the same parameters on the data bound at add",
                   i, Af[tgt]["r"], so["r"])
        if k == "mpe" and Af[tgt]["p"] != so["p"]:
            report(f"isolation-params:{cls}:mpe", "run_params after mpe differ from a stand-alone run+mpe", i)
    return True


def pickle_check(world, seq, report, stats):
    obs, ss = execute(world, seq)
    d = tempfile.mkdtemp(prefix="c15_")
    try:
        path = os.path.join(d, "setup.pkl")
        lib()["gen"].save_to_file(ss, path)
        ss2 = lib()["gen"].load_from_file(path)
    finally:
        shutil.rmtree(d, ignore_errors=True)
    o1, o2 = observe(ss, "x", ss.data), observe(ss2, "x", ss2.data)
    stats("pickle_roundtrips")
    stats("pickle_results_compared", sum(1 for a in o1["algs"] if a["r"] is not None))
    if o1["algs"] != o2["algs"]:
        bad = [a["c"] for a, b in zip(o1["algs"], o2["algs"]) if a != b]
        report(f"pickle-roundtrip:{bad[0] if bad else 'algorithms'}", "parameters/results differ after save_to_file/load_from_file",
               len(seq), o2["algs"], o1["algs"])
    if o1["data"] != o2["data"]:
        report("pickle-roundtrip:data", "data/fs differ after save_to_file/load_from_file", len(seq))
    # the loaded setup must still be usable and isolated: its algorithms are bound to ITS data
    for n, a in ss2.algorithms.items():
        if getattr(a, "data", None) is not None and a.data is not ss2.data and fp(a.data) == fp(ss2.data):
            stats("pickle_binding_copied")


_PLOT_KW = {"FDD": dict(DF=0.3), "EFDD": dict(DF1=0.3, npmax=7), "FSDD": dict(DF1=0.3, npmax=7),
            "SSIcov": dict(rtol=0.3), "SSIdat": dict(rtol=0.3), "pLSCF": dict(rtol=0.3)}


def plot_gate_check(world, cls, report, stats):
    """`mpe_from_plot` before a run: an exception, and nothing stored (no display is needed: the guard comes first;
    DISPLAY is hidden so that an unguarded implementation cannot open a window and block)."""
    disp = os.environ.pop("DISPLAY", None)
    try:
        ss = lib()["SingleSetup"](world.data0.copy(), FS0)
        a = make(cls, "A", cls)
        ss.add_algorithms(a)
        before = observe(ss, "x", ss.data)["algs"][0]
        try:
            ss.mpe_from_plot("A", **copy.deepcopy(_PLOT_KW[cls]))
            out = "ok"
        except Exception as e:  # noqa: BLE001
            out = type(e).__name__
        after = observe(ss, out, ss.data)["algs"][0]
    finally:
        if disp is not None:
            os.environ["DISPLAY"] = disp
    stats("mpe_from_plot_before_run")
    if out == "ok":
        report(f"gating-no-exception:mpe_from_plot:{cls}", "mpe_from_plot before a run succeeded", 1)
    for f, nm in (("p", "run_params"), ("r", "result"), ("b", "bound-data")):
        if before[f] != after[f]:
            report(f"gating-stored:{cls}.mpe_from_plot:{out}:{nm}",
                   f"{cls}.mpe_from_plot before a run raised {out} but {nm} of the algorithm differs from before the call", 1,
                   {"before": before, "after": after})


def oracle(ctx, scale):
    lib()
    world = world_of(ctx)
    ex, sm = sequences(ctx)
    st = _SCAN.get((ctx.seed, ctx.tier))
    if not (st and st.get("done")):  # correspondence did not get through: judge the sequences here
        _SCAN.pop((ctx.seed, ctx.tier), None)
        st = scan(ctx, world, [("", ex, False), ("", sm, True)], with_model=False)
        st["done"] = True
    if scale > 1:
        extra = [sample_seq(ctx.rng, L=ctx.rng.choice([3, 4, 5])) for _ in range(ctx.n(250, 4000) * scale)]
        scan(ctx, world, [("", extra, False)], with_model=False)
    if not st.get("emitted"):
        st["emitted"] = True
        ctx.oracle_cases += st["cases"]
        for r in sorted(st["reports"], key=lambda r: (r["call"], r["sig"])):
            ctx.violation(r["sig"], r["what"], r["inp"], r["observed"], r["expected"])
    elif scale > 1:
        ctx.oracle_cases += len(extra)
        for r in st["reports"]:
            if not any(v["sig"] == r["sig"] for v in ctx.violations):
                ctx.violation(r["sig"], r["what"], r["inp"], r["observed"], r["expected"])

    def run_one(seq, fn):
        def report(sig, what, i, observed=None, expected=None):
            ctx.violation(sig, what + f" [call {i} of: {seq_sig(seq)}]",
                          {"kind": "sequence", "data_seed": world.seed, "seq": seq, "call": i}, observed, expected)

        fn(world, seq, report, ctx.count)
        ctx.oracle_cases += 1

    orchx.oracle(ctx, world)
    ctx.oracle_cases += 1
    bad = arrays_intact(world)
    if bad:
        ctx.violation("data-mutated-in-place", "a data array that algorithms were bound to changed its content",
                      {"kind": "arrays", "data_seed": world.seed, "which": bad[:5]})
    # determinism of a stand-alone run: twice the same hash
    for pid, (cls, _) in BASE.items():
        a = world.solo(cls, pid, world.data0, FS0, "m1")
        world.solo_c.clear()
        b = world.solo(cls, pid, world.data0, FS0, "m1")
        ctx.oracle_cases += 1
        if a != b:
            ctx.violation(f"nondeterministic-run:{cls}", "two stand-alone runs on the same data give different results",
                          {"kind": "determinism", "data_seed": world.seed, "pid": pid})
    # mpe_from_plot before a run
    for cls in CLASSES5 + ["FSDD"]:
        def rep(sig, what, i, observed=None, expected=None, cls=cls):
            ctx.violation(sig, what, {"kind": "plot-gate", "data_seed": world.seed, "cls": cls}, observed, expected)

        plot_gate_check(world, cls, rep, ctx.count)
        ctx.oracle_cases += 1
    # persistence
    pk = [s for s in sm if any(o["k"] in ("run", "run_all") for o in s)][: ctx.n(40, 600) * scale]
    pk += [[dict(k="add", n=c, c=c, p=c) for c in CLASSES5 + ["FSDD"]] + [dict(k="run_all")]
           + [dict(k="mpe", n=c, a="m1") for c in CLASSES5 + ["FSDD"]]]
    for seq in pk:
        run_one(seq, pickle_check)
    # PoSER
    for cfg, impl in poser_results(ctx, 1 if scale == 1 else scale):
        exp, why = poser_expected(cfg)
        ctx.oracle_cases += 1
        ctx.count("poser_expected_" + why)
        inp = {"kind": "poser", "data_seed": ctx.seed, "cfg": [[list(map(list, s)) for s in cfg[0]], cfg[1]]}
        if exp and impl != "ok":
            ctx.violation(f"poser-rejects-valid:{impl}", "a valid configuration was rejected", inp, impl, "accepted")
        elif not exp and impl == "ok":
            ctx.violation(f"poser-accepts-invalid:{why}", f"accepted although {why}", inp, impl, "ValueError")
        elif not exp and impl != "ValueError":
            ctx.violation(f"poser-wrong-exception:{why}:{impl}", f"rejected with {impl} instead of ValueError", inp, impl, "ValueError")


def replay(rec):
    lib()
    v = rec["violation"]
    inp = v["input"]
    print("replaying", v["sig"], "-", v["what"])
    if inp.get("kind") == "poser":
        cfg = (tuple(tuple(tuple(x) for x in s) for s in inp["cfg"][0]), inp["cfg"][1])
        impl = PoserWorld(inp["data_seed"]).construct(cfg)
        print("configuration:", cfg, "->", impl, "; statement expects", poser_expected(cfg))
        return 0
    if inp.get("kind") == "sequence_x":
        return orchx.replay(inp)
    world = World(inp["data_seed"])
    if inp.get("kind") == "plot-gate":
        plot_gate_check(World(inp["data_seed"]), inp["cls"],
                        lambda sig, what, i, o=None, e=None: print("VIOLATION reproduced:", sig, "-", what, o), lambda *a: None)
        return 0
    if inp.get("kind") == "arrays":
        print("in-place mutation of a bound data array: re-run the check with the same VERIF_SEED to reproduce")
        return 0
    if inp.get("kind") == "determinism":
        cls = BASE[inp["pid"]][0]
        a = world.solo(cls, inp["pid"], world.data0, FS0, "m1")
        world.solo_c.clear()
        print(a, world.solo(cls, inp["pid"], world.data0, FS0, "m1"))
        return 0
    seq = inp["seq"]
    obs = world.trace(seq)
    for i, op in enumerate(seq):
        print(f"  call {i}: {seq_sig([op]):40s} -> {obs[i + 1]['out']}")
        for a in obs[i + 1]["algs"]:
            print(f"      {a['n']}: {a['c']} run_params={a['p']} result={a['r']} bound={a['b']}")
    n = [0]

    def report(sig, what, i, observed=None, expected=None):
        n[0] += 1
        print("VIOLATION reproduced:", sig, "-", what, "(call", i, ")", observed if observed is not None else "")

    judge(world, seq, obs, report, lambda *a: None)
    if not n[0]:
        pickle_check(world, seq, report, lambda *a: None)
    print("violations reproduced:", n[0])
    return 0
