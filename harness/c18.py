"""C18 — mode-shape indicators gen.MAC / MSF / MCF / MPC / MPD: bounded, scale-invariant,
exact on collinear shapes."""
import math
import struct

import numpy as np

from common import Cvec, R, fl

from common import hc_pre_build as pre_build  # noqa: E402,F401  (C09C18 builds on the generated run() programs)

LEAN_MODULES = ["PyomaVerif.Props.C18", "PyomaVerif.Mutants.C18", "PyomaVerif.Props.C09C18", "PyomaVerif.Props.C18Contracts", "PyomaVerif.Props.C18MacLink",
                "PyomaVerif.Props.C18Whole"]
THEOREMS = [
    # depth round 2: what the whole-MPC op (mpcEig? over Rat with the integer square root) computes (Props/C18Whole.lean)
    "PV.C18.C18_mpcEig_any_sqrt",
    "PV.C18.C18_mpcEig_any_sqrt_exact",
    # composition C09 o C18: the kept poles satisfy the criteria for the library's own MPC/MPD definitions
    "PV.C09C18.kept_iff_of_check",
    "PV.C09C18.C09_kept_mpc",
    "PV.C09C18.C09_kept_mpd",
    "PV.C09C18.C09_kept_damp",
    "PV.C09C18.C09_kept_converse",
    "PV.C09C18.C09_kept_iff_pLSCF",
    "PV.C09C18.enabled_iff",
    "PV.C18.C18_mac_bounds",
    "PV.C18.C18_mac_shape",
    "PV.C18.C18_mac_vec",
    "PV.C18.C18_mac_errors",
    "PV.C18.C18_mac_symm_entry",
    "PV.C18.C18_mac_symm",
    "PV.C18.C18_mac_scale",
    "PV.C18.C18_mcf_bounds",
    "PV.C18.C18_mcf_scale",
    "PV.C18.C18_mpc_closed_form",
    "PV.C18.C18_mpc_bounds",
    "PV.C18.C18_mpc_bounds_eig",
    "PV.C18.C18_mpc_scale",
    "PV.C18.C18_mpc_scale_eig",
    "PV.C18.C18_mpd_arg_le_one",
    "PV.C18.C18_mpd_arg_defined",
    "PV.C18.C18_mpd_arg_scale_partial",
    "PV.C18.C18_svd_minor_scale",
    "PV.C18.C18_collinear_mac",
    "PV.C18.C18_collinear_mcf",
    "PV.C18.C18_collinear_mpc",
    "PV.C18.C18_collinear_mpc_eig",
    "PV.C18.C18_collinear_mpd_arg",
    "PV.C18.C18_msf_scaled_partial",
    "PV.C18.C18_msf_scaled_real",
    "PV.C18.C18_msf_full_false",
    "PV.C18.C18_mpd_bounds",
    "PV.C18.C18_collinear_mpd",
    "PV.C18.C18_mpd_scale_partial",
    "PV.C18.C18_mpd_dir_scale",
    "PV.C18.C18_mpd_scale",
    "PV.C18.C18_collinear_mpd_svd",
    # depth round (gap 10): the 2x2 contracts discharged by closed forms, MPD as an Option (Props/C18Contracts.lean)
    "PV.C18.C18_eig_contract_iff_charpoly",
    "PV.C18.C18_eig_contract_eigvec",
    "PV.C18.C18_eigvals_contract",
    "PV.C18.C18_eig_contract_unique",
    "PV.C18.C18_mpc_eig_order",
    "PV.C18.C18_mpcEig_closed",
    "PV.C18.C18_mpcEig_bounds",
    "PV.C18.C18_mpcEig_scale",
    "PV.C18.C18_mpcEig_collinear",
    "PV.C18.C18_eigvals_real",
    "PV.C18.C18_minorDir_svd",
    "PV.C18.C18_minorDir_ne",
    "PV.C18.C18_tie_iff",
    "PV.C18.C18_mpd_svd_closed",
    "PV.C18.C18_mpdClosed_scale",
    "PV.C18.C18_mpdClosed_collinear",
    "PV.C18.C18_mpdClosed_bounds",
    "PV.C18.C18_svd_fact_minor",
    "PV.C18.C18_mpd_svd_fact_closed",
    "PV.C18.C18_mpd_den_pos",
    "PV.C18.C18_mpd_some",
    "PV.C18.C18_mpd_none_iff",
    "PV.C18.C18_mpd_finite",
    # the three models of gen.MAC are one function (Props/C18MacLink.lean)
    "PV.C18.C18_scMac_eq_macEntry",
    "PV.C18.C18_scMac_eq_mac",
    "PV.C18.C18_efddMac_eq_macEntry",
    "PV.C18.C18_efddMac_getD",
    "PV.Mutants.C18.mpcOld_constant_nan",
    "PV.Mutants.C18.mpdOld_zero_component_nan",
    "PV.Mutants.C18.arccosOld_above_one_nan",
    "PV.Mutants.C18.macNoConj_self_ne_one",
    "PV.Mutants.C18.mcfNoFour_collinear_ne_zero",
    "PV.Mutants.C18.msfSwapped_ne_c",
]
RULE = (
    "correspondence: shapes with 2..24 components (Gaussian floats, small Gaussian integers, unit-normalised, with zero "
    "components, nearly and exactly collinear, constant, isotropic) sent to the Lean model as exact rationals; MAC (vector, "
    "matrix and malformed arguments), MSF, MCF compared with the exact model value at a rounding-only tolerance; MPC: np.cov "
    "vs exact covariance, returned value vs exact closed form and vs the model fed with the recorded eigenvalues (contract "
    "trace/determinant checked); MPD: the model run over IEEE doubles with the recorded right singular vectors, and the exact "
    "rational squared arccos arguments; depth round: gen.MPD vs mpdClosed? over IEEE doubles (SVD step in closed form, nothing "
    "recorded; the zero shape gives NaN = none), mpd? with the recorded direction, closed-form singular values and minor direction "
    "vs np.linalg.svd, closed-form eigenvalues vs np.linalg.eigvals, gen.MPC vs mpc? fed with the closed-form eigenvalues. oracle: from the property text on gen.* only (bounds, finiteness, shape, transposition "
    "symmetry, invariance under complex factors of modulus 1e-6..1e6, exact collinear values, MSF(v, s v) = s); depth round 2: "
    "the same checks on shapes at moduli 1e-70..1e70 and with mixed component magnitudes (1e-35..1e35) plus invariance under "
    "the factor that moved them there; stream MPC[whole]: gen.MPC vs the single op c18_mpc_whole (mpcEig? over exact rationals) "
    "on O(1) and scaled shapes; moduli beyond 1e75 (fourth powers outside the double range) only counted (extreme_*). "
    "distinct = distinct (function, kind, n) triples"
)
EXTRA_TRUSTED = [
    "np.linalg.eigvals on the 2x2 covariance returns the roots of its characteristic polynomial (= sum trace, product determinant: "
    "C18_eig_contract_iff_charpoly; discharged by the closed form Sym2.eigvals, which is compared with LAPACK on every case)",
    "np.linalg.svd returns a singular value decomposition (A = U S V^T, orthonormal factors, s0 >= s1 >= 0: stream svd[fact] checks it "
    "on every case); from it V[:,1] is an eigenvector of the 2x2 Gram matrix of [Re, Im] for its smaller eigenvalue "
    "(C18_svd_fact_minor) (discharged by the closed form "
    "Sym2.minorDir - C18_minorDir_svd, C18_mpd_svd_closed - which is compared with LAPACK and, through mpdClosed, with gen.MPD on every "
    "case without an exact/near tie of the singular values)",
    "np.arccos / np.sqrt / np.abs as the real functions on [0,1] resp. [0,inf); Lean Float (C libm) for the float run of mpd",
]
ASSUMPTIONS = [
    "np.abs(z)**2 is modelled as re^2+im^2, complex division as the textbook quotient (validated by the correspondence)",
    "the model mirrors gen.MPD / gen.MPC after proposed_fixes/fix_1.diff and fix_2.diff; on the unrepaired tree the "
    "correspondence of MPD/MPC on zero-component, collinear and constant shapes disagrees and the oracle reports the NaNs",
]

KINDS = ["gauss", "int", "unit", "zeros", "near", "collinear", "collinear0", "const", "unitcol", "isotropic", "offset", "offsetg"]
# "offset": c*(1 + e*r), r real - collinear, all components nearly equal (scatter e = 1e-9..1e-1 about a common value);
# "offsetg": the same with a complex scatter (not collinear).  np.cov removes the mean in a separate pass, so gen.MPC is
# accurate to rounding of the INPUT on such shapes (measured: |MPC - exact| <= 3 eps for spread ratios up to 1e18); a
# one-pass formula sum(x^2) - sum(x)^2/n is not.


def _gen():
    from pyoma2.functions import gen

    return gen


# ----------------------------------------------------------------------------- generators
def rand_scale(ctx, g):
    """complex factor with modulus in [1e-6, 1e6]"""
    mod = 10.0 ** ctx.rng.uniform(-6, 6)
    ang = ctx.rng.uniform(0, 2 * math.pi)
    r = ctx.rng.random()
    if r < 0.1:
        return complex(mod, 0.0)
    if r < 0.2:
        return complex(0.0, -mod)
    return complex(mod * math.cos(ang), mod * math.sin(ang))


def real_vec(ctx, g, n, zeros=False, const=False):
    if const:
        return np.full(n, float(ctx.rng.choice([1.0, -2.0, 0.1, 3.7, 1e-3])))
    if ctx.rng.random() < 0.3:
        v = g.integers(-5, 6, size=n).astype(float)
    else:
        v = g.standard_normal(n)
    if zeros:
        k = ctx.rng.randint(1, max(1, n - 1))
        v[ctx.rng.sample(range(n), k)] = 0.0
    if not np.any(v != 0) or (not zeros and np.any(v == 0)):
        v = np.where(v == 0, 1.0, v)
        if zeros:
            v[0] = 0.0
    if np.ptp(v) == 0 and n > 1:
        v[-1] = v[-1] + 1.0
    return v


def gen_shape(ctx, g, n, kind):
    """returns (phi complex array, meta) ; meta['v'], meta['c'] for collinear kinds"""
    meta = {"kind": kind}
    if kind == "gauss":
        phi = g.standard_normal(n) + 1j * g.standard_normal(n)
    elif kind == "int":
        phi = g.integers(-4, 5, size=n) + 1j * g.integers(-4, 5, size=n)
        phi = phi.astype(complex)
        if not np.any(phi != 0):
            phi[0] = 1 + 1j
    elif kind == "unit":
        phi = g.standard_normal(n) + 1j * g.standard_normal(n)
        phi = phi / phi[np.argmax(np.abs(phi))]
    elif kind == "zeros":
        phi = g.standard_normal(n) + 1j * g.standard_normal(n)
        k = ctx.rng.randint(1, n - 1)
        phi[ctx.rng.sample(range(n), k)] = 0.0
    elif kind == "near":
        v = real_vec(ctx, g, n)
        c = rand_scale(ctx, g)
        eps = 10.0 ** ctx.rng.uniform(-14, -3)
        phi = c * (v + eps * (g.standard_normal(n) + 1j * g.standard_normal(n)))
        meta["eps"] = eps
    elif kind in ("collinear", "collinear0", "const", "unitcol"):
        v = real_vec(ctx, g, n, zeros=(kind == "collinear0"), const=(kind == "const"))
        c = rand_scale(ctx, g)
        phi = c * v
        if kind == "unitcol":
            phi = phi / phi[np.argmax(np.abs(phi))]
        meta["v"] = v
        meta["c"] = c
    elif kind in ("offset", "offsetg"):
        e = 10.0 ** ctx.rng.uniform(-9, -1)
        base = ctx.rng.choice([1.0, -2.5, 0.3])
        r = g.standard_normal(n)
        if np.ptp(r) == 0:
            r[-1] += 1.0
        c = rand_scale(ctx, g)
        if kind == "offset":
            v = base * (1.0 + e * r)
            phi = c * v
            meta["v"] = v
            meta["c"] = c
        else:
            phi = c * (base * (1.0 + 0.4j) + e * (r + 1j * g.standard_normal(n)))
        if ctx.rng.random() < 0.5:
            phi = phi / phi[np.argmax(np.abs(phi))]
        meta["eps"] = e
    elif kind == "isotropic":
        m = n // 2
        a = g.integers(-4, 5, size=m).astype(float)
        b = g.integers(-4, 5, size=m).astype(float)
        if not np.any(a != 0):
            a[0] = 1.0
        x = np.zeros(n)
        y = np.zeros(n)
        x[0 : 2 * m : 2], x[1 : 2 * m : 2] = a, b
        y[0 : 2 * m : 2], y[1 : 2 * m : 2] = -b, a
        phi = x + 1j * y  # phi^T phi = |x|^2 - |y|^2 + 2i x.y = 0
    else:
        raise ValueError(kind)
    return np.asarray(phi, dtype=complex), meta


def pick_n(ctx, hi):
    r = ctx.rng.random()
    if r < 0.25:
        return ctx.rng.choice([2, 3])
    return ctx.rng.randint(2, hi)


# ----------------------------------------------------------------------------- codec helpers
def jvec(a):
    return {"vec": Cvec(a)}


def jmat(a):
    a = np.asarray(a)
    return {"mat": [Cvec(row) for row in a], "r": int(a.shape[0]), "c": int(a.shape[1])}


def bits(x):
    return struct.unpack("<Q", struct.pack("<d", float(x)))[0]


def unbits(n):
    return struct.unpack("<d", struct.pack("<Q", int(n)))[0]


def close(a, b, tol, ctx=None, key=None):
    a = float(a)
    b = float(b)
    if math.isnan(a) or math.isnan(b) or math.isinf(a) or math.isinf(b):
        return (not math.isfinite(a)) and (not math.isfinite(b))
    if ctx is not None:
        margin(ctx, key, abs(a - b), tol * max(1.0, abs(a), abs(b)))
    return abs(a - b) <= tol * max(1.0, abs(a), abs(b))


def margin(ctx, key, err, tol):
    """record the largest observed error/tolerance ratio of a comparison (evidence of the margin)"""
    if tol and math.isfinite(err):
        r = err / tol
        k = "margin_" + key
        if r > ctx.dist.get(k, 0.0):
            ctx.dist[k] = float(f"{r:.3g}")


def exc_kind(fn, *args):
    """run a gen function; returns ('ok', value) or ('exc', kind)"""
    try:
        return "ok", fn(*args)
    except Exception as e:  # noqa: BLE001
        msg = str(e)
        if "1 or 2 dimensions" in msg:
            return "exc", "ndim"
        if "same first dimension" in msg:
            return "exc", "first-dimension"
        if "must have the same shape" in msg:
            return "exc", "shape"
        return "exc", type(e).__name__ + ":" + msg[:60]


def spread_ratio(phi):
    """rho = sum |phi|^2 / sum |phi - mean|^2 : amplification of rounding by np.cov's mean removal"""
    d = phi - phi.mean()
    s = float(np.sum(np.abs(d) ** 2))
    t = float(np.sum(np.abs(phi) ** 2))
    return math.inf if s == 0 else t / s


# ----------------------------------------------------------------------------- correspondence
def _corr_mac(ctx, gen, g):
    n = pick_n(ctx, 16)
    form = ctx.rng.choice(["vv", "mm", "vm", "mv", "m11"])
    kx = ctx.rng.choice(KINDS[:7])
    ka = ctx.rng.choice(KINDS[:7])
    if form == "vv":
        X, _ = gen_shape(ctx, g, n, kx)
        A, _ = gen_shape(ctx, g, n, ka)
        jx, ja = jvec(X), jvec(A)
    else:
        mx = 1 if form in ("vm", "m11") else ctx.rng.randint(1, 3)
        ma = 1 if form in ("mv", "m11") else ctx.rng.randint(1, 3)
        Xc = np.stack([gen_shape(ctx, g, n, kx)[0] for _ in range(mx)], axis=1)
        Ac = np.stack([gen_shape(ctx, g, n, ka)[0] for _ in range(ma)], axis=1)
        X, jx = (Xc[:, 0], jvec(Xc[:, 0])) if form == "vm" else (Xc, jmat(Xc))
        A, ja = (Ac[:, 0], jvec(Ac[:, 0])) if form == "mv" else (Ac, jmat(Ac))
    m = ctx.model("c18_mac", X=jx, A=ja)
    st, val = exc_kind(gen.MAC, X, A)
    ok = False
    if st == "ok" and "scalar" in m:
        ok = np.ndim(val) == 0 and close(val, fl(m["scalar"]), 1e-12, ctx, "corr_MAC")
    elif st == "ok" and "matrix" in m:
        val = np.asarray(val)
        ok = val.shape == (m["r"], m["c"]) and all(
            close(val[i, j], fl(m["matrix"][i][j]), 1e-12, ctx, "corr_MAC") for i in range(m["r"]) for j in range(m["c"])
        )
    ctx.corr("MAC", ok, {"X": jx, "A": ja}, m, np.asarray(val).tolist() if st == "ok" else val, (form, kx, ka, n))
    ctx.count(f"corr_mac_{form}")


def _corr_mac_malformed(ctx, gen, g):
    n = pick_n(ctx, 8)
    which = ctx.rng.choice(["first-dim", "ndim-x", "ndim-a", "first-dim-vec"])
    A = np.stack([gen_shape(ctx, g, n, "gauss")[0] for _ in range(2)], axis=1)
    if which == "first-dim":
        X = np.stack([gen_shape(ctx, g, n + 1, "gauss")[0] for _ in range(2)], axis=1)
        jx, ja = jmat(X), jmat(A)
    elif which == "first-dim-vec":
        X = gen_shape(ctx, g, n + 2, "int")[0]
        jx, ja = jvec(X), jmat(A)
    elif which == "ndim-x":
        X = np.zeros((n, 2, 2), dtype=complex)
        jx, ja = {"ndim": 3, "d0": n}, jmat(A)
    else:
        X = A
        A = np.zeros((n + 1, 1, 1, 2), dtype=complex)
        jx, ja = jmat(X), {"ndim": 4, "d0": n + 1}
    m = ctx.model("c18_mac", X=jx, A=ja)
    st, val = exc_kind(gen.MAC, X, A)
    ok = st == "exc" and m.get("exc") == val
    ctx.corr("MAC[malformed]", ok, {"X": jx, "A": ja}, m, [st, str(val)], (which,))
    ctx.count("corr_mac_malformed")


def _corr_msf_mcf(ctx, gen, g):
    n = pick_n(ctx, 16)
    kind = ctx.rng.choice(KINDS)
    as_mat = ctx.rng.random() < 0.4
    cols = ctx.rng.randint(1, 3) if as_mat else 1
    P1 = np.stack([gen_shape(ctx, g, n, kind)[0] for _ in range(cols)], axis=1)
    P2 = np.stack([gen_shape(ctx, g, n, ctx.rng.choice(KINDS[:7]))[0] for _ in range(cols)], axis=1)
    if ctx.rng.random() < 0.3:
        P2 = P1 * ctx.rng.choice([2.0, -0.5, 3.0])
    a1, a2 = (P1, P2) if as_mat else (P1[:, 0], P2[:, 0])
    j1, j2 = (jmat(P1), jmat(P2)) if as_mat else (jvec(a1), jvec(a2))
    # MCF
    m = ctx.model("c18_mcf", P=j1)
    val = gen.MCF(a1)
    ok = "values" in m and len(m["values"]) == len(val) and all(close(val[i], fl(m["values"][i]), 1e-12, ctx, "corr_MCF") for i in range(cols))
    ctx.corr("MCF", ok, {"P": j1}, m, np.asarray(val).tolist(), (kind, n, as_mat))
    # MSF (malformed: shape mismatch one time in eight)
    if ctx.rng.random() < 0.125:
        bad = np.vstack([P2, P2[:1]]) if ctx.rng.random() < 0.5 else np.hstack([P2, P2[:, :1]])
        jb = jmat(bad)
        m = ctx.model("c18_msf", P1=jmat(P1), P2=jb)
        st, v2 = exc_kind(gen.MSF, P1, bad)
        ctx.corr("MSF[malformed]", st == "exc" and m.get("exc") == v2, {"P1": jmat(P1), "P2": jb}, m, [st, str(v2)], ("shape",))
        ctx.count("corr_msf_malformed")
        return
    m = ctx.model("c18_msf", P1=j1, P2=j2)
    val = gen.MSF(a1, a2)
    ok = "values" in m and len(m["values"]) == len(val)
    skipped = False
    for i in range(cols):
        p1, p2 = P1[:, i], P2[:, i]
        den = abs(np.sum(p1 * p1))
        kap = math.inf if den == 0 else float(np.linalg.norm(p1) * np.linalg.norm(p2) / den)
        mv = m["values"][i] if ok else None
        if mv is None:  # exact denominator 0: the float one must be non-finite or the case is rounding garbage
            if math.isfinite(float(val[i])):
                if den == 0:
                    ok = False
                else:
                    skipped = True
            continue
        if kap > 1e6:
            skipped = True
            continue
        margin(ctx, "corr_MSF", abs(float(val[i]) - fl(mv)), 1e-13 * max(1.0, kap) * 8 + 1e-12 * abs(fl(mv)))
        ok = ok and abs(float(val[i]) - fl(mv)) <= 1e-13 * max(1.0, kap) * 8 + 1e-12 * abs(fl(mv))
    if skipped:
        ctx.skipped += 1
    ctx.corr("MSF", ok, {"P1": j1, "P2": j2}, m, np.asarray(val).tolist(), (kind, n, as_mat))
    ctx.count(f"corr_kind_{kind}")


def _corr_mpc(ctx, gen, g):
    n = pick_n(ctx, 24)
    kind = ctx.rng.choice(KINDS)
    phi, _ = gen_shape(ctx, g, n, kind)
    S = np.cov(phi.real, phi.imag)
    lam = np.linalg.eigvals(S)
    val = gen.MPC(phi)
    imag0 = (not np.iscomplexobj(val)) or complex(val).imag == 0
    lam_ok = np.all(np.isfinite(lam)) and ((not np.iscomplexobj(lam)) or np.all(lam.imag == 0))
    kw = {"phi": Cvec(phi)}
    if lam_ok:
        kw["l0"], kw["l1"] = R(float(lam[0].real)), R(float(lam[1].real))
    m = ctx.model("c18_mpc", **kw)
    ss = float(np.sum(np.abs(phi) ** 2))
    Sm = [fl(x) for x in m["S"]]
    okS = all(abs(a - b) <= 1e-12 * ss for a, b in zip(Sm, [S[0, 0], S[0, 1], S[1, 1]]))
    for a, b in zip(Sm, [S[0, 0], S[0, 1], S[1, 1]]):
        margin(ctx, "corr_cov", abs(a - b), 1e-12 * ss)
    ctx.corr("np.cov", okS, kw, Sm, S.tolist(), (kind, n))
    rho = spread_ratio(phi)
    v = float(complex(val).real)
    if rho == math.inf or rho < 1e20:
        # two-pass mean removal: accurate to rounding of the input whatever the spread ratio (calibrated: <= 3 eps)
        tol = 1e-12 if rho == math.inf else 1e-11
        ok = imag0 and m["closed"] is not None and close(v, fl(m["closed"]), tol, ctx, "corr_MPC_closed")
        ctx.corr("MPC[closed]", ok, kw, m["closed"], v, (kind, n))
    else:
        ctx.skipped += 1
    if lam_ok and m["eig"] is not None:
        tr, det = Sm[0] + Sm[2], Sm[0] * Sm[2] - Sm[1] ** 2
        l0, l1 = float(lam[0].real), float(lam[1].real)
        contract = abs(l0 + l1 - tr) <= 1e-12 * ss and abs(l0 * l1 - det) <= 1e-12 * ss * ss
        exact_const = Sm[0] + Sm[2] == 0.0
        tol = 1e-12 if not exact_const else 1e-9
        ctx.corr("MPC[eig]", contract and close(v, fl(m["eig"]), tol, ctx, "corr_MPC_eig"), kw, m["eig"], [v, l0, l1], (kind, n))
    ctx.count(f"corr_kind_{kind}")


def _corr_mpd(ctx, gen, g):
    n = pick_n(ctx, 24)
    kind = ctx.rng.choice(KINDS)
    phi, _ = gen_shape(ctx, g, n, kind)
    _, s, VT = np.linalg.svd(np.c_[phi.real, phi.imag])
    V = VT.T
    val = float(gen.MPD(phi))
    inp = {"phi": [[bits(z.real), bits(z.imag)] for z in phi], "v01": bits(V[0, 1]), "v11": bits(V[1, 1])}
    m = unbits(ctx.model("c18_mpd_float", **inp)["bits"])
    ctx.corr("MPD[float]", close(val, m, 2e-7, ctx, "corr_MPD_float"), {"phi": Cvec(phi), "V01": V[0, 1], "V11": V[1, 1]}, m, val, (kind, n))
    # exact squared arccos arguments (rationals) -> the same weighted mean
    a = ctx.model("c18_mpd_argsq", phi=Cvec(phi), v01=R(V[0, 1]), v11=R(V[1, 1]))
    w = np.abs(phi)
    okarg = all((x is None) == (w[k] == 0) for k, x in enumerate(a))
    args = np.array([0.0 if x is None else fl(x) for x in a])
    okarg = okarg and np.all(args <= 1.0) and np.all(args >= 0.0)
    nz = w > 0
    ex = float(np.sum(w[nz] * np.arccos(np.sqrt(args[nz]))) / np.sum(w[nz]))
    ctx.corr("MPD[exact-arg]", okarg and close(val, ex, 2e-7, ctx, "corr_MPD_exact"), {"phi": Cvec(phi), "V01": V[0, 1], "V11": V[1, 1]}, ex, val, (kind, n))
    ctx.count(f"corr_kind_{kind}")


def _corr_mpd_closed(ctx, gen, g):
    """gen.MPD against the model with the SVD step in closed form (Sym2.minorDir of the Gram matrix) run over IEEE
    doubles - nothing recorded from LAPACK; plus mpd? (None = NaN) with the recorded direction, the closed-form
    singular values / minor direction against np.linalg.svd, and the zero shape (0/0)."""
    n = pick_n(ctx, 24)
    kind = ctx.rng.choice(KINDS)
    phi, _ = gen_shape(ctx, g, n, kind)
    if ctx.rng.random() < 0.04:
        kind, phi = "zero", np.zeros(n, dtype=complex)
    A = np.c_[phi.real, phi.imag]
    U, s, VT = np.linalg.svd(A)
    V = VT.T
    # the hypotheses of C18_svd_fact_minor (SvdFact): A = U[:, :2] diag(s) V^T, orthonormal factors, s0 >= s1 >= 0
    sc = max(float(s[0]), 1e-300)
    fact = max(float(np.max(np.abs(U[:, :2] * s @ VT - A))) / sc, float(np.max(np.abs(U[:, :2].T @ U[:, :2] - np.eye(2)))),
               float(np.max(np.abs(VT @ VT.T - np.eye(2)))))
    margin(ctx, "corr_svd_fact", fact, 1e-12)
    ctx.corr("svd[fact]", fact <= 1e-12 and s[0] >= s[1] >= 0, {"phi": Cvec(phi)}, None, fact, (kind, n))
    with np.errstate(all="ignore"):
        val = float(gen.MPD(phi))
    pb = [[bits(z.real), bits(z.imag)] for z in phi]
    key = (kind, n)
    shown = {"phi": Cvec(phi)}
    # mpd? with the recorded direction: NaN <-> none
    mo = ctx.model("c18_mpd_opt_float", phi=pb, v01=bits(V[0, 1]), v11=bits(V[1, 1]))["mpd"]
    mov = math.nan if mo is None else unbits(mo["bits"])
    ok = (mo is None) == math.isnan(val) and (mo is None) == (not np.any(phi != 0)) and close(val, mov, 2e-7, ctx, "corr_MPD_opt")
    ctx.corr("MPD[opt]", ok, shown, None if mo is None else mov, val, key)
    mc = ctx.model("c18_mpd_closed_float", phi=pb)
    mcv = math.nan if mc["mpd"] is None else unbits(mc["mpd"]["bits"])
    if kind == "zero":
        ctx.corr("MPD[closed]", mc["mpd"] is None and math.isnan(val), shown, mcv, val, key)
        ctx.count("corr_mpd_closed_zero_shape")
        return
    # squares of the singular values = eigenvalues of the Gram matrix (closed form)
    l0, l1 = unbits(mc["l0"]), unbits(mc["l1"])
    s0sq = float(s[0]) ** 2
    oksv = abs(l0 - s0sq) <= 1e-12 * s0sq and abs(l1 - float(s[1]) ** 2) <= 1e-12 * s0sq
    margin(ctx, "corr_svd_sv", max(abs(l0 - s0sq), abs(l1 - float(s[1]) ** 2)), 1e-12 * s0sq)
    ctx.corr("svd[closed-sv]", oksv, shown, [l0, l1], [s0sq, float(s[1]) ** 2], key)
    gap = (s[0] - s[1]) / s[0]
    if gap < 1e-6:
        # (nearly) equal singular values: the minor direction is arbitrary, MPD depends on it (excluded by the theorems)
        ctx.skipped += 1
        ctx.count("corr_mpd_closed_tie_skipped")
        return
    x, y = unbits(mc["v01"]), unbits(mc["v11"])
    nrm = math.hypot(x, y)
    cross = abs(x * V[1, 1] - y * V[0, 1]) / nrm if nrm > 0 else math.inf
    margin(ctx, "corr_svd_dir", cross, 1e-12 / gap)
    ctx.corr("svd[closed-dir]", cross <= 1e-12 / gap, shown, [x / nrm, y / nrm], [float(V[0, 1]), float(V[1, 1])], key)
    tol = 2e-7 + 1e-12 / gap
    ctx.corr("MPD[closed]", mc["mpd"] is not None and close(val, mcv, tol, ctx, "corr_MPD_closed"), shown, mcv, val, key)
    ctx.count(f"corr_kind_{kind}")


def _corr_mpc_eigclosed(ctx, gen, g):
    """np.linalg.eigvals of the 2x2 covariance against the closed form Sym2.eigvals run over IEEE doubles, and gen.MPC
    against mpc? fed with the closed-form eigenvalues (= mpcEig?): the whole of gen.MPC with nothing recorded."""
    n = pick_n(ctx, 24)
    kind = ctx.rng.choice(KINDS)
    phi, _ = gen_shape(ctx, g, n, kind)
    S = np.cov(phi.real, phi.imag)
    lam = np.linalg.eigvals(S)
    val = gen.MPC(phi)
    key = (kind, n)
    e = ctx.model("c18_eigvals_float", a=bits(S[0, 0]), b=bits(S[0, 1]), d=bits(S[1, 1]))
    l0, l1 = unbits(e["l0"]), unbits(e["l1"])
    sc = abs(S[0, 0]) + abs(S[1, 1]) + abs(S[0, 1])
    shown = {"phi": Cvec(phi), "S": [S[0, 0], S[0, 1], S[1, 1]]}
    lam_ok = np.all(np.isfinite(lam)) and ((not np.iscomplexobj(lam)) or np.all(lam.imag == 0))
    if lam_ok:
        ls = sorted([float(lam[0].real), float(lam[1].real)], reverse=True)
        err = max(abs(ls[0] - l0), abs(ls[1] - l1))
        margin(ctx, "corr_eigvals", err, 1e-12 * sc)
        ctx.corr("eigvals[closed]", err <= 1e-12 * sc, shown, [l0, l1], ls, key)
    else:
        ctx.corr("eigvals[closed]", False, shown, [l0, l1], str(lam), key)
    rho = spread_ratio(phi)
    if not (rho == math.inf or rho < 1e20) or not (math.isfinite(l0) and math.isfinite(l1)):
        ctx.skipped += 1
        return
    m = ctx.model("c18_mpc", phi=Cvec(phi), l0=R(l0), l1=R(l1))
    v = float(complex(val).real)
    # the eigenvalues were computed from the rounded covariance: same tolerance as MPC[eig] / MPC[closed]
    tol = 1e-9 if fl(m["S"][0]) + fl(m["S"][2]) == 0.0 else 1e-11
    ok = m["eig"] is not None and complex(val).imag == 0 and close(v, fl(m["eig"]), tol, ctx, "corr_MPC_eigclosed")
    ctx.corr("MPC[eig-closed]", ok, shown, m["eig"], v, key)
    ctx.count(f"corr_kind_{kind}")


# ----------------------------------------------------------------------------- depth round 2: moduli far from O(1)
SCALED_MODES = ["tiny", "huge", "mixed"]
# The indicators are quotients of FOURTH powers of the components (MAC: |x.a|^2 / (x.x a.a); MPC: (l0-l1)^2/(l0+l1)^2 with
# l ~ |phi|^2; MCF alike), so in IEEE doubles they exist only while n*|phi|^4 is representable: moduli in about
# [1e-75, 1e75].  Judged range here: 1e-70 .. 1e70 (and, for "mixed", per-component factors 1e-35 .. 1e35).  Beyond it the
# values are NaN/inf (measured: |phi| = 1e-78 and 1e78 already) - counted as information (`extreme_nonfinite_*`), not judged.
EXP_JUDGED = 70.0
EXP_MIXED = 35.0


def gen_scaled(ctx, g, n, mode=None, base_kind=None):
    """a shape of one of the O(1) kinds moved far from O(1): returns (phi, meta, phi0, c0)
    tiny/huge: phi = c0 * phi0 with |c0| = 10^-(6..70) / 10^(6..70); mixed: component k times 10^U(-35, 35)
    (c0 = None).  meta keeps the collinear description (v, c) of the SCALED shape."""
    mode = mode or ctx.rng.choice(SCALED_MODES)
    base_kind = base_kind or ctx.rng.choice(["gauss", "int", "unit", "zeros", "collinear", "collinear0", "const", "isotropic", "offsetg"])
    phi0, meta0 = gen_shape(ctx, g, n, base_kind)
    meta = dict(meta0)
    meta["base_kind"] = base_kind
    meta["scaled"] = mode
    if mode == "mixed":
        f = 10.0 ** g.uniform(-EXP_MIXED, EXP_MIXED, size=n)
        phi = phi0 * f
        c0 = None
        if "v" in meta:
            meta["v"] = meta["v"] * f
        if base_kind == "const":
            meta["kind"] = "collinear"  # no longer constant
        if base_kind == "isotropic":
            meta["kind"] = "gauss"  # no longer isotropic
    else:
        e = ctx.rng.uniform(6.0, EXP_JUDGED)
        mod = 10.0 ** (-e if mode == "tiny" else e)
        ang = ctx.rng.uniform(0, 2 * math.pi)
        c0 = complex(mod, 0.0) if ctx.rng.random() < 0.2 else complex(mod * math.cos(ang), mod * math.sin(ang))
        phi = c0 * phi0
        if "v" in meta:
            meta["c"] = meta["c"] * c0
    return np.asarray(phi, dtype=complex), meta, phi0, c0


def _corr_mpc_whole(ctx, gen, g):
    """gen.MPC against the WHOLE model function mpcEig? (covariance, no-scatter branch, closed-form eigenvalues, ratio) run
    over exact rationals by ONE driver op (c18_mpc_whole; integer-arithmetic square root at 2^-200): nothing recorded, nothing
    composed in the harness.  Shapes: every O(1) kind and the same kinds at moduli 1e-70 .. 1e70 / mixed magnitudes."""
    n = pick_n(ctx, 24)
    if ctx.rng.random() < 0.5:
        kind = ctx.rng.choice(KINDS)
        phi, _ = gen_shape(ctx, g, n, kind)
        tag = kind
    else:
        phi, meta, _, _ = gen_scaled(ctx, g, n)
        tag = meta["scaled"] + ":" + meta["base_kind"]
    with np.errstate(all="ignore"):
        val = gen.MPC(phi)
    m = ctx.model("c18_mpc_whole", phi=Cvec(phi))
    rho = spread_ratio(phi)
    shown = {"phi": Cvec(phi)}
    key = ("whole", tag, n)
    if not (rho == math.inf or rho < 1e20):
        ctx.skipped += 1
        ctx.count("corr_mpc_whole_skipped_spread")
        return
    with np.errstate(all="ignore"):
        _S = np.cov(phi.real, phi.imag)
    _t = float(_S[0, 0] + _S[1, 1])
    if _t != 0.0 and not (1e-140 < _t < 1e140):
        # the square of the (rounding-size) scatter leaves the double range: 0/0 in floating point, not judged
        ctx.skipped += 1
        ctx.count("corr_mpc_whole_skipped_scatter_range")
        return
    v = float(complex(val).real)
    tol = 1e-12 if rho == math.inf else 1e-11
    ok = m["mpc"] is not None and complex(val).imag == 0 and close(v, fl(m["mpc"]), tol, ctx, "corr_MPC_whole")
    ctx.corr("MPC[whole]", ok, shown, m["mpc"], v, key)
    ctx.count(f"corr_mpc_whole_{tag.split(':')[0] if ':' in tag else 'o1'}")


def correspondence(ctx):
    gen = _gen()
    g = ctx.nprng()
    for _ in range(ctx.n(120, 5000)):
        _corr_mpc_whole(ctx, gen, g)
    for _ in range(ctx.n(150, 6000)):
        _corr_mac(ctx, gen, g)
    for _ in range(ctx.n(24, 600)):
        _corr_mac_malformed(ctx, gen, g)
    for _ in range(ctx.n(200, 8000)):
        _corr_msf_mcf(ctx, gen, g)
    for _ in range(ctx.n(200, 8000)):
        _corr_mpc(ctx, gen, g)
    for _ in range(ctx.n(200, 8000)):
        _corr_mpd(ctx, gen, g)
    for _ in range(ctx.n(200, 8000)):
        _corr_mpd_closed(ctx, gen, g)
    for _ in range(ctx.n(150, 6000)):
        _corr_mpc_eigclosed(ctx, gen, g)
    # the pinned unit-test vector
    phi = np.array([1 + 2j, 2 + 3j, 3 + 4j])
    ctx.sample({"phi": "[1+2j,2+3j,3+4j]", "model_mcf": ctx.model("c18_mcf", P=jvec(phi)), "impl_mcf": float(gen.MCF(phi)[0])})


# ----------------------------------------------------------------------------- oracle
BOUND_SLACK = 1e-12


def _finite(x):
    x = complex(x)
    return math.isfinite(x.real) and math.isfinite(x.imag)


def _realval(x):
    """value of an indicator as a real number; a complex dtype with zero imaginary part is accepted"""
    z = complex(x)
    return z.real, z.imag == 0


def classify(phi, meta):
    kind = meta["kind"]
    if kind == "const" or (len(phi) > 1 and np.all(phi == phi[0])):
        return "constant"
    col = kind in ("collinear", "collinear0", "unitcol", "offset")
    zero = bool(np.any(phi == 0))
    if zero and col:
        return "collinear-zero-component"
    if zero:
        return "zero-component"
    if col:
        return "collinear"
    if kind == "isotropic":
        return "isotropic"
    if kind == "near":
        return "nearly-collinear"
    return "generic"


def check_bounds(ctx, gen, phi, meta, psi):
    """finiteness and bounds of the four indicators on a non-zero shape"""
    cls = classify(phi, meta)
    inp = {"check": "bounds", "phi": phi, "psi": psi, "meta": dict(meta)}
    out = {}
    for name, f, hi in (("MPC", gen.MPC, 1.0), ("MPD", gen.MPD, math.pi / 2), ("MCF", lambda p: gen.MCF(p)[0], 1.0),
                        ("MAC", lambda p: gen.MAC(p, psi), 1.0)):
        ctx.oracle_cases += 1
        val = f(phi)
        out[name] = val
        if not _finite(val):
            ctx.violation(f"{name.lower()}-nan-{cls}", f"gen.{name} is not finite ({val}) on a {cls} shape with {len(phi)} components",
                          inp, observed=val, expected=f"finite value in [0, {hi}]")
            continue
        v, real = _realval(val)
        margin(ctx, f"bound_{name}", max(-v, v - hi, 0.0), BOUND_SLACK)
        if not real or v < -BOUND_SLACK or v > hi + BOUND_SLACK:
            ctx.violation(f"{name.lower()}-out-of-bounds", f"gen.{name} = {val} outside [0, {hi}] on a {cls} shape",
                          inp, observed=val, expected=f"[0, {hi}]")
    return out


def check_scale(ctx, gen, phi, meta, psi, c, base):
    """invariance under multiplication by the complex number c (finite base values only)"""
    cphi = c * phi
    inp = {"check": "scale", "phi": phi, "psi": psi, "c": c, "meta": dict(meta)}
    rho = spread_ratio(phi)
    s = np.linalg.svd(np.c_[phi.real, phi.imag], compute_uv=False)
    gap = (s[0] - s[1]) / s[0]
    for name, f, tol in (
        ("MAC", lambda p: gen.MAC(p, psi), 1e-9),
        ("MAC2", lambda p: gen.MAC(psi, p), 1e-9),
        ("MCF", lambda p: gen.MCF(p)[0], 1e-9),
        ("MPC", gen.MPC, 1e-9 if rho == math.inf else (None if rho > 1e20 else 1e-9 + 1e-14 * math.sqrt(rho))),
        ("MPD", gen.MPD, None if gap < 1e-6 else 2e-7 + 1e-9 / gap),
    ):
        if tol is None:
            ctx.skipped += 1
            continue
        b = base[name] if name in base else f(phi)
        if not _finite(b):
            continue  # already reported by check_bounds
        ctx.oracle_cases += 1
        v = f(cphi)
        if not _finite(v):
            cls = classify(cphi, meta)
            ctx.violation(f"{name.lower().rstrip('2')}-nan-{cls}", f"gen.{name[:3]} not finite on c*phi, c={c}", inp, observed=v)
        elif margin(ctx, f"scale_{name[:3]}", abs(complex(v).real - complex(b).real), tol) or abs(complex(v).real - complex(b).real) > tol:
            ctx.violation(f"{name.lower().rstrip('2')}-scale", f"gen.{name[:3]} changes from {b} to {v} under multiplication by {c}",
                          inp, observed=v, expected=b)


def check_collinear(ctx, gen, phi, meta):
    """phi = c*v, v real: MAC(phi, v) = 1, MPC = 1, MPD = 0, MCF = 0 — finite values"""
    v = meta["v"]
    cls = classify(phi, meta)
    inp = {"check": "collinear", "phi": phi, "meta": dict(meta)}
    rho = spread_ratio(phi)
    exp = (
        ("MAC", lambda: gen.MAC(phi, v), 1.0, 1e-12),
        ("MAC", lambda: gen.MAC(v, phi), 1.0, 1e-12),
        ("MCF", lambda: gen.MCF(phi)[0], 0.0, 1e-12),
        ("MPC", lambda: gen.MPC(phi), 1.0, 1e-12 if rho == math.inf else (None if rho > 1e20 else 1e-11 + 1e-14 * math.sqrt(rho))),
        ("MPD", lambda: gen.MPD(phi), 0.0, 1e-6),
    )
    for name, f, want, tol in exp:
        if tol is None:
            ctx.skipped += 1
            continue
        ctx.oracle_cases += 1
        val = f()
        if not _finite(val):
            ctx.violation(f"{name.lower()}-nan-{cls}", f"gen.{name} is not finite ({val}) on phi = c*v ({cls}, n={len(phi)})", inp,
                          observed=val, expected=want)
        elif margin(ctx, f"collinear_{name}", abs(complex(val).real - want), tol) or abs(complex(val).real - want) > tol or complex(val).imag != 0:
            ctx.violation(f"{name.lower()}-collinear-value", f"gen.{name} = {val} on phi = c*v, expected {want}", inp, observed=val, expected=want)


def check_msf(ctx, gen, vec, s, kind):
    """MSF(v, s*v) = s for real s"""
    ctx.oracle_cases += 1
    val = gen.MSF(vec, s * vec)
    inp = {"check": "msf", "v": vec, "s": s, "kind": kind}
    den = abs(np.sum(vec * vec))
    nn = float(np.sum(np.abs(vec) ** 2))
    if np.shape(val) != (1,):
        ctx.violation("msf-shape", f"MSF of two vectors has shape {np.shape(val)}", inp)
        return
    x = float(val[0])
    if not math.isfinite(x):
        iso = den <= 1e-9 * nn
        ctx.violation("msf-nan-isotropic" if iso else "msf-nan", f"gen.MSF(v, {s}*v) = {x} for a non-zero v with v^T v = {np.sum(vec * vec)}",
                      inp, observed=x, expected=s)
        return
    kap = nn / den
    if kap > 1e6:
        ctx.skipped += 1
        return
    margin(ctx, "msf", abs(x - s), 1e-12 * kap * max(1.0, abs(s)))
    if abs(x - s) > 1e-12 * kap * max(1.0, abs(s)):
        ctx.violation("msf-value", f"gen.MSF(v, {s}*v) = {x}, expected {s}", inp, observed=x, expected=s)


def check_mac_matrix(ctx, gen, g):
    n = pick_n(ctx, 64)
    mx, ma = ctx.rng.randint(1, 4), ctx.rng.randint(1, 4)
    X = np.stack([gen_shape(ctx, g, n, ctx.rng.choice(KINDS[:7]))[0] for _ in range(mx)], axis=1)
    A = np.stack([gen_shape(ctx, g, n, ctx.rng.choice(KINDS[:7]))[0] for _ in range(ma)], axis=1)
    check_mac_pair(ctx, gen, X, A, ctx.rng.randrange(mx), ctx.rng.randrange(ma))


def check_mac_pair(ctx, gen, X, A, i, j):
    mx, ma = X.shape[1], A.shape[1]
    ctx.oracle_cases += 1
    M = np.asarray(gen.MAC(X, A))
    Mt = np.asarray(gen.MAC(A, X))
    inp = {"check": "mac_matrix", "X": X, "A": A, "i": i, "j": j}
    want = () if (mx, ma) == (1, 1) else (mx, ma)
    if M.shape != want or Mt.shape != want[::-1]:
        ctx.violation("mac-shape", f"MAC of {mx} and {ma} shapes has shape {M.shape} / {Mt.shape}", inp, observed=[M.shape, Mt.shape], expected=want)
        return
    if not np.all(np.isfinite(M)) or not np.all(np.isfinite(Mt)):
        ctx.violation("mac-nan-generic", "MAC matrix has non-finite entries", inp)
        return
    margin(ctx, "mac_symm", float(np.max(np.abs(M - Mt.T))), 1e-12)
    if np.max(np.abs(M - Mt.T)) > 1e-12:
        ctx.violation("mac-symm", f"MAC(X,A) differs from MAC(A,X).T by {np.max(np.abs(M - Mt.T)):.2e}", inp)
    if M.min() < -BOUND_SLACK or M.max() > 1 + BOUND_SLACK:
        ctx.violation("mac-out-of-bounds", f"MAC matrix entries in [{M.min()}, {M.max()}]", inp)
    # entry (i, j) is the MAC of column i of X with column j of A
    e = float(gen.MAC(X[:, i], A[:, j]))
    if abs(e - float(M.reshape(mx, ma)[i, j])) > 1e-12:
        ctx.violation("mac-entry", f"entry ({i},{j}) of the MAC matrix is not the MAC of the two columns", inp)


ISO_FIXED = [
    np.array([1, 1j]),
    np.array([1 + 1j, 1 - 1j]),
    np.array([3, 4, 5j]),
    np.array([1, 1j, 0, 0]),
    np.array([0.5, 0.5j]),
    np.array([1, -1j, 2, 2j]),
]


def oracle(ctx, scale):
    gen = _gen()
    g = ctx.nprng()
    N = ctx.n(1000, 100000) * scale
    for it in range(N):
        kind = KINDS[it % len(KINDS)]
        n = pick_n(ctx, 64)
        phi, meta = gen_shape(ctx, g, n, kind)
        psi, _ = gen_shape(ctx, g, n, ctx.rng.choice(KINDS[:7]))
        ctx.count(f"oracle_kind_{kind}")
        ctx.nontrivial.add(("oracle", kind, n))
        # every seventh case runs with NumPy's floating-point errors raised and warnings as errors (a legal state of the
        # caller's process): the indicators are defined and finite on these shapes, so nothing may trip over 0/0 on the way
        import contextlib
        import warnings

        strict = (it + it // len(KINDS)) % 7 == 3
        with (np.errstate(all="raise") if strict else contextlib.nullcontext()), warnings.catch_warnings():
            if strict:
                warnings.simplefilter("error")
                ctx.count("oracle_strict_fp_state")
            base = check_bounds(ctx, gen, phi, meta, psi)
            base["MAC2"] = gen.MAC(psi, phi)
            c = rand_scale(ctx, g)
            check_scale(ctx, gen, phi, meta, psi, c, base)
            if "v" in meta:
                check_collinear(ctx, gen, phi, meta)
        if "v" in meta:
            if kind != "unitcol":
                check_msf(ctx, gen, meta["v"], float(ctx.rng.choice([2.0, -3.0, 0.25, 1e-6, 1e6, ctx.rng.uniform(-10, 10)])), "real")
        s = float(ctx.rng.choice([2.0, -3.0, 0.5, ctx.rng.uniform(-10, 10)]))
        check_msf(ctx, gen, phi, s, kind)
        if it < 3:
            ctx.sample({"kind": kind, "n": n, "phi_head": [str(z) for z in phi[:3]], "MPC": str(base.get("MPC")), "MPD": str(base.get("MPD"))})
    # depth round 2: the same checks on shapes with moduli far from O(1) (1e-70 .. 1e70, mixed magnitudes 1e-35 .. 1e35),
    # plus invariance of every indicator under the factor that moved the shape there (a product of admissible factors)
    import warnings as _w

    for it in range(ctx.n(300, 30000) * scale):
        mode = SCALED_MODES[it % len(SCALED_MODES)]
        n = pick_n(ctx, 64)
        phi, meta, phi0, c0 = gen_scaled(ctx, g, n, mode)
        psi, _ = gen_shape(ctx, g, n, ctx.rng.choice(KINDS[:7]))
        # MPC squares the eigenvalues of the covariance, i.e. the SCATTER about the mean to the fourth power: a (nearly)
        # constant shape has a scatter of rounding size (1e-16 |phi|) or e |phi|, whose square must stay in the double range too
        with np.errstate(all="ignore"):
            _S = np.cov(phi.real, phi.imag)
        sc2 = float(_S[0, 0] + _S[1, 1])
        if sc2 != 0.0 and not (1e-140 < sc2 < 1e140):
            ctx.skipped += 1
            ctx.count("oracle_scaled_skipped_scatter_range")
            continue
        ctx.count(f"oracle_scaled_{mode}")
        ctx.nontrivial.add(("oracle", "scaled-" + mode, meta["base_kind"], n))
        with np.errstate(all="ignore"), _w.catch_warnings():
            _w.simplefilter("ignore")
            base = check_bounds(ctx, gen, phi, meta, psi)
            base["MAC2"] = gen.MAC(psi, phi)
            check_scale(ctx, gen, phi, meta, psi, rand_scale(ctx, g) if mode == "mixed" else 10.0 ** ctx.rng.uniform(-2, 2) * np.exp(1j * ctx.rng.uniform(0, 6.28)), base)
            if c0 is not None:
                check_scale(ctx, gen, phi0, meta, psi, c0, {})
            if "v" in meta:
                check_collinear(ctx, gen, phi, meta)
                if meta["base_kind"] != "const" or mode != "mixed":
                    check_msf(ctx, gen, np.asarray(meta["v"], dtype=float), float(ctx.rng.choice([2.0, -3.0, 0.25])), "real-scaled")
    # information only (NOT judged): beyond |phi| ~ 1e75 the fourth powers leave the double range
    for it in range(ctx.n(24, 600)):
        n = pick_n(ctx, 16)
        phi0, _ = gen_shape(ctx, g, n, "gauss")
        e = ctx.rng.uniform(78.0, 150.0) * (1 if it % 2 else -1)
        p = 10.0 ** e * phi0
        with np.errstate(all="ignore"), _w.catch_warnings():
            _w.simplefilter("ignore")
            for name, val in (("MPC", gen.MPC(p)), ("MCF", gen.MCF(p)[0]), ("MACself", gen.MAC(p, p)), ("MPD", gen.MPD(p))):
                ctx.count(f"extreme_{'nonfinite' if not _finite(val) else 'finite'}_{name}")
    for v in ISO_FIXED:
        check_msf(ctx, gen, np.asarray(v, dtype=complex), 2.0, "isotropic-fixed")
    for _ in range(ctx.n(300, 20000) * scale):
        check_mac_matrix(ctx, gen, g)
    # one violation of every distinct signature first (the replay file lists the first ten), at most 5 kept per signature
    seen, first, rest = {}, [], []
    for v in ctx.violations:
        k = seen.get(v["sig"], 0)
        seen[v["sig"]] = k + 1
        if k == 0:
            first.append(v)
        elif k < 5:
            rest.append(v)
    for sg, k in seen.items():
        ctx.dist[f"violations_{sg}"] = ctx.dist.get(f"violations_{sg}", 0) + k
    ctx.violations[:] = first + rest


# ----------------------------------------------------------------------------- replay
def _cx(x):
    if isinstance(x, dict) and "re" in x:
        return complex(float(x["re"]), float(x["im"]))
    return complex(x)


def _arr(a):
    return np.array([[_cx(v) for v in row] if isinstance(row, list) else _cx(row) for row in a])


class _ReplayCtx:
    """just enough of Ctx for the check functions"""

    def __init__(self):
        self.oracle_cases = 0
        self.skipped = 0
        self.dist = {}
        self.violations = []

    def violation(self, sig, what, inp, observed=None, expected=None):
        self.violations.append((sig, what))


def replay(rec):
    gen = _gen()
    v = rec["violation"]
    inp = v["input"]
    sig = v["sig"]
    print("replaying", sig, "-", v["what"])
    ctx = _ReplayCtx()
    chk = inp.get("check")
    meta = dict(inp.get("meta", {}))
    if "v" in meta:
        meta["v"] = np.real(_arr(meta["v"]))
        meta["c"] = _cx(meta["c"])
    if chk == "msf":
        vec = _arr(inp["v"])
        print("v =", vec, " s =", inp["s"], " gen.MSF(v, s*v) =", gen.MSF(vec, float(inp["s"]) * vec))
        check_msf(ctx, gen, vec, float(inp["s"]), inp.get("kind"))
    elif chk == "mac_matrix":
        X, A = _arr(inp["X"]), _arr(inp["A"])
        print("MAC(X,A) =", gen.MAC(X, A), "\nMAC(A,X).T =", np.asarray(gen.MAC(A, X)).T)
        check_mac_pair(ctx, gen, X, A, int(inp["i"]), int(inp["j"]))
    else:
        phi = _arr(inp["phi"])
        print("phi =", phi)
        for name, f in (("MPC", gen.MPC), ("MPD", gen.MPD), ("MCF", lambda p: gen.MCF(p)[0])):
            print(f"gen.{name}(phi) =", f(phi))
        if chk == "bounds":
            check_bounds(ctx, gen, phi, meta, _arr(inp["psi"]))
        elif chk == "scale":
            c = _cx(inp["c"])
            for name, f in (("MPC", gen.MPC), ("MPD", gen.MPD), ("MCF", lambda p: gen.MCF(p)[0])):
                print(f"gen.{name}(c*phi) =", f(c * phi), " c =", c)
            check_scale(ctx, gen, phi, meta, _arr(inp["psi"]), c, {})
        elif chk == "collinear":
            check_collinear(ctx, gen, phi, meta)
    hit = [w for (sg, w) in ctx.violations if sg == sig]
    other = [sg for (sg, w) in ctx.violations if sg != sig]
    if hit:
        print("VIOLATION reproduced:", hit[0])
        return 1
    print("not reproduced" + (f" (other signatures seen: {sorted(set(other))})" if other else ""))
    return 0
