"""C05 — pLSCF recovers an exactly rational spectrum and reports its poles
(functions/plscf.py: pLSCF, rmfd2ac, ac2mp_poly, pLSCF_poles)."""
import math

import numpy as np

from common import R, Rmat, Cx, fl, flmat, cfl, max_rel_err

from common import wiring_pre_build as pre_build  # noqa: E402,F401

LEAN_MODULES = ["PyomaVerif.Props.C05", "PyomaVerif.Props.C05Charpoly", "PyomaVerif.Props.C05E2E", "PyomaVerif.Mutants.C05", "PyomaVerif.Props.WiringRun", "PyomaVerif.Props.C05Stored", "PyomaVerif.Props.WiringStore", "PyomaVerif.Props.WiringClass", "PyomaVerif.Props.WiringCalls", "PyomaVerif.Props.C05Table", "PyomaVerif.Props.C05Count", "PyomaVerif.Props.C05StoredTable"]
THEOREMS = [
    # call-site wiring of the class layer, regenerated from /repo on every run (translate_wiring.py)
    "PV.WiringRun.C05_run_plscf",
    "PV.WiringStore.C05_run_result_store",
    "PV.WiringClass.C05_inherited",
    "PV.WiringCalls.C05_plscf_run_calls",
    "PV.C05.C05_companion",
    "PV.C05.C05_companion_conv",
    "PV.C05.C05_companion_extra",
    "PV.C05.C05_companion_kernel",
    "PV.C05.C05_rmfd2ac_solves",
    "PV.C05.C05_resid_is_fit",
    "PV.C05.C05_exact_fit",
    "PV.C05.C05_fit_rightmul",
    "PV.C05.C05_plscfOrder_sound",
    "PV.C05.C05_exact_fit_out",
    "PV.C05.C05_exact_fit_unique_LO",
    "PV.C05.C05_exact_fit_unique_HI",
    "PV.C05.C05_exact_fit_beta",
    "PV.C05.C05_cell_iff",
    "PV.C05.C05_zero_eig_nan",
    "PV.C05.C05_zero_eig_phi_nan",
    "PV.C05.C05_column",
    "PV.C05.C05_table",
    "PV.C05.C05_table_iff",
    "PV.C05.modal_map",
    # multiplicity half (Props/C05Charpoly.lean): charpoly of the companion as built = X^m * det A(X) / det A_p
    "PV.C05.C05_charpoly_companion",
    "PV.C05.C05_charpoly_rmfd2ac_layout",
    "PV.C05.C05_charpoly_detA",
    "PV.C05.C05_charpoly_detA_companion",
    "PV.C05.C05_charpoly_HI",
    "PV.C05.C05_charpoly_degree",
    "PV.C05.C05_detA_degree",
    "PV.C05.C05_detA_ne_zero",
    "PV.C05.C05_eigenvalue_iff",
    "PV.C05.C05_charpoly_roots",
    "PV.C05.C05_rootMultiplicity",
    "PV.C05.C05_rootMultiplicity_companion",
    "PV.C05.C05_LO_zero_multiplicity",
    "PV.C05.C05_card_roots",
    "PV.C05.C05_rmfd2ac_charpoly",
    # end-to-end chain (Props/C05E2E.lean): exact rational spectrum -> normalised denominator -> charpoly/eigenvalues of
    # the rmfd2ac matrix -> pole-table column; orders above n
    "PV.C05.C05_e2e_denominator",
    "PV.C05.C05_e2e_numerator",
    "PV.C05.C05_e2e_roots",
    "PV.C05.C05_e2e_charpoly_normalised",
    "PV.C05.C05_e2e_reciprocal",
    "PV.C05.C05_e2e_table",
    "PV.C05.C05_e2e_nan_pattern",
    "PV.C05.C05_e2e_above_singular",
    "PV.C05.C05_plscfOrder_block_solve",
    "PV.C05.C05_e2e_above_none_of_complete",
    "PV.C05.C05_e2e_above_none",
    "PV.C05.C05_e2e_inj_of_run",
    "PV.C05.C05_e2e_Ro_inj_of_run",
    "PV.C05.C05_e2e_roots_closed",
    "PV.C05.C05_e2e_table_closed",
    # completeness of the exact elimination that models np.linalg.solve (Lemmas/GaussComplete.lean, Std.Do/mvcgen on
    # the imperative model as written): a returned gaussJordan certifies a left inverse
    "PV.Plscf.gaussJordan_leftInv",
    "PV.Plscf.solveChecked_injective",
    "PV.C05.e2e_fit",
    "PV.C05.e2e_run",
    "PV.C05.e2e_inj",
    "PV.C05.e2e_rm",
    "PV.C05.e2e_detA_roots",
    "PV.C05.e2e_rec",
    "PV.Mutants.C05.real_ok",
    "PV.Mutants.C05.forwardOrder_fails",
    "PV.Mutants.C05.dropMinus_fails",
    "PV.Mutants.C05.superDiagonal_fails",
    "PV.Mutants.C05.blankNegative_fails",
    "PV.Mutants.C05.padShort_fails",
    "PV.Mutants.C05.noInfFix_fails",
    # depth round: the pLSCF pole table composed with the hard criteria -> the STORED tables
    "PV.C05Stored.C05_stored",
    # the same over what the executable models plscfAll / plscfPoles return (column n-1 derived; no hrun/hrm/inputs/hin/k)
    "PV.C05StoredTable.C05_stored_model",
    "PV.C05StoredTable.C05_e2e_nan_pattern_model",
    "PV.C05Stored.Ex.stored",
    # the loops of pLSCF / pLSCF_poles as model functions (Model/Poles.lean plscfAll, plscfPoles): column k = order k+1, one sign for constraint and basis, table width derived
    "PV.Plscf.plscfAll_get",
    "PV.Plscf.plscfPoles_get",
    "PV.C05.C05_table_width",
    "PV.C05.C05_e2e_table_model",
    "PV.C05.e2e_all",
    "PV.C05.e2e_poles",
    "PV.C05.e2e_rec_model",
    "PV.C05.e2e_table_model",
    # orders above the true one through the whole call, independence of ordmax, number of reported poles (Props/C05Count.lean)
    "PV.Plscf.plscfAll_error",
    "PV.Plscf.plscfAll_error_of_none",
    "PV.Plscf.plscfAll_take",
    "PV.C05.C05_plscfAll_above_error",
    "PV.C05.C05_e2e_ordmax_eq",
    "PV.C05.C05_order_prefix",
    "PV.C05.C05_order_column_independent",
    "PV.C05.C05_e2e_count",
    "PV.C05.e2e_log",
]
RULE = (
    "correspondence: rmfd2ac on random coefficient stacks (identity / unimodular / float leading block, equal and unequal "
    "stack lengths, singular leading block) vs the exact rational model at 1e-10*cond; ac2mp_poly with np.linalg.eig wrapped "
    "in-process and its recorded eigenpairs, np.log values, 1/dt and the window shift 1/(tau*dt) handed to the model (NaN pattern exact, values 1e-12, "
    "mode shapes 1e-9 away from argmax ties); pLSCF_poles padding with ac2mp_poly wrapped (exact cells, exact NaN pattern, "
    "ValueError stream); pLSCF normal equations on the code's own Omega floats (orders <= 3, <= 3 channels, 1e-7 with "
    "cond(M22) guard). oracle: exact rational spectra B(z)A(z)^-1 built from random real A, B; denominators vs normalised "
    "truth, order-n pole column vs roots of det A(z) from an independent generalised eigenproblem, fn/xi map, NaN pattern. "
    "numerator amplitudes 1e-8..1e8; after the extraction the coefficient lists must be unchanged (the denominator that "
    "accompanies the poles is the one judged) and a second extraction identical; every modelled function must leave its "
    "arguments untouched; class layer: algorithms.pLSCF via SingleSetup with random non-default parameters and data "
    "amplitudes 1e-8..1e8 — stored Ad/Bn are pLSCF(result.Sy), stored poles are poles of that model, data untouched, "
    "second object and second run identical. pLSCF[orders 4..8]: one pass of the exact model at orders 4..8 (Nch <= 2 quick, "
    "<= 3 thorough) against the real call, 1e-13*cond(M22); pLSCF[above n]: the real call run to ordmax+extra, its first "
    "ordmax entries against the model run to ordmax (C05_order_prefix); pLSCF_poles[pad]/[loop] with Nref != Nch and "
    "orders up to 8; np.log contract (exp(log z) = z to 1e-13, Re log z > 0 iff |z|^2 > 1 outside a 1e-12 band) on every "
    "recorded eigenvalue. distinct = (function, shape/sign/branch) keys"
)
EXTRA_TRUSTED = [
    "np.linalg.eig (its recorded output is a parameter of the ac2mp_poly model), np.log, float sqrt/abs, 2*pi",
    "np.linalg.solve: modelled by exact elimination whose result is re-checked (A.X = B) inside the model; the float "
    "solve is compared with it under a conditioning guard",
]
ASSUMPTIONS = [
    "oracle cases with design-matrix condition number > 1e4, cond A(z_f) > 1e4, a root within 1e-6 of the unit circle or "
    "an eigenvalue condition number > 1e5 are skipped and counted",
    "mode-shape cells whose two largest components are within 1e-7 (argmax tie) are not compared",
    "pLSCF_poles is exercised with methodSy='per' in the oracle; the 'cor' shift (F3, property C08) is modelled as coded "
    "and covered by the correspondence only",
]


def _pl():
    from pyoma2.functions import plscf

    return plscf


# ----------------------------------------------------------------------------- helpers
def _cx_or_none(z):
    z = complex(z)
    if not (math.isfinite(z.real) and math.isfinite(z.imag)):
        return None
    return Cx(z)


def _r_or_none(x):
    x = float(x)
    return R(x) if math.isfinite(x) else None


def _stack(a):
    return [Rmat(m) for m in a]


class _Patch:
    """temporarily replace an attribute and record calls"""

    def __init__(self, obj, name, wrap):
        self.obj, self.name, self.wrap = obj, name, wrap

    def __enter__(self):
        self.orig = getattr(self.obj, self.name)
        setattr(self.obj, self.name, self.wrap(self.orig))
        return self

    def __exit__(self, *a):
        setattr(self.obj, self.name, self.orig)


def _unimodular(g, m):
    U = np.eye(m)
    for _ in range(2 * m):
        i, j = g.integers(0, m, 2)
        if i != j:
            U[i] += g.integers(-2, 3) * U[j]
    return U


# ----------------------------------------------------------------------------- correspondence: rmfd2ac
def _corr_rmfd2ac(ctx, pl):
    rng = ctx.rng
    for k in range(ctx.n(150, 1500)):
        g = ctx.nprng()
        m = rng.randint(1, 4)
        l = rng.randint(1, 4)
        nA = rng.randint(1, 5)
        nB = nA if rng.random() < 0.8 else rng.randint(1, 5)
        kind = rng.choice(["eye", "unimod", "float", "int", "singular"] if k % 7 == 0 else ["eye", "unimod", "float", "int", "near_eye"])
        if rng.random() < 0.5:
            Ad = g.integers(-4, 5, size=(nA, m, m)).astype(float)
            Bn = g.integers(-4, 5, size=(nB, l, m)).astype(float)
        else:
            Ad = g.standard_normal((nA, m, m))
            Bn = g.standard_normal((nB, l, m))
        if kind == "eye":
            Ad[-1] = np.eye(m)
        elif kind == "near_eye":
            # a leading coefficient close to, but not, the identity (a nearly self-reciprocal denominator with the
            # low-order constraint): it must be divided out all the same
            Ad[-1] = (np.eye(m) + 10.0 ** -rng.uniform(5.2, 9.0) * np.diag(g.standard_normal(m))
                      + 10.0 ** -rng.uniform(8.5, 10.0) * g.standard_normal((m, m)))
        elif kind == "unimod":
            Ad[-1] = _unimodular(g, m)
        elif kind == "int":
            Ad[-1] = g.integers(-3, 4, size=(m, m)).astype(float)
        elif kind == "singular":
            Ad[-1] = g.integers(-3, 4, size=(m, m)).astype(float)
            Ad[-1][:, 0] = 0.0
        inp = {"Ad": _stack(Ad), "Bn": _stack(Bn)}
        mod = ctx.model("plscf_rmfd2ac", **inp)
        Ad_in, Bn_in = Ad.copy(), Bn.copy()
        try:
            A, C = pl.rmfd2ac(Ad, Bn)
            raised = None
        except np.linalg.LinAlgError as e:
            raised = str(e)
        # the model is a pure function of its arguments: so must the code be
        ctx.corr("rmfd2ac[inputs kept]", np.array_equal(Ad, Ad_in) and np.array_equal(Bn, Bn_in), inp,
                 "unchanged", {"Ad": Ad.tolist(), "Bn": Bn.tolist()}, None)
        Ad, Bn = Ad_in, Bn_in
        pairs = min(nA, nB) - 1
        key = (kind, m, l, nA, nB)
        ctx.count(f"rmfd2ac_{kind}")
        if nA != nB:
            ctx.count("rmfd2ac_unequal_len")
        if mod is None or raised is not None:
            # exactly singular leading block (only reached when at least one solve runs)
            ok = (mod is None) == (raised is not None)
            if not ok and mod is None and pairs > 0 and np.linalg.cond(Ad[-1]) > 1e12:
                ctx.skipped += 1  # float LU did not notice an exactly singular matrix
                continue
            ctx.corr("rmfd2ac", ok, inp, mod, raised if raised else "returned", key + ("raise",))
            continue
        cond = np.linalg.cond(Ad[-1]) if pairs > 0 else 1.0
        if cond > 1e6:
            ctx.skipped += 1
            continue
        MA, MC = np.array(flmat(mod["A"])), np.array(flmat(mod["C"]))
        if MA.size == 0:
            MA = MA.reshape(A.shape)
        if MC.size == 0:
            MC = MC.reshape(C.shape)
        tol = 1e-13 * max(cond, 1.0) * 10
        ok = A.shape == MA.shape and C.shape == MC.shape and max_rel_err(A, MA) <= tol and max_rel_err(C, MC) <= tol * 10
        # discrete structure exactly: zero pattern of the identity part and of the extra block column
        if ok and A.size:
            ok = np.array_equal(A[m:, :], MA[m:, :]) and np.array_equal(A[:, pairs * m :], MA[:, pairs * m :])
        ctx.corr("rmfd2ac", ok, inp, {"A": MA.tolist(), "C": MC.tolist()}, {"A": A.tolist(), "C": C.tolist()}, key)
        if k == 0:
            ctx.sample({"fn": "rmfd2ac", "m": m, "l": l, "lenA": nA, "lenB": nB, "kind": kind})


# ----------------------------------------------------------------------------- correspondence: ac2mp_poly
def _eig_recorder(store):
    def wrap(orig):
        def eig(a, *args, **kw):
            out = orig(a, *args, **kw)
            store.append((np.array(a, copy=True), np.array(out[0], copy=True), np.array(out[1], copy=True)))
            return out

        return eig

    return wrap


def _gen_AC(ctx, pl):
    rng = ctx.rng
    g = ctx.nprng()
    r = rng.random()
    if r < 0.12:
        # poles a hair on either side of the stability boundary (rotation-scaling blocks of radius 1 +- 1e-9..1e-12, mixed by an
        # orthogonal matrix): "non-positive real part" is an exact comparison, not one up to a tolerance
        nb = rng.randint(1, 2)
        k = 2 * nb
        D = np.zeros((k, k))
        for b in range(nb):
            rad = 1.0 + rng.choice([-1.0, 1.0]) * 10.0 ** -rng.uniform(9.0, 12.0)
            th = rng.uniform(0.3, 2.8)
            D[2 * b : 2 * b + 2, 2 * b : 2 * b + 2] = rad * np.array([[math.cos(th), math.sin(th)], [-math.sin(th), math.cos(th)]])
        Q, _ = np.linalg.qr(g.standard_normal((k, k)))
        return Q @ D @ Q.T, g.standard_normal((rng.randint(1, 3), k)), "near_boundary"
    if r < 0.45:  # a companion pair from rmfd2ac
        m, l, n = rng.randint(1, 3), rng.randint(1, 3), rng.randint(2, 4)
        Ad = g.standard_normal((n, m, m))
        Ad[-1] = np.eye(m) + 0.3 * g.standard_normal((m, m))
        Ad[0] = np.eye(m) + 0.3 * g.standard_normal((m, m))
        Bn = g.standard_normal((n, l, m))
        A, C = pl.rmfd2ac(Ad, Bn)
        return A, C, "companion"
    if r < 0.8:
        k, l = rng.randint(1, 6), rng.randint(1, 3)
        A = g.standard_normal((k, k)) * rng.choice([0.3, 0.6, 1.0]) / math.sqrt(k)
        C = g.standard_normal((l, k))
        return A, C, "dense"
    k, l = rng.randint(1, 5), rng.randint(1, 3)
    A = np.diag([rng.choice([1.0, 0.5, 2.0, -1.0, 0.0, -0.5, 0.25]) for _ in range(k)])
    C = g.integers(-3, 4, size=(l, k)).astype(float)
    return A, C, "diag"


def _corr_ac2mp(ctx, pl):
    rng = ctx.rng
    for k in range(ctx.n(150, 1500)):
        A, C, kind = _gen_AC(ctx, pl)
        dt = 10 ** rng.uniform(-3, 0.3)
        method = rng.choice(["per", "cor"])
        nxseg = rng.choice([64, 128, 1000, 1024])
        store = []
        A_in, C_in = A.copy(), C.copy()
        with _Patch(np.linalg, "eig", _eig_recorder(store)):
            fn, xi, phi, lam_c = pl.ac2mp_poly(A, C, dt, method, nxseg)
        ctx.corr("ac2mp_poly[inputs kept]", np.array_equal(A, A_in) and np.array_equal(C, C_in), None, "unchanged", None, None)
        A, C = A_in, C_in
        if len(store) != 1:
            ctx.corr("ac2mp_poly", False, {"note": "eig call count"}, None, len(store), None)
            continue
        Ae, lam_d, V = store[0]
        lam_d = np.asarray(lam_d, complex)
        V = np.asarray(V, complex)
        # the recorded eigen-record satisfies the contract the pole-table theorems assume: A V = V diag(lambda) to rounding
        if V.size:
            ctx.contract("eig", np.abs(np.asarray(Ae, complex) @ V - V * lam_d[None, :]).max() / max(np.abs(Ae).max(), 1e-300), 1e-8, "A V = V diag(lambda)")
        logv = np.log(lam_d)
        _log_contract(ctx, lam_d, logv)
        invdt = 1 / dt
        tau = -(nxseg - 1) / np.log(0.01)
        invtau = 1 / (tau * dt)  # the shift as coded after the repair of F3 (C08)
        eigs = []
        for ii in range(len(lam_d)):
            lv = logv[ii]
            eigs.append(
                {
                    "lamd": Cx(lam_d[ii]),
                    "logv": Cx(lv) if (math.isfinite(lv.real) and math.isfinite(lv.imag)) else Cx(0),
                    "q": [Cx(v) for v in V[:, ii]],
                }
            )
        inp = {"C": Rmat(C), "eigs": eigs, "invdt": R(invdt), "cor": method == "cor", "invtau": R(float(invtau))}
        mod = ctx.model("plscf_ac2mp", **inp)
        ok = True
        why = ""
        nblank = nzero = 0
        for ii in range(len(lam_d)):
            mlam, mfn, mxi, mphi = mod["lam"][ii], mod["fn"][ii], mod["xi"][ii], mod["phi"][ii]
            il = complex(lam_c[ii])
            fin = math.isfinite(il.real) and math.isfinite(il.imag)
            if (mlam is None) != (not fin):
                ok, why = False, f"lam pattern {ii}"
                break
            if lam_d[ii] == 0:
                nzero += 1
            if mlam is None:
                nblank += 1
                if not (math.isnan(fn[ii]) or math.isinf(fn[ii])) or not math.isnan(xi[ii]) or mfn is not None or mxi is not None:
                    ok, why = False, f"fn/xi of blank {ii}"
                    break
            else:
                ml = cfl(mlam)
                if abs(ml - il) > 1e-12 * max(abs(il), 1e-300) + 1e-300:
                    ok, why = False, f"lam value {ii}"
                    break
                f_m = math.sqrt(fl(mfn)) / (2 * math.pi)
                if abs(f_m - fn[ii]) > 1e-12 * max(abs(fn[ii]), 1e-300):
                    ok, why = False, f"fn value {ii}"
                    break
                if mxi is None:
                    if not math.isnan(xi[ii]):
                        ok, why = False, f"xi nan {ii}"
                        break
                else:
                    x_m = fl(mxi) * math.sqrt(fl(mfn))
                    if math.isnan(xi[ii]) or abs(x_m - xi[ii]) > 1e-12 * max(1.0, abs(xi[ii])):
                        ok, why = False, f"xi value {ii}"
                        break
            # mode shape
            row = np.asarray(phi[ii], complex)
            inan = bool(np.isnan(row).any())
            if (mphi is None) != inan:
                ok, why = False, f"phi pattern {ii}"
                break
            if mphi is not None:
                raw = C @ V[:, ii]
                mags = np.sort(np.abs(raw))[::-1]
                cancel = (np.abs(C) @ np.abs(V[:, ii])).max()
                if (len(mags) > 1 and mags[0] - mags[1] <= 1e-7 * mags[0]) or mags[0] < 1e-6 * cancel:
                    ctx.count("ac2mp_phi_tie_skipped")
                else:
                    mrow = np.array([cfl(v) for v in mphi])
                    if mrow.shape != row.shape or np.abs(mrow - row).max() > 1e-9:
                        ok, why = False, f"phi value {ii}"
                        break
        ctx.count(f"ac2mp_{kind}")
        ctx.count("ac2mp_blank_cells", nblank)
        ctx.count("ac2mp_zero_eigs", nzero)
        ctx.corr(
            "ac2mp_poly", ok, inp | {"why": why}, mod,
            {"fn": fn, "xi": xi, "lam": lam_c, "phi": phi},
            (kind, A.shape[0], C.shape[0], method, nblank > 0, nzero > 0),
        )
        if k == 0:
            ctx.sample({"fn": "ac2mp_poly", "kind": kind, "states": A.shape[0], "dt": dt, "method": method})


# ----------------------------------------------------------------------------- correspondence: pLSCF_poles padding
def _col_json(fn, xi, phi, lam):
    return {
        "fn": [_r_or_none(v) for v in fn],
        "xi": [_r_or_none(v) for v in xi],
        "lam": [_cx_or_none(v) for v in lam],
        "phi": [None if np.isnan(np.asarray(r, complex)).any() else [Cx(v) for v in r] for r in phi],
    }


def _same_cell(m, x, cx):
    if m is None:
        x = complex(x)
        return math.isnan(x.real) or math.isnan(x.imag)
    if cx:
        return cfl(m) == complex(x)
    return fl(m) == float(x)


def _corr_pad(ctx, pl):
    rng = ctx.rng
    for k in range(ctx.n(80, 800)):
        g = ctx.nprng()
        m = rng.randint(1, 3)
        # the class always passes Nref == Nch; the function does not need it: C.shape[0] (= l) is the width of a shape row
        l = m if rng.random() < 0.5 else rng.randint(1, 4)
        ctx.count("pad_l_eq_m" if l == m else "pad_l_ne_m")
        ncols = rng.randint(1, 5)
        mono = rng.random() < 0.75
        if mono:
            orders = list(range(1, ncols + 1))
        else:
            orders = [rng.randint(1, 4) for _ in range(ncols)]
        Ad, Bn = [], []
        for o in orders:
            a = g.standard_normal((o + 1, m, m)) * 0.7
            a[-1] = np.eye(m) + 0.3 * g.standard_normal((m, m))
            Ad.append(a)
            Bn.append(g.standard_normal((o + 1, l, m)))
        dt = 10 ** rng.uniform(-3, 0)
        method = rng.choice(["per", "cor"])
        rec = []

        def wrap(orig):
            def f(*a, **kw):
                out = orig(*a, **kw)
                rec.append(tuple(np.array(x, copy=True) for x in out))
                return out

            return f

        raised = None
        Ad_in = [a.copy() for a in Ad]
        Bn_in = [b.copy() for b in Bn]
        with _Patch(pl, "ac2mp_poly", wrap):
            try:
                Fn, Xi, Phi, Lam = pl.pLSCF_poles(Ad, Bn, dt, method, 256)
            except ValueError as e:
                raised = str(e)
        ctx.corr("pLSCF_poles[inputs kept]", _same_arrays(Ad, Ad_in) and _same_arrays(Bn, Bn_in),
                 {"orders": orders, "m": m}, "unchanged", None, None)
        cols = [_col_json(*r) for r in rec]
        inp = {"cols": cols}
        mod = ctx.model("plscf_pad", **inp)
        key = (tuple(orders), m, l, raised is not None)
        ctx.count("pad_monotone" if mono else "pad_any_order")
        if raised is not None or "raises" in mod:
            ctx.count("pad_raises")
            ctx.corr("pLSCF_poles[pad]", (raised is not None) and ("raises" in mod), {"orders": orders, "m": m}, mod if "raises" in mod else "tables", raised, key)
            continue
        ok = True
        lens = [len(c["fn"]) for c in cols]
        H = max(lens)
        ok = Fn.shape == (H, ncols) and Xi.shape == (H, ncols) and Lam.shape == (H, ncols) and Phi.shape == (lens[-1], ncols, l)
        ok = ok and len(mod["fn"]) == H and len(mod["phi"]) == lens[-1]
        if ok:
            for r in range(H):
                for c in range(ncols):
                    ok = ok and _same_cell(mod["fn"][r][c], Fn[r, c], False) and _same_cell(mod["xi"][r][c], Xi[r, c], False)
                    ok = ok and _same_cell(mod["lam"][r][c], Lam[r, c], True)
                    # the property's shape of the pattern: rows beyond the order's pole count are NaN
                    if r >= lens[c]:
                        ok = ok and mod["fn"][r][c] is None and math.isnan(Fn[r, c])
            for r in range(lens[-1]):
                for c in range(ncols):
                    cell = mod["phi"][r][c]
                    row = Phi[r, c, :]
                    if cell is None:
                        ok = ok and bool(np.isnan(row).any())
                    else:
                        ok = ok and all(cfl(v) == complex(x) for v, x in zip(cell, row))
        ctx.corr("pLSCF_poles[pad]", ok, {"orders": orders, "m": m, "dt": dt, "method": method}, None, None, key)
        if k == 0:
            ctx.sample({"fn": "pLSCF_poles", "orders": orders, "m": m, "rows": H})


# ----------------------------------------------------------------------------- correspondence: pLSCF normal equations
def _basis(Nf, dt, sgn):
    fs = 1 / dt
    freq = np.linspace(0.0, fs / 2, Nf)
    omega = 2 * np.pi * freq
    return np.exp(sgn * 1j * omega * dt)


def _corr_plscf(ctx, pl):
    rng = ctx.rng
    for k in range(ctx.n(40, 300)):
        g = ctx.nprng()
        n = rng.randint(1, 3)
        Nch = rng.randint(1, 3)
        Nref = rng.randint(1, 3)
        Nf = rng.randint(2 * (n + 1) + 2, 4 * (n + 1) + 6)
        dt = 10 ** rng.uniform(-3, 0)
        sgn = rng.choice([-1, 1])
        Om = _basis(Nf, dt, sgn)
        if rng.random() < 0.5:
            Sy = g.standard_normal((Nref, Nch, Nf)) + 1j * g.standard_normal((Nref, Nch, Nf))
            kind = "random"
        else:
            A, B = _gen_AB(g, n, Nch, Nref)
            Sy, _ = _spectrum(A, B, Om)
            kind = "rational"
        Sy = np.round(Sy * 2**20) / 2**20  # short dyadic values keep the exact arithmetic small
        Sy_in = Sy.copy()
        Ad, Bn = pl.pLSCF(Sy, dt, n, sgn)
        ctx.corr("pLSCF[inputs kept]", np.array_equal(Sy, Sy_in), {"n": n, "Nch": Nch, "Nref": Nref}, "unchanged", None, None)
        inp = {
            "n": n,
            "hi": sgn == 1,
            "Om": [Cx(z) for z in Om],
            "Sy": [[[Cx(Sy[o, c, f]) for f in range(Nf)] for c in range(Nch)] for o in range(Nref)],
        }
        mod = ctx.model("plscf_order", **inp)
        ctx.count(f"plscf_{kind}")
        if mod is None:
            ctx.corr("pLSCF", False, {"n": n, "Nch": Nch, "Nref": Nref, "Nf": Nf}, None, "returned", None)
            continue
        M = np.array(flmat(mod["M"]))
        M22 = M[: n * Nch, : n * Nch] if sgn == 1 else M[Nch:, Nch:]
        cnd = np.linalg.cond(M22)
        if cnd > 1e7:
            ctx.skipped += 1
            ctx.count("plscf_cond_skipped")
            continue
        al = np.array(flmat(mod["alpha"])).reshape(-1, Nch, Nch)
        be = np.moveaxis(np.array([flmat(b) for b in mod["beta"]]), 1, 0)
        ea = max_rel_err(Ad[n - 1], al)
        eb = max_rel_err(Bn[n - 1], be)
        ok = Ad[n - 1].shape == al.shape and Bn[n - 1].shape == be.shape and ea <= 1e-7 and eb <= 1e-7
        ctx.corr(
            "pLSCF", ok, {"n": n, "Nch": Nch, "Nref": Nref, "Nf": Nf, "dt": dt, "sgn": sgn, "kind": kind, "cond": cnd},
            {"err_alpha": ea, "err_beta": eb}, None, (n, Nch, Nref, sgn, kind),
        )
        if k == 0:
            ctx.sample({"fn": "pLSCF", "n": n, "Nch": Nch, "Nref": Nref, "Nf": Nf, "sgn": sgn, "err_alpha": ea})


# ----------------------------------------------------------------------------- correspondence: the two loops as model functions
def _log_contract(ctx, lam_d, logv):
    """the np.log contract of `C05_e2e_count` on one recorded eigen-decomposition: exp(log z) = z to rounding, and the
    sign form the theorem uses -- Re log z > 0 exactly when |z|^2 > 1, |z|^2 taken exactly on the recorded floats --
    outside a band of 1e-12 around the unit circle (inside it the float log may round to 0; counted)."""
    from fractions import Fraction

    for z, w in zip(lam_d, logv):
        z = complex(z)
        if z == 0:
            ctx.count("log_contract_zero_eigenvalue")
            continue
        w = complex(w)
        res = abs(np.exp(w) - z) / abs(z)
        n2 = Fraction(z.real) ** 2 + Fraction(z.imag) ** 2
        if abs(n2 - 1) <= Fraction(1, 10**12):
            ctx.count("log_contract_sign_band_skipped")
        elif (w.real > 0) != (n2 > 1):
            res = float("inf")
        ctx.contract("log", res, 1e-13 * max(1.0, abs(w)), "exp(log z) = z; Re log z > 0 iff |z|^2 > 1")


def _corr_poles_loop(ctx, pl):
    """pLSCF_poles against the model function `plscfPoles` (Model/Poles.lean): the loop over the list positions (rmfd2ac ->
    ac2mp_poly -> inf->nan), the padding, column ii = list position ii -- table VALUES cell by cell, the shapes, the
    matrices handed to np.linalg.eig, IndexError for a short Bn."""
    rng = ctx.rng
    for k in range(ctx.n(25, 300)):
        g = ctx.nprng()
        m = rng.randint(1, 3)
        l = m if rng.random() < 0.5 else rng.randint(1, 4)
        ctx.count("poles_loop_l_eq_m" if l == m else "poles_loop_l_ne_m")
        ncols = rng.randint(1, 4)
        if k % 8 == 3:
            # the whole range of the property: orders 1..8 (companion matrices up to 9*m square)
            m = rng.randint(1, 2)
            l = rng.randint(1, 3)
            ncols = rng.choice([7, 8])
            orders = list(range(1, ncols + 1))
            ctx.count("poles_loop_orders_to_%d" % ncols)
        elif rng.random() < 0.8:
            orders = list(range(1, ncols + 1))
        else:
            orders = sorted(rng.randint(1, 4) for _ in range(ncols))
        Ad, Bn = [], []
        for o in orders:
            a = g.standard_normal((o + 1, m, m)) * 0.7
            a[-1] = np.eye(m) + 0.3 * g.standard_normal((m, m))
            if rng.random() < 0.5:
                a[0] = np.eye(m)
            Ad.append(a)
            Bn.append(g.standard_normal((o + 1, l, m)))
        short = rng.random() < 0.1
        if short:
            Bn = Bn[:-1]
        dt = 10 ** rng.uniform(-3, 0)
        method = rng.choice(["per", "cor"])
        nxseg = rng.choice([64, 128, 1024])
        store = []
        raised = None
        try:
            with _Patch(np.linalg, "eig", _eig_recorder(store)):
                Fn, Xi, Phi, Lam = pl.pLSCF_poles(Ad, Bn, dt, method, nxseg)
        except (IndexError, ValueError, np.linalg.LinAlgError) as e:
            raised = type(e).__name__
        invdt = 1 / dt
        tau = -(nxseg - 1) / np.log(0.01)
        invtau = 1 / (tau * dt)
        eigs = []
        for (_Ae, lam_d, V) in store:
            lam_d = np.asarray(lam_d, complex)
            V = np.asarray(V, complex)
            with np.errstate(all="ignore"):
                logv = np.log(lam_d)
            _log_contract(ctx, lam_d, logv)
            eigs.append([{"lamd": Cx(lam_d[ii]), "logv": Cx(logv[ii]) if (math.isfinite(logv[ii].real) and math.isfinite(logv[ii].imag)) else Cx(0),
                          "q": [Cx(v) for v in V[:, ii]]} for ii in range(len(lam_d))])
        inp = {"Ad": [_stack(a) for a in Ad], "Bn": [_stack(b) for b in Bn], "eigs": eigs, "invdt": R(invdt), "cor": method == "cor",
               "invtau": R(float(invtau))}
        mod = ctx.model("plscf_poles", **inp)
        key = (tuple(orders), m, l, method, short)
        info = {"orders": orders, "m": m, "l": l, "dt": dt, "method": method, "short_Bn": short}
        if raised is not None or "raises" in mod:
            ctx.count(f"poles_loop_raises_{raised}")
            ctx.corr("pLSCF_poles[loop]", mod.get("raises") == raised, info, mod.get("raises"), raised, key)
            continue
        ok, why = True, ""
        H = max(len(e) for e in eigs)
        if not (list(Fn.shape) == mod["shape"] == [H, len(Ad)] and Xi.shape == Fn.shape and Lam.shape == Fn.shape and Phi.shape == (len(eigs[-1]), len(Ad), l)
                and len(mod["eigargs"]) == len(store) == len(Ad)):
            ok, why = False, "shape"
        for c in range(len(Ad)):
            if not ok:
                break
            Ae, lam_d, V = store[c]
            cond = np.linalg.cond(Ad[c][-1])
            MA = np.array(flmat(mod["eigargs"][c])).reshape(np.asarray(Ae).shape)
            if max_rel_err(Ae, MA) > 1e-12 * max(cond, 1.0):
                ok, why = False, f"eig argument {c}"
                break
            Cc = pl.rmfd2ac(Ad[c], Bn[c])[1]
            for r in range(H):
                mlam, mfn, mxi = mod["lam"][r][c], mod["fn"][r][c], mod["xi"][r][c]
                il = complex(Lam[r, c])
                fin = math.isfinite(il.real) and math.isfinite(il.imag)
                if (mlam is None) != (not fin) or (r >= len(lam_d) and mlam is not None):
                    ok, why = False, f"lam pattern {r},{c}"
                    break
                if mlam is None:
                    if not math.isnan(Fn[r, c]) or not math.isnan(Xi[r, c]) or mfn is not None or mxi is not None:
                        ok, why = False, f"fn/xi of blank {r},{c}"
                        break
                    continue
                if abs(cfl(mlam) - il) > 1e-12 * max(abs(il), 1e-300) + 1e-300:
                    ok, why = False, f"lam value {r},{c}"
                    break
                f_m = math.sqrt(fl(mfn)) / (2 * math.pi)
                if abs(f_m - Fn[r, c]) > 1e-12 * max(abs(Fn[r, c]), 1e-300):
                    ok, why = False, f"fn value {r},{c}"
                    break
                if mxi is None:
                    if not math.isnan(Xi[r, c]):
                        ok, why = False, f"xi nan {r},{c}"
                        break
                else:
                    x_m = fl(mxi) * math.sqrt(fl(mfn))
                    if math.isnan(Xi[r, c]) or abs(x_m - Xi[r, c]) > 1e-12 * max(1.0, abs(Xi[r, c])):
                        ok, why = False, f"xi value {r},{c}"
                        break
            for r in range(len(eigs[-1])):
                if not ok:
                    break
                cell = mod["phi"][r][c]
                row = np.asarray(Phi[r, c, :], complex)
                if (cell is None) != bool(np.isnan(row).any()):
                    ok, why = False, f"phi pattern {r},{c}"
                    break
                if cell is not None:
                    raw = Cc @ np.asarray(V, complex)[:, r]
                    mags = np.sort(np.abs(raw))[::-1]
                    cancel = (np.abs(Cc) @ np.abs(np.asarray(V)[:, r])).max()
                    if (len(mags) > 1 and mags[0] - mags[1] <= 1e-7 * mags[0]) or mags[0] < 1e-6 * cancel:
                        ctx.count("poles_loop_phi_tie_skipped")
                    elif np.abs(np.array([cfl(v) for v in cell]) - row).max() > 1e-9 * max(cond, 1.0):
                        ok, why = False, f"phi value {r},{c}"
                        break
        ctx.corr("pLSCF_poles[loop]", ok, info | {"why": why}, None, None, key)


def _corr_plscf_all(ctx, pl):
    """pLSCF against the model function `plscfAll`: ONE sign decides the constraint and the basis (the model is given what
    np.exp(s*1j*omega*dt) returns for s = -1, +1 and picks by sgn_basf), the loop over the orders, reshape/moveaxis in the
    model, both lists compared entry by entry; sgn_basf outside {-1, 1} -> UnboundLocalError."""
    rng = ctx.rng
    for k in range(ctx.n(16, 150)):
        g = ctx.nprng()
        n = rng.randint(1, 3)
        ordmax = rng.randint(1, n) if rng.random() < 0.9 else 0
        Nch = rng.randint(1, 3)
        Nref = rng.randint(1, 2)
        Nf = rng.randint(2 * (n + 1) + 2, 4 * (n + 1) + 4)
        dt = 10 ** rng.uniform(-3, 0)
        sgn = rng.choice([-1, 1]) if k % 6 != 5 else rng.choice([0, 2, -2])
        Om = _basis(Nf, dt, sgn)
        if rng.random() < 0.5:
            Sy = g.standard_normal((Nref, Nch, Nf)) + 1j * g.standard_normal((Nref, Nch, Nf))
            kind = "random"
        else:
            A, B = _gen_AB(g, n, Nch, Nref)
            Sy, _ = _spectrum(A, B, _basis(Nf, dt, sgn if sgn in (-1, 1) else 1))
            kind = "rational"
        Sy = np.round(Sy * 2**20) / 2**20
        raised = None
        # `C05_order_prefix`: what the call stores for the orders 1..ordmax does not depend on how many higher orders
        # follow -- the real call runs up to ordmax + extra (for the rational kind with ordmax = n: ABOVE the true order,
        # where exact arithmetic has no value, `C05_plscfAll_above_error`, and floats return some element of the solution
        # family), the model up to ordmax, and the first ordmax entries are compared
        extra = rng.choice([0, 0, 1, 2]) if (sgn in (-1, 1) and ordmax >= 1) else 0
        ctx.count(f"plscf_all_extra_{extra}")
        if extra and kind == "rational" and ordmax == n:
            ctx.count("plscf_all_above_true_order")
        try:
            Ad, Bn = pl.pLSCF(Sy, dt, ordmax + extra, sgn)
            if extra:
                ok_len = len(Ad) == len(Bn) == ordmax + extra and all(
                    Ad[j].shape == (j + 2, Nch, Nch) and Bn[j].shape == (j + 2, Nref, Nch) for j in range(ordmax + extra))
                ctx.corr("pLSCF[above n]", ok_len, {"ordmax": ordmax, "extra": extra, "Nch": Nch, "Nref": Nref}, "shapes", None,
                         (ordmax, extra, Nch, Nref, sgn, kind))
                Ad, Bn = Ad[:ordmax], Bn[:ordmax]
        except (UnboundLocalError, np.linalg.LinAlgError) as e:
            raised = type(e).__name__
            if extra:
                # a singular solve above ordmax took the lower orders with it (floats: rare): nothing to compare
                ctx.skipped += 1
                ctx.count("plscf_all_extra_raised")
                continue
        syj = [[[Cx(Sy[o, c, f]) for f in range(Nf)] for c in range(Nch)] for o in range(Nref)]
        omof = [[s_, [Cx(z) for z in _basis(Nf, dt, s_)]] for s_ in sorted({-1, 1, sgn})]
        mod = ctx.model("plscf_all", Sy=syj, ordmax=ordmax, sgn=sgn, OmOf=omof)
        key = (ordmax, Nch, Nref, sgn, kind, extra)
        info = {"n": n, "ordmax": ordmax, "extra": extra, "Nch": Nch, "Nref": Nref, "Nf": Nf, "dt": dt, "sgn": sgn, "kind": kind}
        ctx.count(f"plscf_all_sgn_{sgn}")
        if raised is not None or "raises" in mod:
            ctx.corr("pLSCF[all orders]", mod.get("raises") == raised, info, mod.get("raises"), raised, key)
            continue
        ok = len(Ad) == len(mod["Ad"]) == ordmax and len(Bn) == len(mod["Bn"]) == ordmax
        worst = 0.0
        for j in range(ordmax if ok else 0):
            al = np.array([flmat(b) for b in mod["Ad"][j]])
            be = np.array([flmat(b) for b in mod["Bn"][j]])
            if al.shape != Ad[j].shape or be.shape != Bn[j].shape or al.shape != (j + 2, Nch, Nch) or be.shape != (j + 2, Nref, Nch):
                ok = False
                break
            e = max(max_rel_err(Ad[j], al), max_rel_err(Bn[j], be))
            if e > 1e-7:
                # rounding of an ill-conditioned constrained solve?  the normal matrix of that order from the one-order op
                mo = ctx.model("plscf_order", n=j + 1, hi=sgn == 1, Om=[Cx(z) for z in Om], Sy=syj)
                M = np.array(flmat(mo["M"]))
                M22 = M[: (j + 1) * Nch, : (j + 1) * Nch] if sgn == 1 else M[Nch:, Nch:]
                if np.linalg.cond(M22) > 1e7:
                    ctx.skipped += 1
                    ctx.count("plscf_all_cond_skipped")
                    continue
                ok = False
                break
            worst = max(worst, e)
        ctx.corr("pLSCF[all orders]", ok, info, {"worst": worst}, None, key)



def _corr_plscf_high(ctx, pl):
    """the upper half of the property's range of orders (4..8; `pLSCF` stream: <= 3): the order-n entries of the real call
    against ONE pass `plscfOrder` of the exact model at that order (Nch 1..2: the exact elimination of the 9*Nch square
    normal matrix is the cost), both signs, random and rational spectra, 1e-13*cond(M22)."""
    import sys

    # exact rationals of the order-8 elimination have numerators beyond Python's default 4300-digit parsing limit
    if hasattr(sys, "set_int_max_str_digits"):
        sys.set_int_max_str_digits(0)
    rng = ctx.rng
    plan = [(rng.choice([7, 8]), 1), (rng.choice([4, 5, 6]), 2), (rng.choice([7, 8]), 2), (rng.choice([4, 5, 6, 7, 8]), 1)]
    if ctx.tier != "quick":
        plan += [(n, nch) for n in (4, 5, 6, 7, 8) for nch in (1, 2, 2)] + [(6, 3), (8, 3)]
    for k, (n, Nch) in enumerate(plan):
        g = ctx.nprng()
        Nref = rng.randint(1, 2) if Nch == 1 else 1
        Nf = rng.randint(4 * (n + 1), 4 * (n + 1) + 6)
        dt = 10 ** rng.uniform(-3, 0)
        sgn = rng.choice([-1, 1])
        Om = _basis(Nf, dt, sgn)
        if k % 2 == 0:
            Sy = g.standard_normal((Nref, Nch, Nf)) + 1j * g.standard_normal((Nref, Nch, Nf))
            kind = "random"
        else:
            A, B = _gen_AB(g, n, Nch, Nref)
            Sy, _ = _spectrum(A, B, Om)
            kind = "rational"
        Sy = np.round(Sy * 2**16) / 2**16
        Ad, Bn = pl.pLSCF(Sy, dt, n, sgn)
        mod = ctx.model("plscf_order", n=n, hi=sgn == 1, Om=[Cx(z) for z in Om],
                        Sy=[[[Cx(Sy[o, c, f]) for f in range(Nf)] for c in range(Nch)] for o in range(Nref)])
        ctx.count(f"plscf_high_order_{n}")
        info = {"n": n, "Nch": Nch, "Nref": Nref, "Nf": Nf, "dt": dt, "sgn": sgn, "kind": kind}
        if mod is None:
            ctx.corr("pLSCF[orders 4..8]", False, info, None, "returned", None)
            continue
        M = np.array(flmat(mod["M"]))
        M22 = M[: n * Nch, : n * Nch] if sgn == 1 else M[Nch:, Nch:]
        cnd = np.linalg.cond(M22)
        if cnd > 1e7:
            ctx.skipped += 1
            ctx.count("plscf_high_cond_skipped")
            continue
        al = np.array(flmat(mod["alpha"])).reshape(-1, Nch, Nch)
        be = np.moveaxis(np.array([flmat(b) for b in mod["beta"]]), 1, 0)
        ok = len(Ad) == n and Ad[n - 1].shape == al.shape and Bn[n - 1].shape == be.shape
        ea = max_rel_err(Ad[n - 1], al) if ok else float("inf")
        eb = max_rel_err(Bn[n - 1], be) if ok else float("inf")
        tol = 1e-13 * max(cnd, 10.0)
        ctx.dist["margin_plscf_high"] = max(ctx.dist.get("margin_plscf_high", 0.0), max(ea, eb) / tol)
        ctx.corr("pLSCF[orders 4..8]", ok and ea <= tol and eb <= tol, info | {"cond": cnd}, {"err_alpha": ea, "err_beta": eb}, None,
                 (n, Nch, Nref, sgn, kind))


def correspondence(ctx):
    pl = _pl()
    _corr_rmfd2ac(ctx, pl)
    _corr_ac2mp(ctx, pl)
    _corr_pad(ctx, pl)
    _corr_plscf(ctx, pl)
    _corr_poles_loop(ctx, pl)
    _corr_plscf_all(ctx, pl)
    _corr_plscf_high(ctx, pl)


# ----------------------------------------------------------------------------- oracle
def _gen_AB(g, n, Nch, Nref, spread=0.6):
    A = spread * g.standard_normal((n + 1, Nch, Nch)) / math.sqrt(Nch)
    A[0] = np.eye(Nch) + 0.3 * g.standard_normal((Nch, Nch)) / math.sqrt(Nch)
    A[n] = np.eye(Nch) + 0.3 * g.standard_normal((Nch, Nch)) / math.sqrt(Nch)
    B = g.standard_normal((n + 1, Nref, Nch))
    return A, B


def _spectrum(A, B, Om):
    """Sy[:, :, f] = B(z_f) A(z_f)^-1 on the basis values z_f"""
    n = A.shape[0] - 1
    Nref, Nch = B.shape[1:]
    Sy = np.zeros((Nref, Nch, len(Om)), complex)
    worst = 0.0
    for f, z in enumerate(Om):
        Az = sum(A[k] * z**k for k in range(n + 1))
        Bz = sum(B[k] * z**k for k in range(n + 1))
        worst = max(worst, np.linalg.cond(Az))
        Sy[:, :, f] = np.linalg.solve(Az.T, Bz.T).T
    return Sy, worst


def _design_cond(Sy, Om, n, c):
    """condition number of the real least-squares design matrix of the unconstrained unknowns"""
    Nref, Nch, Nf = Sy.shape
    X = np.array([Om**i for i in range(n + 1)]).T
    keep = [J for J in range((n + 1) * Nch) if J // Nch != c]
    rows = []
    for o in range(Nref):
        Y = np.array([-np.kron(X[f], Sy[o, :, f]) for f in range(Nf)])
        blk = np.zeros((Nf, Nref * (n + 1)), complex)
        blk[:, o * (n + 1) : (o + 1) * (n + 1)] = X
        rows.append(np.hstack([blk, Y[:, keep]]))
    D = np.vstack(rows)
    D = np.vstack([D.real, D.imag])
    # columns equilibrated: the fit is invariant under a common amplitude of the spectrum
    D = D / np.maximum(np.linalg.norm(D, axis=0), 1e-300)
    s = np.linalg.svd(D, compute_uv=False)
    return s[0] / max(s[-1], 1e-300)


def _true_roots(A):
    """roots of det A(z) from the generalised eigenproblem of a linearisation that shares nothing with rmfd2ac
    (first-companion pencil z*E - F, no inverse of the leading coefficient); also eigenvalue condition numbers"""
    import scipy.linalg as sl

    n = A.shape[0] - 1
    Nch = A.shape[1]
    N = n * Nch
    E = np.eye(N)
    E[-Nch:, -Nch:] = A[n]
    F = np.zeros((N, N))
    for k in range(n - 1):
        F[k * Nch : (k + 1) * Nch, (k + 1) * Nch : (k + 2) * Nch] = np.eye(Nch)
    for k in range(n):
        F[-Nch:, k * Nch : (k + 1) * Nch] = -A[k]
    w, vl, vr = sl.eig(F, E, left=True, right=True)
    kap = []
    for i in range(N):
        den = abs(vl[:, i].conj() @ E @ vr[:, i])
        kap.append(np.linalg.norm(vl[:, i]) * np.linalg.norm(vr[:, i]) / max(den, 1e-300))
    return w, max(kap) if kap else 1.0


def _same_arrays(xs, ys):
    """bitwise equality (NaN == NaN) of two lists of arrays"""
    if len(xs) != len(ys):
        return False
    for x, y in zip(xs, ys):
        x, y = np.asarray(x), np.asarray(y)
        if x.shape != y.shape or not np.array_equal(x, y, equal_nan=True):
            return False
    return True


def _judge(ctx, pl, A, B, dt, sgn, Nf, extra, tag):
    """one oracle case; returns nothing, records violations"""
    n = A.shape[0] - 1
    Nref, Nch = B.shape[1:]
    Om = _basis(Nf, dt, sgn)
    Sy, worstA = _spectrum(A, B, Om)
    c = 0 if sgn == -1 else n
    z, kap = _true_roots(A)
    unit_gap = float(np.min(np.abs(np.abs(z) - 1))) if len(z) else 1.0
    if worstA > 1e4 or unit_gap < 1e-6 or kap > 1e5:
        ctx.skipped += 1
        return
    kD = _design_cond(Sy, Om, n, c)
    if kD > 1e4:
        ctx.skipped += 1
        return
    inp = {"A": A.tolist(), "B": B.tolist(), "dt": dt, "sgn": int(sgn), "Nf": Nf, "ordmax": n + extra}
    ctx.oracle_cases += 1
    ctx.nontrivial.add(("oracle", n, Nch, Nref, int(sgn), extra))
    ctx.count(f"oracle_order_{n}")
    ctx.count(f"oracle_sgn_{int(sgn)}")
    Sy_in = Sy.copy()
    try:
        Ad, Bn = pl.pLSCF(Sy, dt, n + extra, sgn)
    except np.linalg.LinAlgError:
        # For an exactly rational spectrum the reduced matrix of every order above n is singular by
        # construction and np.linalg.solve sometimes notices; nothing is returned then and nothing is
        # claimed.  The order-n claim is re-examined with ordmax = n (where it must not raise).
        if extra == 0:
            ctx.violation("raises-at-order-n", f"{tag}: pLSCF raises LinAlgError with ordmax = n = {n} on a well-conditioned rational spectrum", inp)
            return
        ctx.count("oracle_linalgerror_above_n")
        extra = 0
        inp["ordmax"] = n
        try:
            Ad, Bn = pl.pLSCF(Sy, dt, n, sgn)
        except np.linalg.LinAlgError:
            ctx.violation("raises-at-order-n", f"{tag}: pLSCF raises LinAlgError with ordmax = n = {n} on a well-conditioned rational spectrum", inp)
            return
    if not np.array_equal(Sy, Sy_in):
        ctx.violation("input-modified-pLSCF", f"{tag}: pLSCF modified the spectral matrix handed to it", inp)
        return
    Ai = np.linalg.inv(A[c])
    At = np.array([A[k] @ Ai for k in range(n + 1)])
    Bt = np.array([B[k] @ Ai for k in range(n + 1)])
    if Ad[n - 1].shape != At.shape or Bn[n - 1].shape != Bt.shape:
        ctx.violation("coef-shape", f"{tag}: coefficient arrays of order {n} have shapes {Ad[n-1].shape}, {Bn[n-1].shape}", inp)
        return
    eA = max_rel_err(Ad[n - 1], At)
    eB = max_rel_err(Bn[n - 1], Bt)
    if eA > 1e-6:
        ctx.violation(
            "denominator", f"{tag}: order-{n} denominator differs from the normalised truth (rel err {eA:.2e}, design cond {kD:.1e})",
            inp, observed=Ad[n - 1].tolist(), expected=At.tolist(),
        )
        return
    if eB > 1e-6:
        ctx.violation(
            "numerator", f"{tag}: order-{n} numerator differs from the normalised truth (rel err {eB:.2e})",
            inp, observed=Bn[n - 1].tolist(), expected=Bt.tolist(),
        )
        return
    Ad_in = [np.array(a, copy=True) for a in Ad]
    Bn_in = [np.array(b, copy=True) for b in Bn]
    try:
        Fn, Xi, Phi, Lam = pl.pLSCF_poles(Ad, Bn, dt, "per", 256)
    except np.linalg.LinAlgError:
        ctx.skipped += 1
        return
    # the order-n model that accompanies the reported poles is still the one pLSCF returned:
    # the extraction must not touch the coefficient lists it was handed ...
    if not (_same_arrays(Ad, Ad_in) and _same_arrays(Bn, Bn_in)):
        eA2 = max_rel_err(Ad[n - 1], At) if Ad[n - 1].shape == At.shape else float("inf")
        ctx.violation(
            "input-modified-pLSCF_poles",
            f"{tag}: pLSCF_poles modified the coefficient lists handed to it (order-{n} denominator now differs from the "
            f"normalised truth by {eA2:.2e})", inp, observed=np.asarray(Ad[n - 1]).tolist(), expected=At.tolist(),
        )
        return
    # ... and extracting the poles again from the same model gives the same tables
    try:
        again = pl.pLSCF_poles(Ad, Bn, dt, "per", 256)
    except np.linalg.LinAlgError:
        again = None
    if again is None or not _same_arrays([Fn, Xi, Phi, Lam], list(again)):
        ctx.violation("second-extraction-differs", f"{tag}: a second pLSCF_poles call on the same (Ad, Bn) reports other poles", inp)
        return
    col = n - 1
    lam_true = np.log(z) / dt
    keep = lam_true[np.abs(z) <= 1]
    fn_c, xi_c, lam_c = Fn[:, col], Xi[:, col], Lam[:, col]
    present = ~np.isnan(lam_c)
    rows_order = (n + 1) * Nch
    if Fn.shape[1] != n + extra or Fn.shape[0] < rows_order:
        ctx.violation("table-shape", f"{tag}: pole tables have shape {Fn.shape}", inp)
        return
    # NaN pattern identical in all tables
    pat_f, pat_x = ~np.isnan(fn_c), ~np.isnan(xi_c)
    pat_p = ~np.isnan(Phi[:, col, :]).any(axis=1) if Phi.shape[0] == Fn.shape[0] else None
    if not (np.array_equal(present, pat_f) and np.array_equal(present, pat_x) and (pat_p is None or np.array_equal(present, pat_p))):
        ctx.violation(
            "nan-pattern", f"{tag}: frequency/damping/shape/pole tables disagree on which cells of order {n} are filled",
            inp, observed={"lam": present.tolist(), "fn": pat_f.tolist(), "xi": pat_x.tolist(), "phi": None if pat_p is None else pat_p.tolist()},
        )
        return
    if present[rows_order:].any():
        ctx.violation("row-overflow", f"{tag}: a pole of order {n} is stored beyond row (n+1)*Nch", inp)
        return
    got = lam_c[present]
    if len(got) != len(keep):
        ctx.violation(
            "pole-count", f"{tag}: order {n} reports {len(got)} poles, det A(z) has {len(keep)} roots with non-positive real part "
            f"(of {len(z)})", inp, observed=got.tolist(), expected=keep.tolist(),
        )
        return
    # one reported pole per root (compare in the z-plane, where the conditioning estimate lives)
    zg = np.exp(got * dt)
    zk = z[np.abs(z) <= 1]
    used = set()
    worst = 0.0
    for x in zk:
        d = np.abs(zg - x)
        for j in np.argsort(d):
            if int(j) not in used:
                used.add(int(j))
                worst = max(worst, float(d[j]))
                break
    if worst > 1e-6:
        ctx.violation(
            "pole-value", f"{tag}: poles of order {n} are not the roots of det A(z) (worst distance {worst:.2e} in z, eig cond {kap:.1e})",
            inp, observed=got.tolist(), expected=keep.tolist(),
        )
        return
    # modal map on every filled cell
    for r in np.where(present)[0]:
        lam = lam_c[r]
        f_e = abs(lam) / (2 * np.pi)
        x_e = -lam.real / abs(lam)
        if abs(fn_c[r] - f_e) > 1e-12 * max(f_e, 1e-300) or abs(xi_c[r] - x_e) > 1e-12:
            ctx.violation(
                "modal-map", f"{tag}: fn/xi of a reported pole are not |lambda|/2pi and -Re(lambda)/|lambda|",
                inp, observed={"fn": float(fn_c[r]), "xi": float(xi_c[r])}, expected={"fn": float(f_e), "xi": float(x_e)},
            )
            return
        if lam.real > 0:
            ctx.violation("unstable-kept", f"{tag}: a pole with positive real part is reported", inp, observed=complex(lam))
            return
    ctx.count("oracle_poles_checked", int(present.sum()))
    ctx.count("oracle_blanked_roots", int(len(z) - len(keep)))


def oracle(ctx, scale):
    pl = _pl()
    rng = ctx.rng
    nmax = ctx.n(4, 6)
    for it in range(ctx.n(500, 5000) * scale):
        g = ctx.nprng()
        n = rng.randint(1, nmax)
        Nch = rng.randint(2, 5)
        Nref = rng.randint(1, 5)
        Nf = 4 * (n + 1) + rng.randint(0, 40)
        if it < ctx.n(2, 8):
            # the grids of long segments (nxseg = 8192 .. 32768 give 4097 .. 16385 lines): an implementation may process the
            # lines in blocks above some size; the fit is defined for every number of lines
            Nf = rng.choice([4097, 4099, 5000, 8193, 10001] + ([16385] if ctx.thorough else []))
            n, Nch, Nref = min(n, 2), 2, 1
            ctx.count("oracle_very_long_grid")
        elif rng.random() < 0.025:
            # long frequency grids (segment lengths of 2048 and more), not a multiple of any round block size
            Nf = rng.choice([1025, 1201, 2049, rng.randint(1026, 2300)])
            n, Nch, Nref = min(n, 3), min(Nch, 3), min(Nref, 2)
            ctx.count("oracle_long_grid")
        dt = 10 ** rng.uniform(-3, 0.5)
        sgn = rng.choice([-1, 1])
        extra = rng.choice([0, 0, 1, 2]) if Nf < 4000 else 0
        A, B = _gen_AB(g, n, Nch, Nref, spread=rng.choice([0.4, 0.6, 0.9]))
        if rng.random() < 0.4:  # the spectrum's amplitude is free: numerator far from unit size
            B = B * 10 ** rng.uniform(-8, 8)
            ctx.count("oracle_amplitude_scaled")
        if sgn == -1 and rng.random() < 0.25:
            # nearly self-reciprocal denominator: after the low-order normalisation (A_0 = I) the leading coefficient is
            # within a few parts per million of the identity, not equal to it
            A[n] = (np.eye(Nch) + np.diag(rng.choice([-1.0, 1.0]) * g.uniform(2e-6, 9e-6, Nch))) @ A[0]
            ctx.count("oracle_near_self_reciprocal")
            _judge(ctx, pl, A, B, dt, sgn, Nf, extra, "near-self-reciprocal")
            continue
        _judge(ctx, pl, A, B, dt, sgn, Nf, extra, "random")
    # structured: scalar-diagonal denominators with prescribed roots (known stable / unstable split)
    for _ in range(ctx.n(80, 800) * scale):
        g = ctx.nprng()
        n = rng.randint(1, min(nmax, 4))
        Nch = rng.randint(2, 4)
        Nref = rng.randint(1, 3)
        # A(z) = T * diag(p_c(z)) with p_c real polynomials with chosen roots, T a well-conditioned mixing matrix
        polys = []
        for _c in range(Nch):
            roots = []
            while len(roots) < n:
                rad = rng.choice([rng.uniform(0.3, 0.9), rng.uniform(1.1, 1.8)])
                if n - len(roots) >= 2 and rng.random() < 0.7:
                    th = rng.uniform(0.3, 2.8)
                    roots += [rad * np.exp(1j * th), rad * np.exp(-1j * th)]
                else:
                    roots.append(rad * rng.choice([-1, 1]))
            p = np.real(np.poly(roots))[::-1]  # ascending powers
            polys.append(p)
        T = np.eye(Nch) + 0.3 * g.standard_normal((Nch, Nch)) / math.sqrt(Nch)
        A = np.array([T @ np.diag([polys[c][k] for c in range(Nch)]) for k in range(n + 1)])
        B = g.standard_normal((n + 1, Nref, Nch))
        Nf = 4 * (n + 1) + rng.randint(0, 30)
        _judge(ctx, pl, A, B, 10 ** rng.uniform(-3, 0), rng.choice([-1, 1]), Nf, rng.choice([0, 1]), "prescribed-roots")
    # the stability boundary is exact: poles of radius 1 + delta (delta = +-1e-9..1e-11, far above the rounding of a
    # well-conditioned eigenproblem) are reported iff delta <= 0
    for _ in range(ctx.n(40, 400) * scale):
        g = ctx.nprng()
        nb = rng.randint(1, 3)
        k = 2 * nb
        D = np.zeros((k, k))
        deltas = []
        for b in range(nb):
            d_ = rng.choice([-1.0, 1.0]) * 10.0 ** -rng.uniform(9.0, 11.0)
            deltas.append(d_)
            th = rng.uniform(0.3, 2.8)
            D[2 * b : 2 * b + 2, 2 * b : 2 * b + 2] = (1.0 + d_) * np.array([[math.cos(th), math.sin(th)], [-math.sin(th), math.cos(th)]])
        Q, _ = np.linalg.qr(g.standard_normal((k, k)))
        A = Q @ D @ Q.T
        C = g.standard_normal((rng.randint(1, 3), k))
        dt = 10 ** rng.uniform(-3, 0)
        fn_, xi_, phi_, lam_ = pl.ac2mp_poly(A.copy(), C.copy(), dt, "per", 256)
        ctx.oracle_cases += 1
        ctx.count("oracle_near_boundary")
        want = 2 * sum(1 for d_ in deltas if d_ <= 0)
        got = int(np.sum(~np.isnan(np.asarray(fn_, float))))
        if got != want:
            ctx.violation("stability-boundary", f"ac2mp_poly reports {got} poles; the matrix has {want} eigenvalues with non-positive real part of log(lambda) "
                          f"(radii 1 + {deltas})", {"A": A.tolist(), "C": C.tolist(), "dt": dt, "deltas": deltas}, observed=got, expected=want)
            return
    _class_oracle(ctx, pl, scale)


# ----------------------------------------------------------------------------- class layer
def _class_signal(seed, nch, n, fs, amp):
    g = np.random.default_rng(seed)
    y = np.zeros((n, nch))
    for _ in range(int(g.integers(1, 4))):
        f = g.uniform(0.05, 0.4) * fs
        xi = float(g.choice([0.005, 0.02, 0.06]))
        r = math.exp(-2 * math.pi * f * xi / fs)
        th = 2 * math.pi * f * math.sqrt(1 - xi * xi) / fs
        e = g.standard_normal(n)
        x = np.zeros(n)
        for k in range(2, n):
            x[k] = 2 * r * math.cos(th) * x[k - 1] - r * r * x[k - 2] + e[k]
        y += np.outer(x / max(np.abs(x).max(), 1e-300), g.standard_normal(nch))
    y += 0.05 * g.standard_normal((n, nch))
    return amp * y


def _class_case(ctx, pl, params=None):
    """algorithms.pLSCF through SingleSetup with non-default parameters: the coefficient lists stored in the
    result (next to the pole tables) are the model pLSCF returns for the stored spectrum, the stored pole
    tables are a subset (hard criteria only blank) of the poles of exactly that model, the caller's data are
    untouched, and a second run / a second object gives the same result."""
    from pyoma2.algorithms.plscf import pLSCF
    from pyoma2.setup import SingleSetup

    rng = ctx.rng
    if params is None:
        params = {
            "seed": rng.getrandbits(32), "fs": rng.choice([10.0, 64.0, 200.0, 128.0, 60.0, 3.0, 51.2, 1000.0 / 7.0, 44100.0]), "nch": rng.randint(2, 3),
            "n": rng.randint(500, 900), "amp": 10 ** rng.uniform(-8, 8), "ordmax": rng.randint(3, 7),
            "nxseg": rng.choice([64, 100, 128]), "method_SD": rng.choice(["per", "cor"]), "pov": rng.choice([0.0, 0.5, 0.75]),
        }
    inp = dict(params)
    fs, nch, n, amp = params["fs"], params["nch"], params["n"], params["amp"]
    kw = {k: params[k] for k in ("ordmax", "nxseg", "method_SD", "pov")}
    data = _class_signal(params["seed"], nch, n, fs, amp)
    data_in = data.copy()
    kw = dict(ordmax=rng.randint(3, 7), nxseg=rng.choice([64, 100, 128]), method_SD=rng.choice(["per", "cor"]),
              pov=rng.choice([0.0, 0.5, 0.75]))
    sgn = -1 if kw["method_SD"] == "per" else 1
    neutral = rng.random() < 0.5
    if neutral:
        # hard criteria switched off the only way the API offers (limits no pole can violate): then the stored tables report
        # EVERY pole of the fitted model with positive damping
        kw["hc"] = dict(conj=False, xi_max=rng.choice([1.5, 2.0, 10.0, 100.0]), mpc_lim=0.0, mpd_lim=rng.choice([2.0, 10.0]))
        inp["hc"] = dict(kw["hc"])
        ctx.count("class_neutral_criteria")
    setup = SingleSetup(data, fs=fs)
    a = pLSCF(name="a", **kw)
    b = pLSCF(name="b", **kw)
    setup.add_algorithms(a, b)
    setup.run_by_name("a")
    ctx.oracle_cases += 1
    ctx.count(f"class_runs_{kw['method_SD']}")
    ctx.nontrivial.add(("class", kw["method_SD"], kw["ordmax"], nch))
    ra = a.result
    if rng.random() < 0.5:
        # looking at the result (zoomed stabilisation / cluster chart) is a read-only operation
        import matplotlib.pyplot as plt

        keep = [np.array(np.asarray(getattr(ra, f), dtype=float if f != "Lab" else None), copy=True) for f in ("Fn_poles", "Xi_poles", "Lab")]
        band = (0.1 * fs, 0.3 * fs)
        try:
            a.plot_stab(freqlim=band, hide_poles=rng.random() < 0.5)
            a.plot_cluster(freqlim=band)
        finally:
            plt.close("all")
        ctx.oracle_cases += 1
        ctx.count("class_result_viewed")
        now = [np.asarray(getattr(a.result, f), dtype=float if f != "Lab" else None) for f in ("Fn_poles", "Xi_poles", "Lab")]
        if not _same_arrays(keep, now):
            ctx.violation("class-view-modifies-result", "pLSCF.plot_stab / plot_cluster with a frequency window changed the stored pole tables", inp | {"band": list(band)})
            return
    if rng.random() < 0.6:
        # extracting modes reads the pole tables; afterwards they still report the same poles (same values, same cells)
        Fq = np.asarray(ra.Fn_poles, float)
        cols = [c for c in range(Fq.shape[1]) if np.any(~np.isnan(Fq[:, c]))]
        if cols:
            keep = [np.array(np.asarray(getattr(ra, f)), copy=True) for f in ("Fn_poles", "Xi_poles", "Phi_poles", "Lab")]
            col = rng.choice(cols)
            vals = sorted(set(float(x) for x in Fq[:, col][~np.isnan(Fq[:, col])]))
            pick = sorted(rng.sample(vals, min(len(vals), rng.randint(1, 2))))
            try:
                if rng.random() < 0.5:
                    setup.mpe("a", sel_freq=pick, order=int(col))
                else:
                    setup.mpe("a", sel_freq=pick, order=[int(col)] * len(pick))
            except Exception as e:  # noqa: BLE001
                ctx.violation("class-extraction-raises", f"pLSCF.mpe at column {col} for frequencies taken from that column raised {type(e).__name__}: {str(e)[:80]}", inp | {"col": int(col), "sel": pick})
                return
            ctx.oracle_cases += 1
            ctx.count("class_tables_reread_after_extraction")
            now = [np.asarray(getattr(a.result, f)) for f in ("Fn_poles", "Xi_poles", "Phi_poles", "Lab")]
            if not _same_arrays(keep, now):
                ctx.violation("class-extraction-modifies-tables", "pLSCF.mpe changed the stored pole tables (the tables no longer report the poles of the fitted model)", inp | {"col": int(col), "sel": pick})
                return
    Ad_a = [np.array(x, copy=True) for x in ra.Ad]
    Bn_a = [np.array(x, copy=True) for x in ra.Bn]
    if not np.array_equal(data, data_in):
        ctx.violation("class-data-modified", "pLSCF.run modified the data handed to the setup", inp)
        return
    # stored model == what pLSCF returns for the stored spectrum (same function, same input: 1e-12)
    Ad_f, Bn_f = pl.pLSCF(np.array(ra.Sy, copy=True), 1 / fs, kw["ordmax"], sgn)
    worst = max([max_rel_err(x, y) for x, y in zip(ra.Ad, Ad_f)] + [max_rel_err(x, y) for x, y in zip(ra.Bn, Bn_f)])
    if len(ra.Ad) != kw["ordmax"] or worst > 1e-12:
        ctx.violation(
            "class-stored-model", f"pLSCF.run: result.Ad/Bn are not the coefficient lists pLSCF returns for result.Sy "
            f"(rel diff {worst:.2e}, method_SD={kw['method_SD']})", inp,
        )
        return
    # stored poles ⊆ poles of the stored model
    Fn_f, Xi_f, _, _ = pl.pLSCF_poles(Ad_f, Bn_f, 1 / fs, kw["method_SD"], kw["nxseg"])
    Fr, Xr = np.asarray(ra.Fn_poles, float), np.asarray(ra.Xi_poles, float)
    ok = Fr.shape == Fn_f.shape
    if ok:
        m = ~np.isnan(Fr)
        ok = bool(np.allclose(Fr[m], Fn_f[m], rtol=1e-9, atol=0) and np.allclose(Xr[m], Xi_f[m], rtol=1e-9, atol=1e-12))
    if not ok:
        ctx.violation("class-stored-poles", "pLSCF.run: a stored pole is not a pole of the stored model (Ad, Bn)", inp)
        return
    if neutral:
        must = ~np.isnan(Fn_f) & (np.nan_to_num(Xi_f, nan=-1.0) > 1e-9) & (np.nan_to_num(Xi_f, nan=9.0) < 1.0 - 1e-9)
        lost = must & np.isnan(Fr)
        ctx.oracle_cases += 1
        if lost.any():
            r0, c0 = (int(x[0]) for x in np.nonzero(lost))
            ctx.violation("class-neutral-criteria-lose-poles", f"pLSCF.run with hard criteria no pole can violate (xi_max={kw['hc']['xi_max']}) does not report {int(lost.sum())} poles of "
                          f"the fitted model, e.g. f={Fn_f[r0, c0]:.6g}, xi={Xi_f[r0, c0]:.4g} at column {c0}", inp)
            return
    # second object in the same session, then the first one again
    setup.run_by_name("b")
    setup.run_by_name("a")
    for tag, r2 in (("second object", b.result), ("second run", a.result)):
        same = _same_arrays(list(r2.Ad) + list(r2.Bn) + [np.asarray(r2.Fn_poles, float), np.asarray(r2.Xi_poles, float)],
                            Ad_a + Bn_a + [Fr, Xr])
        if not same:
            ctx.violation("class-rerun-differs", f"pLSCF.run: {tag} with identical parameters and data gives another result", inp | {"which": tag})
            return


def _class_oracle(ctx, pl, scale):
    for _ in range(ctx.n(6, 120) * scale):
        _class_case(ctx, pl)


def replay(rec):
    pl = _pl()
    v = rec["violation"]
    inp = v["input"]
    print("replaying", v["sig"], "-", v["what"])

    class C:
        oracle_cases = 0
        skipped = 0
        nontrivial = set()
        vs = []

        def count(self, *a, **k):
            pass

        def violation(self, sig, what, *a, **k):
            self.vs.append(sig)
            print("VIOLATION reproduced:", sig, "-", what)

    c = C()
    if "method_SD" in inp:
        import random

        c.rng = random.Random(0)
        _class_case(c, pl, {k: v for k, v in inp.items() if k != "which"})
        return 1 if c.vs else 0
    _judge(c, pl, np.array(inp["A"], float), np.array(inp["B"], float), inp["dt"], inp["sgn"], inp["Nf"], inp["ordmax"] - (len(inp["A"]) - 1), "replay")
    if not c.vs:
        print("not reproduced (skipped by guard)" if c.skipped else "not reproduced")
    return 1 if c.vs else 0
