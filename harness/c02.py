"""C02 — PoSER merging reproduces the global mode shape from re-scaled setups."""
import numpy as np

from common import Cvec, R, cfl, fl, max_rel_err

LEAN_MODULES = ["PyomaVerif.Props.C02", "PyomaVerif.Props.C02C01", "PyomaVerif.Mutants.C02",
                "PyomaVerif.Props.C02Matrix", "PyomaVerif.Props.C02Results", "PyomaVerif.Props.C02Driver",
                "PyomaVerif.Mutants.C02Results", "PyomaVerif.Props.C02State", "PyomaVerif.Mutants.C02State",
                "PyomaVerif.Props.C02Accepted"]
THEOREMS = [
    "PV.C02.C02_merge",
    "PV.C02.tail_merge",
    "PV.C02.C02_order",
    "PV.C02.C02_order_parametric",
    "PV.C02.C02_stats",
    "PV.Merge.msf_scaled",
    "PV.Merge.pick_map",
    "PV.Merge.delete_map",
    "PV.Mutants.C02.old_merge_wrong",
    # C02 ∘ C01: shapes that come out of SSI runs (Props/C02C01.lean, Lemmas/PoserE2E.lean)
    "PV.C02C01.C02C01_setup_shape",
    "PV.C02C01.C02C01_identified_fast",
    "PV.C02C01.C02C01_identified_legacy",
    "PV.C02C01.identified_shape",
    "PV.C02C01.C02C01_good",
    "PV.C02C01.C02_e2e_mode",
    "PV.C02C01.C02_e2e_mode_monophase",
    "PV.C02C01.C02_e2e",
    "PV.C02C01.C02_e2e_monophase",
    "PV.C02C01.C02_e2e_real",
    "PV.C02C01.C02_e2e_stats",
    "PV.C02C01.C02_merge_complex",
    "PV.C02C01.C02_e2e_mode_complex",
    "PV.C02C01.complex_not_global",
    "PV.normalise_scale",
    "PV.normalise_eq_scale",
    "PV.argmaxNormSq_spec",
    "PV.setup_shape",
    "PV.shape_of_similar",
    # the whole matrix (Model mergeModeShapes = what the driver runs and the correspondence compares)
    "PV.C02.C02_merge_all",
    "PV.C02.C02_merge_all_real",
    "PV.C02.C02_merge_all_driver",
    "PV.C02.C02_merge_all_driver_real",
    "PV.C02.hg_needed",
    "PV.Merge.mergeModeShapes_ok",
    "PV.Merge.dot_self_ne_zero_of_real",
    "PV.Merge.delete_length",
    # merge_results (Model mergeResults / mergeGroup)
    "PV.C02.C02_stats_group",
    "PV.C02.C02_results_groups",
    "PV.C02.C02_stats_results",
    "PV.C02.C02_poser",
    "PV.C02.C02_stats_driver",
    "PV.C02.sqrtAt_real",
    "PV.Mutants.C02.ddof1_wrong",
    "PV.Mutants.C02.first_factor_wrong",
    "PV.C02.mergeResults_ok",
    "PV.Merge.algGroups_nodup",
    "PV.Merge.mapE_ok_iff",
    "PV.Merge.pvar_nonneg",
    # the object across calls (__result), MSF on matrices, integer reference positions (Model/MergeState.lean)
    "PV.C02.C02_results_fresh",
    "PV.C02.C02_results_first",
    "PV.C02.C02_results_idempotent",
    "PV.C02.mergeResultsSt_ok",
    "PV.C02.mergeResultsSt_error",
    "PV.C02.mergeResults_keys_nodup",
    "PV.C02.algGroups_keys_nodup",
    "PV.C02.resultGetter_none",
    "PV.C02.dictSet_lookup_self",
    "PV.C02.dictSet_lookup_other",
    "PV.C02.msfArr_vec",
    "PV.C02.msfArr_mat",
    "PV.C02.msfArr_error_iff",
    "PV.C02.C02_msf_matrix",
    "PV.C02.mergeModeShapesI_ofNat",
    "PV.C02.mergeModeShapesI_negative",
    "PV.C02.normPos_neg",
    "PV.C02.flattenNamesI_ofNat",
    "PV.C02.C02_order_negative_fails",
    "PV.C02.C02_results_of_accepted",
    "PV.C02.C02_fresh_ne_of_accepted",
    "PV.Mutants.C02.cached_returns_stale",
    "PV.Mutants.C02.first_denominator_wrong",
    "PV.Mutants.C02.comprehension_differs",
]
RULE = (
    "correspondence: gen.MSF, gen.merge_mode_shapes (complex inputs as exact Gaussian rationals, 1e-10), the multi-setup "
    "branch of gen.flatten_sns_names (exact), the exceptions of gen.merge_mode_shapes on malformed layouts (same exception "
    "class) and the REAL MultiSetup_PoSER.merge_results (stub algorithms carrying prescribed Fn/Xi/Phi, 2..4 setups, 1..3 "
    "groups, also duplicate names / ragged Fn / wrong ref_ind: Phi 1e-9, Fn/Xi 1e-12, Fn_cov/Xi_cov 1e-9 + 50 eps, dictionary "
    "order and exception class exact) vs the Lean models mergeModeShapes / mergeResults; 2..4 successive merge_results() calls "
    "on ONE object (new results / re-assigned names / a raising group / plain repeat between them: returned dictionary, exception "
    "and the `result` property after every call) vs poserSession; gen.MSF on (n, m) matrices and mixed 1-D/2-D arguments vs msfArr; "
    "reference positions written as negative / out-of-bounds integers in gen.merge_mode_shapes and gen.flatten_sns_names vs "
    "mergeModeShapesI / flattenNamesI (exact, exception class exact); oracle: the "
    "property's domain verbatim (2..5 setups, 1..4 references anywhere and in any order, 0..5 roving, real/complex G, 1..8 "
    "modes, scale factors of either sign with magnitude in [0.05, 20]): merged vs s0*G[order] at 1e-9; names vs row order; "
    "mean / population std. distinct = (n_setups, n_ref, roving counts, complex?, ref positions)"
)
EXTRA_TRUSTED = ["np.sqrt in np.std (the model takes sqrt as a parameter with the contract 0 <= sqrt x, sqrt x * sqrt x = x; the driver runs a "
                 "40-digit rational square root whose contract residual is recorded)", "numpy fancy indexing / np.delete as mirrored by pick / delete"]
ASSUMPTIONS = ["the unconjugated square sum of the reference components is bounded away from 0 (cases below 1e-3 of the squared norm are skipped)"]


def _layout(ctx):
    """random PoSER layout: per setup the global row of every channel and the reference positions"""
    rng = ctx.rng
    nset = rng.randint(2, 5)
    nref = rng.randint(1, 4)
    ref_rows = list(range(nref))  # global rows 0..nref-1 are the references
    rows, refs = [], []
    nxt = nref
    for _ in range(nset):
        nrov = rng.randint(0, 5)
        rov = list(range(nxt, nxt + nrov))
        nxt += nrov
        n = nref + nrov
        pos = rng.sample(range(n), nref)  # reference positions, any order
        chan = [None] * n
        for p, r in zip(pos, ref_rows):
            chan[p] = r
        it = iter(rov)
        for i in range(n):
            if chan[i] is None:
                chan[i] = next(it)
        rows.append(chan)
        refs.append(pos)
    return rows, refs, nxt, nref


def _case(ctx):
    rng = ctx.rng
    g = ctx.nprng()
    rows, refs, nglob, nref = _layout(ctx)
    nmodes = rng.randint(1, 8)
    cplx = rng.random() < 0.5
    G = g.standard_normal((nglob, nmodes))
    if cplx:
        G = G + 1j * g.standard_normal((nglob, nmodes))
    # mode shapes have no preferred unit: whole-matrix amplitudes far from 1 are part of the domain
    G = G * rng.choice([1.0, 1.0, 1e-5, 1e5, 1e-7])
    nset = len(rows)
    s = np.exp(g.uniform(np.log(0.05), np.log(20), size=(nset, nmodes))) * g.choice([-1.0, 1.0], size=(nset, nmodes))
    phis = [np.array(G[rows[i], :] * s[i][None, :]) for i in range(nset)]
    return rows, refs, G, s, phis, cplx


def _guard(G, nref):
    ref = G[:nref, :]
    return np.all(np.abs((ref * ref).sum(axis=0)) > 1e-3 * (np.abs(ref) ** 2).sum(axis=0))


def _expected_order(rows, refs):
    first_refs = [rows[0][p] for p in refs[0]]
    order = list(first_refs)
    for chan, pos in zip(rows, refs):
        order += [r for i, r in enumerate(chan) if i not in pos]
    return order


def correspondence(ctx):
    from pyoma2.functions import gen

    rng = ctx.rng
    g = ctx.nprng()
    for k in range(ctx.n(60, 1500)):
        # MSF
        n = rng.randint(1, 8)
        x = g.standard_normal(n) + 1j * g.standard_normal(n) * rng.choice([0, 1])
        y = g.standard_normal(n) + 1j * g.standard_normal(n) * rng.choice([0, 1])
        amp = rng.choice([1.0, 1e-5, 1e4])
        x, y = x * amp, y * amp
        if abs((x * x).sum()) > 1e-3 * (abs(x) ** 2).sum():
            impl = float(gen.MSF(x, y)[0])
            m = ctx.model("msf", phi1=Cvec(x), phi2=Cvec(y))
            ctx.corr("gen.MSF", abs(fl(m[0]) - impl) <= 1e-10 * max(1, abs(impl)) and fl(m[1]) == 0.0,
                     {"phi1": [str(v) for v in x], "phi2": [str(v) for v in y]}, m, impl, ("msf", n))
        # merge_mode_shapes on arbitrary (not necessarily consistent) shapes
        rows, refs, G, s, phis, cplx = _case(ctx)
        if rng.random() < 0.5:
            phis = [p + 0.1 * g.standard_normal(p.shape) for p in phis]  # arbitrary, no common G
        int_dtype = (not cplx) and rng.random() < 0.4
        if int_dtype:
            # shapes handed over as integer arrays (hand-typed, as in the library's own unit test: plain int64, moderate
            # magnitudes so that no product can overflow): the re-scaled roving values are not integers
            phis = [np.rint(p / np.maximum(np.abs(p).max(axis=0, keepdims=True), 1e-300) * rng.choice([12, 40, 1000])).astype(np.int64)
                    for p in phis]
            ctx.count("merge_integer_dtype")
        nref = len(refs[0])
        ok_guard = all(
            np.all(np.abs((p[r, :] * p[r, :]).sum(axis=0)) > 1e-3 * (np.abs(p[r, :]) ** 2).sum(axis=0)) for p, r in zip(phis, refs)
        )
        if not ok_guard:
            ctx.skipped += 1
            continue
        if int_dtype and not all(np.abs(p[r, :]).sum(axis=0).min() > 0 for p, r in zip(phis, refs)):
            ctx.skipped += 1
            continue
        impl = gen.merge_mode_shapes(MSarr_list=[p.copy() for p in phis], reflist=[list(r) for r in refs])
        m = ctx.model("merge_mode_shapes", phis=[[Cvec(row) for row in p] for p in phis], refs=refs)
        M = np.array([[cfl(v) for v in row] for row in m])
        ctx.corr("gen.merge_mode_shapes", max_rel_err(M, impl) <= 1e-9, {"phis": [p.tolist() for p in phis], "refs": refs},
                 None, None, (len(rows), nref, tuple(len(c) - nref for c in rows), cplx))
        ctx.count("merge_complex" if cplx else "merge_real")
        # flatten_sns_names, list-of-lists and DataFrame forms
        names = [[f"s{i}c{j}" for j in range(len(c))] for i, c in enumerate(rows)]
        impl_n = gen.flatten_sns_names([list(n_) for n_ in names], ref_ind=[list(r) for r in refs])
        mn = ctx.model("flatten_names_ms", names=names, refs=refs)
        ctx.corr("gen.flatten_sns_names[list-of-lists]", list(impl_n) == list(mn), {"names": names, "refs": refs}, mn, list(impl_n), ("fl", len(rows), nref))
        import pandas as pd

        width = max(len(n_) for n_ in names)
        df = pd.DataFrame([n_ + [np.nan] * (width - len(n_)) for n_ in names])
        if df.values.shape[0] > 1:
            impl_d = gen.flatten_sns_names(df, ref_ind=[list(r) for r in refs])
            ctx.corr("gen.flatten_sns_names[DataFrame]", list(impl_d) == list(mn), {"names": names, "refs": refs}, mn, list(impl_d), ("fd", len(rows), nref))
        # statistics
        xs = g.uniform(0.5, 30, size=rng.randint(2, 5))
        st = ctx.model("poser_stats", xs=[R(v) for v in xs])
        ok = abs(fl(st["mean"]) - np.mean(xs)) <= 1e-12 * np.mean(xs) and abs(fl(st["pvar"]) - np.std(xs) ** 2) <= 1e-10 * max(np.std(xs) ** 2, 1e-12)
        ctx.corr("np.mean/np.std vs Lean mean/pvar", bool(ok), {"xs": xs.tolist()}, st, [float(np.mean(xs)), float(np.std(xs) ** 2)], None)
        if k == 0:
            ctx.sample({"rows": rows, "refs": refs, "complex": cplx, "scales_setup0": s[0].tolist()})
    for k in range(ctx.n(40, 800)):
        _corr_merge_results(ctx, malformed=False)
    for k in range(ctx.n(24, 400)):
        _corr_merge_results(ctx, malformed=True)
    for k in range(ctx.n(30, 400)):
        _corr_merge_malformed(ctx)
    # --- the parts added with Model/MergeState.lean: the object's __result across calls, MSF on matrices, integer positions
    for k in range(ctx.n(16, 300)):
        _corr_session(ctx)
    for k in range(ctx.n(60, 1500)):
        _corr_msf_matrix(ctx)
    for k in range(ctx.n(40, 800)):
        _corr_negative(ctx)


def _exc_name(fn):
    """(result, None) or (None, name of the exception class raised)"""
    try:
        return fn(), None
    except Exception as e:  # noqa: BLE001 - the class name is the observation
        return None, type(e).__name__


def _model_or_error(ctx, op, **kw):
    from common import ModelError

    try:
        return ctx.model(op, **kw), None
    except ModelError as e:
        return None, str(e)


def _corr_merge_malformed(ctx):
    """gen.merge_mode_shapes on inputs on which numpy raises: the model returns the name of the same exception"""
    from pyoma2.functions import gen

    rng = ctx.rng
    g = ctx.nprng()
    rows, refs, _nglob, nref = _layout(ctx)
    nm = rng.randint(1, 4)
    phis = [g.standard_normal((len(c), nm)) for c in rows]
    refs = [list(r) for r in refs]
    kind = rng.choice(["dup-ref", "ref-len", "out-of-range", "few-reflists", "mode-count", "extra-reflists", "two", "none"])
    i = rng.randrange(len(rows))

    def mutate(kind, i):
        if i >= len(refs) and kind in ("dup-ref", "ref-len", "out-of-range"):
            return
        if kind == "few-reflists" and not refs:
            return
        if kind == "dup-ref":
            refs[i] = refs[i] + [refs[i][0]]
            if rng.random() < 0.5:  # same length everywhere: only the row count of the result is off
                for j in range(len(refs)):
                    if j != i:
                        refs[j] = refs[j] + [refs[j][0]]
        elif kind == "ref-len":
            extra = [q for q in range(len(rows[i])) if q not in refs[i]]
            if extra and rng.random() < 0.5:
                refs[i] = refs[i] + [extra[0]]
            elif len(refs[i]) > 1:
                refs[i] = refs[i][:-1]
            else:
                refs[i] = refs[i] + [refs[i][0]]
        elif kind == "out-of-range":
            refs[i][rng.randrange(len(refs[i]))] = len(rows[i]) + rng.randint(0, 2)
        elif kind == "few-reflists":
            del refs[rng.randint(0, len(refs) - 1):]
        elif kind == "mode-count":
            phis[i] = g.standard_normal((len(rows[i]), nm + rng.choice([-1, 1]) if nm > 1 else nm + 1))
        elif kind == "extra-reflists":
            refs.append([rng.randint(0, 9)])

    if kind == "two":
        for k2 in rng.sample(["dup-ref", "ref-len", "out-of-range", "few-reflists", "mode-count"], 2):
            mutate(k2, rng.randrange(len(rows)))
    else:
        mutate(kind, i)
    impl, ierr = _exc_name(lambda: gen.merge_mode_shapes(MSarr_list=[p.copy() for p in phis], reflist=[list(r) for r in refs]))
    m, merr = _model_or_error(ctx, "merge_mode_shapes", phis=[[Cvec(row) for row in p] for p in phis], refs=refs)
    if ierr is None and merr is None:
        ok = max_rel_err(np.array([[cfl(v) for v in row] for row in m]).reshape(impl.shape), impl) <= 1e-9
    else:
        ok = ierr == merr
    ctx.corr("gen.merge_mode_shapes[exceptions]", bool(ok), {"phis": [p.tolist() for p in phis], "refs": refs, "kind": kind}, merr, ierr, ("mal", kind, ierr))
    ctx.count(f"merge_malformed_{ierr or 'ok'}")


def _cmp_result_dict(m_list, impl_items):
    """model dictionary ([[name, {..}], ..]) against a snapshot of the real one ([(name, {field: array}), ..]): key order
    exact, Phi 1e-9, Fn/Xi 1e-12, Fn_cov/Xi_cov 1e-9 + 50 eps"""
    if [e[0] for e in m_list] != [k_ for k_, _v in impl_items]:
        return False
    eps = np.finfo(float).eps
    for (name, res), (_n, real) in zip(m_list, impl_items):
        rp = np.asarray(real["Phi"])
        if rp.size != sum(len(r_) for r_ in res["Phi"]):
            return False
        Phi = np.array([[cfl(v) for v in row] for row in res["Phi"]]).reshape(rp.shape)
        if max_rel_err(Phi, rp) > 1e-9:
            return False
        for key, tol_abs in (("Fn", 0.0), ("Xi", 0.0), ("Fn_cov", 50 * eps), ("Xi_cov", 50 * eps)):
            a = np.array([fl(v) for v in res[key]])
            b = np.asarray(real[key], dtype=float)
            rtol = 1e-12 if tol_abs == 0.0 else 1e-9
            if a.shape != b.shape or not bool(np.all(np.abs(a - b) <= tol_abs + rtol * np.abs(b))):
                return False
    return True


def _snapshot(d):
    """a merged-results dictionary as plain copies (the real dictionary is re-used and mutated by the next call)"""
    if d is None:
        return None
    return [(k_, {f: np.array(getattr(v, f), copy=True) for f in ("Phi", "Fn", "Fn_cov", "Xi", "Xi_cov")}) for k_, v in d.items()]


def _corr_session(ctx):
    """SEVERAL merge_results() calls on ONE real MultiSetup_PoSER object against Merge.poserSession: between the calls the
    algorithms get new results (another extraction), self.names is re-assigned (keys of an earlier call stay), one group is
    made to raise (the groups before it are already re-assigned), the call is simply repeated; after every call the returned
    dictionary (or the exception) AND the `result` property (ValueError while nothing was ever merged) are compared."""
    from pyoma2.algorithms import FDD
    from pyoma2.algorithms.data.result import EFDDResult
    from pyoma2.setup import MultiSetup_PoSER, SingleSetup

    rng = ctx.rng
    g = ctx.nprng()
    while True:
        rows, refs, _nglob, nref = _layout(ctx)
        if len(rows) <= 3:
            break
    nset = len(rows)
    ngroups = rng.randint(1, 3)
    nm = rng.randint(1, 3)
    names0 = [f"grp{gi}" for gi in range(ngroups)]
    ref_ind0 = [list(r) for r in refs]

    def fresh_data():
        data = [[None] * ngroups for _ in range(nset)]
        for gi in range(ngroups):
            cplx = rng.random() < 0.3
            for i in range(nset):
                phi = g.standard_normal((len(rows[i]), nm)) + (1j * g.standard_normal((len(rows[i]), nm)) if cplx else 0)
                data[i][gi] = (g.uniform(1, 20, size=nm), g.uniform(0.005, 0.05, size=nm), phi)
        return data

    def guard(data):
        for i in range(nset):
            for gi in range(ngroups):
                p = np.asarray(data[i][gi][2])
                r = ref_ind0[i]
                if not np.all(np.abs((p[r, :] * p[r, :]).sum(axis=0)) > 1e-3 * (np.abs(p[r, :]) ** 2).sum(axis=0)):
                    return False
        return True

    setups, algs_all = [], []
    for i in range(nset):
        ss = SingleSetup(np.zeros((32, max(len(rows[i]), 1))), fs=10.0)
        algs = [FDD(name=f"a{i}_{ii}", nxseg=16) for ii in range(ngroups)]
        ss.add_algorithms(*algs)
        setups.append(ss)
        algs_all.append(algs)

    def store(data):
        for i in range(nset):
            for gi in range(ngroups):
                fn_, xi_, phi_ = data[i][gi]
                algs_all[i][gi].result = EFDDResult(Fn=np.array(fn_), Xi=np.array(xi_), Phi=np.array(phi_))

    data = fresh_data()
    if not guard(data):
        ctx.skipped += 1
        return
    store(data)
    ms = MultiSetup_PoSER(ref_ind=[list(r) for r in ref_ind0], single_setups=setups, names=list(names0))
    nsteps = rng.randint(2, 4)
    kinds, calls, real_obs = [], [], []
    for step in range(nsteps):
        kind = rng.choice(["ok", "short-names", "bad-group"] if step == 0 else ["ok", "ok", "same", "rename", "rename", "short-names", "bad-group", "few-reflists"])
        names, ref_ind = list(names0), [list(r) for r in ref_ind0]
        if kind != "same":
            data = fresh_data()
            if not guard(data):
                ctx.skipped += 1
                return
        if kind == "rename":
            names = [n_ if rng.random() < 0.5 else f"new{step}_{gi}" for gi, n_ in enumerate(names0)]
            if rng.random() < 0.3:
                names = names[::-1]
        elif kind == "short-names":
            names = names0[: rng.randint(0, ngroups - 1)]
        elif kind == "bad-group":
            gi = rng.randrange(ngroups)
            i = rng.randrange(nset)
            fn_, xi_, phi_ = data[i][gi]
            data[i][gi] = (np.append(fn_, 1.0), xi_, phi_) if rng.random() < 0.5 else (fn_, xi_, np.hstack([phi_, phi_[:, :1]]))
        elif kind == "few-reflists":
            ref_ind = ref_ind0[: rng.randint(1, nset - 1)]
        store(data)
        ms.names = list(names)
        ms.ref_ind = [list(r) for r in ref_ind]
        ret, rerr = _exc_name(lambda: ms.merge_results())
        same_object = rerr is not None or ret is getattr(ms, "_MultiSetup_PoSER__result", None)
        ret = _snapshot(ret)
        got, gerr = _exc_name(lambda: ms.result)
        got = _snapshot(got)
        real_obs.append((ret, rerr, got, gerr, same_object))
        kinds.append(kind)
        calls.append({"names": names, "ref_ind": ref_ind,
                      "setups": [[{"Fn": [R(v) for v in a[0]], "Xi": [R(v) for v in a[1]], "Phi": [Cvec(row) for row in np.asarray(a[2])]} for a in algs] for algs in data]})
    m = ctx.model("poser_session", calls=calls)
    ok = len(m) == len(real_obs)
    if ok:
        for mo, (ret, rerr, got, gerr, same_object) in zip(m, real_obs):
            if rerr is not None or "error" in mo["ret"]:
                ok = ok and mo["ret"].get("error") == rerr
            elif mo["ret"]["ok"] is None or ret is None:
                ok = ok and mo["ret"]["ok"] is None and ret is None
            else:
                ok = ok and _cmp_result_dict(mo["ret"]["ok"], ret)
            if gerr is not None or "error" in mo["getter"]:
                ok = ok and mo["getter"].get("error") == gerr
            else:
                ok = ok and _cmp_result_dict(mo["getter"]["ok"], got)
            ok = ok and same_object  # `return self.__result`: the attribute itself (the model returns the state)
    inp = {"kinds": kinds, "rows": rows, "ref_ind": ref_ind0, "names": names0, "n_modes": nm}
    ctx.corr("MultiSetup_PoSER.merge_results[twice]", bool(ok), inp,
             [{"ret": ("error", mo["ret"]["error"]) if "error" in mo["ret"] else [e[0] for e in (mo["ret"]["ok"] or [])],
               "getter": mo["getter"].get("error") or [e[0] for e in mo["getter"]["ok"]]} for mo in m],
             [{"ret": ("error", rerr) if rerr else [k_ for k_, _ in (ret or [])], "getter": gerr or [k_ for k_, _ in got]} for (ret, rerr, got, gerr, _s) in real_obs],
             ("session", tuple(kinds), nset, ngroups))
    for kd, (ret, rerr, got, gerr, _s) in zip(kinds, real_obs):
        ctx.count(f"session_{kd}_{rerr or 'ok'}")
    ctx.count("session_getter_ValueError" if any(o[3] for o in real_obs) else "session_getter_always_set")
    stale = any(got is not None and ret is not None and len(got) > len(set(c["names"])) for (ret, rerr, got, gerr, _s), c in zip(real_obs, calls))
    if stale:
        ctx.count("session_stale_keys_kept")


def _nd(a):
    a = np.asarray(a)
    if a.ndim == 1:
        return {"v": Cvec(a)}
    return {"ncols": int(a.shape[1]), "rows": [Cvec(row) for row in a]}


def _corr_msf_matrix(ctx):
    """gen.MSF on its documented (n_locations, n_modes) arguments and on mixed 1-D / 2-D ones, against Merge.msfArr:
    one factor per column (numerator and denominator from the same column), shape Exception"""
    from pyoma2.functions import gen

    rng = ctx.rng
    g = ctx.nprng()
    n = rng.randint(1, 6)
    m_ = rng.randint(0, 4)
    cplx = rng.random() < 0.4

    def arr(shape):
        a = g.standard_normal(shape)
        return a + 1j * g.standard_normal(shape) if cplx else a

    kind = rng.choice(["mat", "mat", "mat", "vec-vec", "vec-mat", "mat-vec", "rows-differ", "cols-differ", "vec-mat-cols"])
    if kind == "mat":
        x, y = arr((n, m_)), arr((n, m_))
    elif kind == "vec-vec":
        x, y = arr(n), arr(n)
    elif kind == "vec-mat":
        x, y = arr(n), arr((n, 1))
    elif kind == "mat-vec":
        x, y = arr((n, 1)), arr(n)
    elif kind == "rows-differ":
        x, y = arr((n, m_)), arr((n + rng.choice([-1, 1]) if n > 1 else n + 1, m_))
    elif kind == "cols-differ":
        x, y = arr((n, m_)), arr((n, m_ + 1))
    else:
        x, y = arr(n), arr((n, rng.choice([0, 2, 3])))
    # columns of very different magnitude: a factor taken from another column's denominator would be far off
    if np.asarray(x).ndim == 2 and x.shape[1] > 0:
        x = x * np.exp(g.uniform(np.log(0.05), np.log(20), size=(1, x.shape[1])))
    x2 = x[:, None] if x.ndim == 1 else x
    if x2.size and not np.all(np.abs((x2 * x2).sum(axis=0)) > 1e-3 * (np.abs(x2) ** 2).sum(axis=0)):
        ctx.skipped += 1
        return
    impl, ierr = _exc_name(lambda: gen.MSF(x.copy(), y.copy()))
    m, merr = _model_or_error(ctx, "msf_arr", phi1=_nd(x), phi2=_nd(y))
    if ierr is not None or merr is not None:
        ok = ierr == merr
    else:
        impl = np.asarray(impl)
        mv = np.array([fl(v[0]) for v in m])
        ok = impl.shape == (len(m),) and not np.iscomplexobj(impl) and all(fl(v[1]) == 0.0 for v in m) and bool(
            np.all(np.abs(mv - impl) <= 1e-10 * np.maximum(1.0, np.abs(impl))))
    ctx.corr("gen.MSF[matrix]", bool(ok), {"phi1": [[str(v) for v in r] for r in np.atleast_2d(x).tolist()], "phi2": [[str(v) for v in r] for r in np.atleast_2d(y).tolist()],
                                         "shape1": list(x.shape), "shape2": list(y.shape)}, merr if merr else m, ierr if ierr else np.asarray(impl).tolist(),
             ("msfm", kind, ierr, min(m_, 2), cplx))
    ctx.count(f"msf_matrix_{kind}_{ierr or 'ok'}")


def _corr_negative(ctx):
    """reference positions written as negative Python integers (counting from the end) or out of bounds on either side:
    gen.merge_mode_shapes (numpy: normalised, IndexError outside -n..n-1) against Merge.mergeModeShapesI and the multi-setup
    branch of gen.flatten_sns_names (`j not in ref_ind[i]`: compared as written) against Merge.flattenNamesI"""
    from pyoma2.functions import gen

    rng = ctx.rng
    g = ctx.nprng()
    rows, refs, _nglob, nref = _layout(ctx)
    nm = rng.randint(1, 3)
    phis = [g.standard_normal((len(c), nm)) for c in rows]
    nat_refs = [list(r) for r in refs]
    kind = rng.choice(["negative", "negative", "negative", "below", "above", "mixed-dup", "few-reflists", "plain"])
    irefs = [list(r) for r in refs]
    if kind != "plain":
        for i, r in enumerate(irefs):
            for q in range(len(r)):
                if rng.random() < 0.6:
                    r[q] = r[q] - len(rows[i])
    i = rng.randrange(len(rows))
    if kind == "below":
        irefs[i][rng.randrange(len(irefs[i]))] = -len(rows[i]) - 1 - rng.randint(0, 2)
    elif kind == "above":
        irefs[i][rng.randrange(len(irefs[i]))] = len(rows[i]) + rng.randint(0, 2)
    elif kind == "mixed-dup":
        # the same channel listed twice, once from the front and once from the end
        p = nat_refs[i][0]
        irefs[i] = irefs[i] + [p - len(rows[i]) if irefs[i][0] >= 0 else p]
    elif kind == "few-reflists":
        del irefs[rng.randint(1, len(irefs) - 1):]
    ok_guard = all(
        np.all(np.abs((p[r, :] * p[r, :]).sum(axis=0)) > 1e-3 * (np.abs(p[r, :]) ** 2).sum(axis=0)) for p, r in zip(phis, nat_refs)
    )
    if not ok_guard:
        ctx.skipped += 1
        return
    impl, ierr = _exc_name(lambda: gen.merge_mode_shapes(MSarr_list=[p.copy() for p in phis], reflist=[list(r) for r in irefs]))
    m, merr = _model_or_error(ctx, "merge_mode_shapes_int", phis=[[Cvec(row) for row in p] for p in phis], refs=irefs)
    if ierr is None and merr is None:
        ok = np.asarray(impl).size == sum(len(r_) for r_ in m) and max_rel_err(np.array([[cfl(v) for v in row] for row in m]).reshape(impl.shape), impl) <= 1e-9
    else:
        ok = ierr == merr
    ctx.corr("gen.merge_mode_shapes[negative]", bool(ok), {"phis": [p.tolist() for p in phis], "refs": irefs, "kind": kind}, merr, ierr, ("neg", kind, ierr, len(rows), nref))
    ctx.count(f"merge_negative_{kind}_{ierr or 'ok'}")
    names = [[f"s{i_}c{j}" for j in range(len(c))] for i_, c in enumerate(rows)]
    if kind == "few-reflists" and rng.random() < 0.5:
        for i_ in range(len(irefs), len(names)):
            names[i_] = []  # a setup without names never reads its (missing) reference list
    impl_n, nerr = _exc_name(lambda: gen.flatten_sns_names([list(n_) for n_ in names], ref_ind=[list(r) for r in irefs]))
    mn, mnerr = _model_or_error(ctx, "flatten_names_int", names=names, refs=irefs)
    okn = (nerr == mnerr) if (nerr is not None or mnerr is not None) else list(impl_n) == list(mn)
    ctx.corr("gen.flatten_sns_names[negative]", bool(okn), {"names": names, "refs": irefs, "kind": kind}, mnerr if mnerr else mn, nerr if nerr else list(impl_n), ("negn", kind, nerr, len(rows), nref))
    if ierr is None and nerr is None and len(impl_n) != np.asarray(impl).shape[0]:
        ctx.count("negative_positions_names_vs_rows_differ")


def _real_merge_results(ctx, names, ref_ind, data):
    """the REAL MultiSetup_PoSER.merge_results over real SingleSetup objects whose algorithms carry prescribed results:
    data[i][ii] = (Fn, Xi, Phi) of the ii-th algorithm of setup i"""
    from pyoma2.algorithms import FDD
    from pyoma2.algorithms.data.result import EFDDResult
    from pyoma2.setup import MultiSetup_PoSER, SingleSetup

    setups = []
    for i, algs_data in enumerate(data):
        nch = max(algs_data[0][2].shape[0], 1)
        ss = SingleSetup(np.zeros((32, nch)), fs=10.0)
        algs = [FDD(name=f"a{i}_{ii}", nxseg=16) for ii in range(len(algs_data))]
        ss.add_algorithms(*algs)
        for alg, (fn_, xi_, phi_) in zip(algs, algs_data):
            alg.result = EFDDResult(Fn=np.array(fn_), Xi=np.array(xi_), Phi=np.array(phi_))
        setups.append(ss)
    ms = MultiSetup_PoSER(ref_ind=[list(r) for r in ref_ind], single_setups=setups, names=list(names))
    return ms.merge_results()


def _corr_merge_results(ctx, malformed):
    """MultiSetup_PoSER.merge_results (the real method, stub algorithms carrying prescribed Fn/Xi/Phi) against
    Merge.mergeResults: 2..4 setups, 1..3 algorithm groups; every field of every merged result, dictionary order."""
    rng = ctx.rng
    g = ctx.nprng()
    while True:
        rows, refs, _nglob, nref = _layout(ctx)
        if len(rows) <= 4:
            break
    nset = len(rows)
    ngroups = rng.randint(1, 3)
    nm = rng.randint(1, 5)
    names = [f"grp{gi}" for gi in range(ngroups)]
    ref_ind = [list(r) for r in refs]
    data = [[None] * ngroups for _ in range(nset)]
    for gi in range(ngroups):
        cplx = rng.random() < 0.4
        nglob = max(max(c) for c in rows) + 1
        G = g.standard_normal((nglob, nm)) + (1j * g.standard_normal((nglob, nm)) if cplx else 0)
        sc = np.exp(g.uniform(np.log(0.05), np.log(20), size=(nset, nm))) * g.choice([-1.0, 1.0], size=(nset, nm))
        base_f, base_x = g.uniform(1, 20, size=nm), g.uniform(0.005, 0.05, size=nm)
        mode = rng.choice(["wide", "near", "equal"])
        spread = {"wide": 0.3, "near": 10.0 ** rng.uniform(-8, -3), "equal": 0.0}[mode]
        ctx.count(f"merge_results_spread_{mode}")
        for i in range(nset):
            phi = G[rows[i], :] * sc[i][None, :]
            if rng.random() < 0.5:
                phi = phi + 0.1 * g.standard_normal(phi.shape)  # arbitrary, no common global shape
            data[i][gi] = (base_f * (1 + spread * g.uniform(-1, 1, size=nm)), base_x * (1 + spread * g.uniform(-1, 1, size=nm)), phi)
    kind = "ok"
    if malformed:
        kind = rng.choice(["dup-names", "dup-names-long-refs", "fn-len", "xi-len", "few-reflists", "mode-count", "dup-ref", "ref-len"])
        i = rng.randrange(nset)
        gi = rng.randrange(ngroups)
        fn_, xi_, phi_ = data[i][gi]
        if kind in ("dup-names", "dup-names-long-refs"):
            if ngroups == 1:
                kind = "fn-len"
            else:
                if kind == "dup-names-long-refs":
                    # all groups share one name: they are merged as if they were further setups (setup 0's algorithms,
                    # then setup 1's, ...); with one reference list per algorithm the real method goes through
                    names = [names[0]] * ngroups
                    ref_ind = [list(r) for r in ref_ind for _ in range(ngroups)]
                else:
                    names[rng.randrange(1, ngroups)] = names[0]
        if kind == "fn-len":
            data[i][gi] = (fn_[:-1] if nm > 1 else np.append(fn_, 1.0), xi_, phi_)
        elif kind == "xi-len":
            data[i][gi] = (fn_, np.append(xi_, 0.01), phi_)
        elif kind == "few-reflists":
            ref_ind = ref_ind[: rng.randint(1, nset - 1)]
        elif kind == "mode-count":
            data[i][gi] = (fn_, xi_, np.hstack([phi_, phi_[:, :1]]))
        elif kind == "dup-ref":
            ref_ind[i] = ref_ind[i] + [ref_ind[i][0]]
        elif kind == "ref-len":
            ref_ind[i] = ref_ind[i] + [ref_ind[i][0]]
            for j in range(nset):
                if j != i and rng.random() < 0.5:
                    ref_ind[j] = ref_ind[j] + [ref_ind[j][0]]
    # keep away from ill-conditioned scale factors (reference square sum near 0), as the property does
    for i in range(nset):
        for gi in range(ngroups):
            p = np.asarray(data[i][gi][2])
            r = [q for q in (ref_ind[i] if i < len(ref_ind) else []) if q < p.shape[0]]
            if r and not np.all(np.abs((p[r, :] * p[r, :]).sum(axis=0)) > 1e-3 * (np.abs(p[r, :]) ** 2).sum(axis=0)):
                ctx.skipped += 1
                return
    impl, ierr = _exc_name(lambda: _real_merge_results(ctx, names, ref_ind, data))
    m, merr = _model_or_error(
        ctx, "poser_merge_results", names=names, ref_ind=ref_ind,
        setups=[[{"Fn": [R(v) for v in a[0]], "Xi": [R(v) for v in a[1]], "Phi": [Cvec(row) for row in a[2]]} for a in algs] for algs in data],
    )
    inp = {"names": names, "ref_ind": ref_ind, "kind": kind,
           "data": [[{"Fn": a[0].tolist(), "Xi": a[1].tolist(), "Phi": [[str(v) for v in row] for row in np.asarray(a[2]).tolist()]} for a in algs] for algs in data]}
    fn = "MultiSetup_PoSER.merge_results" + ("[malformed]" if malformed else "")
    if ierr is not None or merr is not None:
        ctx.corr(fn, ierr == merr, inp, merr, ierr, ("mr-exc", kind, ierr))
        ctx.count(f"merge_results_{ierr or 'ok'}")
        return
    ok = [k_ for k_ in impl.keys()] == [e[0] for e in m]
    worst = 0.0
    if ok:
        eps = np.finfo(float).eps
        for name, res in m:
            real = impl[name]
            Phi = np.array([[cfl(v) for v in row] for row in res["Phi"]]).reshape(np.asarray(real.Phi).shape) if np.asarray(real.Phi).size == sum(len(r_) for r_ in res["Phi"]) else None
            ok = ok and Phi is not None and max_rel_err(Phi, real.Phi) <= 1e-9
            for key, tol_abs in (("Fn", 0.0), ("Xi", 0.0), ("Fn_cov", 50 * eps), ("Xi_cov", 50 * eps)):
                a = np.array([fl(v) for v in res[key]])
                b = np.asarray(getattr(real, key), dtype=float)
                rtol = 1e-12 if tol_abs == 0.0 else 1e-9
                good = a.shape == b.shape and bool(np.all(np.abs(a - b) <= tol_abs + rtol * np.abs(b)))
                if a.shape == b.shape and a.size:
                    worst = max(worst, float(np.max(np.abs(a - b) / (tol_abs + rtol * np.abs(b) + 1e-300))))
                ok = ok and good
            # contract of the driver's square root, on the model's own output: (Fn_cov*Fn)^2 = population variance
            from fractions import Fraction

            gi_list = [ii for ii, n_ in enumerate(names) if n_ == name]
            stack = [[Fraction(float(v)) for v in data[i][ii][0]] for i in range(len(data)) for ii in gi_list]
            for kk in range(len(res["Fn"])):
                col = [row[kk] for row in stack]
                mu = sum(col) / len(col)
                var = sum((v - mu) ** 2 for v in col) / len(col)
                got = (Fraction(res["Fn_cov"][kk]) * Fraction(res["Fn"][kk])) ** 2
                ctx.contract("rat_sqrt", float(abs(got - var) / var) if var else float(abs(got)), 1e-30, "driver sqrt: (Fn_cov*Fn)^2 vs exact population variance")
    ctx.dist["margin_merge_results_fraction_of_tolerance"] = max(ctx.dist.get("margin_merge_results_fraction_of_tolerance", 0.0), worst)
    ctx.corr(fn, bool(ok), inp, None, None, ("mr", nset, ngroups, nm, nref, kind))
    ctx.count("merge_results_ok")


def _poser_with_stub_results(ctx, rows, refs, groups):
    """a real MultiSetup_PoSER over real SingleSetup objects whose algorithms carry prescribed results;
    groups = list of (phis, fns, xis), one per algorithm of every setup"""
    from pyoma2.algorithms import FDD
    from pyoma2.algorithms.data.result import EFDDResult
    from pyoma2.setup import MultiSetup_PoSER, SingleSetup

    setups = []
    for i, chan in enumerate(rows):
        ss = SingleSetup(ctx.nprng().standard_normal((32, max(len(chan), 1))), fs=10.0)
        algs = []
        for gi, (phis, fns, xis) in enumerate(groups):
            alg = FDD(name=f"a{i}_{gi}", nxseg=16)
            algs.append(alg)
        ss.add_algorithms(*algs)
        for alg, (phis, fns, xis) in zip(algs, groups):
            alg.result = EFDDResult(Fn=np.array(fns[i]), Xi=np.array(xis[i]), Phi=np.array(phis[i]))
        setups.append(ss)
    names = [f"grp{gi}" for gi in range(len(groups))]
    ms = MultiSetup_PoSER(ref_ind=[list(r) for r in refs], single_setups=setups, names=names)
    return ms.merge_results(), names


def oracle(ctx, scale):
    from pyoma2.functions import gen

    rng = ctx.rng
    g = ctx.nprng()
    for _ in range(ctx.n(6, 120) * scale):
        _e2e(ctx)
        if ctx.violations:
            return
    for k in range(ctx.n(80, 2500) * scale):
        rows, refs, G, s, phis, cplx = _case(ctx)
        nref = len(refs[0])
        if not _guard(G, nref):
            ctx.skipped += 1
            continue
        through_class = rng.random() < 0.25
        if not cplx and not through_class and rng.random() < 0.2:
            # integer-valued shapes and factors handed over as integer arrays (the re-scaling s0/si is not an integer)
            # (the roving sensors of the later setups are integers only in their own setup's scale)
            G = np.rint(G / np.abs(G).max() * 12.0)
            s = g.choice([-8.0, -4.0, -2.0, 2.0, 4.0, 8.0], size=s.shape)
            s[0, :] = g.choice([-2.0, -1.0, 1.0, 2.0], size=s.shape[1])
            for i in range(1, len(rows)):
                for r_ in rows[i]:
                    if r_ >= nref:
                        G[r_, :] = g.integers(-12, 13, size=G.shape[1]) / s[i, :]
            if not _guard(G, nref) or np.any(np.abs(G[:nref, :]).sum(axis=0) == 0):
                ctx.skipped += 1
                continue
            phis = [np.array(G[rows[i], :] * s[i][None, :]).astype(np.int64) for i in range(len(rows))]
            ctx.count("oracle_integer_dtype")
        order = _expected_order(rows, refs)
        expect = G[order, :] * s[0][None, :]
        nset = len(rows)
        fns = xis = None
        if through_class:
            nm = G.shape[1]
            ngroups = rng.randint(1, 3)
            groups = []
            for gi in range(ngroups):
                sg = s if gi == 0 else np.exp(g.uniform(np.log(0.05), np.log(20), size=s.shape)) * g.choice([-1.0, 1.0], size=s.shape)
                f_g, x_g = g.uniform(1, 20, size=(nset, nm)), g.uniform(0.005, 0.05, size=(nset, nm))
                if gi == 0 and rng.random() < 0.6:
                    # setups that agree to many digits (noise-free identification): the dispersion is tiny but defined
                    spread = 10.0 ** rng.uniform(-8, -5)
                    f_g = f_g[0:1, :] * (1.0 + spread * g.uniform(-1, 1, size=(nset, nm)))
                    x_g = x_g[0:1, :] * (1.0 + spread * g.uniform(-1, 1, size=(nset, nm)))
                    if rng.random() < 0.3:
                        f_g = np.repeat(f_g[0:1, :], nset, axis=0)  # identical in every setup: dispersion 0
                    ctx.count("stats_near_equal_setups")
                groups.append(([np.array(G[rows[i], :] * sg[i][None, :]) for i in range(nset)], f_g, x_g, sg))
            allres, names = _poser_with_stub_results(ctx, rows, refs, [(a, b, c) for (a, b, c, _d) in groups])
            ctx.oracle_cases += 1
            if sorted(allres.keys()) != sorted(names):
                ctx.violation("poser-groups-missing", f"merge_results returned groups {sorted(allres.keys())}, expected one merged result per algorithm name {names}",
                              {"rows": rows, "refs": refs, "n_algorithms": ngroups})
                return
            for gi in range(1, ngroups):
                exp_g = G[order, :] * groups[gi][3][0][None, :]
                if max_rel_err(allres[names[gi]].Phi, exp_g) > 1e-9:
                    ctx.violation("merge-scale-group", f"algorithm group {gi}: merged mode shape differs from s0*G[order]", {"rows": rows, "refs": refs, "n_algorithms": ngroups})
                    return
            res = allres[names[0]]
            fns, xis = groups[0][1], groups[0][2]
            merged = res.Phi
            if rng.random() < 0.5:
                # a second PoSER object in the same session (other shapes) must leave the first one's merged results alone
                keep = {k: (np.array(v.Phi, copy=True), np.array(v.Fn, copy=True)) for k, v in allres.items()}
                other = [([np.array(p_) * 3.0 + 1.0 for p_ in a], b * 2.0, c) for (a, b, c, _d) in groups]
                _poser_with_stub_results(ctx, rows, refs, other)
                ctx.oracle_cases += 1
                for k, (ph, fn_) in keep.items():
                    if not (np.array_equal(allres[k].Phi, ph) and np.array_equal(allres[k].Fn, fn_)):
                        ctx.violation("poser-results-shared", "merging a second MultiSetup_PoSER object changed the merged results returned by the first one",
                                      {"rows": rows, "refs": refs, "n_algorithms": ngroups})
                        return
        else:
            held = [p.copy() for p in phis]
            merged = gen.merge_mode_shapes(MSarr_list=held, reflist=[list(r) for r in refs])
            if rng.random() < 0.5:
                # merging is a pure function of its arguments: the caller's arrays are left alone, so merging the very same
                # list again gives the very same matrix
                ctx.oracle_cases += 1
                again = gen.merge_mode_shapes(MSarr_list=held, reflist=[list(r) for r in refs])
                if any(not np.array_equal(a, b) for a, b in zip(held, phis)) or not np.array_equal(np.asarray(again), np.asarray(merged)):
                    ctx.violation("merge-not-repeatable", "merge_mode_shapes modified the caller's per-setup shape arrays (a second merge of the same list differs)",
                                  {"rows": rows, "refs": refs, "G": [[str(v) for v in r] for r in G.tolist()], "s": s.tolist(), "through_class": False, "repeat": True})
                    return
        ctx.oracle_cases += 1
        ctx.nontrivial.add(("oracle", nset, nref, tuple(len(c) - nref for c in rows), cplx, tuple(tuple(r) for r in refs)))
        err = max_rel_err(merged, expect)
        inp = {"rows": rows, "refs": refs, "G": [[str(v) for v in r] for r in G.tolist()], "s": s.tolist(), "through_class": through_class}
        if err > 1e-9:
            # classify: right order but wrong scale, or wrong order
            sig = "merge-scale"
            if merged.shape == expect.shape:
                ratio = merged[nref:, :] / np.where(np.abs(expect[nref:, :]) > 1e-12, expect[nref:, :], np.nan)
                percol_const = True
                # rows of one setup must share one ratio per mode if only the scale is off
                start = nref
                for i, chan in enumerate(rows):
                    nrov = len(chan) - nref
                    blk = ratio[start - nref : start - nref + nrov, :]
                    start += nrov
                    if nrov and not np.all(np.nanmax(np.abs(blk - blk[0:1, :]), axis=0) < 1e-6 * np.nanmax(np.abs(blk), axis=0)):
                        percol_const = False
                if not percol_const:
                    sig = "merge-order"
            else:
                sig = "merge-shape"
            ctx.violation(sig, f"merged mode shape differs from s0*G[order] (rel err {err:.2e})", inp,
                          observed=[[str(v) for v in r] for r in np.asarray(merged).tolist()], expected=[[str(v) for v in r] for r in expect.tolist()])
            return
        # names follow the same order
        labels = {r: (f"REF{r+1}" if r < nref else f"n{r}") for r in range(G.shape[0])}
        names = [[labels[r] if r >= nref else f"x{r}" for r in chan] for chan in rows]
        fl_names = gen.flatten_sns_names([list(n_) for n_ in names], ref_ind=[list(r) for r in refs])
        want = [f"REF{i+1}" for i in range(nref)] + [labels[r] for r in order[nref:]]
        ctx.oracle_cases += 1
        if list(fl_names) != want:
            ctx.violation("names-order", "flattened sensor names are not in the row order of the merged mode shape", inp, observed=list(fl_names), expected=want)
            return
        if through_class:
            ctx.oracle_cases += 1
            def _disp_ok(got, vals):
                # population std / mean; the two-pass formula loses eps*mean/std relative accuracy, no more
                want = np.sqrt(((vals - vals.mean(axis=0)) ** 2).mean(axis=0)) / vals.mean(axis=0)
                tol = 1e-9 * np.abs(want) + 50 * np.finfo(float).eps + 1e-13 * (want < 1e-9)
                rel = 1e-9 + 50 * np.finfo(float).eps / np.maximum(np.abs(want), 1e-300)
                return bool(np.all(np.abs(np.asarray(got) - want) <= np.maximum(tol, rel * np.abs(want))))

            ok = (
                np.allclose(res.Fn, fns.mean(axis=0), rtol=1e-12)
                and np.allclose(res.Xi, xis.mean(axis=0), rtol=1e-12)
                and _disp_ok(res.Fn_cov, fns)
                and _disp_ok(res.Xi_cov, xis)
            )
            if not ok:
                ctx.violation("stats", "merged Fn/Xi are not the means or the dispersion is not population-std/mean", inp | {"fns": fns.tolist(), "xis": xis.tolist()},
                              observed={"Fn": res.Fn.tolist(), "Fn_cov": res.Fn_cov.tolist()})
                return
            ctx.count("through_MultiSetup_PoSER")


def _e2e(ctx):
    """setups whose shapes come from SSI runs on noise-free data of one global system recorded with different amplitudes"""
    import math

    import sysgen
    from pyoma2.algorithms import SSIcov
    from pyoma2.setup import MultiSetup_PoSER, SingleSetup

    rng = ctx.rng
    g = ctx.nprng()
    rows, refs, nglob, nref = _layout(ctx)
    rows, refs = rows[:3], refs[:3]
    if len(rows) < 2:
        return
    nglob = max(max(c) for c in rows) + 1
    m = rng.randint(1, 3)
    S = sysgen.random_system(rng, g, m, nglob, rng.choice([50.0, 100.0]), complex_shapes=False)
    if np.min(np.abs(S.phi[:nref, :]).max(axis=0)) < 0.3:
        ctx.skipped += 1
        return
    setups = []
    hc = dict(conj=False, xi_max=1.0, mpc_lim=0.0, mpd_lim=math.pi / 2, cov_max=1e9)
    order = np.argsort(S.fn)
    for i, chan in enumerate(rows):
        idx = sysgen.observability_index(S, chan)
        if idx is None or len(chan) < 2:  # a one-sensor setup has no defined MPC/MPD (hard criteria blank its poles)
            ctx.skipped += 1
            return
        amp = g.standard_normal(m) + 1j * g.standard_normal(m)
        amp /= np.abs(amp)
        y = S.response(rng.randint(500, 900), amp)[:, chan] * 10 ** rng.uniform(-2, 2)
        ss = SingleSetup(y, fs=S.fs)
        br = idx + 1 + rng.randint(0, 2)
        alg = SSIcov(name=f"s{i}", br=br, ordmax=min(2 * m, (br + 1) * len(chan), br * len(chan)), method="cov_mm", hc=hc)
        ss.add_algorithms(alg)
        ss.run_by_name(alg.name)
        if alg.run_params.ordmax < 2 * m:
            ctx.skipped += 1
            return
        sv = np.linalg.svd(alg.result.H, compute_uv=False)
        if sv[2 * m - 1] / sv[0] < 1e-7:
            ctx.skipped += 1
            return
        ss.mpe(alg.name, sel_freq=[float(S.fn[k]) for k in order], order=2 * m, rtol=1e-3)
        if alg.result.Fn is None or len(alg.result.Fn) != m:
            ctx.skipped += 1
            return
        setups.append(ss)
    ms = MultiSetup_PoSER(ref_ind=[list(r) for r in refs], single_setups=setups, names=["ssi"])
    res = ms.merge_results()["ssi"]
    glob = _expected_order(rows, refs)
    ctx.oracle_cases += 1
    ctx.count("e2e_ssi_poser")
    inp = {"rows": rows, "refs": refs, "fn": S.fn.tolist(), "xi": S.xi.tolist(), "phi": S.phi.tolist(), "fs": S.fs, "kind": "e2e-ssi"}
    for j, k in enumerate(order):
        mc = sysgen.mac(res.Phi[:, j], S.phi[glob, k])
        if 1 - mc > 1e-8 or abs(res.Fn[j] - S.fn[k]) > 1e-8 * S.fn[k] or abs(res.Xi[j] - S.xi[k]) > 1e-8:
            ctx.violation("e2e-merge", f"PoSER merge of SSI results on noise-free data: mode {j}: MAC {mc:.10f}, Fn {res.Fn[j]} vs {S.fn[k]}, Xi {res.Xi[j]} vs {S.xi[k]}", inp)
            return
    # the same object merged again: same result (the stored per-setup results are inputs, not scratch space)
    ctx.oracle_cases += 1
    res2 = ms.merge_results()["ssi"]
    if not (np.allclose(res2.Phi, res.Phi, rtol=1e-12, atol=0) and np.array_equal(res2.Fn, res.Fn)):
        ctx.violation("e2e-merge-not-repeatable", "a second merge_results() on the same MultiSetup_PoSER differs from the first", inp | {"kind": "e2e-ssi-repeat"})
        return
    # modes extracted again (another selection) in every setup, then merged: the merge is of what is stored NOW
    if m >= 2:
        keep = order[: m - 1]
        for ss in setups:
            a = list(ss.algorithms.values())[0]
            ss.mpe(a.name, sel_freq=[float(S.fn[k]) for k in keep], order=2 * m, rtol=1e-3)
            if a.result.Fn is None or len(a.result.Fn) != m - 1:
                ctx.skipped += 1
                return
        ctx.oracle_cases += 1
        ctx.count("e2e_ssi_poser_reextracted")
        res3 = ms.merge_results()["ssi"]
        ok = np.asarray(res3.Fn).shape == (m - 1,) and np.asarray(res3.Phi).shape == (len(glob), m - 1)
        if ok:
            for j, k in enumerate(keep):
                if 1 - sysgen.mac(res3.Phi[:, j], S.phi[glob, k]) > 1e-8 or abs(res3.Fn[j] - S.fn[k]) > 1e-8 * S.fn[k]:
                    ok = False
        if not ok:
            ctx.violation("e2e-merge-stale", "merge_results() after a new extraction in every setup does not merge the modes stored now", inp | {"kind": "e2e-ssi-reextract"})
            return


def replay(rec):
    from pyoma2.functions import gen

    v = rec["violation"]
    inp = v["input"]
    print("replaying", v["sig"], "-", v["what"])
    if str(inp.get("kind", "")).startswith("e2e-ssi"):
        print("end-to-end case: re-run `VERIF_SEED=%d ./check C02` (system: fn %s)" % (rec["seed"], inp["fn"]))
        return 0
    G = np.array([[complex(x) for x in r] for r in inp["G"]])
    s = np.array(inp["s"])
    rows, refs = inp["rows"], inp["refs"]
    phis = [G[rows[i], :] * s[i][None, :] for i in range(len(rows))]
    merged = gen.merge_mode_shapes(MSarr_list=phis, reflist=refs)
    if inp.get("repeat"):
        again = gen.merge_mode_shapes(MSarr_list=phis, reflist=refs)
        print("second merge of the same list equals the first:", bool(np.array_equal(np.asarray(again), np.asarray(merged))))
    order = _expected_order(rows, refs)
    print("rel err vs s0*G[order]:", max_rel_err(merged, G[order, :] * s[0][None, :]))
    return 0
