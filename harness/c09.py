"""C09 — hard validation criteria are enforced soundly, completely and consistently."""
import math
from fractions import Fraction

import numpy as np

import translate_hc
from common import LEAN, REPO, R, Ro, Cxo, fl

LEAN_MODULES = ["PyomaVerif.Props.C09", "PyomaVerif.Mutants.C09", "PyomaVerif.Props.C09C18", "PyomaVerif.Props.C09All", "PyomaVerif.Props.C09Blank", "PyomaVerif.Props.C09Stored", "PyomaVerif.Props.C09Run", "PyomaVerif.Props.C09RunLink", "PyomaVerif.Props.C09C18Contracts", "PyomaVerif.Props.WiringCalls"]
THEOREMS = [
    # the exact sequence of core-routine calls of the run()/mpe() body and the exact set of parameters bound at each (regenerated call table)
    "PV.WiringCalls.C05_plscf_run_calls",
    # the exact sequence of core-routine calls of the run()/mpe() body and the exact set of parameters bound at each (regenerated call table)
    "PV.WiringCalls.C03_ssidat_ms_run_calls",
    # the exact sequence of core-routine calls of the run()/mpe() body and the exact set of parameters bound at each (regenerated call table)
    "PV.WiringCalls.C12_ssidat_run_calls",
    # C09 for all six classes as ONE theorem over the list (program, required fields, which flags exist)
    "PV.C09All.C09_seq_all",
    "PV.C09All.required_pole_fields",
    "PV.C09All.C09_kept_iff_all",
    "PV.C09All.C09_kept_iff_field",
    "PV.C09All.C09_nan_pattern",
    "PV.C09All.C09_common_mask",
    "PV.C09All.kept_iff_keptB",
    "PV.C09All.ex_kept",
    # composition C09 o C18: the kept poles satisfy the criteria for the library's own MPC/MPD definitions
    # depth round: the MPC / MPD criteria read without the eigvals / svd parameters (Props/C09C18Contracts.lean)
    "PV.C09C18.C09_closedDir_contract",
    "PV.C09C18.C09_mpdVal_closed",
    "PV.C09C18.C09_MpdOk_closed",
    "PV.C09C18.C09_mpdVal_finite",
    "PV.C09C18.mpcClosed?_cast",
    "PV.C09C18.C09_MpcOk_eig",
    "PV.C09C18.kept_iff_of_check",
    "PV.C09C18.C09_kept_mpc",
    "PV.C09C18.C09_kept_mpd",
    "PV.C09C18.C09_kept_damp",
    "PV.C09C18.C09_kept_converse",
    "PV.C09C18.C09_kept_iff_pLSCF",
    "PV.C09C18.enabled_iff",
    "PV.Hc.arun_sound",
    "PV.C09.check_sound",
    "PV.C09.denoteTbl_iff",
    "PV.C09.C09_seq_SSIdat",
    "PV.C09.C09_seq_SSIcov",
    "PV.C09.C09_seq_SSIdat_MS",
    "PV.C09.C09_seq_SSIcov_MS",
    "PV.C09.C09_seq_pLSCF",
    "PV.C09.C09_seq_pLSCF_MS",
    "PV.C09.C09_SSIdat",
    "PV.C09.C09_SSIcov",
    "PV.C09.C09_SSIdat_MS",
    "PV.C09.C09_SSIcov_MS",
    "PV.C09.C09_pLSCF",
    "PV.C09.C09_pLSCF_MS",
    "PV.C09.hcDamp_mask_iff",
    "PV.C09.hcDamp_filt",
    "PV.C09.hcCov_mask_iff",
    "PV.C09.hcCov_filt",
    "PV.C09.hcConj_mask_iff",
    "PV.C09.mpd_mask_iff",
    "PV.C09.mpc_mask_iff",
    "PV.C09.applymask_cell",
    "PV.Mutants.C09.old_SSIdat_fails",
    "PV.Mutants.C09.swapped_thresholds_fail",
    # the in-place form X[np.logical_not(m)] = np.nan (Stmt.blank; its soundness is a case of PV.Hc.arun_sound)
    "PV.C09Blank.blank_eq_applymask",
    "PV.C09Blank.blank_all_tables_ok",
    "PV.C09Blank.blank_one_table_fails",
    "PV.C09Blank.blank_one_table_misses_damp",
    "PV.C09Blank.blank_none_stuck",
    # depth round (audit C09 gaps 2, 3 / C01 gap 1): neutral limits = identity, a passing pole survives, HC_conj instantiated, cexec step = HcFn.*
    "PV.C09Stored.C09_neutral_identity",
    "PV.C09Stored.C09_neutral_identity_table",
    "PV.C09Stored.C09_kept_survives",
    "PV.C09Stored.C09_raw_survives",
    "PV.C09Stored.C09_conj_present",
    "PV.C09Stored.C09_maskO_applymask",
    "PV.C09Stored.C09_cexec_hcDamp",
    "PV.C09Stored.C09_cexec_hcCov",
    "PV.C09Stored.C09_cexec_hcConj",
    "PV.C09Stored.exN_neutral",
    "PV.Stored.kept_neutral_iff",
    "PV.Stored.stored_tables",
    "PV.HcFn.cellAt_applymask",
    "PV.HcFn.cellAt_hcDamp",
    "PV.HcFn.cellAt_hcCov",
    "PV.HcFn.cellAt_hcConj",
    "PV.HcFn.conjGrid_iff",
    "PV.HcFn.conjGrid_cellAt",
    # the EXECUTABLE run (HcFn.lrunClass = op hc_run, compared with algorithm.result in stream run[<class>]) simulates crun
    # and satisfies the property: returns, every stored table = unfiltered table blanked exactly where a criterion fails
    "PV.HcFn.lexec_sound",
    "PV.HcFn.lrun_sound",
    "PV.C09Run.lrun_of_arun",
    "PV.C09Run.C09_lrun_stored",
    "PV.C09Run.classProgs_check",
    "PV.C09Run.C09_lrun_all",
    "PV.C09Run.CritL_iff",
    # ... and, under the contract that the recorded MPC/MPD decide the library's criteria, returns the very tables of runOf (C09All)
    "PV.C09RunLink.crit_eq",
    "PV.C09RunLink.C09_lrun_is_runOf",
    "PV.C09RunLink.ex_contract",
]
RULE = (
    "translator: the hard-criteria statements of the six run() bodies are regenerated into Lean on every run and the "
    "sequencing theorems re-checked by the kernel (its fail-closed rule is self-tested on the current sources: 73 kinds of "
    "unmodelled writes / mutations / aliases inserted into each run() must be refused, 11 read-only ones and a renaming accepted); correspondence: gen.HC_damp/HC_cov/HC_conj/HC_phi_comp/applymask vs the "
    "Lean cell models on random NaN-bearing tables (exact), and run[<class>]: the whole hard-criteria part of run() as one executable "
    "model (HcFn.lrunClass on the regenerated program) vs algorithm.result of real runs, every stored table cell by cell (exact); oracle: real runs of SSIdat/SSIcov(+uncertainty)/SSIdat_MS/"
    "SSIcov_MS/pLSCF/pLSCF_MS on small random data with random criteria, the unfiltered solution captured from the pole "
    "routine, every cell judged from the property statement. distinct = (class, conj, criteria that actually rejected a pole)"
)
EXTRA_TRUSTED = [
    "harness/translate_hc.py (Python AST -> Lean Stmt list; fails closed on statements outside its grammar: every write, "
    "in-place mutation or alias of a tracked table / mask / list / threshold / the hc dictionary that is not one of the modelled "
    "forms aborts the translation; exercised on the sources under test by harness/translate_hc_selftest.py)",
    "Stmt.blank (`X[np.logical_not(m)] = np.nan`): the translator's argument that no list still in use holds the object written to",
    "Python list-of-arrays snapshot semantics and tuple assignment as modelled by Stmt.bind / Stmt.apply",
    "gen.MPC / gen.MPD values are parameters of the mask model (their own model is C18's)",
]
ASSUMPTIONS = [
    "poles within relative 1e-9 of a threshold are not judged",
    "the conjugate criterion is judged only where 'conjugate present in the same order' and 'present anywhere in the table' agree",
]


def pre_build(ctx):
    ok, msg, summary = translate_hc.write(REPO, LEAN)
    ctx.notes.append(f"translator: {msg}; {summary}")
    from common import wiring_pre_build

    ok2, msg2 = wiring_pre_build(ctx)  # the call-set obligations (WiringCalls) read the regenerated wiring table
    return ok and ok2, f"{msg}; {msg2}"


# ----------------------------------------------------------------------------- correspondence
def _rand_table(ctx, rows, cols, nanfrac, lo, hi):
    g = ctx.nprng()
    t = g.uniform(lo, hi, size=(rows, cols))
    t[g.random((rows, cols)) < nanfrac] = np.nan
    return t


def _tbl(a):
    return [[Ro(v) for v in row] for row in a]


def _same_tbl(model, impl):
    impl = np.asarray(impl, float)
    for i, row in enumerate(model):
        for j, v in enumerate(row):
            x = impl[i, j]
            if v is None:
                if not math.isnan(x):
                    return False
            elif math.isnan(x) or fl(v) != x:
                return False
    return True


# --- default values as regenerated obligations (Generated/Defaults.lean <- harness/translate_defaults.py; stream defaults[...])
import defaults_stream  # noqa: E402
from common import all_pre_build as pre_build  # noqa: E402,F401,F811  (runs EVERY translate_*.py)
LEAN_MODULES += ["PyomaVerif.Props.WiringDefaultsC09"]
THEOREMS += ["PV.WiringDefaults.C09_hc_defaults"]


def correspondence(ctx):
    defaults_stream.correspondence(ctx, props=())
    from pyoma2.functions import gen

    rng = ctx.rng
    for k in range(ctx.n(60, 1500)):
        rows, cols = rng.randint(1, 6), rng.randint(1, 6)
        # HC_damp
        t = _rand_table(ctx, rows, cols, 0.25, -0.05, 0.3)
        if rng.random() < 0.3:
            t[ctx.nprng().random(t.shape) < 0.15] = 0.0
        mx = rng.choice([0.05, 0.1, 0.2, 1.0, rng.uniform(0.01, 0.3)])
        pos = t[(~np.isnan(t)) & (t > 0)]
        if pos.size and rng.random() < 0.3:
            mx = float(rng.choice(list(pos))) * (1 + rng.choice([-1, 1]) * 1e-6)
        f, m = gen.HC_damp(t.copy(), mx)
        out = ctx.model("hc_damp", t=_tbl(t), max=R(mx))
        ok = _same_tbl(out["filt"], f) and (np.asarray(m).astype(bool) == np.array(out["mask"], bool)).all()
        ctx.corr("gen.HC_damp", ok, {"t": t.tolist(), "max": mx}, out, {"filt": f.tolist(), "mask": np.asarray(m).tolist()}, (rows, cols, mx))
        # HC_cov
        t = _rand_table(ctx, rows, cols, 0.25, 0.0, 0.5)
        if rng.random() < 0.4:
            t[ctx.nprng().random(t.shape) < 0.2] = 0.0
            ctx.count("cov_tables_with_exact_zero")
        mx = rng.uniform(0.05, 0.6)
        f, m = gen.HC_cov(t.copy(), mx)
        out = ctx.model("hc_cov", t=_tbl(t), max=R(mx))
        ok = _same_tbl(out["filt"], f) and (np.asarray(m).astype(bool) == np.array(out["mask"], bool)).all()
        ctx.corr("gen.HC_cov", ok, {"t": t.tolist(), "max": mx}, out, {"filt": f.tolist(), "mask": np.asarray(m).tolist()}, (rows, cols))
        # HC_conj: small integer-valued complex entries so that conjugates really occur
        g = ctx.nprng()
        lam = (g.integers(-2, 3, size=(rows, cols)) + 1j * g.integers(-2, 3, size=(rows, cols))).astype(complex)
        lam[g.random((rows, cols)) < 0.2] = np.nan
        f, m = gen.HC_conj(lam.copy())
        out = ctx.model("hc_conj", t=[[Cxo(v) for v in row] for row in lam])
        okm = (np.asarray(m).astype(bool) == np.array(out["mask"], bool)).all()
        okf = True
        for i, row in enumerate(out["filt"]):
            for j, v in enumerate(row):
                x = f[i, j]
                if v is None:
                    okf = okf and bool(np.isnan(x))
                else:
                    okf = okf and (complex(fl(v[0]), fl(v[1])) == x)
        ctx.corr("gen.HC_conj", bool(okm and okf), {"lam": [[str(v) for v in row] for row in lam]}, out, {"mask": np.asarray(m).tolist()}, (rows, cols))
        # HC_phi_comp, with the MPC/MPD values the code itself computes handed to the model
        nch = rng.randint(2, 4)
        phi = g.standard_normal((rows, cols, nch)) + 1j * g.standard_normal((rows, cols, nch)) * rng.choice([0.0, 0.1, 1.0])
        if rng.random() < 0.4:
            # exactly collinear shapes (a complex multiple of a small-integer real vector): MPC is 1 up to a few ulp on
            # either side, MPD is 0 up to rounding
            for i in range(rows):
                for j in range(cols):
                    if g.random() < 0.5:
                        phi[i, j, :] = complex(g.integers(-4, 5), g.integers(1, 5)) * g.integers(1, 4, nch) * g.choice([-1, 1], nch)
            ctx.count("hc_phi_exactly_collinear_cells")
        nanmask = g.random((rows, cols)) < 0.2
        phi[nanmask, :] = np.nan
        # includes the boundary values of the documented ranges (0, 1, pi/2), which a 'falsy means default' shortcut would change
        mpc_lim = rng.choice([0.0, 1.0, rng.uniform(0.1, 0.95), rng.uniform(0.1, 0.95)])
        mpd_lim = rng.choice([0.0, math.pi / 2, rng.uniform(0.05, 1.2), rng.uniform(0.05, 1.2)])
        mpdv = np.full((rows, cols), np.nan)
        mpcv = np.full((rows, cols), np.nan)
        for i in range(rows):
            for j in range(cols):
                try:
                    mpdv[i, j] = gen.MPD(phi[i, j, :])
                except Exception:
                    pass
                try:
                    mpcv[i, j] = gen.MPC(phi[i, j, :])
                except Exception:
                    pass
        if rng.random() < 0.4:
            # limits placed a relative 1e-6 beside an actual value (outside the 1e-9 band the property leaves unjudged):
            # a comparison made "tolerant" would flip such cells
            vals = mpcv[~np.isnan(mpcv)]
            if vals.size:
                mpc_lim = float(rng.choice(list(vals))) * (1 + rng.choice([-1, 1]) * 1e-6)
            vals = mpdv[~np.isnan(mpdv)]
            if vals.size and float(np.max(vals)) > 0:
                mpd_lim = float(rng.choice([v for v in vals if v > 0] or [0.3])) * (1 + rng.choice([-1, 1]) * 1e-6)
            ctx.count("hc_phi_near_threshold")
        m3, m4 = gen.HC_phi_comp(phi.copy(), mpc_lim, mpd_lim)
        out = ctx.model("hc_phi", mpd=_tbl(mpdv), mpc=_tbl(mpcv), mpc_lim=R(mpc_lim), mpd_lim=R(mpd_lim))
        ok = (np.asarray(m3).astype(bool) == np.array(out["mask_mpd"], bool)).all() and (
            np.asarray(m4).astype(bool) == np.array(out["mask_mpc"], bool)
        ).all()
        ctx.corr("gen.HC_phi_comp", bool(ok), {"mpd": mpdv.tolist(), "mpc": mpcv.tolist(), "mpc_lim": mpc_lim, "mpd_lim": mpd_lim},
                 out, {"mask_mpd": np.asarray(m3).tolist(), "mask_mpc": np.asarray(m4).tolist()}, (rows, cols, nch))
        # applymask (2-D and 3-D)
        t = _rand_table(ctx, rows, cols, 0.2, -1, 1)
        mask = g.random((rows, cols)) < 0.6
        t3 = g.standard_normal((rows, cols, nch))
        o2, o3, onone = gen.applymask([t, t3, None], mask, nch)
        out = ctx.model("applymask", t=_tbl(t), mask=mask.tolist())
        ok = _same_tbl(out, o2) and onone is None and (np.isnan(o3).all(axis=2) == ~mask).all() and np.array_equal(o3[mask], t3[mask])
        ctx.corr("gen.applymask", bool(ok), {"t": t.tolist(), "mask": mask.tolist()}, out, o2.tolist(), (rows, cols))
        if k == 0:
            ctx.sample({"HC_damp_table": t.tolist(), "max": mx})
    _translator_selftest(ctx)
    _corr_runs(ctx)


# ----------------------------------------------------------------------------- correspondence: the whole run()
def _corr_runs(ctx):
    """stream run[<class>]: the hard-criteria part of run() as ONE executable model (HcFn.lrunClass on the program
    regenerated from /repo, op hc_run) against algorithm.result of a real run: the unfiltered tables are captured from
    the pole routine inside run(), MPC / MPD of every unfiltered shape are computed with the library's own functions and
    handed over, every stored table is compared cell by cell (NaN pattern and values, exactly)."""
    from pyoma2.algorithms import SSIcov, SSIdat, pLSCF
    from pyoma2.algorithms.plscf import pLSCF_MS
    from pyoma2.algorithms.ssi import SSIcov_MS, SSIdat_MS
    from pyoma2.functions import gen
    from pyoma2.functions import plscf as f_plscf
    from pyoma2.functions import ssi as f_ssi
    from pyoma2.setup import MultiSetup_PreGER, SingleSetup

    rng = ctx.rng
    classes = ["SSIdat", "SSIcov", "SSIdat_MS", "SSIcov_MS", "pLSCF", "pLSCF_MS"]
    for k in range(ctx.n(12, 120)):
        cls = classes[k % 6]
        is_ms, is_pl = cls.endswith("_MS"), cls.startswith("pLSCF")
        unc = cls == "SSIcov" and (k // 6) % 2 == 1
        hc = _rand_hc(ctx, with_cov=not is_pl)
        fs = rng.choice([20.0, 50.0])
        if is_ms:
            nset, nref, nmov, n = 2, rng.randint(1, 2), rng.randint(1, 2), rng.randint(400, 600)
            full = _signal(ctx, nref + nset * nmov, n * nset, fs)
            datasets = [full[i * n:(i + 1) * n][:, list(range(nref)) + [nref + i * nmov + q for q in range(nmov)]].copy() for i in range(nset)]
            setup = MultiSetup_PreGER(fs=fs, ref_ind=[list(range(nref))] * nset, datasets=datasets)
        else:
            setup = SingleSetup(_signal(ctx, rng.randint(2, 3), rng.randint(500, 800), fs), fs=fs)
        ordmax = rng.randint(4, 8)
        if is_pl:
            A = {"pLSCF": pLSCF, "pLSCF_MS": pLSCF_MS}[cls]
            alg = A(name="a", ordmax=ordmax, nxseg=64, hc=hc)
            cap = _Capture(f_plscf, "pLSCF_poles")
        else:
            A = {"SSIdat": SSIdat, "SSIcov": SSIcov, "SSIdat_MS": SSIdat_MS, "SSIcov_MS": SSIcov_MS}[cls]
            kw = dict(name="a", br=rng.randint(ordmax // 2 + 2, ordmax + 2), ordmax=ordmax, hc=hc)
            if unc:
                kw.update(calc_unc=True, nb=10, method="cov_mm")
            alg = A(**kw)
            cap = _Capture(f_ssi, "SSI_poles")
        setup.add_algorithms(alg)
        try:
            with cap:
                setup.run_by_name("a")
        except (np.linalg.LinAlgError, ValueError, IndexError):
            ctx.count("corr_run_failed")
            continue
        unf, res = cap.out, alg.result
        Fn0, Xi0, Phi0, Lam0 = unf[0], unf[1], unf[2], unf[3]
        has_cov = (not is_pl) and len(unf) > 4 and unf[4] is not None
        if has_cov:
            # a covariance limit that actually bites
            vals = unf[4][~np.isnan(unf[4])]
            if vals.size:
                hc = dict(hc)
                hc["cov_max"] = float(np.quantile(vals, rng.choice([0.3, 0.6, 0.9])) * 1.0000001)
                alg = A(**(kw | {"hc": hc, "name": "b"}))
                setup.add_algorithms(alg)
                with cap:
                    setup.run_by_name("b")
                unf, res = cap.out, alg.result
                Fn0, Xi0, Phi0, Lam0 = unf[0], unf[1], unf[2], unf[3]
        if not all(np.all(np.isfinite(a[~np.isnan(a)])) for a in (Fn0, Xi0)):
            ctx.count("corr_run_nonfinite")
            continue
        rows, cols = Fn0.shape

        def ind(f, v):
            try:
                x = float(f(v))
            except Exception:
                return None
            return None if (math.isnan(x) or math.isinf(x)) else R(x)

        phi_t = [[None if np.all(np.isnan(Phi0[i, j, :])) else [i, j, ind(gen.MPD, Phi0[i, j, :]), ind(gen.MPC, Phi0[i, j, :])]
                  for j in range(cols)] for i in range(rows)]
        req = {"class": cls, "conj": bool(hc["conj"]), "cov": bool(has_cov), "xi_max": R(hc["xi_max"]), "mpc_lim": R(hc["mpc_lim"]),
               "mpd_lim": R(hc["mpd_lim"]), "fn": _tbl(Fn0), "xi": _tbl(Xi0), "phi": phi_t,
               "lam": [[Cxo(v) for v in row] for row in Lam0]}
        if has_cov:
            req["cov_max"] = R(hc["cov_max"])
            req["fncov"] = _tbl(unf[4])
            req["xicov"] = _tbl(unf[5])
            pc = unf[6]
            req["phicov"] = [[None if np.all(np.isnan(pc[i, j])) else [i, j, None, None] for j in range(cols)] for i in range(rows)]
        out = ctx.model("hc_run", **req)
        ok, why = bool(out.get("returned")), "model run did not return"
        removed = 0
        if ok:
            why = None
            fields = out["fields"]
            stored = {"Fn_poles": (res.Fn_poles, Fn0, "r"), "Xi_poles": (res.Xi_poles, Xi0, "r"), "Phi_poles": (res.Phi_poles, Phi0, "s")}
            if not is_pl:
                stored["Lambds"] = (res.Lambds, Lam0, "c")
                stored["Fn_poles_cov"] = (res.Fn_poles_cov, unf[4] if has_cov else None, "r")
                stored["Xi_poles_cov"] = (res.Xi_poles_cov, unf[5] if has_cov else None, "r")
                stored["Phi_poles_cov"] = (res.Phi_poles_cov, unf[6] if has_cov else None, "s")
            for name, (tab, tab0, kind) in stored.items():
                if name not in fields:
                    ok, why = False, f"{name}: not returned by the model"
                    break
                m = fields[name]
                if m is None or tab is None:
                    if not (m is None and tab is None):
                        ok, why = False, f"{name}: None in {'model' if m is None else 'result'} only"
                        break
                    continue
                tab = np.asarray(tab)
                if tab.shape[:2] != (len(m), len(m[0]) if m else 0):
                    ok, why = False, f"{name}: shape {tab.shape} vs model {len(m)}x{len(m[0]) if m else 0}"
                    break
                for i in range(rows):
                    for j in range(cols):
                        v, x = m[i][j], tab[i, j]
                        if v is None:
                            good = bool(np.all(np.isnan(x)))
                            if name == "Fn_poles" and not np.isnan(Fn0[i, j]):
                                removed += 1
                        elif kind == "r":
                            good = (not np.isnan(x)) and fl(v) == x
                        elif kind == "c":
                            good = (not (np.isnan(x.real) or np.isnan(x.imag))) and complex(fl(v[0]), fl(v[1])) == x
                        else:
                            i0, j0 = int(Fraction(v[0])), int(Fraction(v[1]))
                            good = (not np.any(np.isnan(x))) and np.array_equal(x, tab0[i0, j0])
                        if not good:
                            ok, why = False, f"{name}[{i},{j}]: result {x!r} vs model {v!r}"
                            break
                    if not ok:
                        break
                if not ok:
                    break
        ctx.corr(f"run[{cls}]", ok, {"class": cls, "hc": {q: (v if isinstance(v, bool) else float(v)) for q, v in hc.items()}, "why": why,
                                      "shape": [rows, cols], "unc": bool(has_cov)}, None, None,
                 (cls, bool(hc["conj"]), bool(has_cov), removed > 0))
        ctx.count("corr_run_poles_removed", removed)


def _translator_selftest(ctx):
    """the fail-closed rule of the translator, exercised on the sources under test: every unmodelled write / in-place
    mutation / alias of a protected variable inserted into a run() body must be refused, read-only statements and a
    renaming of the locals must leave the translation unchanged (harness/translate_hc_selftest.py)"""
    import translate_hc_selftest as ST

    res = ST.run(translate_hc.read_sources(REPO))
    if not res:
        ctx.count("translator_selftest_skipped_sources_do_not_translate")
    for label, ok, detail in res:
        if ok is None:
            ctx.count("translator_selftest_template_not_applicable")
            continue
        kind = label.split("/")[1].split("@")[0]
        ctx.corr("translate_hc[fail-closed rule]", bool(ok), {"case": label}, detail, None, kind)


# ----------------------------------------------------------------------------- oracle
def _signal(ctx, nch, n, fs, nmodes=None):
    """random-response-like data: a few damped oscillators driven by noise, mixed into channels"""
    g = ctx.nprng()
    rng = ctx.rng
    nm = nmodes or rng.randint(1, 3)
    t = np.arange(n) / fs
    y = np.zeros((n, nch))
    for _ in range(nm):
        f = rng.uniform(0.05, 0.4) * fs
        xi = rng.choice([0.005, 0.02, 0.06, 0.15])
        # AR(2) resonator driven by white noise
        r = math.exp(-2 * math.pi * f * xi / fs)
        th = 2 * math.pi * f * math.sqrt(max(1 - xi * xi, 1e-6)) / fs
        a1, a2 = 2 * r * math.cos(th), -r * r
        e = g.standard_normal(n)
        x = np.zeros(n)
        for k in range(2, n):
            x[k] = a1 * x[k - 1] + a2 * x[k - 2] + e[k]
        shape = g.standard_normal(nch)
        y += np.outer(x / (x.std() + 1e-12), shape)
    y += 0.05 * g.standard_normal((n, nch))
    return y


class _Capture:
    """records what the pole routine returned inside run() (harness-side wrapper, not a source hook)"""

    def __init__(self, module, name):
        self.module, self.name = module, name
        self.out = None

    def __enter__(self):
        self.orig = getattr(self.module, self.name)

        def wrapper(*a, **k):
            res = self.orig(*a, **k)
            self.out = tuple(None if r is None else np.array(r, copy=True) for r in res)
            return res

        setattr(self.module, self.name, wrapper)
        return self

    def __exit__(self, *exc):
        setattr(self.module, self.name, self.orig)


def _near(x, thr):
    return abs(x - thr) <= 1e-9 * max(abs(thr), abs(x), 1e-300)


def _judge(ctx, cls, hc, unf, res, has_lam):
    """unf = (Fn, Xi, Phi, Lambds, Fn_cov, Xi_cov, Phi_cov) unfiltered; res = result object"""
    from pyoma2.functions import gen

    Fn0, Xi0, Phi0, Lam0 = unf[0], unf[1], unf[2], unf[3]
    Fc0 = unf[4] if len(unf) > 4 else None
    rows, cols = Fn0.shape
    lamset = {}
    for o in range(cols):
        for r in range(rows):
            z = Lam0[r, o]
            if not (np.isnan(z.real) or np.isnan(z.imag)):
                lamset.setdefault(complex(z), set()).add(o)
    tables = {"Fn_poles": (res.Fn_poles, Fn0), "Xi_poles": (res.Xi_poles, Xi0), "Phi_poles": (res.Phi_poles, Phi0)}
    if has_lam:
        tables["Lambds"] = (res.Lambds, Lam0)
    if Fc0 is not None:
        tables["Fn_poles_cov"] = (res.Fn_poles_cov, Fc0)
        tables["Xi_poles_cov"] = (res.Xi_poles_cov, unf[5])
        tables["Phi_poles_cov"] = (res.Phi_poles_cov, unf[6])
    rejected_by = set()
    inp_base = {"class": cls, "hc": {k: (v if isinstance(v, bool) else float(v)) for k, v in hc.items()}}
    for o in range(cols):
        for r in range(rows):
            f0 = Fn0[r, o]
            present0 = not np.isnan(f0)
            judge = True
            keep = present0
            why = None
            if present0:
                z = complex(Lam0[r, o])
                if hc["conj"]:
                    zc = z.conjugate()
                    anywhere = zc in lamset
                    same = anywhere and (o in lamset[zc])
                    if anywhere != same:
                        judge = False
                    elif not anywhere:
                        keep, why = False, "conj"
                xi = Xi0[r, o]
                if np.isnan(xi):
                    judge = False
                else:
                    if _near(xi, hc["xi_max"]) or _near(xi, 0.0) or abs(xi) < 1e-12:
                        judge = False
                    elif not (0 < xi < hc["xi_max"]):
                        keep, why = False, why or "damp"
                phi = Phi0[r, o, :]
                try:
                    mpc = float(gen.MPC(phi))
                    mpd = float(gen.MPD(phi))
                except Exception:
                    mpc = mpd = float("nan")
                if np.isnan(mpc) or np.isnan(mpd):
                    judge = False
                else:
                    if _near(mpc, hc["mpc_lim"]) or _near(mpd, hc["mpd_lim"]):
                        judge = False
                    else:
                        if not (mpc >= hc["mpc_lim"]):
                            keep, why = False, why or "mpc"
                        if not (mpd <= hc["mpd_lim"]):
                            keep, why = False, why or "mpd"
                if Fc0 is not None:
                    c = Fc0[r, o]
                    if np.isnan(c) or _near(c, hc["cov_max"]):
                        judge = False
                    elif not (c < hc["cov_max"]):
                        keep, why = False, why or "cov"
            if not judge:
                ctx.skipped += 1
                continue
            ctx.oracle_cases += 1
            if why:
                rejected_by.add(why)
            for name, (tab, tab0) in tables.items():
                cell = tab[r, o]
                cell0 = tab0[r, o]
                isnan = bool(np.all(np.isnan(cell)))
                anynan = bool(np.any(np.isnan(cell)))
                if np.any(np.isnan(cell0)):
                    # the unfiltered solution itself has no value here (e.g. Phi_cov is never computed upstream)
                    ctx.count(f"unfiltered_nan_{name}")
                    continue
                if keep:
                    if anynan or not np.array_equal(np.asarray(cell), np.asarray(cell0)):
                        ctx.violation(
                            f"lost-or-changed:{name}",
                            f"{cls}: pole (row {r}, order col {o}) satisfies all enabled criteria but {name} is {'NaN' if anynan else 'changed'}",
                            inp_base | {"row": r, "col": o, "seed_case": ctx._case},
                            observed=str(cell), expected=str(cell0),
                        )
                        return rejected_by
                else:
                    if not isnan:
                        ctx.violation(
                            f"retained:{why or 'absent'}:{name}",
                            f"{cls}: pole (row {r}, order col {o}) violates '{why}' but is still present in {name}",
                            inp_base | {"row": r, "col": o, "seed_case": ctx._case, "xi": float(Xi0[r, o]) if present0 else None},
                            observed=str(cell),
                        )
                        return rejected_by
    return rejected_by


def _rand_hc(ctx, with_cov, covvals=None):
    rng = ctx.rng
    hc = dict(
        conj=rng.random() < 0.6,
        xi_max=rng.choice([0.03, 0.08, 0.2, 0.5, 1.0]),
        mpc_lim=rng.choice([0.0, 0.3, 0.7, 0.9, 0.98, 1.0]),
        mpd_lim=rng.choice([0.0, 0.05, 0.2, 0.5, 1.0, math.pi / 2]),
    )
    if with_cov:
        hc["cov_max"] = rng.choice([1e-6, 1e-4, 1e-2, 1.0, 100.0])
    return hc


def _run_case(ctx, cls):
    from pyoma2.algorithms import SSIcov, SSIdat, pLSCF
    from pyoma2.algorithms.plscf import pLSCF_MS
    from pyoma2.algorithms.ssi import SSIcov_MS, SSIdat_MS
    from pyoma2.functions import plscf as f_plscf
    from pyoma2.functions import ssi as f_ssi
    from pyoma2.setup import MultiSetup_PreGER, SingleSetup

    rng = ctx.rng
    fs = rng.choice([20.0, 50.0, 100.0])
    is_ms = cls.endswith("_MS")
    is_pl = cls.startswith("pLSCF")
    unc = cls == "SSIcov" and ctx._k % 2 == 0
    hc = _rand_hc(ctx, with_cov=not is_pl)
    if is_ms:
        nset = rng.randint(2, 3)
        nref = rng.randint(1, 2)
        nmov = rng.randint(1, 2)
        n = rng.randint(500, 900)
        nglob = nref + nset * nmov
        full = _signal(ctx, nglob, n * nset, fs)
        datasets, ref_ind = [], []
        for s in range(nset):
            seg = full[s * n : (s + 1) * n]
            cols = list(range(nref)) + [nref + s * nmov + k for k in range(nmov)]
            datasets.append(seg[:, cols].copy())
            ref_ind.append(list(range(nref)))
        setup = MultiSetup_PreGER(fs=fs, ref_ind=ref_ind, datasets=datasets)
    else:
        nch = rng.randint(2, 4)
        n = rng.randint(600, 1200)
        setup = SingleSetup(_signal(ctx, nch, n, fs), fs=fs)
    ordmax = rng.randint(6, 12)
    if is_pl:
        A = {"pLSCF": pLSCF, "pLSCF_MS": pLSCF_MS}[cls]
        alg = A(name="a", ordmax=ordmax, nxseg=rng.choice([64, 128]), hc=hc)
        cap = _Capture(f_plscf, "pLSCF_poles")
    else:
        A = {"SSIdat": SSIdat, "SSIcov": SSIcov, "SSIdat_MS": SSIdat_MS, "SSIcov_MS": SSIcov_MS}[cls]
        kw = dict(name="a", br=rng.randint(ordmax // 2 + 2, ordmax + 2), ordmax=ordmax, hc=hc)
        if unc:
            kw.update(calc_unc=True, nb=rng.choice([10, 20]), method="cov_mm")
        alg = A(**kw)
        cap = _Capture(f_ssi, "SSI_poles")
    # a sibling of the same class with OTHER criteria, created before either runs: each must run with its own
    hc_sib = _rand_hc(ctx, with_cov=not is_pl)
    if is_pl:
        sib = A(name="sib", ordmax=ordmax, nxseg=alg.run_params.nxseg, hc=hc_sib)
    else:
        sib = A(**(kw | {"name": "sib", "hc": hc_sib}))
    setup.add_algorithms(alg, sib)
    if dict(alg.run_params.hc) != {k: hc[k] for k in alg.run_params.hc}:
        ctx.oracle_cases += 1
        ctx.violation("criteria-shared-between-instances", f"{cls}: creating a second algorithm with other hard criteria changed the criteria of the first",
                      {"class": cls, "hc": {k: (v if isinstance(v, bool) else float(v)) for k, v in hc.items()}, "hc_sibling": {k: (v if isinstance(v, bool) else float(v)) for k, v in hc_sib.items()}},
                      observed=str(dict(alg.run_params.hc)))
        return hc
    with cap:
        setup.run_by_name("a")
    res = alg.result
    unf = cap.out
    if unf is None:
        raise RuntimeError(f"{cls}: pole routine was not called by run()")
    has_cov = (not is_pl) and unf[4] is not None
    if has_cov and rng.random() < 0.8:
        # re-run with a covariance limit that actually bites (a quantile of the observed values)
        vals = unf[4][~np.isnan(unf[4])]
        if vals.size:
            hc2 = dict(hc)
            hc2["cov_max"] = float(np.quantile(vals, rng.choice([0.3, 0.6, 0.9])) * 1.0000001)
            alg2 = A(**(kw | {"hc": hc2, "name": "b"}))
            setup.add_algorithms(alg2)
            with cap:
                setup.run_by_name("b")
            res, unf, hc = alg2.result, cap.out, hc2
    unf_use = unf if has_cov else tuple(unf[:4])
    rej = _judge(ctx, cls, hc, unf_use, res, has_lam=not is_pl)
    ctx.nontrivial.add((cls, hc["conj"], tuple(sorted(rej)), has_cov))
    for w in rej:
        ctx.count(f"rejected_by_{w}")
    ctx.count(f"runs_{cls}" + ("_unc" if has_cov else ""))
    return hc


def oracle(ctx, scale):
    classes = ["SSIdat", "SSIcov", "SSIdat_MS", "SSIcov_MS", "pLSCF", "pLSCF_MS"]
    n = ctx.n(10, 60) * scale
    for k in range(n):
        for cls in classes:
            ctx._case = f"{cls}#{k}"
            ctx._k = k
            try:
                hc = _run_case(ctx, cls)
            except (np.linalg.LinAlgError, ValueError, IndexError) as e:
                ctx.skipped += 1
                ctx.count(f"run_failed_{type(e).__name__}")
                if len(ctx.notes) < 8:
                    ctx.notes.append(f"{cls}: run failed: {type(e).__name__}: {str(e)[:120]}")
                continue
            if k == 0 and cls == "SSIdat":
                ctx.sample({"class": cls, "hc": hc})
    _oracle_collinear(ctx, scale)
    if ctx.violations:
        return
    # function-level edge of the covariance criterion: a variance that is exactly zero passes
    from pyoma2.functions import gen

    t = np.array([[0.0, 0.5], [0.1, np.nan]])
    f, m = gen.HC_cov(t.copy(), 0.2)
    ctx.oracle_cases += 1
    if bool(m[0, 0]) and np.isnan(f[0, 0]):
        ctx.violation(
            "cov-zero-blanked",
            "gen.HC_cov: a frequency variance of exactly 0 passes the criterion (mask true, pole kept in the other tables) but its own cell is blanked, so the tables no longer share one NaN pattern",
            {"Fn_cov": t.tolist(), "max_cov": 0.2}, observed=f.tolist(), expected=[[0.0, None], [0.1, None]],
        )


def _collinear_table(seed, rows, cols, nch):
    g = np.random.default_rng(seed)
    phi = np.empty((rows, cols, nch), complex)
    for i in range(rows):
        for j in range(cols):
            phi[i, j, :] = complex(g.integers(-4, 5), g.integers(1, 5)) * g.integers(1, 4, nch) * g.choice([-1, 1], nch)
    return phi


def _oracle_collinear(ctx, scale):
    """function level: a pole whose shape is a complex multiple of a real vector has MPC 1 and MPD 0: it is kept by the
    mode-shape criteria for every limit strictly inside the ranges (limits as plain Python floats, as the classes pass)"""
    from pyoma2.functions import gen

    rng = ctx.rng
    for _ in range(ctx.n(40, 400) * scale):
        rows, cols, nch = rng.randint(2, 8), rng.randint(1, 5), rng.randint(2, 5)
        seed = rng.getrandbits(40)
        phi = _collinear_table(seed, rows, cols, nch)
        mpc_lim = float(rng.choice([0.7, 0.5, 0.9, 0.99, rng.uniform(0.1, 0.99)]))
        mpd_lim = float(rng.choice([0.3, 0.1, 1.0, rng.uniform(0.01, 1.5)]))
        m3, m4 = gen.HC_phi_comp(phi.copy(), mpc_lim, mpd_lim)
        ctx.oracle_cases += 1
        ctx.count("oracle_collinear_tables")
        m3, m4 = np.asarray(m3).astype(bool), np.asarray(m4).astype(bool)
        if m3.shape != (rows, cols) or m4.shape != (rows, cols) or not (m3.all() and m4.all()):
            bad = np.argwhere(~(m3 & m4)) if m3.shape == (rows, cols) == m4.shape else []
            ctx.violation(
                "collinear-shape-rejected",
                f"gen.HC_phi_comp rejects {len(bad)} of {rows * cols} poles whose shapes are complex multiples of real vectors (MPC = 1, MPD = 0) "
                f"with mpc_lim={mpc_lim}, mpd_lim={mpd_lim}",
                {"table_seed": seed, "rows": rows, "cols": cols, "nch": nch, "mpc_lim": mpc_lim, "mpd_lim": mpd_lim},
                observed=[[int(a), int(b)] for a, b in bad][:10], expected="all kept",
            )
            return


def replay(rec):
    from pyoma2.functions import gen

    v = rec["violation"]
    print("replaying", v["sig"], "-", v["what"])
    if v["sig"] == "collinear-shape-rejected":
        i = v["input"]
        phi = _collinear_table(i["table_seed"], i["rows"], i["cols"], i["nch"])
        m3, m4 = gen.HC_phi_comp(phi, i["mpc_lim"], i["mpd_lim"])
        print("MPD mask:", np.asarray(m3).astype(int).tolist(), "MPC mask:", np.asarray(m4).astype(int).tolist())
        return 0 if (np.asarray(m3).all() and np.asarray(m4).all()) else 1
    if v["sig"] == "cov-zero-blanked":
        t = np.array(v["input"]["Fn_cov"], float)
        print(gen.HC_cov(t, v["input"]["max_cov"]))
        return 0
    print("re-run `VERIF_SEED=%d ./check C09 --tier %s` to regenerate the case %s" % (rec["seed"], rec["tier"], v["input"].get("seed_case")))
    print("input:", v["input"])
    return 0
