"""Correspondence stream `defaults[...]`: the table of default values the obligations of Props/WiringDefaults.lean are
stated over (Generated/Defaults.lean, read from the SOURCE TEXT by translate_defaults.py and queried through the
executable `methodDefault` / `funcDefault` / `rpDefault` / `methodSig` of Model/Defaults.lean, op `defaults_query`) against
what the RUNNING library does when the argument is left out:
 * `inspect.signature` of the method looked up on the concrete class (Python's own method resolution, decorators applied),
 * `inspect.signature` of the module-level function,
 * the attribute of a run-parameter object built by the algorithm class's `RunParamCls` from the required fields alone
   (so a validator rewriting a value shows), key by key for dictionaries.
Exact comparison (type and value; floats through their shortest decimal)."""
import inspect
from fractions import Fraction

ALG_CLASSES = ["FDD", "EFDD", "FSDD", "FDD_MS", "EFDD_MS", "SSIdat", "SSIcov", "SSIdat_MS", "SSIcov_MS", "pLSCF", "pLSCF_MS"]
FUNCS = {
    "C06": ["fdd.FDD_mpe"], "C07": ["fdd.EFDD_mpe", "fdd.SDOF_bellandMS"], "C11": ["ssi.SSI_mpe", "plscf.pLSCF_mpe"],
    "C20": ["plot.stab_plot", "plot.cluster_plot", "plot.CMIF_plot"],
    "C12": ["ssi.build_hank", "ssi.SSI_fast", "ssi.SSI", "ssi.SSI_poles", "ssi.SSI_multi_setup", "ssi.ac2mp"],
    "C13": ["fdd.SD_est", "fdd.SD_PreGER", "plscf.pLSCF"],
}
REQUIRED_FIELDS = {"br": 4, "ordmax": 6}


def enc(v):
    """runtime default -> the JSON the op returns for the same value"""
    if v is inspect.Parameter.empty:
        return {"k": "required"}
    if v is None:
        return {"k": "none"}
    if isinstance(v, bool):
        return {"k": "bool", "v": v}
    if isinstance(v, int):
        return {"k": "int", "v": str(v)}
    if isinstance(v, float):
        f = Fraction(repr(v))
        return {"k": "float", "v": str(f.numerator) if f.denominator == 1 else f"{f.numerator}/{f.denominator}"}
    if isinstance(v, str):
        return {"k": "str", "v": v}
    if isinstance(v, dict):
        return {"k": "keys", "v": list(v.keys())}
    return {"k": "other", "v": repr(v)}


def sig_of(fn, drop_self):
    ps = list(inspect.signature(fn).parameters.values())
    if drop_self:
        ps = ps[1:]
    names, dfl = [], []
    for p in ps:
        if p.kind == p.VAR_POSITIONAL:
            names.append("*" + p.name)
            dfl.append({"k": "var"})
        elif p.kind == p.VAR_KEYWORD:
            names.append("**" + p.name)
            dfl.append({"k": "var"})
        else:
            names.append(p.name)
            dfl.append(enc(p.default))
    return names, dfl


def correspondence(ctx, props=("C06", "C07", "C11", "C20", "C12", "C13")):
    import importlib

    algs = {}
    for m in ("fdd", "ssi", "plscf"):
        mod = importlib.import_module(f"pyoma2.algorithms.{m}")
        for c in ALG_CLASSES:
            if hasattr(mod, c) and getattr(mod, c).__module__ == mod.__name__:
                algs[c] = getattr(mod, c)
    # ---- class methods, as seen from every concrete class
    for cname, cls in algs.items():
        for mname in ["mpe", "mpe_from_plot"] + [n for n in dir(cls) if n.startswith("plot_")]:
            raw = inspect.getattr_static(cls, mname)
            names, dfl = sig_of(getattr(cls, mname), drop_self=not isinstance(raw, staticmethod))
            r = ctx.model("defaults_query", sig=[[cname, mname]], method=[[cname, mname, p] for p in names])
            ok = r["sig"][0] == names and r["method"] == dfl
            ctx.corr(f"defaults[{mname}]", ok, {"class": cname, "method": mname}, {"sig": r["sig"][0], "defaults": r["method"]},
                     {"sig": names, "defaults": dfl}, (cname, mname))
            ctx.count("defaults_method_params", len(names))
    # ---- module-level functions
    for prop in props:
        for fq in FUNCS.get(prop, []):
            modn, fname = fq.split(".")
            fn = getattr(importlib.import_module(f"pyoma2.functions.{modn}"), fname)
            names, dfl = sig_of(fn, drop_self=False)
            r = ctx.model("defaults_query", func=[[fq, p] for p in names] + [[fq, "<no such parameter>"]])
            ok = r["func"][:-1] == dfl and r["func"][-1] is None
            ctx.corr("defaults[function]", ok, {"fn": fq}, r["func"], dfl, fq)
    # ---- run parameters: what an algorithm object built from the required fields alone holds
    for cname, cls in algs.items():
        rpc = cls.RunParamCls
        req = {k: v for k, v in REQUIRED_FIELDS.items() if k in rpc.model_fields and rpc.model_fields[k].is_required()}
        alg = cls(name="x", **req) if req else None
        rp = alg.run_params if alg is not None else rpc()
        qs, want = [], []
        for f in rpc.model_fields:
            v = getattr(rp, f)
            qs.append([cname, f])
            want.append({"k": "required"} if f in req else enc(v))
            if isinstance(v, dict):
                for k, x in v.items():
                    qs.append([cname, f"{f}.{k}"])
                    want.append(enc(x))
        qs.append([cname, "<no such field>"])
        r = ctx.model("defaults_query", field=qs)
        ok = r["field"][:-1] == want and r["field"][-1] is None
        ctx.corr("defaults[run_params]", ok, {"class": cname, "fields": [q[1] for q in qs]}, r["field"], want, (cname, len(qs)))
        ctx.count("defaults_fields", len(qs) - 1)
    # ---- the label literals: SC_apply really writes only the values the table says, on a table where both occur
    import numpy as np
    from pyoma2.functions import gen

    Fn = np.array([[1.0, 1.0, 1.0], [2.0, 2.0, 2.5], [np.nan, 3.0, 3.0]])
    Xi = np.full(Fn.shape, 0.01)
    Phi = np.ones(Fn.shape + (2,), dtype=complex)
    Lab = gen.SC_apply(Fn, Xi, Phi, 0, 2, 1, 0.01, 0.05, 0.03)
    r = ctx.model("defaults_query", label=["gen.SC_apply"])["label"][0]
    wrote = sorted(int(x) for x in np.unique(Lab))
    said = sorted(int(v["v"]) for v in r["stores"] if v["k"] == "int")
    ctx.corr("defaults[labels]", wrote == said and len(said) == len(r["stores"]), {"Fn": Fn.tolist()}, r["stores"], wrote, tuple(wrote))
